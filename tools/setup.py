#!/usr/bin/env python3
"""MANIFEST.setup_cmd: verify the offline tool chain and pre-parse every specification with SANY.
Nothing is downloaded; harnesses are (re)built by each check from /repo's working tree."""
import glob
import os
import shutil
import subprocess
import sys

sys.path.insert(0, os.path.dirname(os.path.abspath(__file__)))
import vlib  # noqa: E402

missing = [t for t in ("java", "g++", "clang++", "python3", "timeout") if not shutil.which(t)]
if missing:
    print("missing tools: %s" % missing)
    sys.exit(1)
for p in vlib.TLA_CP.split(":"):
    if not os.path.exists(p):
        print("missing %s" % p)
        sys.exit(1)
bad = 0
jtmp = os.path.join(vlib.scratch(), "jtmp")  # SANY leaves an empty tlc-<n> directory per run in java.io.tmpdir
os.makedirs(jtmp, exist_ok=True)
for f in sorted(glob.glob(os.path.join(vlib.SPEC, "*.tla"))):
    p = subprocess.run(["java", "-Djava.io.tmpdir=" + jtmp, "-cp", vlib.TLA_CP, "tla2sany.SANY", f], cwd=vlib.SPEC, stdout=subprocess.PIPE,
                       stderr=subprocess.STDOUT, text=True)
    if p.returncode != 0 or "Semantic errors" in p.stdout or "Fatal errors" in p.stdout or "*** Errors" in p.stdout:
        print("SANY rejects %s:\n%s" % (f, p.stdout[-1500:]))
        bad += 1
print("setup: %d specification modules parsed, %d rejected" % (len(glob.glob(os.path.join(vlib.SPEC, '*.tla'))), bad))
sys.exit(1 if bad else 0)
