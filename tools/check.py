#!/usr/bin/env python3
"""Entry point of every registered check:  python3 tools/check.py <ID> [--tier quick|thorough] [--replay file]"""
import argparse
import importlib
import os
import sys

sys.path.insert(0, os.path.dirname(os.path.abspath(__file__)))
import vlib  # noqa: E402


def main():
    ap = argparse.ArgumentParser()
    ap.add_argument("pid")
    ap.add_argument("--tier", default=os.environ.get("VERIF_TIER", "quick"), choices=["quick", "thorough"])
    ap.add_argument("--replay", default=None)
    args = ap.parse_args()
    mod = importlib.import_module("checks." + args.pid.lower())
    if args.replay:
        vlib.main_wrapper(lambda: mod.replay(args.replay))
    vlib.main_wrapper(lambda: mod.run(args.tier))


if __name__ == "__main__":
    main()
