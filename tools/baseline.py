#!/usr/bin/env python3
"""hooks.baseline_off_cmd: build /repo's pinned configuration with the verification guard OFF in a scratch
directory, run ctest, compare the passing tests with BASELINE.json, remove the directory."""
import json
import os
import re
import shutil
import subprocess
import sys
import tempfile
import xml.etree.ElementTree as ET

REPO = os.environ.get("VERIF_REPO", "/repo")
BASE = "/root/.vp/BASELINE.json"
bd = tempfile.mkdtemp(prefix="bsverif-baseline-")
try:
    def sh(cmd, **kw):
        p = subprocess.run(cmd, stdout=subprocess.PIPE, stderr=subprocess.STDOUT, text=True, **kw)
        return p
    p = sh(["cmake", "-G", "Ninja", "-S", REPO, "-B", bd, "-DCMAKE_BUILD_TYPE=RelWithDebInfo", "-DBUILD_TESTS=ON"])
    if p.returncode != 0:
        print(p.stdout[-3000:]); sys.exit(1)
    p = sh(["cmake", "--build", bd, "-j", str(os.cpu_count() or 4)])
    if p.returncode != 0:
        print(p.stdout[-5000:]); sys.exit(1)
    junit = os.path.join(bd, "junit.xml")
    p = sh(["ctest", "--test-dir", bd, "-j8", "--timeout", "900", "--output-junit", junit])
    tail = p.stdout[-1500:]
    passed = set()
    failed = set()
    for tc in ET.parse(junit).getroot().iter("testcase"):
        name = tc.get("name")
        ok = tc.get("status") == "run" and tc.find("failure") is None and tc.find("error") is None
        (passed if ok else failed).add(name)
    want = set()
    if os.path.exists(BASE):
        b = json.load(open(BASE))
        want = set(b.get("stable_pass", []))
    # BASELINE ids come in two spellings: the ctest one "<name>::<name>" (both halves equal) and the
    # gtest-XML one "Suite::Test" (typed suites as "Suite/N::Test", which have no 1:1 ctest name).
    wantn = set()
    for w in want:
        h = len(w) // 2
        if len(w) % 2 == 0 and w[h - 1:h + 1] == "::" and w[:h - 1] == w[h + 1:]:
            wantn.add(w[:h - 1])
        else:
            c = w.replace("::", ".", 1)
            if c in passed or c in failed:
                wantn.add(c)
    missing = sorted(w for w in wantn if w not in passed)
    print("baseline (guard OFF): %d ctest cases passed, %d failed; %d baseline ids, %d not passing" % (
        len(passed), len(failed), len(wantn), len(missing)))
    if failed:
        print("FAILED:", sorted(failed)[:20])
    if missing:
        print("MISSING:", missing[:20])
    print(tail.splitlines()[-3:] if tail else "")
    sys.exit(1 if failed or missing else 0)
finally:
    shutil.rmtree(bd, ignore_errors=True)
