#!/usr/bin/env python3
"""Confirms a seeded change independently (in a scratch worktree outside /repo and /verif) and files it under /verif/seeded/<id>/.
usage: confirm_mutant.py <source dir with patch.diff, demo.cpp|demo.sh, README.txt> <property id> <seeded id> [caught_by text]"""
import json
import os
import shutil
import subprocess
import sys
import tempfile

src, prop, sid = sys.argv[1], sys.argv[2], sys.argv[3]
caught = sys.argv[4] if len(sys.argv) > 4 else ""
VERIF = os.path.dirname(os.path.dirname(os.path.abspath(__file__)))
wt = tempfile.mkdtemp(prefix="bsverif-confirm-")
os.rmdir(wt)
log = []


def sh(cmd, cwd=None, env=None, timeout=1800):
    p = subprocess.run(cmd, shell=True, cwd=cwd, env=env, stdout=subprocess.PIPE, stderr=subprocess.STDOUT, text=True, timeout=timeout)
    log.append("$ %s\n%s" % (cmd, p.stdout[-1500:]))
    return p


try:
    assert sh("git -C /repo worktree add -q %s HEAD" % wt).returncode == 0
    demo_src = "demo.cpp" if os.path.exists(os.path.join(src, "demo.cpp")) else None
    build = "g++ -std=c++17 -O1 -w -I include -I src %s src/msgpack/*.cpp src/csv/*.cpp src/common/*.cpp -lpugixml -lpthread -o %s" 
    res = {}
    if demo_src:
        shutil.copy(os.path.join(src, demo_src), os.path.join(wt, "vdemo.cpp"))
        p = sh(build % ("vdemo.cpp", "vdemo_clean"), cwd=wt)
        res["demo_builds_clean"] = p.returncode == 0
        p = sh("timeout 300 ./vdemo_clean", cwd=wt)
        res["demo_without_patch"] = p.returncode
    p = sh("git apply %s" % os.path.join(os.path.abspath(src), "patch.diff"), cwd=wt)
    res["patch_applies"] = p.returncode == 0
    if demo_src:
        p = sh(build % ("vdemo.cpp", "vdemo_mut"), cwd=wt)
        res["compiles_with_patch"] = p.returncode == 0
        p = sh("timeout 300 ./vdemo_mut", cwd=wt)
        res["demo_with_patch"] = p.returncode
    env = dict(os.environ, VERIF_REPO=wt)
    p = sh("python3 %s/tools/baseline.py" % VERIF, env=env)
    res["pinned_suite_passes_with_patch"] = p.returncode == 0
    res["pinned_suite_line"] = p.stdout.strip().splitlines()[0] if p.stdout.strip() else ""
    ok = res.get("patch_applies") and res.get("pinned_suite_passes_with_patch") and (not demo_src or (res.get("demo_without_patch") == 0 and res.get("demo_with_patch") not in (0, None)))
    res["confirmed"] = bool(ok)
    dst = os.path.join(VERIF, "seeded", sid)
    if ok:
        os.makedirs(dst, exist_ok=True)
        for f in ("patch.diff", "demo.cpp", "demo.sh", "README.txt"):
            if os.path.exists(os.path.join(src, f)):
                shutil.copy(os.path.join(src, f), os.path.join(dst, f))
        readme = open(os.path.join(src, "README.txt")).read() if os.path.exists(os.path.join(src, "README.txt")) else ""
        meta = {"property": prop, "id": sid, "what_it_needs_to_manifest": readme[:1500], "confirmed_by": res,
                "what_was_run": ["git worktree add <scratch> HEAD", "g++ demo on unchanged tree -> exit %s" % res.get("demo_without_patch"),
                                 "git apply patch.diff", "g++ demo on patched tree -> exit %s" % res.get("demo_with_patch"),
                                 "tools/baseline.py with VERIF_REPO=<scratch> (pinned suite, guard off) -> %s" % res.get("pinned_suite_line")],
                "caught_by": caught}
        json.dump(meta, open(os.path.join(dst, "meta.json"), "w"), indent=1)
    print(json.dumps({"id": sid, **res}))
    if not ok:
        print("\n".join(log)[-3000:])
finally:
    subprocess.run("git -C /repo worktree remove --force %s" % wt, shell=True, stdout=subprocess.DEVNULL, stderr=subprocess.DEVNULL)
    shutil.rmtree(wt, ignore_errors=True)
