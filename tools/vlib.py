#!/usr/bin/env python3
"""Shared machinery for the BitSerializer TLA+ model-based verification checks.

 * tlc()      run TLC (always under a timeout, own metadir in scratch, strict exit-code handling)
 * build()    compile a conformance harness against /repo's *current working tree* (content-hash cache)
 * Check      bookkeeping of one check run: failures -> known findings / violations, evidence file
"""
import atexit
import hashlib
import itertools
import json
import threading
import os
import re
import shutil
import subprocess
import sys
import tempfile
import time
from concurrent.futures import ThreadPoolExecutor

VERIF = os.path.dirname(os.path.dirname(os.path.abspath(__file__)))
REPO = os.environ.get("VERIF_REPO", "/repo")
SPEC = os.path.join(VERIF, "spec")
HARNESS = os.path.join(VERIF, "harness")
CACHE = os.path.join(VERIF, ".cache")
TLA_CP = "/opt/veriftools/tla/tla2tools.jar:/opt/veriftools/tla/CommunityModules-deps.jar"
NCPU = os.cpu_count() or 4

_scratch = None
_scratch_lock = threading.Lock()


class MachineryError(Exception):
    """The checking machinery itself failed (broken model, build error, time-out).
    Never reported as a property violation."""


def scratch():
    """Per-process scratch directory outside /repo and /verif, removed at exit."""
    global _scratch
    with _scratch_lock:
        if _scratch is None:
            base = os.environ.get("VERIF_SCRATCH", tempfile.gettempdir())
            _scratch = tempfile.mkdtemp(prefix="bsverif-", dir=base)
            atexit.register(lambda: shutil.rmtree(_scratch, ignore_errors=True))
    return _scratch


def seed():
    try:
        return int(os.environ.get("VERIF_SEED", "1"))
    except ValueError:
        return 1


# ----------------------------------------------------------------------------------------------
# TLC
# ----------------------------------------------------------------------------------------------
class TlcResult:
    def __init__(self, rc, out, wall):
        self.rc = rc
        self.out = out
        self.wall = wall
        self.generated = 0
        self.distinct = 0
        self.depth = 0
        m = None
        for m in re.finditer(r"(\d+) states generated, (\d+) distinct states found", out):
            pass
        if m:
            self.generated = int(m.group(1))
            self.distinct = int(m.group(2))
        m = re.search(r"The depth of the complete state graph search is (\d+)", out)
        if m:
            self.depth = int(m.group(1))
        # simulation mode prints "The number of states generated: N"
        m = re.search(r"The number of states generated: (\d+)", out)
        if m and not self.generated:
            self.generated = int(m.group(1))
            self.distinct = self.generated

    @property
    def ok(self):
        return self.rc == 0

    @property
    def safety_violation(self):
        return self.rc == 12

    @property
    def liveness_violation(self):
        return self.rc == 13

    def printed(self, tag):
        """Values printed with PrintT(<<tag, jsonstring>>) -> list of parsed JSON objects."""
        res = []
        pref = '<<"%s", "' % tag
        for line in self.out.splitlines():
            if line.startswith(pref) and line.endswith('">>'):
                body = line[len(pref):-3]
                body = body.replace('\\"', '"').replace("\\\\", "\\")
                res.append(json.loads(body))
        return res

    def printed_chunks(self, tag, chunk=50000):
        """Like printed(), but yields lists of at most `chunk` parsed values (bounded memory for millions of exported states)."""
        pref = '<<"%s", "' % tag
        res = []
        start = 0
        out = self.out
        n = len(out)
        while start < n:
            end = out.find("\n", start)
            if end < 0:
                end = n
            if out.startswith(pref, start) and out.endswith('">>', start, end):
                body = out[start + len(pref):end - 3].replace('\\"', '"').replace("\\\\", "\\")
                res.append(json.loads(body))
                if len(res) >= chunk:
                    yield res
                    res = []
            start = end + 1
        if res:
            yield res

    def printed_unique(self, tag):
        """printed() for simulation runs: random behaviours revisit states, so identical lines are parsed once
        (the duplicates are dropped on the raw text, before they cost ~20 KB of Python objects each)."""
        pref = '<<"%s", "' % tag
        seen = set()
        res = []
        out = self.out
        n = len(out)
        start = 0
        while start < n:
            end = out.find("\n", start)
            if end < 0:
                end = n
            if out.startswith(pref, start) and out.endswith('">>', start, end):
                raw = out[start + len(pref):end - 3]
                h = hashlib.blake2b(raw.encode(), digest_size=12).digest()
                if h not in seen:
                    seen.add(h)
                    res.append(json.loads(raw.replace('\\"', '"').replace("\\\\", "\\")))
            start = end + 1
        return res

    def coverage_zero_actions(self):
        """Names of actions whose coverage line reports 0 taken (needs coverage=True)."""
        zero = []
        for m in re.finditer(r"<(\w+) line \d+, col \d+ to line \d+, col \d+ of module (\w+)>: (\d+):(\d+)", self.out):
            if int(m.group(3)) == 0 and m.group(1) not in ("Init",):
                zero.append(m.group(1))
        return zero


_tlc_counter = [0]
_uniq = itertools.count(1)


def _tmp_suffix():
    """Unique per call, not only per process: checks build and run TLC from several threads of one process."""
    return ".tmp%d-%d" % (os.getpid(), next(_uniq))


def tlc(module, cfg=None, env=None, workers=None, timeout=900, simulate=None, depth=None,
        extra=(), xmx="4g", deadlock=False, coverage=False, dfs=False, allow=(0,), xss="64m", cwd=None):
    """Run TLC on spec/<module>.tla with spec/<cfg>.  Returns TlcResult.
    allow: acceptable exit codes; anything else raises MachineryError (a broken model is never a verdict)."""
    _tlc_counter[0] += 1
    meta = os.path.join(scratch(), "tlc-meta-%d-%d" % (os.getpid(), next(_uniq)))
    jtmp = os.path.join(scratch(), "jtmp")  # TLC leaves an (empty) tlc-<n> directory per run in java.io.tmpdir
    os.makedirs(jtmp, exist_ok=True)
    cmd = ["java", "-XX:+UseParallelGC", "-Xmx" + xmx, "-Djava.io.tmpdir=" + jtmp]
    if xss:
        cmd.append("-Xss" + xss)
    if dfs:
        cmd.append("-Dtlc2.tool.queue.IStateQueue=StateDeque")
    cmd += ["-cp", TLA_CP, "tlc2.TLC", "-metadir", meta, "-noGenerateSpecTE"]
    if workers is None:
        workers = "auto"
    cmd += ["-workers", str(workers)]
    if not deadlock:
        cmd.append("-deadlock")  # -deadlock switches deadlock checking OFF
    if coverage:
        cmd += ["-coverage", "1"]
    if simulate is not None:
        cmd += ["-simulate", "num=%d" % simulate]
        if depth:
            cmd += ["-depth", str(depth)]
        cmd += ["-seed", str(seed())]
    cmd += list(extra)
    cfgpath = os.path.join(SPEC, cfg if cfg else module + ".cfg")
    cmd += ["-config", cfgpath, os.path.join(SPEC, module + ".tla")]
    e = dict(os.environ)
    if env:
        e.update({k: str(v) for k, v in env.items()})
    t0 = time.time()
    try:
        p = subprocess.run(["timeout", "-k", "10", str(timeout)] + cmd, cwd=cwd or SPEC, env=e,
                           stdout=subprocess.PIPE, stderr=subprocess.STDOUT, text=True, errors="replace")
    finally:
        shutil.rmtree(meta, ignore_errors=True)
    r = TlcResult(p.returncode, p.stdout, time.time() - t0)
    if r.rc not in allow:
        tail = "\n".join([l for l in r.out.splitlines() if not l.startswith('<<"GEN"')][-40:])
        kind = "timed out" if r.rc in (124, 137) else "failed"
        raise MachineryError("TLC %s on %s/%s (exit %d):\n%s" % (kind, module, cfg, r.rc, tail))
    return r


def _mem_available_gb():
    try:
        with open("/proc/meminfo") as f:
            for line in f:
                if line.startswith("MemAvailable:"):
                    return int(line.split()[1]) / (1024.0 * 1024.0)
    except OSError:
        pass
    return 1e9


_admit_lock = threading.Lock()
_admit_state = {"running": 0, "recent": []}


def _xmx_gb(x):
    x = str(x or "3g").lower()
    return float(x[:-1]) / (1024.0 if x.endswith("m") else 1.0) if x[-1] in "gm" else 3.0


def _admit(need_gb):
    """Memory-aware admission of a JVM: other checks may run at the same time, and 16 validators x -Xmx3g next to a second
    check's 16 exceed the machine.  A job starts when the memory still available covers its heap plus the heaps of the jobs
    this process started in the last minute (they have not grown yet) plus a margin; one job per process always runs."""
    waited = 0
    while True:
        with _admit_lock:
            now = time.time()
            _admit_state["recent"] = [(t, g) for t, g in _admit_state["recent"] if now - t < 60]
            reserved = sum(g for _, g in _admit_state["recent"])
            if _admit_state["running"] == 0 or waited > 1800 or _mem_available_gb() - reserved > need_gb + 6:
                _admit_state["running"] += 1
                _admit_state["recent"].append((now, need_gb))
                return
        time.sleep(3)
        waited += 3


def _release():
    with _admit_lock:
        _admit_state["running"] -= 1


def tlc_parallel(jobs, max_parallel=None):
    """jobs: list of kwargs dicts for tlc(); runs them concurrently (as far as the available memory allows); returns results in order."""
    if max_parallel is None:
        max_parallel = NCPU

    def one(kw):
        _admit(_xmx_gb(kw.get("xmx")))
        try:
            return tlc(**kw)
        finally:
            _release()
    with ThreadPoolExecutor(max_workers=max_parallel) as ex:
        futs = [ex.submit(one, kw) for kw in jobs]
        return [f.result() for f in futs]


# ----------------------------------------------------------------------------------------------
# Harness build (always from /repo's current working tree)
# ----------------------------------------------------------------------------------------------
def _hash_tree(h, root, exts=(".h", ".cpp", ".hpp")):
    for d, dirs, files in sorted(os.walk(root)):
        dirs.sort()
        if "testing_tools" in d:
            continue
        for f in sorted(files):
            if f.endswith(exts):
                p = os.path.join(d, f)
                h.update(p.encode())
                with open(p, "rb") as fh:
                    h.update(fh.read())


_repo_digest = None


def repo_digest():
    global _repo_digest
    if _repo_digest is None:
        h = hashlib.sha256()
        _hash_tree(h, os.path.join(REPO, "include"))
        _hash_tree(h, os.path.join(REPO, "src"))
        _repo_digest = h.hexdigest()[:20]
    return _repo_digest


REPO_SRC_GROUPS = {
    "msgpack": ["src/msgpack/msgpack_archive.cpp", "src/msgpack/msgpack_readers.cpp", "src/msgpack/msgpack_writers.cpp"],
    "csv": ["src/csv/csv_archive.cpp", "src/csv/csv_readers.cpp", "src/csv/csv_writers.cpp"],
    "common": ["src/common/binary_stream_reader.cpp"],
}

BASE_FLAGS = ["-std=c++17", "-DNDEBUG", "-DBITSERIALIZER_VERIF", "-g0", "-w"]


def _prune_cache(keep=10, min_age_s=3 * 3600):
    """Removes old build directories (never a recent one: concurrent checks may be building into it)."""
    if not os.path.isdir(CACHE):
        return
    ds = [os.path.join(CACHE, d) for d in os.listdir(CACHE) if os.path.isdir(os.path.join(CACHE, d))]
    ds.sort(key=lambda d: os.path.getmtime(d), reverse=True)
    now = time.time()
    for d in ds[keep:]:
        if now - os.path.getmtime(d) > min_age_s:
            shutil.rmtree(d, ignore_errors=True)


def build(name, srcs, defines=(), groups=("msgpack", "csv", "common"), libs=(), opt="-O1",
          sanitize=False, compiler=None, extra_flags=()):
    """Compile harness/<srcs> + the repo's own src/ groups with the verification hooks enabled.
    Returns the path of the executable.  Cached by content hash of /repo sources, harness sources and flags."""
    cxx = compiler or ("clang++" if sanitize else "g++")
    flags = list(BASE_FLAGS) + [opt] + ["-D" + d for d in defines] + list(extra_flags)
    if sanitize:
        flags += ["-fsanitize=address,undefined", "-fno-omit-frame-pointer", "-fno-sanitize-recover=undefined"]
    inc = ["-I" + os.path.join(REPO, "include"), "-I" + os.path.join(REPO, "src"), "-I" + HARNESS]
    h = hashlib.sha256()
    h.update(repo_digest().encode())
    _hash_tree(h, HARNESS)
    rd = os.path.join(CACHE, h.hexdigest()[:20])
    os.makedirs(rd, exist_ok=True)
    os.utime(rd, None)
    fl = hashlib.sha256((cxx + " ".join(flags) + " ".join(libs)).encode()).hexdigest()[:12]
    exe = os.path.join(rd, "%s-%s" % (name, fl))
    if os.path.exists(exe):
        return exe
    units = [(os.path.join(HARNESS, s), s) for s in srcs]
    for g in groups:
        for s in REPO_SRC_GROUPS[g]:
            units.append((os.path.join(REPO, s), s))

    def comp(u):
        path, rel = u
        obj = os.path.join(rd, "%s-%s.o" % (rel.replace("/", "_"), fl))
        if not os.path.exists(obj):
            tmp = obj + _tmp_suffix()
            p = subprocess.run([cxx] + flags + inc + ["-c", path, "-o", tmp], stdout=subprocess.PIPE,
                               stderr=subprocess.STDOUT, text=True)
            if p.returncode != 0:
                raise MachineryError("harness build failed for %s:\n%s" % (rel, p.stdout[-6000:]))
            os.replace(tmp, obj)
        return obj

    with ThreadPoolExecutor(max_workers=NCPU) as ex:
        objs = list(ex.map(comp, units))
    tmp = exe + _tmp_suffix()
    p = subprocess.run([cxx] + flags + objs + ["-o", tmp] + list(libs) + ["-lpthread"], stdout=subprocess.PIPE,
                       stderr=subprocess.STDOUT, text=True)
    if p.returncode != 0:
        raise MachineryError("harness link failed for %s:\n%s" % (name, p.stdout[-6000:]))
    os.replace(tmp, exe)
    _prune_cache()
    return exe


def run(cmd, timeout=600, input=None, env=None, check=True, cwd=None):
    e = dict(os.environ)
    if env:
        e.update({k: str(v) for k, v in env.items()})
    p = subprocess.run(["timeout", "-k", "5", str(timeout)] + list(cmd), input=input, stdout=subprocess.PIPE,
                       stderr=subprocess.PIPE, text=True, errors="replace", env=e, cwd=cwd)
    if check and p.returncode != 0:
        raise MachineryError("command failed (exit %d): %s\n%s\n%s" % (p.returncode, " ".join(cmd)[:300],
                                                                        p.stdout[-2000:], p.stderr[-4000:]))
    return p


def read_ndjson(path):
    res = []
    with open(path) as f:
        for line in f:
            line = line.strip()
            if line:
                res.append(json.loads(line))
    return res


def write_ndjson(path, rows):
    with open(path, "w") as f:
        for r in rows:
            f.write(json.dumps(r, separators=(",", ":")))
            f.write("\n")


# ----------------------------------------------------------------------------------------------
# Check bookkeeping
# ----------------------------------------------------------------------------------------------
def load_known_findings():
    p = os.path.join(VERIF, "known_findings.json")
    if not os.path.exists(p):
        return []
    with open(p) as f:
        return json.load(f)


class Check:
    """One run of one property's check."""

    def __init__(self, pid, tier, level="model_checking"):
        self.pid = pid
        self.tier = tier
        self.level = level
        self.t0 = time.time()
        self.failures = []      # dicts: {what, dev, case}
        self._dev_counts = {}   # occurrences per deviation classification (cases beyond the first 30 are only counted)
        self.cov = {"states": 0, "transitions": 0, "traces_validated_against_impl": 0, "samples": [],
                    "evaluations": 0, "distinct_nontrivial": 0, "rule": "", "tlc_runs": []}
        self.assumptions = []
        self._distinct = set()
        self.notes = []
        # replay files of earlier runs of this check would be misleading
        rp = os.path.join(os.environ.get("VERIF_REPLAY_DIR", os.path.join(VERIF, "replays")), pid)
        shutil.rmtree(rp, ignore_errors=True)

    # --- coverage accounting -------------------------------------------------------------
    def add_tlc(self, label, r, cfg_constants=None):
        self.cov["states"] += r.distinct
        self.cov["transitions"] += r.generated
        self.cov["tlc_runs"].append({"label": label, "distinct_states": r.distinct, "states_generated": r.generated,
                                     "depth": r.depth, "wall_s": round(r.wall, 1), "exit": r.rc,
                                     **({"constants": cfg_constants} if cfg_constants else {})})

    def add_cases(self, n, distinct_keys=None, validated=0):
        self.cov["evaluations"] += n
        if distinct_keys is not None:
            # only the number of distinct keys is reported: keep 64-bit digests, not the (long) keys themselves
            for k in distinct_keys:
                self._distinct.add(int.from_bytes(hashlib.blake2b(repr(k).encode(), digest_size=8).digest(), "big"))
        self.cov["traces_validated_against_impl"] += validated

    def sample(self, s, limit=6):
        if len(self.cov["samples"]) < limit:
            self.cov["samples"].append(s)

    def fail(self, what, case, dev=None):
        # occurrences classified under a deviation are counted; only the first 30 per deviation keep their (possibly large) case
        if dev:
            n = self._dev_counts.get(dev, 0)
            self._dev_counts[dev] = n + 1
            if n >= 30:
                return
        self.failures.append({"what": what, "dev": dev, "case": case})

    # --- finishing -----------------------------------------------------------------------
    def finish(self, extra_cov=None, exhaustive=None):
        known = {k["id"]: k for k in load_known_findings() if k.get("property") == self.pid or self.pid in k.get("properties", [])}
        viol = []
        reported_known = {}
        for f in self.failures:
            d = f.get("dev")
            parts = d.split("+") if d else []
            if parts and all(p in known and known[p].get("status") == "known" for p in parts):
                for p in parts:
                    reported_known.setdefault(p, []).append(f)
            else:
                viol.append(f)
        def occurrences(dev_id, fs):
            # all occurrences of classifications that contain this deviation (kept cases + the ones only counted)
            return max(len(fs), sum(c for k, c in self._dev_counts.items() if dev_id in k.split("+")))
        for d, fs in sorted(reported_known.items()):
            print("KNOWN-FINDING: property=%s %s [%s; %d occurrence(s) in this run]" % (self.pid, known[d]["what"], d, occurrences(d, fs)))
        self.cov["distinct_nontrivial"] = len(self._distinct)
        if extra_cov:
            self.cov.update(extra_cov)
        if exhaustive is not None:
            # schema: boolean; an explanatory text goes to exhaustive_scope
            self.cov["exhaustive"] = bool(exhaustive)
            if isinstance(exhaustive, str):
                self.cov["exhaustive_scope"] = exhaustive
        self.cov["known_findings_seen"] = {d: occurrences(d, fs) for d, fs in reported_known.items()}
        if not self.cov["samples"]:
            self.cov["samples"] = ["(no sample recorded)"]
        ev = {"property_id": self.pid, "tier": self.tier, "seed": seed(), "level": self.level,
              "coverage": self.cov, "assumptions": self.assumptions, "wall_s": round(time.time() - self.t0, 1),
              "violations": len(viol)}
        evdir = os.environ.get("VERIF_EVIDENCE_DIR", os.path.join(VERIF, "evidence"))     # (mutant evaluation writes elsewhere)
        os.makedirs(evdir, exist_ok=True)
        with open(os.path.join(evdir, self.pid + ".json"), "w") as f:
            json.dump(ev, f, indent=1)
        if viol:
            # group by what/dev to keep output readable; one replay file per distinct failure (max 20)
            rpdir = os.environ.get("VERIF_REPLAY_DIR", os.path.join(VERIF, "replays"))
            os.makedirs(os.path.join(rpdir, self.pid), exist_ok=True)
            seen = 0
            for f in viol:
                if seen >= 20:
                    break
                blob = json.dumps(f, sort_keys=True)
                dg = hashlib.sha256(blob.encode()).hexdigest()[:16]
                path = os.path.join(rpdir, self.pid, dg + ".json")
                with open(path, "w") as fh:
                    json.dump(f, fh, indent=1)
                print("VIOLATION property=%s replay=%s" % (self.pid, path))
                print("  what: %s%s" % (f["what"][:400], (" [classified as %s]" % f["dev"]) if f.get("dev") else ""))
                seen += 1
            if len(viol) > seen:
                print("  (+%d more violations not written out)" % (len(viol) - seen))
            return 1
        print("OK property=%s tier=%s states=%d transitions=%d cases=%d distinct_nontrivial=%d validated_traces=%d wall=%.0fs" % (
            self.pid, self.tier, self.cov["states"], self.cov["transitions"], self.cov["evaluations"],
            self.cov["distinct_nontrivial"], self.cov["traces_validated_against_impl"], time.time() - self.t0))
        return 0


def main_wrapper(fn):
    """Run a check function; machinery errors exit 2 (never 1, never a VIOLATION line)."""
    try:
        rc = fn()
    except MachineryError as e:
        print("MACHINERY-ERROR: %s" % e, file=sys.stderr)
        sys.exit(2)
    except Exception:  # a bug in the machinery is not a verdict about the code either
        import traceback
        traceback.print_exc()
        print("MACHINERY-ERROR: unexpected exception in the check", file=sys.stderr)
        sys.exit(2)
    sys.exit(rc)


# ----------------------------------------------------------------------------------------------
# Trace validation in shards (each shard = one TLC process evaluating the trace spec on one file)
# ----------------------------------------------------------------------------------------------
def validate_traces(module, lines, cfg=None, shards=None, timeout=900, env=None, xmx="3g", xss="64m"):
    """lines: list of ndjson strings (one trace/record each).  Returns (checked, bad_verdicts).
    The trace spec must print <<"CHECKED", {n}>> and <<"BAD", {...}>> records."""
    if not lines:
        return 0, []
    if shards is None:
        shards = max(1, min(NCPU, len(lines) // 200 + 1))
    files = []
    for i in range(shards):
        part = lines[i::shards]
        if not part:
            continue
        p = os.path.join(scratch(), "trace-%s-%d-%d.ndjson" % (module, os.getpid(), next(_uniq)))
        with open(p, "w") as f:
            f.write("\n".join(part) + "\n")
        files.append((p, len(part)))
    jobs = []
    for p, _ in files:
        e = {"TRACE": p}
        if env:
            e.update(env)
        jobs.append(dict(module=module, cfg=cfg, env=e, workers=1, timeout=timeout, xmx=xmx, xss=xss))
    results = tlc_parallel(jobs)
    checked = 0
    bad = []
    for (p, n), r in zip(files, results):
        c = r.printed("CHECKED")
        if not c or c[0]["n"] != n:
            raise MachineryError("trace validator %s did not process its whole shard (%s of %d):\n%s" % (
                module, c, n, "\n".join(r.out.splitlines()[-25:])))
        checked += n
        bad += r.printed("BAD")
        os.unlink(p)
    return checked, bad


def run_resumable(exe_args, timeout=1800):
    """Runs a crash-contained scenario interpreter (vh::ForkedRunner): one JSON line per run, including
    {"e":"Terminate"|"Hang"|"Crash","run":k} observations.  Returns the parsed lines ordered by run."""
    p = run(list(exe_args), timeout=timeout, check=True)
    rows = [json.loads(l) for l in p.stdout.splitlines() if l.strip().startswith("{")]
    rows.sort(key=lambda r: r["run"])
    return rows
