"""C11 - transcoding valid Unicode text between UTF-8/16/32 is exact and reversible."""
import json
import os
import time
from concurrent.futures import ThreadPoolExecutor
import vlib
from vlib import Check, build

from checks import utfcommon as uc

MC_CFG = """SPECIFICATION Spec
CONSTANTS
  Centers = {0, 127, 128, 2047, 2048, 55295, 55296, 56319, 56320, 57343, 57344, 65279, 65535, 65536, 131071, 131072, 1048575, 1048576, 1114111, 1114112}
  Radius = 3
  SliceLo = %(s1lo)d
  SliceHi = %(s1hi)d
  Slice2Lo = %(s2lo)d
  Slice2Hi = %(s2hi)d
INVARIANTS RoundTrip ShortestForm SurrogatesOnlyForSupplementary ByteOrdersMirror BomIsFeff NonScalarRejected
"""

BOUNDARIES = [0x0, 0x7F, 0x80, 0x7FF, 0x800, 0xD7FF, 0xE000, 0xFEFF, 0xFFFF, 0x10000, 0x1FFFF, 0x20000, 0xFFFFF, 0x100000, 0x10FFFF]
N_SCALARS = 0x110000 - 0x800


def table_ranges(tier):
    if tier == "quick":
        plane = uc.pick(range(17), 1)[0]
        r = [(max(b - 2, 0), min(b + 2, 0x10FFFF)) for b in BOUNDARIES]
        r += [(plane * 0x10000 + k * 0x4000, plane * 0x10000 + (k + 1) * 0x4000 - 1) for k in range(4)]
        return r, plane
    return [(lo, lo + 0x7FFF) for lo in range(0, 0x110000, 0x8000)], None


def leg_table(chk, tier):
    ranges, plane = table_ranges(tier)
    exe = build("utf_harness", ["utf_harness.cpp"], groups=())
    jobs = []
    for k, (lo, hi) in enumerate(ranges):
        out = os.path.join(vlib.scratch(), "c11tab-%d.ndjson" % k)
        jobs.append(dict(module="Gen_Unicode11", cfg="Gen_Unicode11.cfg", env={"LO": lo, "HI": hi, "OUT": out}, workers=1, timeout=1500, xmx="3g"))
    t0 = time.time()
    res = vlib.tlc_parallel(jobs)
    chk.cov.setdefault("phase_s", {})["table_tlc"] = round(time.time() - t0, 1)
    t0 = time.time()

    def run_impl(job):
        tab = job["env"]["OUT"]
        vlib.run([exe, "c11table", tab, tab + ".impl"], timeout=1500)
        return tab

    with ThreadPoolExecutor(max_workers=vlib.NCPU) as ex:
        list(ex.map(run_impl, jobs))
    chk.cov["phase_s"]["table_impl"] = round(time.time() - t0, 1)
    seen = set()
    nrows = 0
    suffix = ',"x":[],"r":[[0,1,0]]}'
    nbad = 0
    for job, r in zip(jobs, res):
        tab = job["env"]["OUT"]
        announced = r.printed("ROWS")[0]["n"]
        with open(tab) as f:
            tl = [l.rstrip("\n") for l in f if l.strip()]
        with open(tab + ".impl") as f:
            il = [l.rstrip("\n") for l in f if l.strip()]
        if len(tl) != announced or len(il) != len(tl):
            raise vlib.MachineryError("C11 table shard %s: %d rows announced, %d written, %d executed" % (job["env"], announced, len(tl), len(il)))
        for a, b in zip(tl, il):
            nrows += 1
            if a[:-1] + suffix == b:      # plain equality of the two tables (text)
                continue
            ta, tb = json.loads(a), json.loads(b)
            if all(ta[k] == tb.get(k) for k in ta) and tb["x"] == [] and tb["r"] == [[0, 1, 0]]:   # same content, other layout
                continue
            nbad += 1
            if nbad <= 40:
                diff = [k for k in ta if ta[k] != tb.get(k)]
                chk.fail("C11: U+%04X: implementation differs from the encoding table of Unicode.tla in %s; extra distinct outputs %s; results %s (expected [[0,1,0]] = Success, iterator at end, 0 errors)" % (
                    ta["cp"], diff or "-", tb["x"], tb["r"]), {"leg": "table", "cp": ta["cp"], "spec": ta, "impl": tb})
        # cp of first/last row for the exhaustiveness count
        if tl:
            seen.add((json.loads(tl[0])["cp"], json.loads(tl[-1])["cp"], len(tl)))
        os.unlink(tab)
        os.unlink(tab + ".impl")
    if nbad > 40:
        chk.notes.append("%d further differing table rows not reported" % (nbad - 40))
    # per scalar value: (4 same-width pairs x 1 + 16 pairs x 2 intermediate widths + 12 Transcode calls) x 2 policies + 32 Convert::To = 128 conversions
    chk.add_cases(nrows * 128, distinct_keys=(("cp", s) for s in seen))
    chk.cov["scalar_values_checked"] = nrows
    chk.cov["table_plane_selected"] = plane
    chk.sample({"leg": "table", "ranges": ranges[:6], "rows": nrows})
    return nrows


def leg_sequences(chk, tier):
    exe = build("utf_harness", ["utf_harness.cpp"], groups=())
    count, maxlen = (48, 512) if tier == "quick" else (400, 4096)
    out = vlib.run([exe, "c11seq", str(count), str(vlib.seed()), str(maxlen)], timeout=900).stdout
    lines = [l for l in out.splitlines() if l.strip()]
    for l in [l for l in lines if l.startswith('{"e":')]:
        chk.fail("a transcoding call did not return: %s" % l[:300], {"leg": "seq", "obs": json.loads(l)})
    lines = [l for l in lines if not l.startswith('{"e":')]
    # make record ids unique (one sequence = several conversions)
    uniq = []
    for k, l in enumerate(lines):
        uniq.append('{"id":"%d-' % k + l[len('{"id":"'):])
    t0 = time.time()
    checked, bad = vlib.validate_traces("Trace_Unicode11", uniq, cfg="Trace_Unicode11.cfg", shards=vlib.NCPU, timeout=1700, xss="512m")
    chk.cov.setdefault("phase_s", {})["seq_judge"] = round(time.time() - t0, 1)
    chk.add_cases(len(uniq), distinct_keys=(("seq", hash(l)) for l in uniq), validated=checked)
    byid = {}
    for l in uniq:
        t = json.loads(l)
        byid[t["id"]] = t
    lens = sorted(len(t["u"]) for t in byid.values())
    chk.cov["sequence_lengths_units"] = {"min": lens[0], "median": lens[len(lens) // 2], "max": lens[-1]} if lens else {}
    for b in bad[:40]:
        t = byid[b["id"]]
        short = dict(t, u=t["u"][:64], out=t["out"][:64])
        chk.fail("C11: %s %d->%d bit, %d units: %s" % (t["api"], t["sf"], t["tw"], len(t["u"]), b["why"]), {"leg": "seq", "verdict": b, "record_head": short})


def run_check(tier):
    uc.use_known_findings_override()
    chk = Check("C11", tier)
    chk.cov["rule"] = ("cases = transcoding calls (per scalar value: 20 ordered scheme pairs x intermediate widths x 2 policies, Transcode, Convert::To "
                       "between 4 string types; plus conversions of random sequences); distinct = table shards / distinct sequence records")
    chk.assumptions += ["little-endian host: the native-order classes Utf16/Utf32 and the four std string types are the LE schemes",
                        "string values and keys inside archives (TranscodeStringByPolicy) are not driven by this check"]
    s1, s2 = (8192, 12287, 128000, 130047), (0x2000, 0x5FFF, 0x1F000, 0x22FFF)
    for k, s in enumerate([s1] if tier == "quick" else [s1, s2]):
        cfg = uc.write_cfg("mc_unicode_%d.cfg" % k, MC_CFG % dict(s1lo=s[0], s1hi=s[1], s2lo=s[2], s2hi=s[3]))
        r = vlib.tlc("MC_Unicode", cfg=cfg, coverage=True, timeout=900, workers=8)
        chk.add_tlc("MC_Unicode encoding forms: round trip, shortest form, surrogates, byte orders", r, dict(slices=s))
        zero = r.coverage_zero_actions()
        if zero:
            raise vlib.MachineryError("vacuity: actions never taken in MC_Unicode: %s" % zero)
    nrows = leg_table(chk, tier)
    leg_sequences(chk, tier)
    exhaustive = (tier == "thorough" and nrows == N_SCALARS)
    if tier == "thorough" and nrows != N_SCALARS:
        raise vlib.MachineryError("thorough tier covered %d scalar values, expected %d" % (nrows, N_SCALARS))
    return chk.finish(exhaustive=exhaustive)


def run(tier):
    return run_check(tier)


def replay(path):
    f = json.load(open(path))
    print(json.dumps(f, indent=1)[:3000])
    return run_check("quick")
