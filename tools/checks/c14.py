"""C14 - ISO-8601 text of times and durations is calendar-correct and parses back exactly.

 spec/BSBigInt.tla + MC_BSBigInt   arbitrary precision integers for TLC, laws cross-checked against native integers
 spec/Chrono.tla                   calendar, IsoPrint, parsers, duration grammar, CBinTimestamp split/join
 spec/MC_Chrono.tla                exhaustive day walk by the successor rule: closed forms, BigInt versions, Parse(Print(x)) = x
 spec/ChronoTables.tla             TLC as evaluator: expected observation tables (day sweep, every second of selected days,
                                   limit neighbourhoods); the harness reads its inputs from these very files
 harness/chrono_harness.cpp        Convert::ToString / Convert::To<>, Detail::To(CBinTimestamp), MsgPack archive round trip
 spec/Trace_Chrono.tla             judges single instants (limit neighbourhoods, seeded random 64-bit counts, and every
                                   table row that differs from the expected one) and names the deviation
This module also hosts the helpers shared with c15.py / c16.py.
"""
import json
import os
import re
import shutil
import subprocess
from concurrent.futures import ThreadPoolExecutor
import vlib
from vlib import Check

GC = {"JAVA_TOOL_OPTIONS": "-XX:ParallelGCThreads=2"}


# ----------------------------------------------------------------------------------------------
# shared helpers
# ----------------------------------------------------------------------------------------------
def install_known_findings_override():
    """VERIF_KNOWN_FINDINGS=<file> replaces /verif/known_findings.json for this run (to try out proposed entries)."""
    p = os.environ.get("VERIF_KNOWN_FINDINGS")
    if p:
        def load():
            with open(p) as f:
                return json.load(f)
        vlib.load_known_findings = load


def write_cfg(name, text):
    p = os.path.join(vlib.scratch(), name)
    with open(p, "w") as f:
        f.write(text)
    return p


def actions_never_taken(r):
    """-coverage 1 prints '<Action line .. of module M (..)>: distinct:generated'; never taken <=> generated == 0."""
    zero = []
    for m in re.finditer(r"<(\w+) line \d+, col \d+ to line \d+, col \d+ of module \w+(?: \([\d ]+\))?>: (\d+):(\d+)", r.out):
        if m.group(1) != "Init" and int(m.group(3)) == 0:
            zero.append(m.group(1))
    return zero


_stable = {}


def stable_exe(name, srcs, groups):
    """Builds through vlib.build and copies the executable into this run's scratch directory: the shared build cache keeps
    only the most recent source digests and is pruned by checks that other builders run at the same time."""
    if name not in _stable:
        for attempt in range(4):
            try:
                exe = vlib.build(name, srcs, groups=groups)
            except vlib.MachineryError as e:
                if "No such file or directory" in str(e) and attempt < 3:      # cache directory pruned in the middle of the build
                    continue
                raise
            dst = os.path.join(vlib.scratch(), "exe-" + name)
            try:
                shutil.copy2(exe, dst)
                _stable[name] = dst
                break
            except FileNotFoundError:
                continue
        else:
            raise vlib.MachineryError("harness executable %s vanished from the build cache three times" % name)
    return _stable[name]


def build_chrono():
    return stable_exe("chrono", ["chrono_harness.cpp"], ("msgpack", "common"))


def run_sharded(exe, mode, reqfile, rows, shards=None, timeout=1700):
    """Runs `exe mode <file>` over the request rows split into shards (order preserved)."""
    if shards is None:
        shards = max(1, min(vlib.NCPU, len(rows) // 2000 + 1))
    if shards == 1:
        return [l for l in vlib.run([exe, mode, reqfile], timeout=timeout).stdout.splitlines() if l.strip()]
    size = (len(rows) + shards - 1) // shards
    parts = []
    for i in range(shards):
        part = rows[i * size:(i + 1) * size]
        if not part:
            continue
        p = "%s.part%d" % (reqfile, i)
        vlib.write_ndjson(p, part)
        parts.append(p)
    with ThreadPoolExecutor(max_workers=len(parts)) as ex:
        outs = list(ex.map(lambda p: vlib.run([exe, mode, p], timeout=timeout).stdout, parts))
    for p in parts:
        os.unlink(p)
    lines = []
    for o in outs:
        lines += [l for l in o.splitlines() if l.strip()]
    return lines


def validate_shard(module, cfg, lines, tag, timeout=1700, xmx="4g"):
    """Like vlib.validate_traces for ONE shard, with a caller-chosen unique file name (safe to call from several threads)."""
    p = os.path.join(vlib.scratch(), "trace-%s-%s.ndjson" % (module, tag))
    with open(p, "w") as f:
        f.write("\n".join(lines) + "\n")
    e = {"TRACE": p}
    e.update(GC)
    r = vlib.tlc(module, cfg=cfg, env=e, workers=1, timeout=timeout, xmx=xmx)
    os.unlink(p)
    c = r.printed("CHECKED")
    if not c or c[0]["n"] != len(lines):
        raise vlib.MachineryError("trace validator %s did not process its whole shard %s (%s of %d):\n%s" % (
            module, tag, c, len(lines), "\n".join(r.out.splitlines()[-25:])))
    return len(lines), r.printed("BAD")


# ----------------------------------------------------------------------------------------------
# model-level legs
# ----------------------------------------------------------------------------------------------
BIGINT_CFG = """SPECIFICATION Spec
CONSTANTS
  Deltas = {1, 9999, 10000, 10001, 99999999, 100000000, 123456789}
  Factors = {1, 2, 7, 10, 9999, 10000, 10001, 86400, 146097, 200000}
  Limit = 1000000000
  MaxSteps = %d
  BigFactors = {2, 9999, 10000, 86400, 146097, 200000}
  MaxDigits = 40
INVARIANTS Twin TwinCmp TwinAddSub TwinMul TwinDec TwinDiv TwinShift BigWF BigAddSub BigMulDiv BigDec BigCmp BigChain BigDistrib BigShift
"""


def leg_mc_bigint(chk, tier):
    """BSBigInt laws: native twin + algebraic laws on wide values; action coverage on the small configuration."""
    small = write_cfg("mc_bigint_cov.cfg", BIGINT_CFG % 2)
    big = write_cfg("mc_bigint.cfg", BIGINT_CFG % (3 if tier == "quick" else 4))
    rs = vlib.tlc_parallel([dict(module="MC_BSBigInt", cfg=small, coverage=True, timeout=900, workers=2, env=GC),
                            dict(module="MC_BSBigInt", cfg=big, timeout=1700, workers=max(2, vlib.NCPU // 2), env=GC)])
    zero = actions_never_taken(rs[0])
    if zero or "AddStep" not in rs[0].out:
        raise vlib.MachineryError("vacuity: MC_BSBigInt actions never taken: %s" % zero)
    chk.add_tlc("MC_BSBigInt (laws vs native integers, coverage run)", rs[0], {"MaxSteps": 2})
    chk.add_tlc("MC_BSBigInt (laws vs native integers)", rs[1], {"MaxSteps": 3 if tier == "quick" else 4})


MC_CHRONO_CFG = """SPECIFICATION Spec
CONSTANTS
  YLO = %d
  YHI = %d
  PP = %d
  NEG = %s
INVARIANTS CalInv EpochInv BigInv PrintParse
"""


def leg_mc_chrono(chk, tier):
    """Every day of the year range is reached by the successor rule; invariants tie the closed forms, the BigInt versions,
    the printers and the parsers together (Parse(Print(x)) = x on every PP-th day for every unit)."""
    # (ylo, yhi, pp, neg): neg = the range is -ylo .. -yhi (a TLC cfg file cannot hold negative numbers)
    if tier == "quick":
        confs = [(1890, 2110, 7, False)]
    else:
        confs = [(0, 20000, 499, False), (10000, 1, 499, True)]
    jobs = []
    for ylo, yhi, pp, neg in confs:
        cfg = write_cfg("mc_chrono_%d_%s.cfg" % (ylo, neg), MC_CHRONO_CFG % (ylo, yhi, pp, "TRUE" if neg else "FALSE"))
        jobs.append(dict(module="MC_Chrono", cfg=cfg, timeout=1700, xmx="3g", workers=max(2, vlib.NCPU // len(confs)),
                         env={"JAVA_TOOL_OPTIONS": "-XX:ParallelGCThreads=4"}))
    for (ylo, yhi, pp, neg), r in zip(confs, vlib.tlc_parallel(jobs)):
        if r.distinct <= abs(yhi - ylo) + 1:
            raise vlib.MachineryError("vacuity: MC_Chrono did not walk the days (%d states)" % r.distinct)
        chk.add_tlc("MC_Chrono (day walk by NextDay; CalInv EpochInv BigInv PrintParse)", r,
                    {"YLO": -ylo if neg else ylo, "YHI": -yhi if neg else yhi, "PP": pp})


# ----------------------------------------------------------------------------------------------
# table legs: TLC writes expected rows, the harness reads its inputs from them, files are compared
# ----------------------------------------------------------------------------------------------
def table_job(tag, env, mode, urset):
    """One shard: TLC writes the table, the harness replays it, both files are compared.
    Returns dict(rows=.., tlc=TlcResult, diffs=[(expected_row, observed_row)])."""
    out = os.path.join(vlib.scratch(), "tab-%s.ndjson" % tag)
    obs = out + ".obs"
    e = dict(env)
    e.update({"OUT": out, "URSET": urset})
    e.update(GC)
    r = vlib.tlc("ChronoTables", cfg="ChronoTables.cfg", env=e, workers=1, timeout=1700, xmx="2g")
    w = r.printed("WROTE")
    if not w:
        raise vlib.MachineryError("ChronoTables wrote nothing for %s:\n%s" % (tag, r.out[-1500:]))
    exe = build_chrono()
    cmd = [exe, mode, out] + (["core"] if (mode == "days" and urset == "core") else [])
    with open(obs, "w") as fo:
        p = subprocess.run(["timeout", "1700"] + cmd, stdout=fo, stderr=subprocess.PIPE, text=True)
    if p.returncode != 0:
        raise vlib.MachineryError("harness failed on table %s (exit %d): %s" % (tag, p.returncode, p.stderr[-2000:]))
    diffs = []
    same = subprocess.run(["cmp", "-s", out, obs]).returncode == 0
    if not same:
        with open(out) as fa, open(obs) as fb:
            la, lb = fa.readlines(), fb.readlines()
        if len(la) != len(lb):
            raise vlib.MachineryError("table %s: %d expected rows, %d observed rows" % (tag, len(la), len(lb)))
        for a, b in zip(la, lb):
            if a != b:
                diffs.append((json.loads(a), json.loads(b)))
    os.unlink(out)
    os.unlink(obs)
    return dict(tag=tag, rows=w[0]["n"], tlc=r, diffs=diffs)


UR_ALL = [("d", "i64"), ("d", "i32"), ("h", "i64"), ("h", "i32"), ("min", "i64"), ("min", "i32"), ("s", "i64"), ("s", "i32"),
          ("ms", "i64"), ("us", "i64"), ("ns", "i64")]
UR_CORE = [("d", "i64"), ("d", "i32"), ("s", "i64"), ("ms", "i64")]
UR_SEC = [("s", "i64"), ("s", "i32"), ("ms", "i64"), ("us", "i64"), ("ns", "i64")]


def leg_tables(chk, tier):
    """Returns instants (requests for the list leg) of every table entry that differs from the expected one."""
    jobs = []
    seed = vlib.seed()
    urset = os.environ.get("VERIF_C14_URSET", "all")
    if tier == "quick":
        # all year boundaries of -10000..20000, month boundaries in windows, a seeded sample of the whole range
        for i, ylo in enumerate(range(-10000, 20001, 2500)):
            jobs.append(("yb%d" % i, {"MODE": "bounds", "YLO": ylo, "YHI": min(20000, ylo + 2499), "MONTHS": "0"}, "days", "all"))
        for i, (ylo, yhi) in enumerate([(-10000, -9990), (-1010, -990), (-410, -390), (-110, -90), (-10, 10), (390, 410), (1580, 2000), (2001, 2420),
                                        (9990, 10010), (19990, 20000)]):
            jobs.append(("mb%d" % i, {"MODE": "bounds", "YLO": ylo, "YHI": yhi, "MONTHS": "1"}, "days", "all"))
        for i in range(2):
            jobs.append(("sm%d" % i, {"MODE": "sample", "YLO": -10000, "YHI": 20000, "N": 6000, "SEED": seed + i}, "days", "all"))
        secdays = [1, 2]
        secstep = 21600
    else:
        for i, ylo in enumerate(range(-10000, 20001, 200)):
            jobs.append(("yr%d" % i, {"MODE": "years", "YLO": ylo, "YHI": min(20000, ylo + 199)}, "days", urset))
        for i, ylo in enumerate(range(-10000, 20001, 2500)):
            jobs.append(("mb%d" % i, {"MODE": "bounds", "YLO": ylo, "YHI": min(20000, ylo + 2499), "MONTHS": "1"}, "days", "all"))
        secdays = list(range(1, 19))
        secstep = 21600
    for d in secdays:
        for lo in range(0, 86400, secstep):
            jobs.append(("sec%d-%d" % (d, lo), {"MODE": "seconds", "DAYIDX": d, "SLO": lo, "SHI": lo + secstep - 1}, "secs", "all"))
    build_chrono()
    # the machine is shared: at most NCPU/2 table shards (2 GB heap each) at a time
    with ThreadPoolExecutor(max_workers=max(2, vlib.NCPU // 2)) as ex:
        results = list(ex.map(lambda j: table_job(j[0], j[1], j[2], j[3]), jobs))
    total = 0
    follow = []
    evals = 0
    for (tag, env, mode, us), res in zip(jobs, results):
        total += res["rows"]
        units = UR_SEC if mode == "secs" else (UR_CORE if us == "core" else UR_ALL)
        evals += res["rows"] * len(units)
        for exp, obs in res["diffs"]:
            # the observed row goes to Trace_Chrono, which recomputes the instants from the day number and names the deviation
            follow.append(json.dumps({"id": "%s:%s" % (tag, ":".join(str(x) for x in obs[:-1])), "mode": mode, "ur": us, "row": obs},
                                     separators=(",", ":")))
    chk.cov["tlc_runs"].append({"label": "ChronoTables (TLC as evaluator: %d table shards)" % len(jobs), "rows": total,
                                "wall_s": round(sum(r["tlc"].wall for r in results), 1), "exit": 0})
    chk.cov["table_rows"] = total
    chk.cov["table_rows_differing"] = len(follow)
    chk.add_cases(evals, distinct_keys=(("table", j[0]) for j in jobs))
    if results:
        chk.sample({"leg": "tables", "shards": len(jobs), "rows": total, "example_shard": jobs[len(jobs) // 2][1]})
    return follow


# ----------------------------------------------------------------------------------------------
# single instants: limit neighbourhoods from the spec, seeded random counts, follow-ups of table differences
# ----------------------------------------------------------------------------------------------
def leg_instants(chk, tier, follow):
    out = os.path.join(vlib.scratch(), "limits.ndjson")
    e = {"MODE": "limits", "OUT": out, "URSET": "all"}
    e.update(GC)
    r = vlib.tlc("ChronoTables", cfg="ChronoTables.cfg", env=e, workers=1, timeout=900)
    reqs = vlib.read_ndjson(out)
    os.unlink(out)
    for i, q in enumerate(reqs):
        q["id"] = "L%d" % i
    nlim = len(reqs)
    exe = build_chrono()
    req = os.path.join(vlib.scratch(), "c14_list.ndjson")
    vlib.write_ndjson(req, reqs)
    lines = run_sharded(exe, "list", req, reqs)
    if len(lines) != len(reqs):
        raise vlib.MachineryError("harness returned %d records for %d instants" % (len(lines), len(reqs)))
    nrand = 4000 if tier == "quick" else 120000
    shards = 4 if tier == "quick" else 16
    with ThreadPoolExecutor(max_workers=shards) as ex:
        outs = list(ex.map(lambda i: vlib.run([exe, "random", str(nrand // shards), str(vlib.seed() * 1000 + i)], timeout=1700).stdout, range(shards)))
    rl = []
    for i, o in enumerate(outs):
        for l in o.splitlines():
            if l.strip():
                rl.append(l.replace('{"id":"r', '{"id":"R%d-' % i, 1))
    chk.add_cases(len(lines) + len(rl))
    alll = lines + rl
    chk.sample({"leg": "instants", "limit_requests": nlim, "random": len(rl), "record": json.loads(alll[len(alll) // 2])})
    checked, bad = vlib.validate_traces("Trace_Chrono", alll + follow, cfg="Trace_Chrono.cfg", timeout=1700, env=GC, xmx="2g",
                                        shards=vlib.NCPU if len(follow) > 2000 else None)
    chk.add_cases(0, validated=checked)
    byid = {}
    for l in alll:
        d = json.loads(l)
        byid[d["id"]] = d
    chk._distinct.update(("inst", d.get("k"), d.get("u"), d.get("r"), d.get("c")) for d in byid.values())
    rows_explained = set()
    groups = {}
    for b in bad:
        if b["why"] in ("count", "shape"):
            raise vlib.MachineryError("trace validator: inconsistent record %s" % b)
        if "tgt" in b:      # a row of a table leg
            rows_explained.add(b["id"])
            u, r = b["tgt"].split(":")
            rq = {"id": "replay", "k": "tp", "u": u, "r": r, "c": b["c"]}
            label = "time_point %s count %s (table %s)" % (b["tgt"], b["c"], b["id"].split(":")[0])
            key = (b["dev"], b["why"], b["tgt"])
        else:
            d = byid[b["id"]]
            rq = {"id": "replay", "k": d.get("k"), "u": d.get("u"), "r": d.get("r"), "c": d.get("c")}
            label = "%s %s:%s count %s" % ({"tp": "time_point", "dur": "duration", "time_t": "time_t"}.get(d.get("k"), "?"),
                                           d.get("u"), d.get("r"), d.get("c"))
            key = (b["dev"], b["why"], "%s:%s:%s" % (d.get("k"), d.get("u"), d.get("r")))
        g = groups.setdefault(key, {"n": 0, "first": None})
        g["n"] += 1
        if g["first"] is None or not b["dev"] and g["n"] <= 10:
            what = "%s: %s (observed %s, specification: %s)" % (label, b["why"], str(b["obs"])[:80], str(b["exp"])[:80])
            if g["first"] is None:
                g["first"] = (what, {"request": rq, "verdict": b})
            else:
                chk.fail(what, {"request": rq, "verdict": b}, dev=None)
    for (dev, why, tgt), g in sorted(groups.items(), key=lambda kv: str(kv[0])):
        what, case = g["first"]
        case["occurrences_in_group"] = g["n"]
        chk.fail(what + ("" if g["n"] == 1 else " [+%d more of %s/%s]" % (g["n"] - 1, why, tgt)), case, dev=dev or None)
    # every differing table row must have been explained by at least one verdict
    for l in follow:
        rid = json.loads(l)["id"]
        if rid not in rows_explained:
            raise vlib.MachineryError("table row %s differs from the expected row but Trace_Chrono accepts it" % rid)
    return r


def run_check(tier):
    install_known_findings_override()
    chk = Check("C14", tier)
    chk.cov["rule"] = ("cases = (instant, unit, representation) observations: table entries (day sweep, seconds of selected days) "
                       "plus single instants (limit neighbourhoods, seeded random 64-bit counts); each observation = text, text parsed "
                       "back, CBinTimestamp split and join (single instants also: wide string forms and the MsgPack archive round trip)")
    chk.assumptions += [
        "32-bit representations are exercised for the coarse units s/min/h/d only (the property's quantifier); unsigned "
        "representations cannot be printed at all (they do not compile) and are parse targets of C15 only",
        "duration texts are judged by grammar and denotation, not by spelling (D6 in spec/Chrono.tla)",
        "time points whose seconds exceed int64 have no timestamp form: an exception is the accepted outcome there"]
    leg_mc_bigint(chk, tier)
    leg_mc_chrono(chk, tier)
    follow = leg_tables(chk, tier)
    leg_instants(chk, tier, follow)
    exhaustive = None
    if tier != "quick":
        exhaustive = "every day of years -10000..+20000 (midnight) for the units %s; every second of 18 selected days" % (
            os.environ.get("VERIF_C14_URSET", "all"))
    return chk.finish(exhaustive=exhaustive)


def run(tier):
    return run_check(tier)


def replay(path):
    install_known_findings_override()
    f = json.load(open(path))
    rq = f["case"]["request"]
    print("replaying instant %s" % rq)
    exe = build_chrono()
    req = os.path.join(vlib.scratch(), "c14_replay.ndjson")
    vlib.write_ndjson(req, [rq])
    lines = [l for l in vlib.run([exe, "list", req]).stdout.splitlines() if l.strip()]
    print(lines[0][:1500])
    checked, bad = vlib.validate_traces("Trace_Chrono", lines, cfg="Trace_Chrono.cfg", env=GC)
    for b in bad:
        print("REJECTED: %s" % json.dumps(b))
    print("replay: %d verdict(s) rejected" % len(bad))
    return 1 if any(not b["dev"] for b in bad) else 0
