"""C04 - numbers load exactly or are reported per policy, never silently altered."""
import json
import vlib
from vlib import Check
from checks import mpcommon as mp


def run_check(tier):
    chk = Check("C04", tier)
    chk.cov["rule"] = ("case = (numeric source value: exhaustive integer range, every type limit +-2, 2^k +-1, booleans, floating point values; "
                       "target arithmetic type; archive position root / array element / object member; legal encoding or rendering; policies) "
                       "loaded by the real archive; distinct = distinct (document bytes, script, policies)")
    chk.assumptions += ["expected outcome = spec/LoadScript.tla LoadLeaf (exact value, rounding to a floating point target, Overflow / MismatchedTypes per policy, skip)",
                        "int -> float targets are prescribed for |n| < 2^24 (exactly representable); larger magnitudes into float targets are left open",
                        "XML attributes and CSV cells are not driven here (text cells: C09/C16); direct Convert::To between arithmetic types is exercised through the MsgPack reader, which funnels every integer format through ConvertByPolicy"]
    quick = tier == "quick"
    rng = {"NumNeg": "130" if quick else "32770", "NumPos": "260" if quick else "65540"}
    total = 0
    keys = set()
    for arch, widths, media in (("msgpack", "{0, 3, 5}" if quick else "{0, 1, 2, 3, 4, 5}", ["mem", "sstream"]),
                                ("json", "{0}" if quick else "{0, 1}", ["mem", "sstream"]),
                                ("xml", "{0}" if quick else "{0, 1}", ["mem", "sstream"])):
        tt = "{}" if (quick or arch != "msgpack") else "{}"
        sc = mp.gen("MC_LoadScript", dict({"Arch": '"%s"' % arch, "Mode": '"numeric"', "MaxOps": 0, "Widths": widths, "Pads": "{0}", "TypedTargets": tt}, **rng),
                    ["Export"], "c04-" + arch, chk, timeout=3000, xmx="8g")
        for lo in range(0, len(sc), 200000):
            part = sc[lo:lo + 200000]
            pairs = mp.replay(part, media, 8, "n" + arch[0], arch)
            mp.judge(chk, pairs, "%s numeric load" % arch)
            total += len(pairs)
        keys |= set((arch, json.dumps(s["doc"]), json.dumps(s["root"]), json.dumps(s["pol"])) for s in sc)
        chk.cov.setdefault("unspecified_scenarios", {})[arch] = sum(1 for s in sc if s["exp"]["exc"] == ["unspecified"])
        s = sc[len(sc) // 3]
        chk.sample({"archive": arch, "document": s["doc"][:40], "script": s["root"], "policies": s["pol"], "expected": s["exp"]})
        del sc
    chk.add_cases(total, distinct_keys=keys, validated=total)
    return chk.finish()


def run(tier):
    return run_check(tier)


def replay(path):
    print(open(path).read())
    return run_check("quick")
