"""C04 - numbers load exactly or are reported per policy, never silently altered."""
import json
import os
import vlib
from vlib import Check
from checks import mpcommon as mp


def csv_cell_leg(chk, sc, keys):
    """CSV cell position: the text the specification renders for the numeric source (the same text as in the XML element) is put
    into a CSV cell and loaded into the same target type with the same policies; the prescribed observation is the one of the XML
    member position (both archives hand the text to the same conversion: exact value, Overflow / MismatchedTypes per policy)."""
    exe = vlib.build("csv_fault_c32", ["csv_fault.cpp"], groups=("csv", "common"), defines=["BITSERIALIZER_VERIF_ENC_CHUNK_SIZE=32"])
    rows, src = [], []
    seen = set()
    for s in sc:
        txt = s.get("celltext") or []
        if not txt or any(c in (44, 34, 13, 10) or c > 126 for c in txt):
            continue
        ops = s["root"]["ops"]
        key = (tuple(txt), ops[0]["t"], s["pol"]["mm"], s["pol"]["ov"])
        if key in seen:
            continue
        seen.add(key)
        doc = [97, 44, 98, 13, 10] + list(txt) + [44, 55, 13, 10]           # a,b CRLF <text>,7 CRLF
        for stream in (False, True):
            rows.append({"id": "cell%d" % len(rows), "save": False, "stream": stream, "doc": doc,
                         "keys": [{"k": ops[0]["ks"], "t": ops[0]["t"]}, {"k": ops[1]["ks"], "t": ops[1]["t"]}],
                         "pol": {"mm": s["pol"]["mm"], "ov": s["pol"]["ov"]}, "fault": {"kind": "probe", "k": 0}})
            src.append(s)
    sp = os.path.join(vlib.scratch(), "c04_csv.ndjson")
    vlib.write_ndjson(sp, rows)
    obs = vlib.run_resumable([exe, "fault", sp], timeout=1800)
    os.unlink(sp)
    if len(obs) != len(rows):
        raise vlib.MachineryError("C04 csv leg: %d observations for %d runs" % (len(obs), len(rows)))
    pairs = []
    for r, s, o in zip(rows, src, obs):
        o["medium"] = "sstream" if r["stream"] else "mem"
        o["chunk"] = 32
        o["arch"] = "csv"
        pairs.append((dict(s, doc=r["doc"], root={"csv_keys": r["keys"]}), o))
    mp.judge(chk, pairs, "csv cell numeric load")
    keys |= set(("csv", json.dumps(r["doc"]), json.dumps(r["keys"]), json.dumps(r["pol"])) for r in rows)
    chk.cov["csv_cell_runs"] = len(rows)
    if rows:
        chk.sample({"archive": "csv", "document": bytes(rows[len(rows) // 2]["doc"]).decode("latin-1"), "keys": rows[len(rows) // 2]["keys"],
                    "policies": rows[len(rows) // 2]["pol"], "expected": src[len(rows) // 2]["exp"]})
    return len(rows)


def run_check(tier):
    chk = Check("C04", tier)
    chk.cov["rule"] = ("case = (numeric source value: exhaustive integer range, every type limit +-2, 2^k +-1, booleans, floating point values; "
                       "target arithmetic type; archive position root / array element / object member; legal encoding or rendering; policies) "
                       "loaded by the real archive; distinct = distinct (document bytes, script, policies)")
    chk.assumptions += ["expected outcome = spec/LoadScript.tla LoadLeaf (exact value, rounding to a floating point target, Overflow / MismatchedTypes per policy, skip)",
                        "int -> float targets are prescribed for |n| < 2^24 (exactly representable); larger magnitudes into float targets are left open",
                        "CSV cells carry the text the specification renders for the XML element and are judged by the same prescription; direct Convert::To between arithmetic types is exercised through the MsgPack reader, which funnels every integer format through ConvertByPolicy"]
    quick = tier == "quick"
    rng = {"NumNeg": "130" if quick else "300", "NumPos": "260" if quick else "600"}
    total = 0
    keys = set()
    for arch, widths, media in (("msgpack", "{0, 3, 5}" if quick else "{0, 1, 2, 3, 4, 5}", ["mem", "sstream"]),
                                ("json", "{0}" if quick else "{0, 1}", ["mem", "sstream"]),
                                ("xml", "{0}" if quick else "{0, 1}", ["mem", "sstream"])):
        tt = "{}" if (quick or arch != "msgpack") else "{}"
        sc = mp.gen("MC_LoadScript", dict({"Arch": '"%s"' % arch, "Mode": '"numeric"', "MaxOps": 0, "Widths": widths, "Pads": "{0}", "TypedTargets": tt}, **rng),
                    ["Export"], "c04-" + arch, chk, timeout=3000, xmx="8g")
        for lo in range(0, len(sc), 200000):
            part = sc[lo:lo + 200000]
            pairs = mp.replay(part, media, 8, "n" + arch[0], arch)
            mp.judge(chk, pairs, "%s numeric load" % arch)
            total += len(pairs)
        if arch == "xml":
            total += csv_cell_leg(chk, sc, keys)
        keys |= set((arch, json.dumps(s["doc"]), json.dumps(s["root"]), json.dumps(s["pol"])) for s in sc)
        chk.cov.setdefault("unspecified_scenarios", {})[arch] = sum(1 for s in sc if s["exp"]["exc"] == ["unspecified"])
        s = sc[len(sc) // 3]
        chk.sample({"archive": arch, "document": s["doc"][:40], "script": s["root"], "policies": s["pol"], "expected": s["exp"]})
        del sc
    if not quick:
        # exhaustive 16-bit sweep: every integer -32770..65540 x every arithmetic target x the four policy combinations, in the root
        # position of a MessagePack document (every integer format funnels through the same ConvertByPolicy as the other archives);
        # generated and replayed in slices so that no TLC run holds more than about a million scenarios
        for base, neg, pos in ((0, 32770, 0), (0, 0, 16000), (16000, 0, 17000), (33000, 0, 17000), (50000, 0, 15540)):
            sc = mp.gen("MC_LoadScript", {"Mode": '"numeric"', "MaxOps": 0, "Widths": "{0}", "Pads": "{0}", "NumBase": str(base), "NumNeg": str(neg),
                                          "NumPos": str(pos), "NumLeafOnly": "TRUE"},
                        ["Export"], "c04-sweep-%d" % (base - neg), chk, timeout=3000, xmx="10g")
            # the slice boundaries: keep only the integers of this slice (limits / floats / booleans were covered above)
            sc = [s for s in sc if s["doc"] and s["root"]["k"] == "leaf"]
            for b in range(0, len(sc), 200000):
                pairs = mp.replay(sc[b:b + 200000], ["mem"], 8, "sw")
                mp.judge(chk, pairs, "msgpack numeric sweep")
                total += len(pairs)
            chk.cov.setdefault("sweep_slices", []).append({"from": base - neg, "to": base + pos, "scenarios": len(sc)})
            del sc
    chk.add_cases(total, distinct_keys=keys, validated=total)
    return chk.finish()


def run(tier):
    return run_check(tier)


def replay(path):
    print(open(path).read())
    return run_check("quick")
