"""C01 - save then load reproduces the value, in every archive and output configuration."""
import json
import os
import vlib
from vlib import Check
from checks import mpcommon as mp

MODS = {"msgpack": "MC_SaveScript", "json": "MC_SaveJson", "xml": "MC_SaveXml"}


def roundtrip_leg(chk, tier, arch):
    quick = tier == "quick"
    inv = {"msgpack": "EncoderConsistent Export ExportWide", "json": "SpecRoundTrip Export ExportWide", "xml": "SpecRoundTrip Export ExportWide"}[arch]
    cfg = mp.write_cfg("mc_rt_%s.cfg" % arch, "SPECIFICATION Spec\nCONSTANT MaxMembers = %d\nINVARIANTS %s\n" % (1 if quick else 3, inv))
    r = vlib.tlc(MODS[arch], cfg=cfg, timeout=3000, xmx="6g")
    chk.add_tlc("%s (round trip scenarios)" % MODS[arch], r)
    scen = r.printed("GEN")
    rows = [dict({"id": "rt%s%d" % (arch[0], i), "root": s["root"], "pol": {"mm": "throw", "ov": "throw"}}, **({"opt": s["opt"]} if "opt" in s else {}))
            for i, s in enumerate(scen)]
    sp = os.path.join(vlib.scratch(), "rt_%s.ndjson" % arch)
    vlib.write_ndjson(sp, rows)
    obs = vlib.run_resumable([mp.harness(256, arch), "roundtrip", sp], timeout=2400)
    os.unlink(sp)
    n = 0
    for o in obs:
        s = scen[o["run"]]
        row = rows[o["run"]]
        if "e" in o:
            chk.fail("%s round trip: %s" % (arch, o["e"]), {"scenario": row, "observed": o})
            continue
        saved = o["excmem"] == ["none"] and o["excstream"] == ["none"]
        if s.get("expsave") == "throws":
            # value the format cannot carry: the save must fail with an exception (never a silent different document)
            if o["excmem"][0] == "none" or o["excstream"][0] == "none":
                chk.fail("%s: unrepresentable value was saved without an exception" % arch, {"scenario": row, "observed": o})
            n += 1
            continue
        if not saved:
            chk.fail("%s save raised %s / %s for a representable value" % (arch, json.dumps(o["excmem"]), json.dumps(o["excstream"])), {"scenario": row, "observed": o})
            continue
        opt = s.get("opt", {})
        loads = [("stream", o["loadstream"]), ("short-read stream", o["loadshort"])]
        if arch == "msgpack" or (opt.get("enc", "utf8") == "utf8" and not opt.get("bom")):
            loads.append(("memory(stream bytes)", None))
        loads.append(("memory", o["loadmem"]))
        for name, lo in loads:
            if lo is None:
                continue
            n += 1
            if mp.matches(s["exp"], lo):
                continue
            dev = None
            for d in s.get("expdev", []):
                if mp.matches(d["exp"], lo):
                    dev = d["dev"]
            chk.fail("%s round trip via %s: loaded %s after %d events, expected %s after %d events" % (
                arch, name, json.dumps(lo["exc"]), len(lo["ev"]), json.dumps(s["exp"]["exc"]), len(s["exp"]["ev"])),
                {"scenario": row, "expected": s["exp"], "observed": lo, "saved_bytes": o["mem"][:400]}, dev=dev)
    chk.add_cases(n, distinct_keys=((arch, json.dumps(x["root"]), json.dumps(x.get("opt"))) for x in rows), validated=n)
    chk.cov.setdefault("unspecified_scenarios", {})[arch] = sum(1 for s in scen if s["exp"]["exc"] == ["unspecified"])
    if rows:
        chk.sample({"archive": arch, "script": rows[len(rows) // 2]["root"], "opt": rows[len(rows) // 2].get("opt"), "expected_events": scen[len(rows) // 2]["exp"]})


def fixedpoint_leg(chk, tier, arch):
    """Load-save-load: documents rendered by the specification (every one the loader accepts) are loaded by a request
    script, what was loaded is saved with the same script, and the saved document is loaded again: same observations."""
    quick = tier == "quick"
    widths = {"msgpack": "{0, 2}" if quick else "{0, 1, 2, 4, 5}", "json": "{0, 1}" if quick else "{0, 1, 2, 3, 4, 5, 6, 7, 8}", "xml": "{0, 1}" if quick else "{0, 1, 2, 3, 4, 5, 6}"}[arch]
    sc = mp.gen("MC_LoadScript", {"Arch": '"%s"' % arch, "Mode": '"typed"', "MaxOps": 0, "Widths": widths, "Pads": "{0}"}, ["Export"], "fp-typed-" + arch, chk, timeout=3000, xmx="6g")
    sc += mp.gen("MC_LoadScript", {"Arch": '"%s"' % arch, "Mode": '"skip"', "MaxOps": 1 if quick else 2, "Widths": widths, "Pads": "{0}"},
                 ["Export"], "fp-skip-" + arch, chk, timeout=3000, xmx="6g")
    sc = [s for s in sc if s["root"]["k"] == "obj" and s["exp"]["exc"] == ["none"] and s.get("meta", {}).get("enc", "utf8") in ("utf8", "bin") and not s.get("meta", {}).get("bom")]
    rows = [{"id": "fp%s%d" % (arch[0], i), "pol": s["pol"], "doc": s["doc"], "root": s["root"]} for i, s in enumerate(sc)]
    sp = os.path.join(vlib.scratch(), "fp_%s.ndjson" % arch)
    vlib.write_ndjson(sp, rows)
    obs = vlib.run_resumable([mp.harness(256, arch), "fixedpoint", sp], timeout=2400)
    os.unlink(sp)
    for o in obs:
        row = rows[o["run"]]
        if "e" in o:
            chk.fail("%s load-save-load: %s" % (arch, o["e"]), {"scenario": row, "observed": o})
            continue
        f, s2 = o["first"], o["second"]
        if f["exc"] != ["none"]:
            continue            # the loader did not accept the document
        ok = o["excsave"] == ["none"] and s2 is not None and s2["exc"] == ["none"] and s2["ev"] == f["ev"]
        dev = None
        if not ok and arch == "xml" and o["excsave"] == ["none"] and s2 is not None and s2["exc"] == ["none"]:
            # guard of Dev_XmlNullOrEmptyContainerMismatch: the only difference is a scope in which nothing was loaded
            # (it is saved as an element without children, which XML cannot tell from null)
            def strip_empty_scopes(ev):
                out = []
                for e in ev:
                    out.append(e)
                    if e[0] == "close":
                        j = len(out) - 2
                        while j >= 0 and out[j][0] in ("req", "attr") and out[j][1] is False:
                            j -= 1
                        if j >= 0 and out[j] == ["open"]:
                            del out[j:]
                return out
            if strip_empty_scopes(f["ev"]) == strip_empty_scopes(s2["ev"]):
                dev = "Dev_XmlNullOrEmptyContainerMismatch"
        if not ok:
            chk.fail("%s load-save-load is not a fixed point: first load %d events, save %s, second load %s" % (
                arch, len(f["ev"]), json.dumps(o["excsave"]), "none" if s2 is None else json.dumps(s2["exc"])),
                {"scenario": row, "first": f, "saved": o["saved"][:400], "second": s2}, dev=dev)
    chk.add_cases(len(rows), distinct_keys=(("fp", arch, json.dumps(x["doc"]), json.dumps(x["root"])) for x in rows), validated=len(rows))


def run_check(tier):
    chk = Check("C01", tier)
    chk.cov["rule"] = ("case = (save script with typed values, archive, output configuration) saved by the real archive to memory and to a stream and "
                       "loaded back from memory, stringstream and a short-read stream with the mirrored script; the loaded events must equal what the "
                       "abstract semantics prescribes for the abstract document (independent of the bytes); distinct = distinct (script, configuration)")
    chk.assumptions += ["the produced documents themselves are judged by the independent parsers of C06 / C08 / C09, so a symmetric save/load error cannot hide",
                        "XML results are prescribed only where the archive's data model is unambiguous (see unspecified_scenarios)",
                        "CSV round trips are decided by C09 (tables) - the scripted driver here covers MsgPack, JSON and XML"]
    for arch in ("msgpack", "json", "xml"):
        roundtrip_leg(chk, tier, arch)
    for arch in ("msgpack", "json", "xml"):
        fixedpoint_leg(chk, tier, arch)
    return chk.finish()


def run(tier):
    return run_check(tier)


def replay(path):
    print(open(path).read())
    return run_check("quick")
