"""C12 - ill-formed UTF input is reported or replaced per policy, never propagated."""
import json
import os
import time
import vlib
from vlib import Check, build

from checks import utfcommon as uc


# (kind, number of first-unit shards, first-unit index range)
def gen_jobs(tier):
    jobs = [("u8x1", [(0, 0)]), ("u8long", [(0, 0)]), ("u8pair", [(0, 0)])]
    if tier == "quick":
        jobs += [("u8r2", [(1, 31)]), ("u8o3", [(1, 17)]), ("u8c4", [(k, k) for k in uc.pick(range(5, 18), 1)]),
                 ("u16", [(k, k) for k in sorted(set(uc.pick(range(1, 16), 2) + [7, 9]))]),
                 ("u32", [(k, k) for k in sorted(set(uc.pick(range(1, 24), 2) + [7, 15, 21]))])]
        jobs += [("u8x2", [(b, b) for b in uc.pick(range(0xC0, 0x100), 4)])]
    else:
        jobs += [("u8x2", [(b, b + 7) for b in range(0, 256, 8)]), ("u8c3", [(k, k) for k in range(1, 32)]),
                 ("u8c4", [(k, k) for k in range(1, 18)]), ("u16", [(k, k) for k in range(1, 16)]), ("u32", [(k, k) for k in range(1, 24)])]
    return jobs


def run_check(tier):
    uc.use_known_findings_override()
    chk = Check("C12", tier)
    chk.cov["rule"] = ("cases = (code-unit string, target width, policy/mark, observation) tuples executed on the real decoders/encoders/"
                       "Transcode and judged by Trace_Unicode12; distinct = distinct (source form, unit string, target width)")
    chk.assumptions += ["same-width copies are outside the property and are not executed",
                        "UnexpectedEnd is accepted when the rest of the input is a structurally truncated sequence (UTF-8 lead byte of the "
                        "2/3/4-byte bit pattern followed by fewer continuation bytes than announced; a final high surrogate)",
                        "under ThrowError the reported InvalidSequencesCount of the failing call is not constrained (0 or 1)"]
    uc.leg_mc_decstep(chk, tier)
    # --- generation by TLC
    genjobs = []
    outs = []
    for kind, shards in gen_jobs(tier):
        for lo, hi in shards:
            out = os.path.join(vlib.scratch(), "c12in-%s-%d.ndjson" % (kind, lo))
            outs.append((kind, out))
            genjobs.append(dict(module="Gen_Unicode12", cfg="Gen_Unicode12.cfg", env={"KIND": kind, "LO": lo, "HI": hi, "OUT": out},
                                workers=1, timeout=900, xmx="2g"))
    res = vlib.tlc_parallel(genjobs)
    nin = 0
    inputs = os.path.join(vlib.scratch(), "c12-inputs.ndjson")
    kinds = {}
    with open(inputs, "w") as f:
        for (kind, out), r in zip(outs, res):
            n = r.printed("ROWS")[0]["n"]
            with open(out) as g:
                k = 0
                for line in g:
                    line = line.strip()
                    if not line:
                        continue
                    k += 1
                    nin += 1
                    f.write('{"id":"%s-%d",%s\n' % (kind, nin, line[1:]))
            if k != n:
                raise vlib.MachineryError("generator %s wrote %d rows, announced %d" % (kind, k, n))
            kinds[kind] = kinds.get(kind, 0) + n
            os.unlink(out)
    chk.cov["generated_inputs"] = kinds
    # --- execution on the real code
    exe = build("utf_harness", ["utf_harness.cpp"], groups=())
    p = vlib.run([exe, "c12", inputs], timeout=1500)
    lines = [l for l in p.stdout.splitlines() if l.strip()]
    hang = [l for l in lines if l.startswith('{"e":')]
    for l in hang:
        chk.fail("a transcoding call did not return: %s" % l[:300], {"leg": "c12", "obs": json.loads(l)})
    lines = [l for l in lines if not l.startswith('{"e":')]
    if len(lines) != 2 * nin and not hang:
        raise vlib.MachineryError("harness logged %d records for %d inputs" % (len(lines), nin))
    # --- judgement by TLC
    checked, bad = vlib.validate_traces("Trace_Unicode12", lines, cfg="Trace_Unicode12.cfg", shards=vlib.NCPU, timeout=1700)
    nobs = 0
    byid = {}
    for l in lines:
        t = json.loads(l)
        byid[t["id"]] = t
        nobs += sum(len(r["pols"]) * (r["api"].count("|") + 1) for r in t["runs"])
    chk.add_cases(nobs, distinct_keys=((t["sf"], json.dumps(t["u"]), t["tw"]) for t in byid.values()), validated=checked)
    chk.sample({"leg": "c12", "record": byid[sorted(byid)[len(byid) // 2]]})
    uc.report_bad(chk, bad, byid, "C12")
    return chk.finish()


def run(tier):
    return run_check(tier)


def replay(path):
    """Re-executes the failing input of a replay file on the current tree and judges it again."""
    f = json.load(open(path))
    print(json.dumps(f, indent=1)[:3000])
    t = f["case"].get("record")
    if not t:
        return run_check("quick")
    uc.use_known_findings_override()
    chk = Check("C12", "quick")
    inputs = os.path.join(vlib.scratch(), "c12-replay.ndjson")
    vlib.write_ndjson(inputs, [{"id": "replay", "sf": t["sf"], "u": t["u"]}])
    exe = build("utf_harness", ["utf_harness.cpp"], groups=())
    lines = [l for l in vlib.run([exe, "c12", inputs], timeout=120).stdout.splitlines() if l.strip()]
    checked, bad = vlib.validate_traces("Trace_Unicode12", lines, cfg="Trace_Unicode12.cfg", shards=1)
    byid = {json.loads(l)["id"]: json.loads(l) for l in lines}
    chk.add_cases(len(lines), validated=checked)
    uc.report_bad(chk, bad, byid, "C12")
    return chk.finish()
