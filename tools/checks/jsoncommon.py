"""Shared legs of the JSON checks: save scripts -> real archive -> TLC strict parser; spec renderings -> real loader."""
import json
import os
import vlib
from checks import mpcommon as mp


def save_leg(chk, tier, label="json-save", arch="json"):
    quick = tier == "quick"
    mod, trace = ("MC_SaveJson", "Trace_SaveJson") if arch == "json" else ("MC_SaveXml", "Trace_SaveXml")
    cfg = mp.write_cfg("mc_save%s.cfg" % arch, "SPECIFICATION Spec\nCONSTANT MaxMembers = %d\nINVARIANTS SpecRoundTrip Export\n" % (1 if quick else 3))
    r = vlib.tlc(mod, cfg=cfg, timeout=3000, xmx="6g")
    chk.add_tlc(mod, r, {"MaxMembers": 1 if quick else 3})
    # documents longer than the writers' output buffers (2 KiB / 4 KiB steps)
    lcfg = mp.write_cfg("mc_savelong_%s.cfg" % arch, "SPECIFICATION Spec\nCONSTANTS\n  Lens = %s\n  EscChar = %d\nINVARIANT Export\n" % (
        "{2100}" if quick else "{2100, 4200, 8300}", 34 if arch == "json" else 60))
    rl = vlib.tlc("MC_SaveLong", cfg=lcfg, timeout=900)
    chk.add_tlc("MC_SaveLong (%s)" % arch, rl)

    def chunks():
        for part in r.printed_chunks("GEN", 30000):          # streamed: bounded memory whatever MaxMembers is
            yield part
        yield rl.printed("GEN")

    base = 0
    sampled = False
    for scen in chunks():
        rows = [{"id": "js%d" % (base + i), "root": s["root"], "opt": s["opt"]} for i, s in enumerate(scen)]
        base += len(rows)
        sp = os.path.join(vlib.scratch(), "savejson.ndjson")
        vlib.write_ndjson(sp, rows)
        obs = vlib.run_resumable([mp.harness(256, arch), "save", sp], timeout=1800)
        os.unlink(sp)
        lines = []
        for o in obs:
            if "e" in o:
                chk.fail("%s %s: %s" % (label, rows[o["run"]]["id"], o["e"]), {"scenario": rows[o["run"]], "observed": o})
                continue
            o["root"] = rows[o["run"]]["root"]
            o["opt"] = rows[o["run"]]["opt"]
            lines.append(json.dumps(o))
        checked, bad = vlib.validate_traces(trace, lines)
        byid = None
        for b in bad:
            if byid is None:
                byid = {json.loads(l)["id"]: json.loads(l) for l in lines}
            dev = b["why"][4:] if b["why"].startswith("dev:") else None
            chk.fail("%s save: %s" % (arch.upper(), b["why"]), {"record": byid[b["id"]], "verdict": b}, dev=dev)
        chk.add_cases(len(rows), distinct_keys=((arch + "save", json.dumps(x["root"]), json.dumps(x["opt"])) for x in rows), validated=checked)
        if not sampled and lines:
            t = json.loads(lines[len(lines) // 2])
            chk.sample({"leg": label, "script": t["root"], "opt": t["opt"], "memory_output": bytes(t["mem"]).decode("utf-8", "replace")[:200]})
            sampled = True
        del rows, obs, lines


def load_leg(chk, tier, mode, constants, invariants, media=("mem", "sstream", "short3"), label=None, arch="json"):
    # one rendering style per TLC run and replay batches of 50k scenarios: memory stays bounded however many styles are asked for
    styles = [x.strip() for x in str(constants.get("Widths", "{0}")).strip("{} ").split(",") if x.strip()]
    groups = [styles] if tier == "quick" else [[x] for x in styles]
    total = 0
    unspecified = 0
    for g in groups:
        cs = dict(constants, Widths="{" + ", ".join(g) + "}")
        for sc in mp.gen_chunks("MC_LoadScript", dict({"Arch": '"%s"' % arch, "Mode": '"%s"' % mode, "Pads": "{0}" if arch == "json" else "{2}"}, **cs),
                                invariants, arch + "-" + mode + "-w" + g[0], chk, timeout=3000, xmx="6g", chunk=50000):
            pairs = mp.replay(sc, list(media), 8, arch[0] + mode[0], arch)
            mp.judge(chk, pairs, label or ("%s %s load" % (arch.upper(), mode)))
            chk.add_cases(len(pairs), distinct_keys=((arch + "load", json.dumps(s["doc"]), json.dumps(s["root"]), json.dumps(s["pol"])) for s in sc), validated=len(pairs))
            unspecified += sum(1 for s in sc if s["exp"]["exc"] == ["unspecified"])
            if total == 0 and sc:
                s = sc[len(sc) // 2]
                chk.sample({"leg": arch + "-" + mode, "document": bytes(s["doc"]).decode("latin-1")[:160], "meta": s["meta"], "script": s["root"], "expected": s["exp"]})
            total += len(sc)
            del pairs, sc
    key = arch + "-" + mode
    chk.cov.setdefault("unspecified_scenarios", {})[key] = chk.cov.get("unspecified_scenarios", {}).get(key, 0) + unspecified
    return total
