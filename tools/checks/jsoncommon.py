"""Shared legs of the JSON checks: save scripts -> real archive -> TLC strict parser; spec renderings -> real loader."""
import json
import os
import vlib
from checks import mpcommon as mp


def save_leg(chk, tier, label="json-save"):
    quick = tier == "quick"
    cfg = mp.write_cfg("mc_savejson.cfg", "SPECIFICATION Spec\nCONSTANT MaxMembers = %d\nINVARIANTS SpecRoundTrip Export\n" % (1 if quick else 3))
    r = vlib.tlc("MC_SaveJson", cfg=cfg, timeout=3000, xmx="6g")
    chk.add_tlc("MC_SaveJson", r, {"MaxMembers": 1 if quick else 3})
    scen = r.printed("GEN")
    rows = [{"id": "js%d" % i, "root": s["root"], "opt": s["opt"]} for i, s in enumerate(scen)]
    sp = os.path.join(vlib.scratch(), "savejson.ndjson")
    vlib.write_ndjson(sp, rows)
    obs = vlib.run_resumable([mp.harness(256, "json"), "save", sp], timeout=1800)
    lines = []
    for o in obs:
        if "e" in o:
            chk.fail("%s %s: %s" % (label, rows[o["run"]]["id"], o["e"]), {"scenario": rows[o["run"]], "observed": o})
            continue
        o["root"] = rows[o["run"]]["root"]
        o["opt"] = rows[o["run"]]["opt"]
        lines.append(json.dumps(o))
    checked, bad = vlib.validate_traces("Trace_SaveJson", lines)
    byid = None
    for b in bad:
        if byid is None:
            byid = {json.loads(l)["id"]: json.loads(l) for l in lines}
        chk.fail("JSON save: %s" % b["why"], {"record": byid[b["id"]], "verdict": b})
    chk.add_cases(len(rows), distinct_keys=(("jsave", json.dumps(x["root"]), json.dumps(x["opt"])) for x in rows), validated=checked)
    if lines:
        t = json.loads(lines[len(lines) // 2])
        chk.sample({"leg": label, "script": t["root"], "opt": t["opt"], "memory_output": bytes(t["mem"]).decode("utf-8", "replace")[:200]})


def load_leg(chk, tier, mode, constants, invariants, media=("mem", "sstream", "short3"), label=None):
    sc = mp.gen("MC_LoadScript", dict({"Arch": '"json"', "Mode": '"%s"' % mode, "Pads": "{0}"}, **constants), invariants, "json-" + mode, chk, timeout=3000, xmx="6g")
    pairs = mp.replay(sc, list(media), 8, "j" + mode[0], "json")
    mp.judge(chk, pairs, label or ("JSON %s load" % mode))
    chk.add_cases(len(pairs), distinct_keys=(("jload", json.dumps(s["doc"]), json.dumps(s["root"]), json.dumps(s["pol"])) for s in sc), validated=len(pairs))
    if sc:
        s = sc[len(sc) // 2]
        chk.sample({"leg": "json-" + mode, "document": bytes(s["doc"]).decode("latin-1")[:160], "meta": s["meta"], "script": s["root"], "expected": s["exp"]})
    return len(sc)
