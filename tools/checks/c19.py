"""C19 - independent serializations on different threads do not interfere.

Pipeline (spec = oracle, nothing is judged in Python or C++):
  1. build harness/access_harness.cpp ("bsaccess", non-PIE, full RELRO) from the working tree of the repo;
  2. `bsaccess record`: raw access events (page-protection tracer + interposed __cxa_guard_*) of every catalogue
     operation, first call (cold) and second call (warm), each operation in a fresh process; heap blocks that were
     allocated (operator new) by code of the executable in one traced call and are still alive in the next one are
     traced as well (state that outlives an operation, e.g. a static pointer to a scratch buffer);
  3. glue (this file): addresses -> symbols (`nm -C`), documented trust filter, events -> access summaries in the
     vocabulary of spec/Threads.tla (r / w / gc, guard blocks);
  4. TLC on MC_Threads: ALL interleavings of the summaries for T threads x K operations per thread chosen from the
     plans; invariants NoRace and SequentialEquivalence; a violation comes back with the interleaving
     (-dumpTrace json) and is written out as the replay file;
  5. self-test (vacuity guard): a synthetic summary with an unguarded Write in a warmed-up operation MUST make TLC
     return the racing interleaving (exit 12), its guarded twin MUST pass;
  6. stress leg: `bsaccess stress T N seed` (real threads) -> per-thread results validated by Trace_Threads against
     the sequential golden results of the same binary.

Trust filter (what is NOT a shared location of the library; everything else in the traced segments is):
  * accesses made by the guard runtime itself inside __cxa_guard_acquire/release/abort (flag rt) - the guard protocol
    is modelled by Threads.tla instead;
  * writes whose instruction pointer lies in the dynamic loader (lazy PLT binding into libpugixml's .got.plt; the
    recorder additionally runs with LD_BIND_NOW=1);
  * objects of libc / libstdc++ that live in the executable because of COPY relocations (stdout, vtables, ...);
  * the tracer's own pages (never protected);
  libc / libstdc++ / libgcc keep their state in their own writable segments, which are not traced at all; thread-local
  storage, the stack, malloc'ed memory and heap blocks that die with their operation are outside the traced memory.
"""
import bisect
import json
import os
import re
import shutil
import subprocess

import vlib
from vlib import Check, MachineryError

EXTRA_FLAGS = ["-fno-pie", "-no-pie", "-Wl,-z,relro,-z,now"]
HARNESS_LIBS = ["-lpugixml", "-ldl"]


def write_file(name, text):
    p = os.path.join(vlib.scratch(), name)
    with open(p, "w") as f:
        f.write(text)
    return p


# ----------------------------------------------------------------------------------------------
# build + record
# ----------------------------------------------------------------------------------------------
def build_harness():
    exe = vlib.build("bsaccess", ["access_harness.cpp"], groups=("msgpack", "csv", "common"), libs=HARNESS_LIBS,
                     extra_flags=EXTRA_FLAGS)
    # the shared cache may be pruned by concurrently running checks: work on a private copy
    mine = os.path.join(vlib.scratch(), "bsaccess")
    if not os.path.exists(mine):
        shutil.copy2(exe, mine)
    return mine


def record(exe):
    p = vlib.run([exe, "record"], timeout=300, env={"LD_BIND_NOW": "1"})
    rows = [json.loads(l) for l in p.stdout.splitlines() if l.startswith("{")]
    if not rows or "segments" not in rows[0]:
        raise MachineryError("bsaccess record: no segment line")
    seg = rows[0]
    recs = rows[1:]
    for r in recs:
        if "crash" in r:
            raise MachineryError("bsaccess record: operation %s crashed under the tracer (status %s)" % (r["op"], r["crash"]))
        if r["dropped"]:
            raise MachineryError("bsaccess record: event buffer overflow in %s" % r["op"])
    return seg, recs


# ----------------------------------------------------------------------------------------------
# symbolisation
# ----------------------------------------------------------------------------------------------
_STD_STRING = "std::__cxx11::basic_string<char, std::char_traits<char>, std::allocator<char> >"


def _strip_brackets(s):
    """Readable short form of a demangled name: parameter lists (...) are emptied, template argument lists <...> are
    kept when short and elided to <> otherwise (nesting aware)."""
    s = s.replace(_STD_STRING, "std::string")
    s = s.replace("operator<<", "operator_shl").replace("operator<", "operator_lt").replace("operator>>", "operator_shr")
    s = s.replace("operator>", "operator_gt").replace("operator()", "operator_call").replace("(anonymous namespace)", "{anon}")

    def walk(i, closer):
        out = []
        while i < len(s):
            ch = s[i]
            if ch == closer:
                return "".join(out), i + 1
            if ch in "<(":
                inner, i = walk(i + 1, ">" if ch == "<" else ")")
                if ch == "(":
                    out.append("()")
                else:
                    out.append("<" + inner + ">" if len(inner) <= 44 else "<>")
                continue
            out.append(ch)
            i += 1
        return "".join(out), i
    return walk(0, None)[0]


class Symbols:
    """Data and function symbols of the harness executable (nm -C), COPY-relocated objects (readelf -r)."""

    def __init__(self, exe):
        out = vlib.run(["nm", "-C", "-n", "-S", "--defined-only", exe], timeout=120).stdout
        self.syms = []     # (addr, size, type, name)
        for line in out.splitlines():
            m = re.match(r"^([0-9a-f]{16}) ([0-9a-f]{16}) (\S) (.*)$", line)
            if m:
                self.syms.append((int(m.group(1), 16), int(m.group(2), 16), m.group(3), m.group(4)))
            else:
                m = re.match(r"^([0-9a-f]{16}) (\S) (.*)$", line)
                if m:
                    self.syms.append((int(m.group(1), 16), 0, m.group(2), m.group(3)))
        self.syms.sort()
        self.addrs = [s[0] for s in self.syms]
        rel = vlib.run(["readelf", "-rW", exe], timeout=120).stdout
        self.copy = set()
        for line in rel.splitlines():
            if "R_X86_64_COPY" in line:
                m = re.match(r"^([0-9a-f]+)\s", line)
                if m:
                    self.copy.add(int(m.group(1), 16))
        self._short = {}

    def lookup(self, addr):
        """(symbol address, size, type, name) of the symbol that covers addr, or None."""
        i = bisect.bisect_right(self.addrs, addr) - 1
        best = None
        while i >= 0:
            a, size, ty, name = self.syms[i]
            if a + max(size, 1) > addr >= a:
                if best is None or size > best[1]:
                    best = self.syms[i]
                if size:
                    break
            elif addr - a > 1 << 20:
                break
            elif size and a + size <= addr:
                break
            i -= 1
        return best

    def function(self, addr):
        i = bisect.bisect_right(self.addrs, addr) - 1
        while i >= 0:
            a, size, ty, name = self.syms[i]
            if ty in "tTwW" and a <= addr < a + max(size, 1):
                return name
            if addr - a > 1 << 16:
                break
            i -= 1
        return None

    def short(self, sym):
        """Readable, unique short name of a data symbol: template / parameter lists stripped, '@address' discriminator
        when two symbols share the stripped name (per-TU statics such as DefaultOptions, template instances)."""
        a, size, ty, name = sym
        key = (a, name)
        if key not in self._short:
            s = _strip_brackets(name)
            same = sorted(x[0] for x in self.syms if x[2] in "bBdDuvVgGsS" and _strip_brackets(x[3]) == s)
            if len(same) > 1:
                s += "@%x" % a
            self._short[key] = s
        return self._short[key]


# ----------------------------------------------------------------------------------------------
# raw events -> access summaries
# ----------------------------------------------------------------------------------------------
class Summaries:
    def __init__(self, exe, seg, recs):
        self.sy = Symbols(exe)
        self.seg = seg
        self.tracer = (int(seg["tracer_lo"], 16), int(seg["tracer_hi"], 16))
        self.locinfo = {}        # short location -> {"symbol": full name, "writers": set of functions}
        self.trusted = {}        # reason -> count
        self.guards = {}         # guard name -> list of accesses (block)
        self.ops = []            # {"name", "acc", "raw": counts}
        self.notes = []
        self._heapnames = {}
        # section tables of the other traced modules (libpugixml): GOT slots are loader-managed, not library state
        self.modsec = {}
        for sg in seg["segments"]:
            if sg["module"] != "exe" and os.path.exists(sg["path"]):
                secs = []
                for line in vlib.run(["readelf", "-SW", sg["path"]], timeout=60).stdout.splitlines():
                    m = re.match(r"^\s*\[\s*\d+\]\s+(\S+)\s+\S+\s+([0-9a-f]{16})\s+[0-9a-f]+\s+([0-9a-f]+)\s", line)
                    if m and int(m.group(3), 16):
                        secs.append((int(m.group(2), 16), int(m.group(3), 16), m.group(1)))
                self.modsec[sg["module"]] = secs
        for r in recs:
            self._one(r)

    # -- address -> (location, kind of location) --------------------------------------------
    def _trust(self, why):
        self.trusted[why] = self.trusted.get(why, 0) + 1

    def _loc(self, a):
        """Returns (short name, is_guard_variable) or None when the address is trusted."""
        if a.startswith("heap:"):
            name = self._heapnames.get(int(a[5:].split("+")[0]), "heap block " + a[5:].split("+")[0])
            self.locinfo.setdefault(name, {"symbol": name + " (heap block that outlives an operation)", "writers": set()})
            return name, False
        if a.startswith("exe:"):
            addr = int(a[4:], 16)
            if self.tracer[0] <= addr < self.tracer[1]:
                self._trust("tracer state")
                return None
            sym = self.sy.lookup(addr)
            if sym is None:
                name = "exe+0x%x" % (addr & ~7)
                self.locinfo.setdefault(name, {"symbol": name, "writers": set()})
                return name, False
            if sym[0] in self.sy.copy:
                self._trust("COPY-relocated libc/libstdc++ object " + sym[3])
                return None
            name = self.sy.short(sym)
            self.locinfo.setdefault(name, {"symbol": sym[3], "writers": set()})
            return name, sym[3].startswith("guard variable for ")
        # another module: module+0xoffset (8-byte granules)
        m = re.match(r"^(.*)\+0x([0-9a-f]+)$", a)
        if not m:
            raise MachineryError("unexpected address form %r" % a)
        mod, off = m.group(1), int(m.group(2), 16)
        name = "%s+0x%x" % (mod, off & ~7)
        for key, secs in self.modsec.items():
            if key.startswith(mod) or mod.startswith(key):
                for a0, size, sec in secs:
                    if a0 <= off < a0 + size:
                        if sec in (".got", ".got.plt"):
                            self._trust("GOT slot of %s (dynamic loader)" % mod)
                            return None
                        name = "%s:%s+0x%x" % (mod, sec, (off - a0) & ~7)
        self.locinfo.setdefault(name, {"symbol": name, "writers": set()})
        return name, False

    def _ipname(self, ip):
        if ip.startswith("exe:"):
            f = self.sy.function(int(ip[4:], 16))
            return _strip_brackets(f) if f else ip
        return ip

    # -- one recorded call ------------------------------------------------------------------
    def _one(self, r):
        name = "%s.%s" % (r["op"], r["phase"])
        # heap blocks that were allocated by code of the executable in an earlier traced call and are still alive: named by
        # their allocation site, so that the same block has the same name in every operation's summary
        self._heapnames = {}
        persite = {}
        for h in sorted(r.get("heap", []), key=lambda h: h["id"]):
            site = self._ipname(h["site"])
            persite[site] = persite.get(site, 0) + 1
            self._heapnames[h["id"]] = "heap block #%d allocated in %s" % (persite[site], site)
        # frames: (guard name or None, list of accesses)
        stack = [(None, [])]
        raw = {"r": 0, "w": 0, "guard_events": 0, "trusted": 0}
        guard_by_addr = {}
        for e in r["ev"]:
            k = e["k"]
            if k in "rw":
                if e["rt"]:
                    self._trust("guard runtime (__cxa_guard_*) access to the guard variable")
                    raw["trusted"] += e["n"]
                    continue
                if e["ip"].startswith("ld-linux") or e["ip"].startswith("ld.so") or e["ip"].startswith("ld-"):
                    self._trust("dynamic loader (lazy PLT binding)")
                    raw["trusted"] += e["n"]
                    continue
                lo = self._loc(e["a"])
                if lo is None:
                    raw["trusted"] += e["n"]
                    continue
                loc, isguard = lo
                raw[k] += e["n"]
                if isguard and k == "r":
                    # the inlined fast-path check of a function-local static: acquire-load of the guard byte
                    stack[-1][1].append({"k": "gc", "l": loc})
                    continue
                if k == "w":
                    self.locinfo[loc]["writers"].add(self._ipname(e["ip"]))
                stack[-1][1].append({"k": k, "l": loc})
            elif k == "a":
                raw["guard_events"] += 1
                lo = self._loc(e["a"])
                gname = lo[0] if lo else "guard@" + e["a"]
                guard_by_addr[e["a"]] = gname
                # the call itself is a check; drop a directly preceding inlined check of the same guard
                acc = stack[-1][1]
                if not (acc and acc[-1] == {"k": "gc", "l": gname}):
                    acc.append({"k": "gc", "l": gname})
            elif k == "A":
                stack.append((guard_by_addr.get(e["a"], "guard@" + e["a"]), []))
            elif k in "gx":
                g, block = stack.pop()
                if g is None or g != guard_by_addr.get(e["a"]):
                    raise MachineryError("unbalanced guard events in %s" % name)
                if k == "x":
                    self.notes.append("initialisation of %s aborted by an exception in %s" % (g, name))
                block = self._canon(block)
                if g in self.guards and self.guards[g] != block:
                    raise MachineryError("guard block of %s recorded with two different contents" % g)
                self.guards[g] = block
            else:
                raise MachineryError("unknown event kind %r" % k)
        if len(stack) != 1:
            raise MachineryError("operation %s ended inside a guard block" % name)
        self.ops.append({"name": name, "op": r["op"], "phase": r["phase"], "acc": self._canon(stack[0][1]), "raw": raw,
                         "res": r["res"]})

    @staticmethod
    def _canon(acc):
        """Canonical form of a synchronisation-free segment: the distinct (kind, location) pairs in first-occurrence
        order; a location both read and written in the segment is one Update (kind u), a Write subsumes nothing else.  Sound and complete for happens-before race detection:
        between two guard events a thread neither acquires nor releases, so all accesses of the segment have the same
        happens-before relation to every access of another thread.  Guard checks delimit segments; a repeated check of a
        guard that is already known to be done within the same operation is kept only once per segment."""
        out = []
        seg = []

        def flush():
            written = {a["l"] for a in seg if a["k"] == "w"}
            read = {a["l"] for a in seg if a["k"] == "r"}
            seen = set()
            for a in seg:
                if a["l"] in seen:
                    continue
                seen.add(a["l"])
                out.append({"k": ("u" if a["l"] in read else "w") if a["l"] in written else "r", "l": a["l"]})
            del seg[:]
        checked = set()
        for a in acc:
            if a["k"] == "gc":
                if a["l"] in checked:
                    continue      # second check of the same guard in this operation: already synchronised
                flush()
                checked.add(a["l"])
                out.append(a)
            else:
                seg.append(a)
        flush()
        return out

    # -- the model's operation constants ---------------------------------------------------
    def classes(self):
        """Operations with identical canonical summaries are one operation of the model (representative = first member)."""
        by = {}
        order = []
        for o in self.ops:
            key = json.dumps(o["acc"], sort_keys=True)
            if key not in by:
                by[key] = {"name": o["name"], "acc": o["acc"], "members": []}
                order.append(key)
            by[key]["members"].append(o["name"])
        return [by[k] for k in order]

    def lines(self, plans):
        rows = [{"kind": "op", "name": c["name"], "acc": c["acc"], "members": c["members"]} for c in self.classes()]
        rows += [{"kind": "guard", "name": g, "acc": b} for g, b in sorted(self.guards.items())]
        rows += [{"kind": "plan", "slots": p} for p in plans]
        return rows


def used_kinds(classes, guards):
    n = {"r": 0, "w": 0, "u": 0, "gc": 0}
    for c in classes:
        for a in c["acc"]:
            n[a["k"]] += 1
    return n


# ----------------------------------------------------------------------------------------------
# TLC on the summaries
# ----------------------------------------------------------------------------------------------
INVARIANTS = "InvNoRace InvSequentialEquivalence InvGuardDiscipline InvProgress"
REQUIRED_ACTIONS = ["DoSilentRead", "DoRead", "DoInitWrite", "DoGuardPass", "DoGuardAcquire", "DoGuardRelease", "DoEndOp"]
_run_no = [0]


def action_counts(out):
    res = {}
    for m in re.finditer(r"<(Do\w+) line \d+, col \d+ to line \d+, col \d+ of module MC_Threads[^>]*>: (\d+):(\d+)", out):
        res[m.group(1)] = max(res.get(m.group(1), 0), int(m.group(3)))
    return res


def run_model(label, rows, T, fuse, chk=None, timeout=1500, coverage=False, workers=8, xmx="4g"):
    """TLC over all interleavings of the program assignments allowed by the plan lines in rows.
    Returns (TlcResult, violation or None); violation = {"invariant", "trace": decoded counterexample}."""
    _run_no[0] += 1
    tag = "%d-%d" % (os.getpid(), _run_no[0])
    sp = os.path.join(vlib.scratch(), "summaries-%s.ndjson" % tag)
    vlib.write_ndjson(sp, rows)
    cfg = write_file("mc_threads-%s.cfg" % tag, "SPECIFICATION Spec\nCONSTANTS\n  T = %d\n  Fuse = %s\nINVARIANTS %s\n" % (
        T, "TRUE" if fuse else "FALSE", INVARIANTS))
    tr = os.path.join(vlib.scratch(), "cex-%s.json" % tag)
    r = vlib.tlc("MC_Threads", cfg=cfg, env={"SUMMARIES": sp}, workers=workers, timeout=timeout, xmx=xmx,
                 coverage=coverage, allow=(0, 12), extra=["-dumpTrace", "json", tr])
    if chk is not None:
        chk.add_tlc(label, r, {"T": T, "fuse_silent_reads": fuse,
                               "plans": [[len(s) for s in x["slots"]] for x in rows if x["kind"] == "plan"]})
    viol = None
    if r.rc == 12:
        m = re.search(r"Invariant (\w+) is violated", r.out)
        if not m or not os.path.exists(tr):
            raise MachineryError("TLC reported a violation on %s without invariant name / trace:\n%s" % (label, r.out[-3000:]))
        with open(tr) as f:
            cex = json.load(f)
        viol = {"invariant": m.group(1), "run": label, "T": T, "fuse_silent_reads": fuse,
                "trace": decode_trace(cex, rows)}
    for p in (sp, tr):
        if os.path.exists(p):
            os.unlink(p)
    return r, viol


def decode_trace(cex, rows):
    """TLC counterexample (states of the single variable m) -> programs, the interleaving as a list of steps, the race /
    divergence record."""
    ops = {x["name"]: x["acc"] for x in rows if x["kind"] == "op"}
    blocks = {x["name"]: x["acc"] for x in rows if x["kind"] == "guard"}
    states = [s[1]["m"] for s in cex["counterexample"]["state"]]
    steps = []
    for a, b in zip(states, states[1:]):
        for t in range(len(a["slot"])):
            if a["slot"][t] != b["slot"][t] or a["stack"][t] != b["stack"][t]:
                top = a["stack"][t][-1]
                opname = a["prog"][t][a["slot"][t] - 1]
                seq = ops[opname] if top["g"] == "" else blocks.get(top["g"], [])
                kind, loc = "", ""
                if top["i"] > len(seq):
                    what = "end of operation" if top["g"] == "" else "GuardRelease(%s)" % top["g"]
                else:
                    acc = seq[top["i"] - 1]
                    kind, loc = acc["k"], acc["l"]
                    if acc["k"] == "gc":
                        st = a["guard"][acc["l"]]["st"]
                        what = ("GuardCheck(%s): initialised, synchronises" if st == "done" else "GuardAcquire(%s): runs the initialiser") % acc["l"]
                    elif acc["k"] == "r":
                        what = "Read(%s)" % acc["l"]
                    elif top["g"] != "":
                        what = "InitWrite(%s, %s)" % (top["g"], acc["l"])
                    else:
                        what = ("Write(%s)" if acc["k"] == "w" else "Update(%s)") % acc["l"]
                steps.append({"thread": t + 1, "op": opname, "slot": a["slot"][t], "in": top["g"], "i": top["i"], "k": kind, "l": loc, "step": what})
    last = states[-1]
    return {"programs": last["prog"], "interleaving": steps, "race": last["race"], "diverged": last["diverged"]}


def first_access_of_race(trace):
    """The earlier access of the racy pair: last access of thread u to the location, of the kind named by the race."""
    race = trace["race"]
    want = ("w", "u") if race["firstk"] == "w" else ("r", "u")
    for s in reversed(trace["interleaving"][:-1]):
        if s["thread"] == race["u"] and s["k"] in want and s["l"] == race["loc"]:
            return s
    return None


# ----------------------------------------------------------------------------------------------
# legs
# ----------------------------------------------------------------------------------------------
def leg_selftest(chk, S):
    """Vacuity guard: the same model, the recorded summaries plus ONE synthetic defect.  An unguarded Write added to a
    warmed-up operation MUST come back as a NoRace counterexample (TLC exit 12) on exactly that location; the same write
    placed inside the initialiser of a guard (InitWrite) MUST be accepted."""
    # (0) the static synthetic summary shipped with the spec
    rows0 = vlib.read_ndjson(os.path.join(vlib.SPEC, "Threads_selftest.ndjson"))
    r0, viol0 = run_model("selftest: spec/Threads_selftest.ndjson (must be found)", rows0, 2, False, chk, timeout=600, workers=2, xmx="1g")
    if viol0 is None or viol0["invariant"] != "InvNoRace" or viol0["trace"]["race"]["loc"] != "scratch_buffer":
        raise MachineryError("self-test failed: no NoRace counterexample for spec/Threads_selftest.ndjson (exit %d)" % r0.rc)
    # (1), (2) the recorded summaries plus one synthetic access
    cl = S.classes()
    ng = lambda c: sum(1 for a in c["acc"] if a["k"] == "gc")
    withg = [c for c in cl if ng(c)]
    host = min(withg, key=lambda c: (ng(c), len(c["acc"]))) if withg else max(cl, key=lambda c: len(c["acc"]))
    loc = "selftest::scratch_buffer"
    # the host's own plain writes (a real defect of the tree under test) are left out: the self-test must fail or pass
    # because of the synthetic access only
    hostacc = [a for a in host["acc"] if a["k"] not in "wu"]
    clean = {"kind": "op", "name": "selftest.clean", "acc": hostacc, "members": ["selftest.clean"]}
    racy = {"kind": "op", "name": "selftest.racy", "acc": hostacc + [{"k": "u", "l": loc}], "members": ["selftest.racy"]}
    base = [r for r in S.lines([]) if r["kind"] == "guard"]
    rows = base + [clean, racy, {"kind": "plan", "slots": [["selftest.clean", "selftest.racy"]]}]
    r, viol = run_model("selftest: synthetic unguarded write (must be found)", rows, 2, False, chk, timeout=600, workers=4, xmx="2g")
    if viol is None or viol["invariant"] != "InvNoRace" or viol["trace"]["race"]["loc"] != loc:
        raise MachineryError("self-test failed: TLC did not return the racing interleaving for the synthetic unguarded write "
                             "(exit %d, %s)" % (r.rc, viol and (viol["invariant"], viol["trace"]["race"])))
    guards = [a["l"] for a in hostacc if a["k"] == "gc"]
    if guards:
        g = guards[0]
        rows2 = [dict(x, acc=x["acc"] + [{"k": "w", "l": loc}]) if x["name"] == g else x for x in base]
        reader = {"kind": "op", "name": "selftest.guarded", "acc": hostacc + [{"k": "r", "l": loc}], "members": ["selftest.guarded"]}
        rows2 += [clean, reader, {"kind": "plan", "slots": [["selftest.clean", "selftest.guarded"]]}]
        r2, viol2 = run_model("selftest: the same write inside a guard (must pass)", rows2, 2, False, chk, timeout=600, workers=4, xmx="2g")
        if viol2 is not None:
            raise MachineryError("self-test failed: a guarded InitWrite was reported as %s" % viol2["invariant"])
    chk.sample({"leg": "selftest", "synthetic_race": viol["trace"]["race"], "interleaving_steps": len(viol["trace"]["interleaving"])})
    return len(viol["trace"]["interleaving"])


def describe(S, viol):
    tr = viol["trace"]
    if viol["invariant"] == "InvNoRace":
        race = tr["race"]
        second = tr["interleaving"][-1]
        first = first_access_of_race(tr)
        info = S.locinfo.get(race["loc"], {})
        what = "data race on shared location %s: thread %d %s in %s is not ordered by happens-before with thread %d %s in %s" % (
            race["loc"], race["t"], second["step"], second["op"], race["u"], first["step"] if first else ("last %s" % race["firstk"]),
            first["op"] if first else "?")
        if info.get("writers"):
            what += "; written by " + ", ".join(sorted(info["writers"]))[:300]
        key = ("race", race["loc"])
    elif viol["invariant"] == "InvSequentialEquivalence":
        d = tr["diverged"]
        what = "a read of %s by thread %d in %s returns %s, sequentially it returns %s" % (
            d["loc"], d["t"], d["at"]["op"], json.dumps(d["saw"]), json.dumps(d["expected"]))
        key = ("diverged", d["loc"])
    else:
        what = "model invariant %s violated on the recorded summaries" % viol["invariant"]
        key = (viol["invariant"], "")
    return what, key


def report(chk, S, viol, seen):
    what, key = describe(S, viol)
    if key in seen:
        return
    seen.add(key)
    used = set(n for p in viol["trace"]["programs"] for n in p)
    rows = [r for r in S.lines([]) if r["kind"] == "guard" or (r["kind"] == "op" and r["name"] in used)]
    loc = viol["trace"]["race"]["loc"] or viol["trace"]["diverged"]["loc"]
    chk.fail(what, {"leg": "model", "invariant": viol["invariant"], "tlc_run": viol["run"], "T": viol["T"],
                    "fuse_silent_reads": viol["fuse_silent_reads"], "programs": viol["trace"]["programs"],
                    "race": viol["trace"]["race"], "diverged": viol["trace"]["diverged"],
                    "interleaving": viol["trace"]["interleaving"],
                    "location": {"name": loc, "symbol": S.locinfo.get(loc, {}).get("symbol"),
                                 "writers": sorted(S.locinfo.get(loc, {}).get("writers", []))},
                    "summaries": rows})


class Sizer:
    """Estimates the number of distinct model states of a plan (calibrated on measured TLC runs: product of the threads'
    step counts, times 1.35 per additional thread that checks the same guard) and picks seeded subsets of the operation
    classes that fit a state budget.  Only sizes the bounded configurations; it decides nothing."""

    def __init__(self, S, rng):
        self.S = S
        self.rng = rng
        self.cl = {c["name"]: c for c in S.classes()}
        self.names = list(self.cl)
        self.W = set(a["l"] for c in self.cl.values() for a in c["acc"] if a["k"] in "wu") | \
            set(a["l"] for b in S.guards.values() for a in b if a["k"] in "wu")
        self._steps = {}

    def steps(self, name, fuse):
        key = (name, fuse)
        if key not in self._steps:
            n = 0
            prev = False
            for a in self.cl[name]["acc"]:
                silent = a["k"] == "r" and a["l"] not in self.W
                if silent and fuse:
                    n += 0 if prev else 1
                else:
                    n += 1
                    if a["k"] == "gc":
                        n += len(self.S.guards.get(a["l"], [])) + 1
                prev = silent
            self._steps[key] = n + 1
        return self._steps[key]

    def guards(self, name):
        return set(a["l"] for a in self.cl[name]["acc"] if a["k"] == "gc")

    def estimate(self, slots, T, fuse):
        import itertools
        progs = list(itertools.product(*slots))
        info = [(sum(self.steps(o, fuse) for o in p) + 1, set().union(*[self.guards(o) for o in p])) for p in progs]
        tot = 0.0
        for asg in itertools.combinations_with_replacement(range(len(progs)), T):
            e = 1.0
            cnt = {}
            for i in asg:
                e *= info[i][0]
                for g in info[i][1]:
                    cnt[g] = cnt.get(g, 0) + 1
            for n in cnt.values():
                e *= 1.35 ** (n - 1)
            tot += e
        return tot

    def pick(self, sizes, T, fuse, budget, fixed_first=None):
        """Seeded choice of one plan (list of slots) with estimate <= budget, as large as possible; at least one class with
        guard checks or writes in every plan when there is one."""
        interesting = [n for n in self.names if self.guards(n) or any(a["k"] in "wu" for a in self.cl[n]["acc"])]
        sizes = list(sizes)
        while True:
            best = None
            for _ in range(60):
                slots = [list(fixed_first)] if fixed_first else []
                for n in sizes[len(slots):]:
                    slots.append(self.rng.sample(self.names, min(n, len(self.names))))
                if interesting and not any(o in interesting for sl in slots for o in sl):
                    continue
                e = self.estimate(slots, T, fuse)
                if e <= budget and (best is None or e > best[0]):
                    best = (e, slots)
            if best:
                return best[1], best[0]
            k = max(range(len(sizes)), key=lambda i: sizes[i] if not (fixed_first and i == 0) else -1)
            if sizes[k] <= 1:
                slots = [list(fixed_first)] if fixed_first else []
                slots += [[min(self.names, key=lambda n: self.steps(n, fuse))] for _ in sizes[len(slots):]]
                return slots, self.estimate(slots, T, fuse)
            sizes[k] -= 1


def leg_model(chk, S, tier):
    import random
    rng = random.Random(vlib.seed())
    sz = Sizer(S, rng)
    names = sz.names
    quick = tier == "quick"
    runs = []
    # A: every pair of catalogue operations, one per thread, every access its own step
    runs.append(("T=2 K=1 all pairs, every access a step", [names], 2, False, not quick, None))
    if quick:
        runs.append(("T=2 K=1 seeded subset, every access a step, per-action coverage", [5], 2, False, True, 25000))
        runs.append(("T=2 K=2 seeded subset", [6, 3], 2, True, False, 150000))
        runs.append(("T=3 K=1 seeded subset", [4], 3, True, False, 150000))
    else:
        runs.append(("T=2 K=2 all x seeded subset", [names, 5], 2, True, False, 5000000))
        runs.append(("T=3 K=1 seeded subset", [7], 3, True, False, 5000000))
        runs.append(("T=3 K=2 seeded subset", [3, 2], 3, True, False, 2500000))
    seen = set()
    taken = {}
    configs = 0
    plans_used = []
    for label, spec, T, fuse, cov, budget in runs:
        if budget is None:
            slots, est = [spec[0]], sz.estimate([spec[0]], T, fuse)
        elif isinstance(spec[0], list):
            slots, est = sz.pick([len(spec[0])] + spec[1:], T, fuse, budget, fixed_first=spec[0])
        else:
            slots, est = sz.pick(spec, T, fuse, budget)
        r, viol = run_model(label, S.lines([slots]), T, fuse, chk, timeout=1500 if quick else 3000, coverage=cov)
        plans_used.append({"run": label, "T": T, "slots": slots, "estimated_states": int(est), "distinct_states": r.distinct})
        m = re.search(r"Finished computing initial states: (\d+) distinct", r.out)
        configs += int(m.group(1)) if m else 0
        for k, v in action_counts(r.out).items():
            taken[k] = taken.get(k, 0) + v
        if viol is not None:
            report(chk, S, viol, seen)
    missing = [a for a in REQUIRED_ACTIONS if not taken.get(a)]
    has_guards = any(a["k"] == "gc" for c in sz.cl.values() for a in c["acc"])
    if not seen:
        hard = [a for a in missing if has_guards or a in ("DoEndOp",)]
        if hard:
            raise MachineryError("vacuity: actions never taken by TLC on the recorded summaries: %s" % hard)
    chk.cov["actions_taken"] = taken
    chk.cov["plans"] = plans_used
    chk.add_cases(configs, distinct_keys=(("class", n) for n in names))
    return seen


def leg_stress(chk, exe, tier):
    """Real threads: T threads x N seeded random catalogue operations; every logged result must equal the sequential
    golden result of the same binary (decided by Trace_Threads / Threads!ResultVerdict)."""
    T, N = (4, 1500) if tier == "quick" else (8, 12000)
    rounds = 1 if tier == "quick" else 3
    total = 0
    for k in range(rounds):
        p = vlib.run([exe, "stress", str(T), str(N), str(vlib.seed() + k)], timeout=1500, check=False)
        lines = [l for l in p.stdout.splitlines() if l.startswith("{")]
        golden = [l for l in lines if '"kind":"golden"' in l]
        runs = [l for l in lines if '"kind":"run"' in l]
        if p.returncode != 0:
            if not golden:
                raise MachineryError("bsaccess stress failed before any thread ran (exit %d): %s" % (p.returncode, p.stderr[-2000:]))
            chk.fail("the %d-thread stress run terminated abnormally (exit %d) although the same operations complete sequentially" % (T, p.returncode),
                     {"leg": "stress", "threads": T, "ops_per_thread": N, "seed": vlib.seed() + k, "exit": p.returncode,
                      "stderr": p.stderr[-1500:]})
            continue
        if len(runs) != T * N:
            raise MachineryError("bsaccess stress logged %d of %d results" % (len(runs), T * N))
        gp = write_file("golden-%d-%d.ndjson" % (os.getpid(), k), "\n".join(golden) + "\n")
        cfg = write_file("trace_threads.cfg", "INIT Init\nNEXT Next\n")
        checked, bad = vlib.validate_traces("Trace_Threads", runs, cfg=cfg, env={"GOLDEN": gp}, shards=min(8, max(1, len(runs) // 4000)))
        total += checked
        byop = {}
        for b in bad:
            byop.setdefault(b["op"], []).append(b)
        for op, bs in sorted(byop.items()):
            chk.fail("operation %s gave a different result under %d threads than sequentially (%d of the logged runs; %s instead of %s)" % (
                op, T, len(bs), bs[0]["res"], bs[0]["expected"]),
                {"leg": "stress", "threads": T, "ops_per_thread": N, "seed": vlib.seed() + k, "verdicts": bs[:5]})
        if k == 0:
            chk.sample({"leg": "stress", "threads": T, "ops_per_thread": N, "golden": json.loads(golden[0]), "run": json.loads(runs[len(runs) // 2])})
    chk.add_cases(total, validated=total)
    return total


# ----------------------------------------------------------------------------------------------
def run_check(tier):
    chk = Check("C19", tier)
    chk.cov["rule"] = ("states/transitions = TLC over MC_Threads: all interleavings of the access summaries recorded from the real code, "
                       "for every program assignment of the plans (cases = program assignments + stress results validated; "
                       "distinct = operation classes with distinct canonical summaries)")
    chk.assumptions += [
        "shared locations = objects in the writable segments of the harness executable (library code is compiled into it) and of "
        "libpugixml, plus operator-new blocks allocated by that code which outlive an operation; libc / libstdc++ / libgcc internals, the dynamic "
        "loader (GOT), thread-local storage, the stack, malloc'ed memory (RapidJSON / pugixml DOM) and short-lived heap blocks are trusted / not traced",
        "operations = the C19 catalogue of harness/access_harness.cpp; an access summary is the one recorded on x86-64 Linux, g++ -O1, for the catalogue inputs",
        "a synchronisation-free segment is represented by its distinct (kind, location) pairs (exact for happens-before race detection); "
        "in the larger configurations runs of reads of locations that no summary writes are one step (Fuse)",
        "C++11 guard semantics ([stmt.dcl]/4) as modelled in Threads.tla; static initialisation and everything before thread start happen-before all thread steps",
    ]
    exe = build_harness()
    seg, recs = record(exe)
    S = Summaries(exe, seg, recs)
    cl = S.classes()
    chk.cov["catalogue_operations"] = sorted(set(o["op"] for o in S.ops))
    chk.cov["operation_classes"] = [{"name": c["name"], "members": c["members"], "accesses": len(c["acc"]),
                                     "reads": sum(1 for a in c["acc"] if a["k"] == "r"),
                                     "guard_checks": sum(1 for a in c["acc"] if a["k"] == "gc"),
                                     "writes": sum(1 for a in c["acc"] if a["k"] in "wu")} for c in cl]
    chk.cov["raw_accesses_per_operation"] = {o["name"]: o["raw"] for o in S.ops}
    chk.cov["locations"] = {k: {"symbol": v["symbol"], "init_writers": sorted(v["writers"])} for k, v in sorted(S.locinfo.items())}
    chk.cov["guards"] = {g: [a["l"] for a in b] for g, b in sorted(S.guards.items())}
    chk.cov["trusted_accesses_filtered"] = S.trusted
    chk.cov["traced_segments"] = seg["segments"]
    if S.notes:
        chk.notes += S.notes
    chk.sample({"leg": "record", "operation": S.ops[0]["name"], "summary": S.ops[0]["acc"][:8]})
    leg_selftest(chk, S)
    leg_model(chk, S, tier)
    leg_stress(chk, exe, tier)
    return chk.finish(exhaustive="all interleavings of the recorded summaries for every program assignment of the stated plans; "
                                 "all pairs of catalogue operations for T=2, K=1")


def run(tier):
    return run_check(tier)


def replay(path):
    """Re-checks a recorded violation: TLC on the summaries stored in the replay file (the racing interleaving must come back),
    then the quick check on the current tree."""
    with open(path) as f:
        case = json.load(f)
    print(json.dumps({k: case["case"].get(k) for k in ("leg", "invariant", "programs", "race", "diverged", "location")}, indent=1))
    c = case["case"]
    if c.get("leg") == "model":
        for s in c["interleaving"]:
            print("  thread %d  %-28s %s" % (s["thread"], s["op"], s["step"]))
        # the plan allows every thread each of the recorded programs' operations per slot (includes the recorded assignment)
        slots = [sorted(set(p[k] for p in c["programs"])) for k in range(len(c["programs"][0]))]
        rows = c["summaries"] + [{"kind": "plan", "slots": slots}]
        r, viol = run_model("replay", rows, c["T"], c["fuse_silent_reads"], None, timeout=900, workers=4)
        print("replay of the recorded summaries: TLC exit %d%s" % (r.rc, (" - %s reproduced" % viol["invariant"]) if viol else " - not reproduced"))
    return run_check("quick")
