"""C19 - independent serializations on different threads do not interfere.

Pipeline (spec = oracle, nothing is judged in Python or C++):
  1. build harness/access_harness.cpp ("bsaccess", non-PIE, full RELRO) from the working tree of the repo;
  2. `bsaccess record`: raw access events (page-protection tracer + interposed __cxa_guard_*) of every catalogue
     operation, first call (cold) and second call (warm), each operation in a fresh process;
  3. glue (this file): addresses -> symbols (`nm -C`), documented trust filter, events -> access summaries in the
     vocabulary of spec/Threads.tla (r / w / gc, guard blocks);
  4. TLC on MC_Threads: ALL interleavings of the summaries for T threads x K operations per thread chosen from the
     plans; invariants NoRace and SequentialEquivalence; a violation comes back with the interleaving
     (-dumpTrace json) and is written out as the replay file;
  5. self-test (vacuity guard): a synthetic summary with an unguarded Write in a warmed-up operation MUST make TLC
     return the racing interleaving (exit 12), its guarded twin MUST pass;
  6. stress leg: `bsaccess stress T N seed` (real threads) -> per-thread results validated by Trace_Threads against
     the sequential golden results of the same binary.

Trust filter (what is NOT a shared location of the library; everything else in the traced segments is):
  * accesses made by the guard runtime itself inside __cxa_guard_acquire/release/abort (flag rt) - the guard protocol
    is modelled by Threads.tla instead;
  * writes whose instruction pointer lies in the dynamic loader (lazy PLT binding into libpugixml's .got.plt; the
    recorder additionally runs with LD_BIND_NOW=1);
  * objects of libc / libstdc++ that live in the executable because of COPY relocations (stdout, vtables, ...);
  * the tracer's own pages (never protected);
  libc / libstdc++ / libgcc keep their state in their own writable segments, which are not traced at all; thread-local
  storage, stack and heap are outside the traced segments by construction.
"""
import bisect
import json
import os
import re
import shutil
import subprocess

import vlib
from vlib import Check, MachineryError

EXTRA_FLAGS = ["-fno-pie", "-no-pie", "-Wl,-z,relro,-z,now"]
HARNESS_LIBS = ["-lpugixml", "-ldl"]


def write_file(name, text):
    p = os.path.join(vlib.scratch(), name)
    with open(p, "w") as f:
        f.write(text)
    return p


# ----------------------------------------------------------------------------------------------
# build + record
# ----------------------------------------------------------------------------------------------
def build_harness():
    exe = vlib.build("bsaccess", ["access_harness.cpp"], groups=("msgpack", "csv", "common"), libs=HARNESS_LIBS,
                     extra_flags=EXTRA_FLAGS)
    # the shared cache may be pruned by concurrently running checks: work on a private copy
    mine = os.path.join(vlib.scratch(), "bsaccess")
    if not os.path.exists(mine):
        shutil.copy2(exe, mine)
    return mine


def record(exe):
    p = vlib.run([exe, "record"], timeout=300, env={"LD_BIND_NOW": "1"})
    rows = [json.loads(l) for l in p.stdout.splitlines() if l.startswith("{")]
    if not rows or "segments" not in rows[0]:
        raise MachineryError("bsaccess record: no segment line")
    seg = rows[0]
    recs = rows[1:]
    for r in recs:
        if "crash" in r:
            raise MachineryError("bsaccess record: operation %s crashed under the tracer (status %s)" % (r["op"], r["crash"]))
        if r["dropped"]:
            raise MachineryError("bsaccess record: event buffer overflow in %s" % r["op"])
    return seg, recs


# ----------------------------------------------------------------------------------------------
# symbolisation
# ----------------------------------------------------------------------------------------------
_STD_STRING = "std::__cxx11::basic_string<char, std::char_traits<char>, std::allocator<char> >"


def _strip_brackets(s):
    """Readable short form of a demangled name: parameter lists (...) are emptied, template argument lists <...> are
    kept when short and elided to <> otherwise (nesting aware)."""
    s = s.replace(_STD_STRING, "std::string")
    s = s.replace("operator<<", "operator_shl").replace("operator<", "operator_lt").replace("operator>>", "operator_shr")
    s = s.replace("operator>", "operator_gt").replace("operator()", "operator_call").replace("(anonymous namespace)", "{anon}")

    def walk(i, closer):
        out = []
        while i < len(s):
            ch = s[i]
            if ch == closer:
                return "".join(out), i + 1
            if ch in "<(":
                inner, i = walk(i + 1, ">" if ch == "<" else ")")
                if ch == "(":
                    out.append("()")
                else:
                    out.append("<" + inner + ">" if len(inner) <= 44 else "<>")
                continue
            out.append(ch)
            i += 1
        return "".join(out), i
    return walk(0, None)[0]


class Symbols:
    """Data and function symbols of the harness executable (nm -C), COPY-relocated objects (readelf -r)."""

    def __init__(self, exe):
        out = vlib.run(["nm", "-C", "-n", "-S", "--defined-only", exe], timeout=120).stdout
        self.syms = []     # (addr, size, type, name)
        for line in out.splitlines():
            m = re.match(r"^([0-9a-f]{16}) ([0-9a-f]{16}) (\S) (.*)$", line)
            if m:
                self.syms.append((int(m.group(1), 16), int(m.group(2), 16), m.group(3), m.group(4)))
            else:
                m = re.match(r"^([0-9a-f]{16}) (\S) (.*)$", line)
                if m:
                    self.syms.append((int(m.group(1), 16), 0, m.group(2), m.group(3)))
        self.syms.sort()
        self.addrs = [s[0] for s in self.syms]
        rel = vlib.run(["readelf", "-rW", exe], timeout=120).stdout
        self.copy = set()
        for line in rel.splitlines():
            if "R_X86_64_COPY" in line:
                m = re.match(r"^([0-9a-f]+)\s", line)
                if m:
                    self.copy.add(int(m.group(1), 16))
        self._short = {}

    def lookup(self, addr):
        """(symbol address, size, type, name) of the symbol that covers addr, or None."""
        i = bisect.bisect_right(self.addrs, addr) - 1
        best = None
        while i >= 0:
            a, size, ty, name = self.syms[i]
            if a + max(size, 1) > addr >= a:
                if best is None or size > best[1]:
                    best = self.syms[i]
                if size:
                    break
            elif addr - a > 1 << 20:
                break
            elif size and a + size <= addr:
                break
            i -= 1
        return best

    def function(self, addr):
        i = bisect.bisect_right(self.addrs, addr) - 1
        while i >= 0:
            a, size, ty, name = self.syms[i]
            if ty in "tTwW" and a <= addr < a + max(size, 1):
                return name
            if addr - a > 1 << 16:
                break
            i -= 1
        return None

    def short(self, sym):
        """Readable, unique short name of a data symbol: template / parameter lists stripped, '@address' discriminator
        when two symbols share the stripped name (per-TU statics such as DefaultOptions, template instances)."""
        a, size, ty, name = sym
        key = (a, name)
        if key not in self._short:
            s = _strip_brackets(name)
            same = sorted(x[0] for x in self.syms if x[2] in "bBdDuvVgGsS" and _strip_brackets(x[3]) == s)
            if len(same) > 1:
                s += "@%x" % a
            self._short[key] = s
        return self._short[key]


# ----------------------------------------------------------------------------------------------
# raw events -> access summaries
# ----------------------------------------------------------------------------------------------
class Summaries:
    def __init__(self, exe, seg, recs):
        self.sy = Symbols(exe)
        self.seg = seg
        self.tracer = (int(seg["tracer_lo"], 16), int(seg["tracer_hi"], 16))
        self.locinfo = {}        # short location -> {"symbol": full name, "writers": set of functions}
        self.trusted = {}        # reason -> count
        self.guards = {}         # guard name -> list of accesses (block)
        self.ops = []            # {"name", "acc", "raw": counts}
        self.notes = []
        # section tables of the other traced modules (libpugixml): GOT slots are loader-managed, not library state
        self.modsec = {}
        for sg in seg["segments"]:
            if sg["module"] != "exe" and os.path.exists(sg["path"]):
                secs = []
                for line in vlib.run(["readelf", "-SW", sg["path"]], timeout=60).stdout.splitlines():
                    m = re.match(r"^\s*\[\s*\d+\]\s+(\S+)\s+\S+\s+([0-9a-f]{16})\s+[0-9a-f]+\s+([0-9a-f]+)\s", line)
                    if m and int(m.group(3), 16):
                        secs.append((int(m.group(2), 16), int(m.group(3), 16), m.group(1)))
                self.modsec[sg["module"]] = secs
        for r in recs:
            self._one(r)

    # -- address -> (location, kind of location) --------------------------------------------
    def _trust(self, why):
        self.trusted[why] = self.trusted.get(why, 0) + 1

    def _loc(self, a):
        """Returns (short name, is_guard_variable) or None when the address is trusted."""
        if a.startswith("exe:"):
            addr = int(a[4:], 16)
            if self.tracer[0] <= addr < self.tracer[1]:
                self._trust("tracer state")
                return None
            sym = self.sy.lookup(addr)
            if sym is None:
                name = "exe+0x%x" % (addr & ~7)
                self.locinfo.setdefault(name, {"symbol": name, "writers": set()})
                return name, False
            if sym[0] in self.sy.copy:
                self._trust("COPY-relocated libc/libstdc++ object " + sym[3])
                return None
            name = self.sy.short(sym)
            self.locinfo.setdefault(name, {"symbol": sym[3], "writers": set()})
            return name, sym[3].startswith("guard variable for ")
        # another module: module+0xoffset (8-byte granules)
        m = re.match(r"^(.*)\+0x([0-9a-f]+)$", a)
        if not m:
            raise MachineryError("unexpected address form %r" % a)
        mod, off = m.group(1), int(m.group(2), 16)
        name = "%s+0x%x" % (mod, off & ~7)
        for key, secs in self.modsec.items():
            if key.startswith(mod) or mod.startswith(key):
                for a0, size, sec in secs:
                    if a0 <= off < a0 + size:
                        if sec in (".got", ".got.plt"):
                            self._trust("GOT slot of %s (dynamic loader)" % mod)
                            return None
                        name = "%s:%s+0x%x" % (mod, sec, (off - a0) & ~7)
        self.locinfo.setdefault(name, {"symbol": name, "writers": set()})
        return name, False

    def _ipname(self, ip):
        if ip.startswith("exe:"):
            f = self.sy.function(int(ip[4:], 16))
            return _strip_brackets(f) if f else ip
        return ip

    # -- one recorded call ------------------------------------------------------------------
    def _one(self, r):
        name = "%s.%s" % (r["op"], r["phase"])
        # frames: (guard name or None, list of accesses)
        stack = [(None, [])]
        raw = {"r": 0, "w": 0, "guard_events": 0, "trusted": 0}
        guard_by_addr = {}
        for e in r["ev"]:
            k = e["k"]
            if k in "rw":
                if e["rt"]:
                    self._trust("guard runtime (__cxa_guard_*) access to the guard variable")
                    raw["trusted"] += e["n"]
                    continue
                if e["ip"].startswith("ld-linux") or e["ip"].startswith("ld.so") or e["ip"].startswith("ld-"):
                    self._trust("dynamic loader (lazy PLT binding)")
                    raw["trusted"] += e["n"]
                    continue
                lo = self._loc(e["a"])
                if lo is None:
                    raw["trusted"] += e["n"]
                    continue
                loc, isguard = lo
                raw[k] += e["n"]
                if isguard and k == "r":
                    # the inlined fast-path check of a function-local static: acquire-load of the guard byte
                    stack[-1][1].append({"k": "gc", "l": loc})
                    continue
                if k == "w":
                    self.locinfo[loc]["writers"].add(self._ipname(e["ip"]))
                stack[-1][1].append({"k": k, "l": loc})
            elif k == "a":
                raw["guard_events"] += 1
                lo = self._loc(e["a"])
                gname = lo[0] if lo else "guard@" + e["a"]
                guard_by_addr[e["a"]] = gname
                # the call itself is a check; drop a directly preceding inlined check of the same guard
                acc = stack[-1][1]
                if not (acc and acc[-1] == {"k": "gc", "l": gname}):
                    acc.append({"k": "gc", "l": gname})
            elif k == "A":
                stack.append((guard_by_addr.get(e["a"], "guard@" + e["a"]), []))
            elif k in "gx":
                g, block = stack.pop()
                if g is None or g != guard_by_addr.get(e["a"]):
                    raise MachineryError("unbalanced guard events in %s" % name)
                if k == "x":
                    self.notes.append("initialisation of %s aborted by an exception in %s" % (g, name))
                block = self._canon(block)
                if g in self.guards and self.guards[g] != block:
                    raise MachineryError("guard block of %s recorded with two different contents" % g)
                self.guards[g] = block
            else:
                raise MachineryError("unknown event kind %r" % k)
        if len(stack) != 1:
            raise MachineryError("operation %s ended inside a guard block" % name)
        self.ops.append({"name": name, "op": r["op"], "phase": r["phase"], "acc": self._canon(stack[0][1]), "raw": raw,
                         "res": r["res"]})

    @staticmethod
    def _canon(acc):
        """Canonical form of a synchronisation-free segment: the distinct (kind, location) pairs in first-occurrence
        order, a Write subsuming the Reads of the same location.  Sound and complete for happens-before race detection:
        between two guard events a thread neither acquires nor releases, so all accesses of the segment have the same
        happens-before relation to every access of another thread.  Guard checks delimit segments; a repeated check of a
        guard that is already known to be done within the same operation is kept only once per segment."""
        out = []
        seg = []

        def flush():
            written = {a["l"] for a in seg if a["k"] == "w"}
            seen = set()
            for a in seg:
                if a["l"] in seen:
                    continue
                seen.add(a["l"])
                out.append({"k": "w" if a["l"] in written else "r", "l": a["l"]})
            del seg[:]
        checked = set()
        for a in acc:
            if a["k"] == "gc":
                if a["l"] in checked:
                    continue      # second check of the same guard in this operation: already synchronised
                flush()
                checked.add(a["l"])
                out.append(a)
            else:
                seg.append(a)
        flush()
        return out

    # -- the model's operation constants ---------------------------------------------------
    def classes(self):
        """Operations with identical canonical summaries are one operation of the model (representative = first member)."""
        by = {}
        order = []
        for o in self.ops:
            key = json.dumps(o["acc"], sort_keys=True)
            if key not in by:
                by[key] = {"name": o["name"], "acc": o["acc"], "members": []}
                order.append(key)
            by[key]["members"].append(o["name"])
        return [by[k] for k in order]

    def lines(self, plans):
        rows = [{"kind": "op", "name": c["name"], "acc": c["acc"], "members": c["members"]} for c in self.classes()]
        rows += [{"kind": "guard", "name": g, "acc": b} for g, b in sorted(self.guards.items())]
        rows += [{"kind": "plan", "slots": p} for p in plans]
        return rows


def used_kinds(classes, guards):
    n = {"r": 0, "w": 0, "u": 0, "gc": 0}
    for c in classes:
        for a in c["acc"]:
            n[a["k"]] += 1
    return n
