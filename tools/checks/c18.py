"""C18 - loading into a populated target gives the same result as into a fresh one; map load modes as documented.

gen     TLC explores spec/MC_Containers.tla (container variant x element kind x placement x MapLoadMode x estimate
        behaviour x policy x prior content x document); in every state M (implementation-shaped, spec/Containers.tla)
        is checked against A and the state is exported as a scenario with the observation A prescribes and, per
        archive, the observation M prescribes under the named deviations of the pinned tree.
replay  harness/cont_harness.cpp (one executable per archive) saves the document with the archive, loads it into the
        populated and into a default-constructed target and logs both final values in canonical form.
judge   plain equality:  (a, b) observed == (a, b) prescribed by A;  otherwise == the pair prescribed under named
        deviations (-> KNOWN-FINDING when every named deviation is a listed known finding);  otherwise VIOLATION.
"""
import json
import os
import threading
from concurrent.futures import ThreadPoolExecutor

import vlib
from vlib import Check, MachineryError

ARCH_ID = {"msgpack": 1, "json": 2, "xml": 3, "csv": 4}
ARCH_BUILD = {
    "msgpack": dict(groups=("msgpack", "common"), libs=[]),
    "json": dict(groups=(), libs=[]),
    "xml": dict(groups=(), libs=["-lpugixml"]),
    "csv": dict(groups=("csv",), libs=[]),
}
ALL_DEVS = ["Dev_ReusedElementKeepsUnloaded", "Dev_XmlEmptyStringNotLoaded", "Dev_XmlNullOrEmptyContainerMismatch",
            "Dev_JsonNullNonFundamentalMismatch", "Dev_XmlArrayReadPastEnd"]
INVARIANTS = ["RefinesA", "PopulatedEqualsFresh", "NoStaleSurvives", "NothingLoadedIsLost", "OnlyExistNeverAddsAKey",
              "UpdateNeverRemovesAKey", "MapLawsOfA", "DeviationsExplainEveryDifference", "Export"]

# alternative known-findings file for local experiments (the registered file is never written by a check)
_ALT_KNOWN = os.environ.get("C18_KNOWN_FINDINGS") or os.environ.get("VERIF_KNOWN_FINDINGS")
if _ALT_KNOWN:
    def _load_alt():
        with open(_ALT_KNOWN) as f:
            return json.load(f)
    vlib.load_known_findings = _load_alt


def _cfg(name, constants, invariants):
    p = os.path.join(vlib.scratch(), name)
    with open(p, "w") as f:
        f.write("SPECIFICATION Spec\nCONSTANTS\n" + "".join("  %s = %s\n" % kv for kv in constants.items()) +
                "INVARIANTS " + " ".join(invariants) + "\n")
    return p


_build_lock = threading.Lock()
_exes = {}


def harness(arch):
    with _build_lock:
        if arch not in _exes:
            b = ARCH_BUILD[arch]
            _exes[arch] = vlib.build("cont_%s" % arch, ["cont_harness.cpp"], groups=b["groups"], libs=b["libs"],
                                     defines=["CONT_ARCH=%d" % ARCH_ID[arch]], opt="-O0")
        return _exes[arch]


def build_all():
    with ThreadPoolExecutor(max_workers=4) as ex:
        list(ex.map(lambda a: _build_one(a), ARCH_ID))


def _build_one(arch):
    b = ARCH_BUILD[arch]
    exe = vlib.build("cont_%s" % arch, ["cont_harness.cpp"], groups=b["groups"], libs=b["libs"],
                     defines=["CONT_ARCH=%d" % ARCH_ID[arch]], opt="-O0")
    with _build_lock:
        _exes[arch] = exe


def expand(scens):
    """scenario -> runs.  The model's estimate behaviour is realised natively where the archive has it (exact:
    MsgPack/JSON/XML; zero: CSV) and otherwise by the harness' forwarding array scope (force)."""
    runs = {a: [] for a in ARCH_ID}
    for si, s in enumerate(scens):
        for arch in s["archs"]:
            if arch == "csv":
                force = False
            else:
                force = s["est"] != "exact"
            runs[arch].append({"si": si, "arch": arch, "force": force, "t": s["t"], "place": s["place"], "mode": s["mode"],
                               "estn": s["estn"], "mm": s["mm"], "ov": s["ov"], "prior": s["prior"], "doc": s["doc"]})
    return runs


def execute(arch, rows, tag):
    if not rows:
        return []
    p = os.path.join(vlib.scratch(), "c18_%s_%s_%d.ndjson" % (arch, tag, threading.get_ident()))
    vlib.write_ndjson(p, rows)
    try:
        obs = vlib.run_resumable([harness(arch), p], timeout=1500)
    finally:
        os.unlink(p)
    if len(obs) != len(rows):
        raise MachineryError("cont_harness %s: %d observations for %d runs" % (arch, len(obs), len(rows)))
    return obs


def observed(o):
    if "e" in o:        # Crash / Terminate / Hang of the forked child: no final values exist
        return ["crash"], ["crash"]
    return o["a"], o["b"]


def _empty(v):
    return len(v) > 1 and v[1] == []


class Tally:
    def __init__(self):
        self.lock = threading.Lock()
        self.full = {}
        self.runs = 0
        self.ok = 0
        self.keys = set()
        self.known = {k["id"] for k in vlib.load_known_findings()
                      if k.get("status") == "known" and (k.get("property") == "C18" or "C18" in k.get("properties", []))}


def judge(chk, tally, scens, rows, obs):
    for row, o in zip(rows, obs):
        s = scens[row["si"]]
        a, b = observed(o)
        exp = s["exp"]
        with tally.lock:
            tally.runs += 1
        if a == exp["a"] and b == exp["b"]:
            with tally.lock:
                tally.ok += 1
            continue
        dev = None          # the smallest set of named deviations under which the spec prescribes exactly this observation
        for e in s["expdev"]:
            if e["arch"] == row["arch"] and e["a"] == a and e["b"] == b and (dev is None or e["dev"].count("+") < dev.count("+")):
                dev = e["dev"]
        what = "%s %s (place=%s mode=%s est=%s%s mm=%s) prior=%s doc=%s: expected a=%s b=%s, observed a=%s b=%s%s" % (
            row["arch"], s["t"], s["place"], s["mode"], s["est"], "/forced" if row["force"] else "", s["mm"],
            json.dumps(s["prior"], separators=(",", ":")), json.dumps(s["doc"], separators=(",", ":")),
            json.dumps(exp["a"], separators=(",", ":")), json.dumps(exp["b"], separators=(",", ":")),
            json.dumps(a, separators=(",", ":")), json.dumps(b, separators=(",", ":")),
            (" [%s]" % o["e"]) if "e" in o else "")
        with tally.lock:
            n = tally.full.get(dev, 0)
            tally.full[dev] = n + 1
        listed = dev is not None and all(d in tally.known for d in dev.split("+"))
        if not listed or n < 5:
            case = {"run": {k: row[k] for k in row if k != "si"}, "expected": exp,
                    "expected_under_deviation": [e for e in s["expdev"] if e["arch"] == row["arch"]],
                    "observed": {"a": a, "b": b, "document": o.get("d"), "event": o.get("e")}}
        else:
            case = {"t": s["t"], "arch": row["arch"]}           # bounded memory: listed known findings keep details for the first cases only
        with tally.lock:
            chk.fail(what if (not listed or n < 5) else "%s %s" % (row["arch"], s["t"]), case, dev=dev)


def process(chk, tally, scens, tag):
    runs = expand(scens)
    with ThreadPoolExecutor(max_workers=4) as ex:
        futs = {a: ex.submit(execute, a, runs[a], tag) for a in runs}
        for a in runs:
            judge(chk, tally, scens, runs[a], futs[a].result())
    with tally.lock:
        for s in scens:
            if not (_empty(s["prior"]) and _empty(s["doc"])):
                tally.keys.add(json.dumps([s["t"], s["place"], s["mode"], s["est"], s["mm"], s["prior"], s["doc"]], separators=(",", ":")))


def run_check(tier):
    chk = Check("C18", tier)
    quick = tier == "quick"
    consts = {"MaxPrior": 3 if quick else 4, "MaxDoc": 2 if quick else 4, "MaxDocNoEstimate": 4 if quick else 5, "CheckDevs": "{}"}
    shards = 12 if quick else 36
    chk.cov["rule"] = ("case = (target C++ type, placement root/member, MapLoadMode, estimate behaviour zero/exact/larger, policy, "
                       "prior content, document) executed on one archive: document saved with the archive, loaded into the "
                       "populated and into a default-constructed target; distinct = distinct scenario; non-trivial = prior or "
                       "document non-empty")
    chk.assumptions += [
        "spec/Containers.tla: A = value denoted by the document (independent of prior content; OnlyExistKeys/UpdateKeys merge "
        "as documented in generic_map.h), M = SerializeContainer and its variants with origin-tagged leaves",
        "TLC checks in every state (deviations off): RefinesA, PopulatedEqualsFresh, NoStaleSurvives, NothingLoadedIsLost, "
        "OnlyExistNeverAddsAKey, UpdateNeverRemovesAKey, MapLawsOfA; and refutes RefinesA with each named deviation switched on",
        "bounds: prior size 0..%d, document size 0..%d (fixed-size targets: 0..n+1; sequences whose array scope reports no size - CSV "
        "natively, the others forced - up to %d, plain items beyond %d), estimate in {zero, exact, larger}" % (
            consts["MaxPrior"], consts["MaxDoc"], consts["MaxDocNoEstimate"], consts["MaxDoc"]),
        "null / policy-skipped items are generated where the container semantics gives them a defined value (vector<bool>, bitset: "
        "only where the shared bool temporary holds false; not for integer sets: the code inserts an unset temporary there)",
        "estimates other than the archive's own are realised by a forwarding array scope in the harness (GetEstimatedSize only)",
    ]
    build_thread = threading.Thread(target=build_all)
    build_thread.start()

    # --- model checking + generation, sharded over TLC processes ---------------------------------------------
    jobs = []
    for i in range(shards):
        c = dict(consts, Shard=i, Shards=shards)
        jobs.append(dict(module="MC_Containers", cfg=_cfg("MC_Containers_%d.cfg" % i, c, INVARIANTS), workers=2,
                         timeout=1500, xmx="3g"))      # no -coverage: TLC's coverage mode does not terminate on this module (measured)
    # --- each named deviation must be refuted by TLC (the findings are real in the model) ---------------------
    for d in ALL_DEVS:
        c = dict(consts, Shard=0, Shards=1, CheckDevs='{"%s"}' % d, MaxDoc=2)
        jobs.append(dict(module="MC_Containers", cfg=_cfg("MC_Containers_%s.cfg" % d, c, ["RefinesA"]), workers=2,
                         timeout=600, xmx="2g", allow=(12,)))
    results = vlib.tlc_parallel(jobs, max_parallel=8)
    build_thread.join()
    for a in ARCH_ID:
        harness(a)

    tally = Tally()
    grown = {"prior": 0, "doc": 0}        # vacuity guard: both growth actions were taken, every class and map mode was reached
    reached = set()
    total = 0
    for i in range(shards):
        r = results[i]
        chk.add_tlc("MC_Containers shard %d/%d" % (i, shards), r, dict(consts, Shard=i, Shards=shards))
        scens = r.printed("GEN")
        for s in scens:
            reached.add((s["t"], s["place"], s["mode"], s["est"], s["mm"]))
            grown["prior"] += 0 if _empty(s["prior"]) else 1
            grown["doc"] += 0 if _empty(s["doc"]) else 1
        if len(scens) != r.distinct:
            raise MachineryError("shard %d: %d scenarios exported for %d distinct states" % (i, len(scens), r.distinct))
        r.out = ""
        total += len(scens)
        process(chk, tally, scens, "s%d" % i)
        if i == shards // 2 and scens:
            s = scens[len(scens) // 2]
            chk.sample({"scenario": {k: s[k] for k in s if k not in ("exp", "expdev")}, "expected": s["exp"]})
    if not grown["prior"] or not grown["doc"] or len({k[0] for k in reached}) < 44 or {k[2] for k in reached} != {"-", "clean", "onlyexist", "update"} \
            or {k[3] for k in reached} != {"zero", "exact", "larger"} or {k[4] for k in reached} != {"throw", "skip"}:
        raise MachineryError("MC_Containers: part of the scenario space was not reached: %s, %d types" % (grown, len({k[0] for k in reached})))
    chk.cov["classes_reached"] = len(reached)
    for d, r in zip(ALL_DEVS, results[shards:]):
        if not r.safety_violation or "Invariant RefinesA is violated" not in r.out:
            raise MachineryError("deviation %s is not refuted by TLC (exit %d)" % (d, r.rc))
        chk.cov["tlc_runs"].append({"label": "refutation of RefinesA with %s" % d, "exit": r.rc, "states_generated": r.generated,
                                    "wall_s": round(r.wall, 1)})
    chk.add_cases(tally.runs, distinct_keys=tally.keys, validated=tally.runs)
    chk.cov["scenarios"] = total
    chk.cov["runs_equal_to_A"] = tally.ok
    return chk.finish(exhaustive=True)


def run(tier):
    return run_check(tier)


def replay(path):
    """Re-executes the run recorded in a replay file and prints expected / observed."""
    with open(path) as f:
        rec = json.load(f)
    case = rec["case"]
    if "run" not in case:
        print(json.dumps(rec, indent=1))
        return run_check("quick")
    row = dict(case["run"])
    obs = execute(row["arch"], [row], "replay")
    a, b = observed(obs[0])
    print("run:      %s" % json.dumps(row))
    print("document: %s" % obs[0].get("d"))
    print("expected: a=%s b=%s" % (json.dumps(case["expected"]["a"]), json.dumps(case["expected"]["b"])))
    print("observed: a=%s b=%s" % (json.dumps(a), json.dumps(b)))
    if a == case["expected"]["a"] and b == case["expected"]["b"]:
        print("OK property=C18 replay: observation equals the prescribed one")
        return 0
    known = Tally().known
    for e in case.get("expected_under_deviation", []):
        if e["arch"] == row["arch"] and e["a"] == a and e["b"] == b:
            if all(d in known for d in e["dev"].split("+")):
                print("KNOWN-FINDING: property=C18 observation equals the one prescribed under %s" % e["dev"])
                return 0
            print("VIOLATION property=C18 replay=%s [observation equals the one prescribed under %s, which is not a listed known finding]" % (path, e["dev"]))
            return 1
    print("VIOLATION property=C18 replay=%s" % path)
    return 1
