"""C07 - MsgPack reader accepts every valid encoding and matches a reference decoder."""
import json
import vlib
from vlib import Check
from checks import mpcommon as mp

CORRUPT = "{0, 127, 128, 143, 144, 159, 160, 191, 192, 193, 194, 196, 199, 202, 203, 204, 207, 208, 211, 212, 216, 217, 219, 220, 221, 222, 223, 224, 255}"


def run_check(tier):
    chk = Check("C07", tier)
    chk.cov["rule"] = ("case = (corpus value at a format threshold, one of up to 5 legal encodings chosen by the spec's independent encoder, "
                       "typed target at root / array / object position, policies, optional truncation or single-byte corruption) loaded "
                       "through the string or the stream reader; distinct = distinct (document bytes, script, policies)")
    chk.assumptions += ["reference decoder = spec/MsgPackFormat.tla (Decode), self-consistency checked by MC_MsgPackFormat (Decode(Enc(v,w)) = v, prefix-freeness)",
                        "typed-load semantics = spec/LoadScript.tla LoadLeaf; results for documents with duplicate/exotic map keys or nanoseconds > 999999999 are left unspecified"]
    quick = tier == "quick"
    r = vlib.tlc("MC_MsgPackFormat", timeout=900)
    chk.add_tlc("MC_MsgPackFormat", r)
    sc = mp.gen("MC_LoadScript", {"Mode": '"typed"', "MaxOps": 2 if quick else 400, "Widths": "{0, 1, 2, 3, 4, 5}", "Pads": "{0}"},
                ["Export"], "typed", chk, timeout=3000, xmx="8g")
    pairs = mp.replay(sc, ["mem", "sstream"] if quick else ["mem", "sstream", "short1"], 8, "t8")
    mp.judge(chk, pairs, "MsgPack typed load")
    n = len(pairs)
    keys = set((json.dumps(s["doc"]), json.dumps(s["root"]), json.dumps(s["pol"])) for s in sc)
    chk.sample({"scenario": {k: sc[len(sc) // 2][k] for k in ("doc", "root", "pol")}, "expected": sc[len(sc) // 2]["exp"]})
    del pairs, sc
    # single-byte corruptions of the intact encodings (reference decoder decides what the damaged bytes mean)
    sc = mp.gen("MC_LoadScript", {"Mode": '"typed"', "MaxOps": 0, "Widths": "{0}", "Pads": "{0}", "CorruptBytes": "{193, 220}" if quick else CORRUPT,
                                  "TypedTargets": '{"i32", "vec_u8"}' if quick else '{"i32", "str", "vec_u8", "tp_ns"}'},
                ["Export"], "corrupt", chk, timeout=3000, xmx="8g")
    pairs = mp.replay(sc, ["mem", "sstream"], 8, "c8")
    mp.judge(chk, pairs, "MsgPack typed load of a corrupted document")
    n += len(pairs)
    keys |= set((json.dumps(s["doc"]), json.dumps(s["root"]), json.dumps(s["pol"])) for s in sc)
    chk.add_cases(n, distinct_keys=keys, validated=n)
    return chk.finish()


def run(tier):
    return run_check(tier)


def replay(path):
    print(open(path).read())
    return run_check("quick")
