"""C13 - encoded text streams: encoding detection, BOM and chunked decoding are lossless."""
import json
import os
import time
import vlib
from vlib import Check, build

from checks import utfcommon as uc

MC_CFG = """SPECIFICATION FairSpec
CONSTANTS
  Cps = %(cps)s
  MaxText = %(maxtext)d
  ChunkSizes = %(chunks)s
  TWs = {8, 16, 32}
  FixTail = %(tail)s
  FixDetect = %(detect)s
  TolerateNul = %(nul)s
INVARIANTS WellFormed DetectionCorrect ContentCorrect ResultsConsistent WholeTextExact
PROPERTY Terminates
"""


def leg_mc(chk, tier):
    """M => A exhaustively for the repaired variant; each recorded deviation must produce its counterexample."""
    if tier == "quick":
        confs = [dict(cps="{65, 233, 8364, 128512, 0}", maxtext=2, chunks="{8}")]
    else:
        confs = [dict(cps="{65, 233, 8364, 128512, 0, 65279}", maxtext=3, chunks="{8, 12}"),
                 dict(cps="{65, 128512, 1114111}", maxtext=4, chunks="{8}")]
    for k, c in enumerate(confs):
        cfg = uc.write_cfg("mc_es_%d.cfg" % k, MC_CFG % dict(c, tail="TRUE", detect="TRUE", nul="TRUE"))
        r = vlib.tlc("MC_EncodedStream", cfg=cfg, coverage=True, timeout=1700, workers=8, xmx="6g")
        chk.add_tlc("MC_EncodedStream M=>A safety+liveness (repaired variant)", r, c)
        zero = r.coverage_zero_actions()
        if zero:
            raise vlib.MachineryError("vacuity: actions never taken in MC_EncodedStream: %s" % zero)
    small = dict(cps="{65, 233, 0}", maxtext=2, chunks="{8}")
    expect = [("Dev_EncodedStreamSubUnitTailLivelock", dict(tail="FALSE", detect="TRUE", nul="TRUE"), 13, "Temporal property Terminates was violated"),
              ("Dev_DetectEncodingLastUnitIgnored", dict(tail="TRUE", detect="FALSE", nul="TRUE"), 12, "Invariant DetectionCorrect is violated"),
              ("Dev_DetectEncodingConfusedByNul", dict(tail="TRUE", detect="TRUE", nul="FALSE"), 12, "Invariant DetectionCorrect is violated")]
    for dev, flags, rc, msg in expect:
        cfg = uc.write_cfg("mc_es_%s.cfg" % dev, MC_CFG % dict(small, **flags))
        r = vlib.tlc("MC_EncodedStream", cfg=cfg, timeout=900, workers=4, allow=(rc,))
        if msg not in r.out:
            raise vlib.MachineryError("model with %s enabled did not produce the expected counterexample (%s)" % (dev, msg))
        chk.cov.setdefault("model_level_counterexamples", {})[dev] = msg
        chk.add_tlc("MC_EncodedStream with deviation %s (counterexample expected)" % dev, r, flags)


def gen_jobs(tier):
    """(C, filler lo, filler hi, classes, tails)"""
    if tier == "quick":
        j = [(32, 0, 36, 4, 1)]
        j += [(256, lo, hi, 2, 1) for lo, hi in ((0, 0), (63, 64), (127, 128), (254, 256))]
    else:
        j = [(32, lo, lo + 3, 8, 3) for lo in range(0, 40, 4)] + [(32, 60, 70, 8, 3)]
        j += [(256, lo, hi, 5, 2) for lo, hi in ((0, 1), (62, 63), (64, 65), (126, 127), (128, 129), (252, 254), (255, 258))]
    return j


def run_check(tier):
    uc.use_known_findings_override()
    chk = Check("C13", tier)
    chk.cov["rule"] = ("cases = reader runs (byte stream x truncation point x target char type x policy x chunk size) + writer runs, "
                       "executed on the real CEncodedStreamReader/Writer and judged by Trace_EncodedStream; "
                       "distinct = distinct (scheme, BOM, text, truncation point, chunk size)")
    chk.assumptions += ["detection is demanded when the BOM is complete or (no BOM) the first character is complete, ASCII and not NUL, "
                        "and no other scheme reads the same bytes as a valid in-domain text (Ambiguous)",
                        "content is judged when the detected scheme is the written one; same-width targets pass code units through "
                        "(an incomplete final sequence is copied or handled per policy)",
                        "libstdc++ istream::read semantics as modelled in EncodedStream.tla (validated: window offsets after every call)",
                        "CSV/JSON/XML/YAML stream entry points are not driven by this check"]
    ph = chk.cov.setdefault('phase_s', {})
    t0 = time.time()
    leg_mc(chk, tier)
    ph['mc'] = round(time.time() - t0, 1)
    t0 = time.time()
    # --- scenarios from the specification
    jobs, outs = [], []
    for n, (C, lo, hi, cl, tl) in enumerate(gen_jobs(tier)):
        out = os.path.join(vlib.scratch(), "c13scn-%d.ndjson" % n)
        wout = os.path.join(vlib.scratch(), "c13wscn.ndjson") if n == 0 else ""
        outs.append(out)
        jobs.append(dict(module="Gen_EncodedStream", cfg="Gen_EncodedStream.cfg", workers=1, timeout=900, xmx="3g",
                         env={"C": C, "FLO": lo, "FHI": hi, "CLASSES": cl, "TAILS": tl, "OUT": out, "WOUT": wout}))
    res = vlib.tlc_parallel(jobs)
    rows = []
    for out, r in zip(outs, res):
        got = vlib.read_ndjson(out)
        if len(got) != r.printed("ROWS")[0]["n"]:
            raise vlib.MachineryError("scenario generator wrote %d rows, announced %s" % (len(got), r.printed("ROWS")))
        rows += got
        os.unlink(out)
    for i, r in enumerate(rows):
        r["id"] = "s%d" % i
    chk.cov["generated_streams"] = len(rows)
    # stream kinds: stringstream everywhere; short-read stream buffers on a seeded subset
    extra = []
    for r in uc.pick(rows, 60 if tier == "quick" else 300):
        for kind in ("short1", "short7"):
            e = dict(r)
            e["kind"] = kind
            e["id"] = r["id"] + kind
            extra.append(e)
    scn = os.path.join(vlib.scratch(), "c13-scenarios.ndjson")
    vlib.write_ndjson(scn, rows + extra)
    wscn = os.path.join(vlib.scratch(), "c13wscn.ndjson")
    ph['gen'] = round(time.time() - t0, 1)
    t0 = time.time()
    # --- execution on the real code
    exe = build("encstream_harness", ["encstream_harness.cpp"], groups=())
    lines = []
    for args in (["read", scn], ["write", wscn]):
        p = vlib.run([exe] + args, timeout=1500, check=False)
        if p.returncode not in (0, 43):
            raise vlib.MachineryError("encstream_harness %s failed (exit %d): %s" % (args[0], p.returncode, p.stderr[-2000:]))
        lines += [l for l in p.stdout.splitlines() if l.strip()]
    # the verification hook BITSERIALIZER_VERIF_ENC_CHUNK_SIZE: default template argument = 32
    exe32 = build("encstream_harness_hook32", ["encstream_harness.cpp"], groups=(), defines=["BITSERIALIZER_VERIF_ENC_CHUNK_SIZE=32"])
    hook = [dict(r, id=r["id"] + "hook") for r in uc.pick([r for r in rows if r["C"] == 32], 60 if tier == "quick" else 300)]
    hscn = os.path.join(vlib.scratch(), "c13-hook.ndjson")
    vlib.write_ndjson(hscn, hook)
    p = vlib.run([exe32, "read", hscn], timeout=900, check=False)
    if p.returncode not in (0, 43):
        raise vlib.MachineryError("encstream_harness (hook build) failed (exit %d): %s" % (p.returncode, p.stderr[-2000:]))
    lines += [l for l in p.stdout.splitlines() if l.strip()]
    for l in [l for l in lines if l.startswith('{"e":')]:
        chk.fail("a reader/writer call did not return (watchdog): %s" % l[:300], {"leg": "c13", "obs": json.loads(l)})
    lines = [l for l in lines if not l.startswith('{"e":')]
    ph['exec'] = round(time.time() - t0, 1)
    t0 = time.time()
    # --- judgement by TLC
    checked, bad = vlib.validate_traces("Trace_EncodedStream", lines, cfg="Trace_EncodedStream.cfg", shards=vlib.NCPU, timeout=1700, xss="512m")
    ph['judge'] = round(time.time() - t0, 1)
    byid = {}
    nruns = 0
    for l in lines:
        t = json.loads(l)
        byid[t["id"]] = t
        nruns += len(t["runs"])
    chk.add_cases(nruns, distinct_keys=((t.get("e"), t.get("bom"), json.dumps(t.get("cps", t.get("parts"))), t.get("keep"), t.get("C")) for t in byid.values()),
                  validated=checked)
    chk.sample({"leg": "c13", "record": byid["s%d/%d" % (len(rows) // 2, rows[len(rows) // 2]["keeps"][-1])]})
    full = {r["id"]: len(r["bytes"]) for r in rows}
    rd = [t for t in byid.values() if "cps" in t]
    chk.cov["domain_profile"] = {
        "reader_records": len(rd), "writer_records": len(byid) - len(rd),
        "with_bom": sum(1 for t in rd if t["bom"]),
        "bomless_first_char_ascii": sum(1 for t in rd if not t["bom"] and t["cps"] and 1 <= t["cps"][0] <= 127),
        "whole_stream": sum(1 for t in rd if full.get(t["id"].split("/")[0].replace("short1", "").replace("short7", "").replace("hook", "")) == t["keep"]),
        "odd_length_utf16_or_non_multiple_of_4_utf32": sum(1 for t in rd if (t["e"].startswith("Utf16") and t["keep"] % 2) or (t["e"].startswith("Utf32") and t["keep"] % 4)),
        "runs_with_written_scheme_detected": sum(1 for t in rd for r in t["runs"] if r["utf"] == t["e"]),
        "runs_total": sum(len(t["runs"]) for t in rd)}
    slim = {}
    for b in bad:
        t = byid.get(b["id"])
        if t and b["id"] not in slim:
            slim[b["id"]] = dict(t, u=t.get("cps"), tw=None)
    uc.report_bad(chk, bad, slim, "C13")
    return chk.finish()


def run(tier):
    return run_check(tier)


def replay(path):
    """Regenerates the byte stream of the failing record with TLC, re-executes that truncation point on the current tree
    and judges it again."""
    f = json.load(open(path))
    print(json.dumps(f, indent=1)[:3000])
    t = (f.get("case") or {}).get("record")
    if not t or "cps" not in t or "keep" not in t:
        return run_check("quick")
    uc.use_known_findings_override()
    chk = Check("C13", "quick")
    fill = 0
    while fill < len(t["cps"]) and t["cps"][fill] == 0x61:
        fill += 1
    rows = []
    for fl in sorted({fill, max(fill - 1, 0)}):
        out = os.path.join(vlib.scratch(), "c13replay-%d.ndjson" % fl)
        vlib.tlc("Gen_EncodedStream", cfg="Gen_EncodedStream.cfg", workers=1, timeout=600,
                 env={"C": t["C"], "FLO": fl, "FHI": fl, "CLASSES": 8, "TAILS": 3, "OUT": out, "WOUT": ""})
        rows += [r for r in vlib.read_ndjson(out) if r["e"] == t["e"] and r["bom"] == t["bom"] and r["cps"] == t["cps"]]
    if not rows:
        print("the text of this record is not one of the generator's parametric texts; running the quick tier instead")
        return run_check("quick")
    row = dict(rows[0], id="replay", keeps=[t["keep"]], kind=t.get("kind", "sstream"))
    scn = os.path.join(vlib.scratch(), "c13-replay-scn.ndjson")
    vlib.write_ndjson(scn, [row])
    exe = build("encstream_harness", ["encstream_harness.cpp"], groups=())
    p = vlib.run([exe, "read", scn], timeout=120, check=False)
    lines = [l for l in p.stdout.splitlines() if l.strip() and not l.startswith('{"e":')]
    print("\n".join(l[:1500] for l in lines))
    checked, bad = vlib.validate_traces("Trace_EncodedStream", lines, cfg="Trace_EncodedStream.cfg", shards=1, xss="512m")
    byid = {json.loads(l)["id"]: dict(json.loads(l), u=json.loads(l).get("cps"), tw=None) for l in lines}
    chk.add_cases(len(lines), validated=checked)
    uc.report_bad(chk, bad, byid, "C13")
    return chk.finish()
