"""C13 - encoded text streams: encoding detection, BOM and chunked decoding are lossless."""
import json
import os
import time
import vlib
from vlib import Check, build

from checks import utfcommon as uc

BOMS = {"Utf8": b"\xef\xbb\xbf", "Utf16le": b"\xff\xfe", "Utf16be": b"\xfe\xff", "Utf32le": b"\xff\xfe\x00\x00", "Utf32be": b"\x00\x00\xfe\xff"}

MC_CFG = """SPECIFICATION FairSpec
CONSTANTS
  Cps = %(cps)s
  MaxText = %(maxtext)d
  ChunkSizes = %(chunks)s
  TWs = {8, 16, 32}
  FixTail = %(tail)s
  FixDetect = %(detect)s
  TolerateNul = %(nul)s
INVARIANTS WellFormed DetectionCorrect ContentCorrect ResultsConsistent WholeTextExact
PROPERTY Terminates
"""


WRITER_CFG = """SPECIFICATION Spec
CONSTANTS
  MaxWrites = %(n)d
  ClearBefore = %(clear)s
  KeepHist = TRUE
INVARIANTS EmittedAgree StepAccepted %(export)s
"""

DETECT_CFG = """SPECIFICATION Spec
CONSTANTS
  Cps = %(cps)s
  MaxText = %(maxtext)d
  Preambles = {0, 1, 3, 16}
  PreByte = 35
  FixDetect = TRUE
  SeekFromOrig = %(seek)s
  TolerateNul = TRUE
INVARIANTS PositionCorrect RestIsText DetectionCorrect
"""


def leg_mc(chk, tier):
    """M => A exhaustively for the current code variant (reader, writer, stream detection); each recorded deviation /
    modelled wrong variant must produce its counterexample.  All TLC runs of this leg are started together.
    Returns the writer call sequences exported by TLC (path mode)."""
    if tier == "quick":
        confs = [dict(cps="{65, 233, 8364, 128512, 0}", maxtext=2, chunks="{8}")]
    else:
        confs = [dict(cps="{65, 233, 8364, 128512, 0, 65279}", maxtext=3, chunks="{8, 12}"),
                 dict(cps="{65, 128512, 1114111}", maxtext=4, chunks="{8}")]
    jobs, meta = [], []
    for k, c in enumerate(confs):
        cfg = uc.write_cfg("mc_es_%d.cfg" % k, MC_CFG % dict(c, tail="TRUE", detect="TRUE", nul="TRUE"))
        jobs.append(dict(module="MC_EncodedStream", cfg=cfg, coverage=True, timeout=1700, workers=6, xmx="6g"))
        meta.append(("MC_EncodedStream M=>A safety+liveness (repaired variant)", c, None, True))
    small = dict(cps="{65, 233, 0}", maxtext=2, chunks="{8}")
    expect = [("Dev_EncodedStreamSubUnitTailLivelock", dict(tail="FALSE", detect="TRUE", nul="TRUE"), 13, "Temporal property Terminates was violated"),
              ("Dev_DetectEncodingLastUnitIgnored", dict(tail="TRUE", detect="FALSE", nul="TRUE"), 12, "Invariant DetectionCorrect is violated"),
              ("Dev_DetectEncodingConfusedByNul", dict(tail="TRUE", detect="TRUE", nul="FALSE"), 12, "Invariant DetectionCorrect is violated")]
    for dev, flags, rc, msg in expect:
        cfg = uc.write_cfg("mc_es_%s.cfg" % dev, MC_CFG % dict(small, **flags))
        jobs.append(dict(module="MC_EncodedStream", cfg=cfg, timeout=900, workers=2, allow=(rc,)))
        meta.append(("MC_EncodedStream with deviation %s (counterexample expected)" % dev, flags, (dev, msg), False))
    # writer: M (scratch string) => A (emitted bytes), path mode exports every sequence of writes
    nw = 2 if tier == "quick" else 3
    cfg = uc.write_cfg("mc_writer.cfg", WRITER_CFG % dict(n=nw, clear="TRUE", export="Export"))
    jobs.append(dict(module="MC_EncodedWriter", cfg=cfg, coverage=True, timeout=900, workers=2))
    meta.append(("MC_EncodedWriter M=>A, all sequences of %d writes (accepted/rejected fragments)" % nw, dict(MaxWrites=nw), None, True))
    cfg = uc.write_cfg("mc_writer_leak.cfg", WRITER_CFG % dict(n=2, clear="FALSE", export=""))
    jobs.append(dict(module="MC_EncodedWriter", cfg=cfg, timeout=900, workers=2, allow=(12,)))
    meta.append(("MC_EncodedWriter, scratch cleared only after a successful write (counterexample expected)", dict(ClearBefore=False),
                 ("Var_WriterScratchLeak", "Invariant EmittedAgree is violated"), False))
    # DetectEncoding(istream&, skip): stream position as a state variable
    dc = dict(cps="{65, 233, 128512, 0}", maxtext=2) if tier == "quick" else dict(cps="{65, 233, 8364, 128512, 0, 65279}", maxtext=3)
    cfg = uc.write_cfg("mc_detect.cfg", DETECT_CFG % dict(dc, seek="TRUE"))
    jobs.append(dict(module="MC_DetectStream", cfg=cfg, coverage=True, timeout=1200, workers=4))
    meta.append(("MC_DetectStream position/detection after a consumed preamble", dc, None, True))
    cfg = uc.write_cfg("mc_detect_beg.cfg", DETECT_CFG % dict(cps="{65, 233}", maxtext=1, seek="FALSE"))
    jobs.append(dict(module="MC_DetectStream", cfg=cfg, timeout=900, workers=2, allow=(12,)))
    meta.append(("MC_DetectStream, seek from the beginning of the stream (counterexample expected)", dict(SeekFromOrig=False),
                 ("Var_DetectSeekFromBeginning", "Invariant PositionCorrect is violated"), False))
    res = vlib.tlc_parallel(jobs)
    wseq = []
    for r, (label, consts, exp, vac) in zip(res, meta):
        if exp and exp[1] not in r.out:
            raise vlib.MachineryError("model variant %s did not produce the expected counterexample (%s)" % exp)
        if exp:
            chk.cov.setdefault("model_level_counterexamples", {})[exp[0]] = exp[1]
        if vac:
            zero = r.coverage_zero_actions()
            if zero:
                raise vlib.MachineryError("vacuity: actions never taken (%s): %s" % (label, zero))
        chk.add_tlc(label, r, consts)
        if label.startswith("MC_EncodedWriter M=>A"):
            wseq = r.printed("GEN")
    if not wseq:
        raise vlib.MachineryError("MC_EncodedWriter exported no write sequences")
    return wseq


def gen_jobs(tier):
    """(C, filler lo, filler hi, classes, tails)"""
    if tier == "quick":
        j = [(32, 0, 36, 4, 1)]
        j += [(256, lo, hi, 2, 1) for lo, hi in ((0, 0), (63, 64), (127, 128), (254, 256))]
    else:
        j = [(32, lo, lo + 3, 8, 3) for lo in range(0, 40, 4)] + [(32, 60, 70, 8, 3)]
        j += [(256, lo, hi, 5, 2) for lo, hi in ((0, 1), (62, 63), (64, 65), (126, 127), (128, 129), (252, 254), (255, 258))]
    return j


def run_check(tier):
    uc.use_known_findings_override()
    chk = Check("C13", tier)
    chk.cov["rule"] = ("cases = reader runs (byte stream x truncation point x target char type x policy x chunk size) + writer runs and "
                       "writer call sequences + DetectEncoding(stream) runs behind a preamble + CSV stream loads (length sweep around chunk multiples), "
                       "executed on the real CEncodedStreamReader/Writer and judged by Trace_EncodedStream; "
                       "distinct = distinct (scheme, BOM, text, truncation point, chunk size)")
    chk.assumptions += ["detection is demanded when the BOM is complete or (no BOM) the first character is complete, ASCII and not NUL, "
                        "and no other scheme reads the same bytes as a valid in-domain text (Ambiguous)",
                        "content is judged when the detected scheme is the written one; same-width targets pass code units through "
                        "(an incomplete final sequence is copied or handled per policy)",
                        "libstdc++ istream::read semantics as modelled in EncodedStream.tla (validated: window offsets after every call)",
                        "of the archive stream entry points only CSV is driven here (JSON/XML stream loading of UTF-16/32 belongs to C08; YAML is not built)"]
    ph = chk.cov.setdefault('phase_s', {})
    t0 = time.time()
    wseq = leg_mc(chk, tier)
    ph['mc'] = round(time.time() - t0, 1)
    t0 = time.time()
    # --- scenarios from the specification
    jobs, outs = [], []
    for n, (C, lo, hi, cl, tl) in enumerate(gen_jobs(tier)):
        out = os.path.join(vlib.scratch(), "c13scn-%d.ndjson" % n)
        wout = os.path.join(vlib.scratch(), "c13wscn.ndjson") if n == 0 else ""
        outs.append(out)
        # the first job of each chunk size also writes the CSV documents for that chunk size; job 0 the detect scenarios
        first_of_c = all(j[0] != C for j in gen_jobs(tier)[:n])
        csvout = os.path.join(vlib.scratch(), "c13csv-%d.ndjson" % C) if first_of_c else ""
        dout = os.path.join(vlib.scratch(), "c13det.ndjson") if n == 0 else ""
        jobs.append(dict(module="Gen_EncodedStream", cfg="Gen_EncodedStream.cfg", workers=1, timeout=900, xmx="3g",
                         env={"C": C, "FLO": lo, "FHI": hi, "CLASSES": cl, "TAILS": tl, "OUT": out, "WOUT": wout,
                              "CSVOUT": csvout, "CSVMODE": tier if csvout else "none", "DOUT": dout, "DMODE": tier if dout else "none"}))
    res = vlib.tlc_parallel(jobs)
    rows = []
    for out, r in zip(outs, res):
        got = vlib.read_ndjson(out)
        if len(got) != r.printed("ROWS")[0]["n"]:
            raise vlib.MachineryError("scenario generator wrote %d rows, announced %s" % (len(got), r.printed("ROWS")))
        rows += got
        os.unlink(out)
    for i, r in enumerate(rows):
        r["id"] = "s%d" % i
    chk.cov["generated_streams"] = len(rows)
    # stream kinds: stringstream everywhere; short-read stream buffers on a seeded subset
    extra = []
    for r in uc.pick(rows, 60 if tier == "quick" else 300):
        for kind in ("short1", "short7"):
            e = dict(r)
            e["kind"] = kind
            e["id"] = r["id"] + kind
            extra.append(e)
    scn = os.path.join(vlib.scratch(), "c13-scenarios.ndjson")
    vlib.write_ndjson(scn, rows + extra)
    wscn = os.path.join(vlib.scratch(), "c13wscn.ndjson")
    ph['gen'] = round(time.time() - t0, 1)
    t0 = time.time()
    # CSV documents (per chunk size), DetectEncoding(stream) scenarios, writer call sequences
    csvrows = {}
    for C in (32, 256):
        got = vlib.read_ndjson(os.path.join(vlib.scratch(), "c13csv-%d.ndjson" % C))
        for i, r in enumerate(got):
            r["id"] = "csv%d-%d" % (C, i)
        # short-read stream buffers on a seeded subset
        got += [dict(r, id=r["id"] + "short7", kind="short7") for r in uc.pick(got, 100 if tier == "quick" else 600)]
        csvrows[C] = got
    chk.cov["generated_csv_documents"] = {str(C): len(v) for C, v in csvrows.items()}
    detrows = vlib.read_ndjson(os.path.join(vlib.scratch(), "c13det.ndjson"))
    for i, r in enumerate(detrows):
        r["id"] = "det%d" % i
    chk.cov["generated_detect_scenarios"] = len(detrows)
    for i, r in enumerate(wseq):
        r["id"] = "wseq%d" % i
    chk.cov["generated_write_sequences"] = len(wseq)
    csv256 = os.path.join(vlib.scratch(), "c13-csv256.ndjson")
    csv32 = os.path.join(vlib.scratch(), "c13-csv32.ndjson")
    dscn = os.path.join(vlib.scratch(), "c13-det.ndjson")
    wsscn = os.path.join(vlib.scratch(), "c13-wseq.ndjson")
    vlib.write_ndjson(csv256, csvrows[256])
    vlib.write_ndjson(csv32, csvrows[32])
    vlib.write_ndjson(dscn, detrows)
    vlib.write_ndjson(wsscn, wseq)
    # --- execution on the real code
    exe = build("encstream_harness", ["encstream_harness.cpp"], groups=("csv",))
    lines = []
    for args in (["read", scn], ["write", wscn], ["writeseq", wsscn], ["detect", dscn], ["csv", csv256]):
        p = vlib.run([exe] + args, timeout=1500, check=False)
        if p.returncode not in (0, 43):
            raise vlib.MachineryError("encstream_harness %s failed (exit %d): %s" % (args[0], p.returncode, p.stderr[-2000:]))
        lines += [l for l in p.stdout.splitlines() if l.strip()]
    # the verification hook BITSERIALIZER_VERIF_ENC_CHUNK_SIZE: default template argument = 32
    exe32 = build("encstream_harness_hook32", ["encstream_harness.cpp"], groups=("csv",), defines=["BITSERIALIZER_VERIF_ENC_CHUNK_SIZE=32"])
    hook = [dict(r, id=r["id"] + "hook") for r in uc.pick([r for r in rows if r["C"] == 32], 60 if tier == "quick" else 300)]
    hscn = os.path.join(vlib.scratch(), "c13-hook.ndjson")
    vlib.write_ndjson(hscn, hook)
    for args in (["read", hscn], ["csv", csv32]):
        p = vlib.run([exe32] + args, timeout=900, check=False)
        if p.returncode not in (0, 43):
            raise vlib.MachineryError("encstream_harness (hook build) %s failed (exit %d): %s" % (args[0], p.returncode, p.stderr[-2000:]))
        lines += [l for l in p.stdout.splitlines() if l.strip()]
    for l in [l for l in lines if l.startswith('{"e":')]:
        chk.fail("a reader/writer call did not return (watchdog): %s" % l[:300], {"leg": "c13", "obs": json.loads(l)})
    lines = [l for l in lines if not l.startswith('{"e":')]
    ph['exec'] = round(time.time() - t0, 1)
    t0 = time.time()
    # --- judgement by TLC
    checked, bad = vlib.validate_traces("Trace_EncodedStream", lines, cfg="Trace_EncodedStream.cfg", shards=vlib.NCPU, timeout=1700, xss="512m")
    ph['judge'] = round(time.time() - t0, 1)
    byid = {}
    nruns = 0
    for l in lines:
        t = json.loads(l)
        byid[t["id"]] = t
        nruns += len(t["runs"]) if "runs" in t else max(len(t.get("calls", [])) - 1, 1)
    chk.add_cases(nruns, distinct_keys=((t.get("e"), t.get("bom"), json.dumps(t.get("cps", t.get("parts"))), t.get("keep"), t.get("C")) for t in byid.values()),
                  validated=checked)
    chk.sample({"leg": "c13", "record": byid["s%d/%d" % (len(rows) // 2, rows[len(rows) // 2]["keeps"][-1])]})
    full = {r["id"]: len(r["bytes"]) for r in rows}
    rd = [t for t in byid.values() if "cps" in t and "det" not in t]
    chk.cov["domain_profile"] = {
        "reader_records": len(rd), "writer_records": sum(1 for t in byid.values() if "parts" in t),
        "writer_sequence_records": sum(1 for t in byid.values() if "wseq" in t), "detect_stream_records": sum(1 for t in byid.values() if "det" in t),
        "csv_stream_records": sum(1 for t in byid.values() if "csv" in t),
        "csv_streams_with_length_multiple_of_chunk": sum(1 for t in byid.values() if "csv" in t and (t["len"] - (len(BOMS[t["e"]]) if t["bom"] else 0)) % t["C"] == 0),
        "with_bom": sum(1 for t in rd if t["bom"]),
        "bomless_first_char_ascii": sum(1 for t in rd if not t["bom"] and t["cps"] and 1 <= t["cps"][0] <= 127),
        "whole_stream": sum(1 for t in rd if full.get(t["id"].split("/")[0].replace("short1", "").replace("short7", "").replace("hook", "")) == t["keep"]),
        "odd_length_utf16_or_non_multiple_of_4_utf32": sum(1 for t in rd if (t["e"].startswith("Utf16") and t["keep"] % 2) or (t["e"].startswith("Utf32") and t["keep"] % 4)),
        "runs_with_written_scheme_detected": sum(1 for t in rd for r in t["runs"] if r["utf"] == t["e"]),
        "runs_total": sum(len(t["runs"]) for t in rd)}
    slim = {}
    for b in bad:
        t = byid.get(b["id"])
        if t and b["id"] not in slim:
            if "csv" in t:
                slim[b["id"]] = dict(t, u="CSV %s%s, %d bytes, chunk %d, final break %s" % (t["e"], "+BOM" if t["bom"] else "", t["len"], t["C"], t["fb"]), tw=None)
            elif "wseq" in t:
                slim[b["id"]] = dict(t, u={"scheme": t["e"], "source_width": t["sw"], "skip": t["skip"], "fragments": t["frags"]}, tw=None)
            else:
                slim[b["id"]] = dict(t, u=t.get("cps"), tw=None)
    uc.report_bad(chk, bad, slim, "C13")
    return chk.finish()


def run(tier):
    return run_check(tier)


def replay(path):
    """Regenerates the byte stream of the failing record with TLC, re-executes that truncation point on the current tree
    and judges it again."""
    f = json.load(open(path))
    print(json.dumps(f, indent=1)[:3000])
    t = (f.get("case") or {}).get("record")
    if not t or "cps" not in t or "keep" not in t:
        return run_check("quick")
    uc.use_known_findings_override()
    chk = Check("C13", "quick")
    fill = 0
    while fill < len(t["cps"]) and t["cps"][fill] == 0x61:
        fill += 1
    rows = []
    for fl in sorted({fill, max(fill - 1, 0)}):
        out = os.path.join(vlib.scratch(), "c13replay-%d.ndjson" % fl)
        vlib.tlc("Gen_EncodedStream", cfg="Gen_EncodedStream.cfg", workers=1, timeout=600,
                 env={"C": t["C"], "FLO": fl, "FHI": fl, "CLASSES": 8, "TAILS": 3, "OUT": out, "WOUT": ""})
        rows += [r for r in vlib.read_ndjson(out) if r["e"] == t["e"] and r["bom"] == t["bom"] and r["cps"] == t["cps"]]
    if not rows:
        print("the text of this record is not one of the generator's parametric texts; running the quick tier instead")
        return run_check("quick")
    row = dict(rows[0], id="replay", keeps=[t["keep"]], kind=t.get("kind", "sstream"))
    scn = os.path.join(vlib.scratch(), "c13-replay-scn.ndjson")
    vlib.write_ndjson(scn, [row])
    exe = build("encstream_harness", ["encstream_harness.cpp"], groups=())
    p = vlib.run([exe, "read", scn], timeout=120, check=False)
    lines = [l for l in p.stdout.splitlines() if l.strip() and not l.startswith('{"e":')]
    print("\n".join(l[:1500] for l in lines))
    checked, bad = vlib.validate_traces("Trace_EncodedStream", lines, cfg="Trace_EncodedStream.cfg", shards=1, xss="512m")
    byid = {json.loads(l)["id"]: dict(json.loads(l), u=json.loads(l).get("cps"), tw=None) for l in lines}
    chk.add_cases(len(lines), validated=checked)
    uc.report_bad(chk, bad, byid, "C13")
    return chk.finish()
