"""C15 - ISO-8601 parsing either yields the denoted value or throws; it never wraps.

 spec/Chrono.tla            the documented grammar and its denotation: DtParse / DurParse, allowed outcomes per target
 spec/ChronoGen.tla         TLC state machine, one action per grammar production (+ calendar product, limit
                            neighbourhoods printed by the spec, fractions, single-character mutations): generates the texts
 spec/MC_Chrono.tla         exhaustive day walk: calendar closed forms = successor rule; Parse(Print(x)) = x
 harness/chrono_harness.cpp parses every text into 28 time_point + time_t + tm / 28 duration targets (char) and a
                            subset from char16_t / char32_t / wchar_t strings; logs value or exception type
 spec/Trace_ChronoParse.tla decides every logged outcome; classifies rejected ones by named deviations
"""
import json
import os
import vlib
from vlib import Check
from checks import c14 as base


GEN_CFG = """SPECIFICATION Spec
CONSTANTS
  Kinds = %(kinds)s
  MaxDevDt = %(devdt)d
  MaxDevDu = %(devdu)d
  FracLen = %(fraclen)d
  FracSample = %(fracsample)d
  Seed = %(seed)d
  MutBases = %(mutbases)d
INVARIANTS TypeOK Total Export
"""

# labels every generator action puts on its terminal states: all must occur (vacuity guard; -coverage is not
# usable on the Chrono modules, it does not terminate in TLC's start-up phase)
GEN_LABELS = {"dt", "du", "cal", "cal-feb", "mut-alias", "du-extreme", "lim-dt", "lim-du", "frac-dt", "frac-du", "fracseed-dt", "fracseed-du", "fracbound-dt",
              "fracbound-du", "mut-base", "mut-delete", "mut-insert", "mut-replace"}


def generate(chk, tier):
    """Run the grammar state machine(s); returns the list of generated texts {k, g, t}."""
    seed = vlib.seed() % 1000
    if tier == "quick":
        confs = [dict(kinds='{"dt", "du", "cal", "lim", "frac", "mut"}', devdt=2, devdu=1, fraclen=2, fracsample=200, mutbases=6)]
    else:
        confs = [dict(kinds='{"dt", "cal", "lim", "mut"}', devdt=3, devdu=1, fraclen=1, fracsample=1, mutbases=10),
                 dict(kinds='{"du"}', devdt=1, devdu=2, fraclen=1, fracsample=1, mutbases=1),
                 dict(kinds='{"frac"}', devdt=1, devdu=1, fraclen=4, fracsample=20000, mutbases=1)]
    jobs = []
    for i, c in enumerate(confs):
        cfg = base.write_cfg("chronogen_%d.cfg" % i, GEN_CFG % dict(c, seed=seed))
        jobs.append(dict(module="ChronoGen", cfg=cfg, timeout=1700, xmx="4g", workers=max(2, vlib.NCPU // len(confs)),
                         env={"JAVA_TOOL_OPTIONS": "-XX:ParallelGCThreads=4"}))
    texts = []
    seen = set()
    for c, r in zip(confs, vlib.tlc_parallel(jobs)):
        chk.add_tlc("ChronoGen (one action per production; invariants TypeOK, Total)", r, c)
        for g in r.printed("GEN"):
            key = (g["k"], tuple(g["t"]))
            if key not in seen:
                seen.add(key)
                texts.append(g)
    labels = {g["g"] for g in texts}
    missing = GEN_LABELS - labels
    if missing:
        raise vlib.MachineryError("vacuity: generator actions never produced a text: %s" % sorted(missing))
    return texts


def run_check(tier):
    base.install_known_findings_override()
    chk = Check("C15", tier)
    chk.cov["rule"] = ("cases = generated texts (grammar productions with up to MaxDev deviations, calendar product, limit "
                       "neighbourhoods, fractions, mutations), each parsed into 28 time_point + time_t + tm or 28 duration "
                       "targets and three wide string types; distinct = distinct (parser, text)")
    chk.assumptions += [
        "grammar decisions D1-D6 in spec/Chrono.tla (strict vs lenient superset, ties of the sub-second rounding may go either way, "
        "two simultaneous errors may be reported as either exception class when a number exceeds 2^31-1)",
        "char strings are UTF-8 encodings of the generated code points; ill-formed UTF input is C12's subject",
        "std::isdigit on a negative char is undefined behaviour the model cannot observe; on glibc it returns 0"]
    # 1. model level: calendar + print/parse consistency of the specification itself
    base.leg_mc_chrono(chk, tier)
    # 2. generation
    texts = generate(chk, tier)
    rows = [{"id": "g%d" % i, "k": g["k"], "t": g["t"]} for i, g in enumerate(texts)]
    kinds = {}
    for g in texts:
        kinds[g["g"]] = kinds.get(g["g"], 0) + 1
    chk.cov["generated_by_action"] = kinds
    # 3. replay on the real parsers
    exe = base.build_chrono()
    req = os.path.join(vlib.scratch(), "c15_req.ndjson")
    vlib.write_ndjson(req, rows)
    lines = base.run_sharded(exe, "parse", req, rows)
    if len(lines) != len(rows):
        raise vlib.MachineryError("harness returned %d records for %d texts" % (len(lines), len(rows)))
    chk.add_cases(len(rows), distinct_keys=((g["k"], tuple(g["t"])) for g in texts))
    chk.sample({"text": "".join(chr(c) for c in texts[len(texts) // 3]["t"]), "record": json.loads(lines[len(lines) // 3])})
    # 4. the specification decides
    checked, bad = vlib.validate_traces("Trace_ChronoParse", lines, cfg="Trace_ChronoParse.cfg", timeout=1700, xmx="2g",
                                        env={"JAVA_TOOL_OPTIONS": "-XX:ParallelGCThreads=2"})
    chk.add_cases(0, validated=checked)
    byid = {r["id"]: r for r in rows}
    grouped = {}
    for b in bad:
        if b["why"] in ("spec-unsupported", "shape", "wide-shape"):
            raise vlib.MachineryError("trace validator could not judge record %s: %s" % (b["id"], b))
        grouped.setdefault((b["id"], b["dev"], b["why"]), []).append(b)
    for (rid, dev, why), bs in grouped.items():
        text = "".join(chr(c) if 32 <= c < 127 else "\\u%04x" % c for c in byid[rid]["t"])
        kind = "date-time" if byid[rid]["k"] == "dt" else "duration"
        chk.fail("%s text \"%s\": %s for %s (observed %s, specification allows %s)%s" % (
            kind, text, why, bs[0]["tgt"], bs[0]["obs"], bs[0]["allowed"],
            "" if len(bs) == 1 else " and %d more targets" % (len(bs) - 1)),
            {"text": text, "codes": byid[rid]["t"], "parser": byid[rid]["k"], "verdicts": bs[:8]}, dev=dev or None)
    return chk.finish()


def run(tier):
    return run_check(tier)


def replay(path):
    """Re-parses the text of a recorded violation and lets the specification judge it again."""
    base.install_known_findings_override()
    f = json.load(open(path))
    case = f["case"]
    print("replaying %s text %r" % (case["parser"], case["text"]))
    exe = base.build_chrono()
    rows = [{"id": "replay", "k": case["parser"], "t": case["codes"]}]
    req = os.path.join(vlib.scratch(), "c15_replay.ndjson")
    vlib.write_ndjson(req, rows)
    lines = [l for l in vlib.run([exe, "parse", req]).stdout.splitlines() if l.strip()]
    print(lines[0])
    checked, bad = vlib.validate_traces("Trace_ChronoParse", lines, cfg="Trace_ChronoParse.cfg")
    for b in bad:
        print("REJECTED: %s" % json.dumps(b))
    print("replay: %d verdict(s) rejected" % len(bad))
    return 1 if any(not b["dev"] for b in bad) else 0
