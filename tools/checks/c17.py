"""C17 - validation reports exactly the failing fields and rules, after a full load.

gen    : TLC explores spec/MC_Validation.tla (abstract rules A + implementation-shaped M of spec/Validation.tla);
         every state is a scenario exported with the observation A prescribes; the property-level statements
         (exception iff a validator fails, exactly the failing fields / rules in order, cap, passing fields loaded,
         built-in semantics, M refines A / the named deviation) are invariants checked in every state.
replay : harness/val_harness.cpp executes every scenario on the real code on MsgPack, JSON, XML and CSV archives
         (document produced by saving a writer object with the same archive, loaded into the validated class), from
         memory AND through the std::istream overload of LoadObject (stringstream, 3-bytes-per-read stream buffer):
         the prescribed observation does not depend on the medium.
judge  : plain equality with the prescribed observation.  Python only normalises paths as the property allows
         ("array positions aside"): a component made of digits (JSON/MsgPack/CSV position) or the XML item element
         "object" becomes '*', and entries whose normalised paths coincide are merged in map order.
"""
import hashlib
import json
import os
import vlib
from vlib import Check

KNOWN_ENV = "VERIF_C17_KNOWN_FINDINGS"      # alternative known-findings file (for testing the KNOWN-FINDING path locally)
if os.environ.get(KNOWN_ENV):
    def _alt_known():
        with open(os.environ[KNOWN_ENV]) as f:
            return json.load(f)
    vlib.load_known_findings = _alt_known

ALL_PLACES = '{"flat", "nested", "arr", "map", "rootarr"}'
SCALARS = '{"int", "str", "optint"}'
ALL_TYPES = '{"int", "str", "optint", "vecint", "vecstr", "mapint", "obj"}'      # families of the rules mode (+ "phone", "email")
INVARIANT = "Check"


def write_cfg(name, text):
    p = os.path.join(vlib.scratch(), name)
    with open(p, "w") as f:
        f.write(text)
    return p


def gen(chk, label, constants, timeout=1500):
    cfg = "SPECIFICATION Spec\nCONSTANTS\n" + "".join("  %s = %s\n" % kv for kv in constants.items()) + "INVARIANTS %s\n" % INVARIANT
    r = vlib.tlc("MC_Validation", cfg=write_cfg("MC_Validation_%s.cfg" % label, cfg), timeout=timeout, xmx="6g", coverage=True)
    chk.add_tlc("MC_Validation %s" % label, r, constants)
    zero = [a for a in r.coverage_zero_actions() if a in ("Next", "NextRules", "NextFields")]
    if zero:
        raise vlib.MachineryError("vacuity: actions never taken in MC_Validation %s: %s" % (label, zero))
    sc = r.printed("GEN")
    if len(sc) != r.distinct:
        raise vlib.MachineryError("MC_Validation %s: %d scenarios exported for %d distinct states" % (label, len(sc), r.distinct))
    return sc


def harness():
    return vlib.build("val_harness", ["val_harness.cpp"], groups=("msgpack", "csv", "common"), libs=["-lpugixml"])


ARCH_ORDER = ["json", "xml", "msgpack", "csv"]
CHUNK = 20000
STREAMS = ["sstream", "short3", "file"]     # std::istream overload of LoadObject (vh::MakeStream kinds) and LoadObjectFromFile()
MEDIA = ["mem"] + STREAMS


def replay_scenarios(scens, tag, withdoc=False, media=None):
    """Executes the scenarios on the real archives and media; returns list of (scenario, arch, observation)."""
    explicit_media = media
    rows = []
    runs = []
    for i, s in enumerate(scens):
        archs = [a for a in ARCH_ORDER if a in s["archs"]]
        # memory + one other entry point per scenario (stringstream / short-read stream / file, alternating); a replay names its medium
        media = explicit_media or ["mem", STREAMS[i % len(STREAMS)]]
        rows.append({"id": "%s%d" % (tag, i), "place": s["place"], "nel": s["nel"], "cap": s["cap"], "fields": s["fields"], "archs": archs, "media": media, "pol": s.get("pol", "skip")})
        runs += [(i, a, m) for a in archs for m in media]
    sp = os.path.join(vlib.scratch(), "val_%s.ndjson" % tag)
    vlib.write_ndjson(sp, rows)
    obs = vlib.run_resumable([harness(), "run", sp] + (["withdoc"] if withdoc else []), timeout=2400)
    os.unlink(sp)
    if len(obs) != len(runs):
        raise vlib.MachineryError("replay %s: %d observations for %d runs" % (tag, len(obs), len(runs)))
    out = []
    for o in obs:
        i, a, m = runs[o["run"]]
        if o.get("e") == "Crash" and o.get("status") == 3 << 8:
            raise vlib.MachineryError("val_harness rejected scenario %s on %s (see its stderr)" % (json.dumps(rows[i]), a))
        if "arch" in o and o["arch"] != a:
            raise vlib.MachineryError("replay %s: run %d is %s, expected %s" % (tag, o["run"], o["arch"], a))
        if "medium" in o and o["medium"] != m:
            raise vlib.MachineryError("replay %s: run %d is on %s, expected %s" % (tag, o["run"], o["medium"], m))
        o["arch"] = a
        o["medium"] = m
        out.append((scens[i], a, o))
    return out


def norm_path(arch, path):
    """'Array positions aside': positions (digits; in XML the unnamed item element "object") -> '*'."""
    comps = path.split("/")
    if arch == "xml":
        return "/".join("*" if c == "object" else c for c in comps)
    return "/".join("*" if c.isdigit() else c for c in comps)


def norm_path_parents(path):
    """Rendering stated by Dev_MsgPackStreamParentKeyView: every component but the field's own key -> '?'
    (parent keys are foreign bytes which may look like anything, also like a position)."""
    comps = path.split("/")
    return "/".join(c if i in (0, len(comps) - 1) else "?" for i, c in enumerate(comps))


def norm_errs(arch, errs, garbled=False):
    """Observed map (in map order) -> dict normalised path -> messages (entries with equal normalised path merged in order)."""
    d = {}
    for path, msgs in errs:
        d.setdefault(norm_path_parents(path) if garbled else norm_path(arch, path), []).extend(msgs)
    return d


def matches(exp, arch, o, garbled=False):
    """Is observation o equal to the prescribed observation exp?  (comparison only)"""
    if "e" in o or o["exc"] != exp["exc"]:
        return False
    want = exp["errsxml"] if arch == "xml" else exp["errs"]
    if norm_errs(arch, o["errs"], garbled) != {p: m for p, m in want}:
        return False
    if exp["vals"] == ["unspecified"]:
        return True
    return len(exp["vals"]) == len(o["vals"]) and all(e == ["any"] or e == v for e, v in zip(exp["vals"], o["vals"]))


def dev_matches(d, arch, o):
    """Observation equals what the spec prescribes under the named deviation d (on the archive/medium the deviation names)."""
    if d.get("only") == "msgpack-stream":
        if arch != "msgpack" or o.get("medium", "mem") == "mem":
            return False
        if d.get("undef"):       # the spec states that under this deviation only the kind of exception is defined here
            return "e" not in o and o["exc"] == d["exp"]["exc"]
        return matches(d["exp"], arch, o, garbled=True)
    return matches(d["exp"], arch, o)


def short(s):
    return "%s x%d cap=%d %s fields=[%s]" % (s["place"], s["nel"], s["cap"], s.get("pol", "skip"), "; ".join(
        "%s:%s=%s {%s}" % (f["key"], f["t"], f["st"], ",".join(v["k"] + ("(%d,%d)" % (v["a"], v["b"]) if v["k"] in ("range", "phone", "phonenp") else "(%d)" % v["a"] if v["k"] in ("minsize", "maxsize") else "") + ("'" if v["msg"] else "") for v in f["vs"])) for f in s["fields"]))


_dev_seen = {}


def judge(chk, triples, full_cases=200):
    """Equality with the prescribed observation; a difference that equals the spec's expectation under a named deviation
    (exported as `expdev`, guard evaluated by TLC) is classified as that deviation."""
    for s, arch, o in triples:
        exp = s["exp"]
        if matches(exp, arch, o):
            continue
        dev = None
        for d in s.get("expdev", []):
            if dev_matches(d, arch, o):
                dev = d["dev"]
        want = exp["errsxml"] if arch == "xml" else exp["errs"]
        desc = "%s archive (%s), %s: expected %s %s, observed %s" % (
            arch, o["medium"], short(s), exp["exc"][0], json.dumps(want), o.get("e") or ("%s %s" % (json.dumps(o["exc"]), json.dumps(o["errs"]))))
        if "e" not in o and o["exc"] == exp["exc"] and norm_errs(arch, o["errs"]) == {p: m for p, m in want}:
            desc += "; values expected %s observed %s" % (json.dumps(exp["vals"]), json.dumps(o["vals"]))
        if dev:
            seen = _dev_seen.setdefault((id(chk), dev), [0])
            seen[0] += 1
            if seen[0] > full_cases:
                chk.fail(desc, {"scenario": short(s), "arch": arch, "medium": o["medium"]}, dev=dev)   # occurrences of a classified deviation: keep the count, not the bulk
                continue
        chk.fail(desc, {"scenario": {k: s[k] for k in ("place", "nel", "cap", "pol", "fields", "archs")}, "arch": arch, "medium": o["medium"],
                        "expected": exp, "expdev": s.get("expdev", []), "observed": o}, dev=dev)


def digest(s):
    return hashlib.blake2b(json.dumps([s["place"], s["nel"], s["cap"], s["pol"], s["fields"]], sort_keys=True).encode(), digest_size=8).digest()


class Stats:
    """Self-test of the machinery (vacuity guards): what the scenario space really contained."""

    def __init__(self):
        self.n = 0
        self.kinds = set()
        self.places = set()
        self.caps = set()
        self.archs = {}
        self.exc = set()
        self.dev = 0
        self.merged = 0
        self.early = 0
        self.multi = 0
        self.types = set()
        self.pols = set()
        self.shapes = set()

    def add(self, sc):
        for s in sc:
            self.n += 1
            self.places.add(s["place"])
            self.caps.add(s["cap"])
            self.exc.add(s["exp"]["exc"][0])
            self.dev += 1 if any(d["dev"] == "Dev_ValidationCapTruncatesLastField" for d in s["expdev"]) else 0
            for a in s["archs"]:
                self.archs[a] = self.archs.get(a, 0) + 1
            self.pols.add(s["pol"])
            for f in s["fields"]:
                self.types.add((f["t"], f["doc"][0], s["pol"]))
                for v in f["vs"]:
                    self.kinds.add((v["k"], bool(v["msg"])))
                    if v["k"] in ("range", "phone", "phonenp"):
                        self.shapes.add((v["k"], "eq" if v["a"] == v["b"] else "lt", bool(v["msg"])))
            if any(len(m) > 1 for _, m in s["exp"]["errs"]):
                self.multi += 1
            if s["nel"] > 1 and s["place"] in ("arr", "rootarr") and s["exp"]["errs"]:
                self.merged += 1
            if s["exp"]["vals"] == ["unspecified"] or ["any"] in s["exp"]["vals"]:
                self.early += 1

    def selftest(self):
        need = {("req", False), ("req", True), ("range", False), ("range", True), ("minsize", False), ("minsize", True),
                ("maxsize", False), ("maxsize", True), ("email", False), ("email", True), ("phone", False), ("phone", True),
                ("phonenp", False), ("custom", False), ("custom", True)}
        miss = need - self.kinds
        if miss:
            raise vlib.MachineryError("vacuity: validators never explored: %s" % sorted(miss))
        if self.places != {"flat", "nested", "arr", "map", "rootarr", "attr"} or ("wstr", "wstr", "skip") not in self.types or not {0, 1, 2, 3} <= self.caps:
            raise vlib.MachineryError("vacuity: placements %s / caps %s" % (self.places, self.caps))
        if set(self.archs) != set(ARCH_ORDER) or min(self.archs.values()) < 100:
            raise vlib.MachineryError("vacuity: archives %s" % self.archs)
        for t in ("vecint", "vecstr", "mapint", "obj"):
            for k in ("null", "absent", "int"):
                for pol in ("skip", "throw"):
                    if (t, k, pol) not in self.types:
                        raise vlib.MachineryError("vacuity: no %s field with a %s value under policy %s" % (t, k, pol))
        for sh in (("range", "eq", False), ("range", "lt", True), ("phone", "eq", False), ("phone", "eq", True), ("phone", "lt", True), ("phonenp", "eq", True)):
            if sh not in self.shapes:
                raise vlib.MachineryError("vacuity: validator shape never explored: %s" % (sh,))
        if self.exc != {"validation", "none", "ser"} or not self.dev or not self.merged or not self.multi or not self.early:
            raise vlib.MachineryError("vacuity: outcomes %s dev=%d merged=%d multi=%d early=%d" % (self.exc, self.dev, self.merged, self.multi, self.early))


def consts(mode, maxv, maxf, places, caps, fams, cat, pols):
    return {"Mode": '"%s"' % mode, "MaxV": maxv, "MaxF": maxf, "PlaceSet": places, "Caps": caps, "FieldTypes": fams,
            "Catalogue": '"%s"' % cat, "Pols": pols}


def plan(tier):
    """(label, constants) of the TLC runs.  Every run is one shard: generated, replayed, judged, dropped."""
    both = '{"skip", "throw"}'
    if tier == "quick":
        return [
            ("rules2-all", consts("rules", 2, 1, ALL_PLACES, "{0}", ALL_TYPES, "small", both)),
            ("rules3-flat", consts("rules", 3, 1, '{"flat"}', "{0, 1}", SCALARS, "small", '{"skip"}')),
            ("phone-email-flat", consts("rules", 2, 1, '{"flat"}', "{0}", '{"phone", "email"}', "small", '{"skip"}')),
            ("phone-email-rootarr", consts("rules", 1, 1, '{"rootarr"}', "{0}", '{"phone", "email"}', "small", '{"skip"}')),
            ("wide-strings", consts("rules", 2, 1, '{"flat", "rootarr"}', "{0}", '{"wide"}', "small", '{"skip"}')),
            ("xml-attributes", consts("rules", 2, 1, '{"attr"}', "{0}", '{"int", "str"}', "small", '{"skip"}')),
            ("fields3-small", consts("fields", 3, 3, ALL_PLACES, "{0, 1, 2, 3}", "{}", "small", '{"skip"}')),
            ("fields2-throw", consts("fields", 3, 2, '{"flat", "arr"}', "{0, 1, 2}", "{}", "small", '{"throw"}')),
        ]
    p = []
    for place in ("flat", "nested", "arr", "map", "rootarr"):
        p.append(("rules3-%s" % place, consts("rules", 3, 1, '{"%s"}' % place, "{0, 1}", ALL_TYPES, "small", both)))
    p.append(("wide-strings", consts("rules", 3, 1, ALL_PLACES, "{0, 1}", '{"wide"}', "small", both)))
    p.append(("xml-attributes", consts("rules", 3, 1, '{"attr"}', "{0, 1}", '{"int", "str", "phone", "email"}', "small", both)))
    p.append(("phone-email", consts("rules", 2, 1, ALL_PLACES, "{0, 1}", '{"phone", "email"}', "small", both)))
    for place in ("flat", "nested", "arr", "map", "rootarr"):
        p.append(("fields3-large-%s" % place, consts("fields", 3, 3, '{"%s"}' % place, "{0, 1, 2, 3, 4}", "{}", "large", '{"skip"}')))
    p.append(("fields3-small-throw", consts("fields", 3, 3, ALL_PLACES, "{0, 1, 2, 3}", "{}", "small", '{"throw"}')))
    p.append(("fields4-small", consts("fields", 3, 4, '{"flat", "rootarr"}', "{0, 1, 2, 3, 4}", "{}", "small", '{"skip"}')))
    return p


def run_check(tier):
    chk = Check("C17", tier)
    chk.cov["rule"] = ("case = (class: <=3 fields x <=3 validators each with default/custom message; document: status of every field; "
                       "placement flat/nested/array/map/root array; maxValidationErrors) loaded on one archive; distinct = distinct "
                       "(placement, elements, cap, fields); non-trivial = at least one validator attached")
    chk.assumptions += [
        "abstract rules spec/Validation.tla (A); TLC checks ExceptionIffFailure / ExactlyFailingFields / ExactlyFailingRules / "
        "PassingFieldsLoaded / BuiltinSemantics / MFixedRefinesA / MUnchangedIsADev in every state (invariant Check)",
        "paths compared with array positions replaced by '*' (digits; XML item element 'object'); equal normalised paths merged",
        "every scenario is loaded from memory and through one more entry point, alternating: std::istream (stringstream; stream buffer "
        "delivering 3 bytes per read) or LoadObjectFromFile(), on every applicable archive",
        "Email / PhoneNumber bound only on the documented examples (README, validators_tests.cpp); the default PhoneNumber texts per "
        "failure reason and their precedence are transcribed from validators.h",
        "field types: int, string, optional<int>, vector<int>, vector<string>, map<string,int>, nested object; MismatchedTypesPolicy Skip and "
        "ThrowError (a mismatched value ends the load with MismatchedTypes; null and absent are 'not loaded' under both)",
        "XML + ThrowError + null container/object: not expressible (XML has no null); CSV: scalar fields only",
        "XML attributes (AttributeValue): int and string fields, present or absent; std::u16string fields with Email / PhoneNumber on documented "
        "ASCII examples and on the same examples with one character replaced by c+0x100 / c+0x400 (invalid: no SMTPUTF8 / invalid character)",
        "values of failing fields, of fields after an early end (cap reached) and of containers left partly loaded by an early end are not prescribed",
        "XML, cap > 0, two array elements, cap not reached inside the first element: not prescribed (XML paths carry no position)",
    ]
    stats = Stats()
    nruns = 0
    mid = None
    for label, constants in plan(tier):
        sc = gen(chk, label, constants)
        stats.add(sc)
        for off in range(0, len(sc), CHUNK):        # bounded number of observation records in memory
            triples = replay_scenarios(sc[off:off + CHUNK], "%s_%d" % (label.replace("-", "_"), off))
            judge(chk, triples)
            nruns += len(triples)
            chk.add_cases(len(triples), validated=len(triples))
            del triples
        chk.add_cases(0, distinct_keys=(digest(s) for s in sc if any(f["vs"] for f in s["fields"])))
        if sc:
            mid = sc[len(sc) // 2]
            chk.sample({"scenario": short(mid), "archs": mid["archs"], "expected": mid["exp"]}, limit=4)
        del sc
    stats.selftest()
    return chk.finish(extra_cov={"scenarios": stats.n, "runs_per_archive": {a: n * 2 for a, n in stats.archs.items()}, "media": "mem + one of %s per scenario (alternating)" % STREAMS, "scenarios_under_deviation_guard": stats.dev,
                                 "scenarios_with_merged_array_paths": stats.merged, "scenarios_with_multi_message_field": stats.multi},
                      exhaustive=True)


def run(tier):
    return run_check(tier)


def replay(path):
    """Re-executes the scenario of a replay file on the real code and prints the document, the expected and the observed result."""
    with open(path) as f:
        rec = json.load(f)
    case = rec["case"]
    s = dict(case["scenario"], exp=case["expected"], expdev=case.get("expdev", []))
    s["archs"] = [case["arch"]]
    rc = 0
    for sc, arch, o in replay_scenarios([s], "replay", withdoc=True, media=[case.get("medium", "mem")]):
        ok = matches(sc["exp"], arch, o)
        dev = [d["dev"] for d in sc["expdev"] if dev_matches(d, arch, o)]
        print("scenario : %s" % short(sc))
        print("archive  : %s (%s)" % (arch, o["medium"]))
        print("document : %s" % o.get("doc"))
        print("expected : %s" % json.dumps(sc["exp"]))
        print("observed : %s" % json.dumps({k: o.get(k) for k in ("e", "exc", "errs", "vals") if k in o}))
        print("verdict  : %s" % ("equal" if ok else "DIFFERENT" + (" (explained by %s)" % dev[0] if dev else "")))
        rc |= 0 if ok else 1
    return rc
