"""C05 - a skipped value never disturbs the loading of its neighbours."""
import json
from vlib import Check
from checks import mpcommon as mp
from checks import jsoncommon as jc


def run_check(tier):
    chk = Check("C05", tier)
    chk.cov["rule"] = ("case = (well-typed document shape with a subset of values replaced by offending values of another kind, "
                       "legal encoding, Skip policies) loaded on one medium; distinct = distinct (document bytes, script, policies); "
                       "non-trivial = at least one offending value")
    chk.assumptions += ["abstract load semantics spec/LoadScript.tla; TLC checks SkipNeverThrows / SkipKeepsShape on it in every state",
                        "shapes: object with array+scalars into typed containers, array of objects, byte containers (bin and int array), scalars in an array"]
    quick = tier == "quick"
    sc = mp.gen("MC_LoadScript", {"Mode": '"skip"', "MaxOps": 2 if quick else 3, "Widths": "{0, 1}" if quick else "{0, 1, 2, 4}", "Pads": "{0}"},
                ["SkipNeverThrows", "SkipKeepsShape", "Export"], "skip", chk, timeout=3000, xmx="8g")
    pairs = mp.replay(sc, mp.MEDIA_SEEKABLE + ["nonseek"], 8, "k8")
    pairs += mp.replay(sc[::3] if quick else sc, ["mem", "sstream"], 256, "k256")
    mp.judge(chk, pairs, "MsgPack load with offending values")
    chk.add_cases(len(pairs), distinct_keys=((json.dumps(s["doc"]), json.dumps(s["root"]), json.dumps(s["pol"])) for s in sc), validated=len(pairs))
    chk.sample({"scenario": {k: sc[len(sc) // 2][k] for k in ("doc", "root", "pol")}, "expected": sc[len(sc) // 2]["exp"]})
    del pairs, sc
    jc.load_leg(chk, tier, "skip", {"MaxOps": 2, "Widths": "{0, 3}" if quick else "{0, 1, 3, 4, 6}"},
                ["SkipNeverThrows", "SkipKeepsShape", "Export"], label="JSON load with offending values")
    jc.load_leg(chk, tier, "skip", {"MaxOps": 2, "Widths": "{0, 3}" if quick else "{0, 1, 2, 3, 5}"},
                ["SkipNeverThrows", "SkipKeepsShape", "Export"], label="XML load with offending values", arch="xml")
    return chk.finish()


def run(tier):
    return run_check(tier)


def replay(path):
    print(open(path).read())
    return run_check("quick")
