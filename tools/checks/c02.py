"""C02 - no input can crash, hang, or exhaust the loader or the string converters.

 spec/Robust.tla          the abstract statement: outcome alphabet {Completed, StdException}; resource bound
                          peak request <= 256*n + 128 KiB, bytes requested <= 256*n + 256 KiB; named deviations with guards
 spec/MC_Robust.tla       TLC state machine generating the inputs: valid documents of the four formats rendered by the Layer-1
                          specs, every truncation, every single-byte corruption over a damage alphabet, adversarial MsgPack
                          headers, Nest(d) up to d = 100000, Wide(n); invariants on the model's own bookkeeping
 Gen_Unicode12 / ChronoGen / NumericTables   (the generators of C12 / C15 / C16) reduced string sets for the converters
 harness/robust_harness.cpp   raw bytes -> fixed target catalogue (scalar, class, vector, map, trees) x both policy settings x
                          memory / stream, in crash-contained children: normal build (every allocation request counted and
                          capped, RLIMIT_AS, CPU watchdog) and clang ASan+UBSan build
 spec/Trace_Robust.tla    judges every observation and classifies rejected ones by deviation

 VERIF_KNOWN_FINDINGS=<file> replaces /verif/known_findings.json for this run (to try out proposed entries).
 VERIF_C02_JOBS=<n> number of concurrent harness processes (default 8).
"""
import collections
import json
import os
import random
import shutil
import subprocess
import time
from concurrent.futures import ThreadPoolExecutor

import vlib
from vlib import Check

PARTS = {"msgpack": (("msgpack", "common"), []), "json": (("common",), []), "xml": (("common",), ["-lpugixml"]),
         "csv": (("csv", "common"), []), "conv": ((), [])}
N_TARGETS = {"msgpack": 16, "json": 16, "xml": 7, "csv": 2}
CONV_RUNS = {"num": lambda m: 4, "dt": lambda m: 4, "du": lambda m: 4, "utf": lambda m: 2 + 2 * m}   # runs per converter input (m media)
ASAN_OPTIONS = "allocator_may_return_null=0:max_allocation_size_mb=1024:detect_leaks=1:symbolize=0"      # no symbolizer: a report must not spawn llvm-symbolizer
JOBS = int(os.environ.get("VERIF_C02_JOBS", "8"))
DEV_CAP = 12           # failures recorded per (deviation, format, build) class; every occurrence is counted in the evidence

FLIP = {
    "quick": {"FlipMsgPack": "{0, 145, 193, 219, 221, 223, 255}", "FlipJson": "{0, 34, 44, 57, 91, 125, 255}",
              "FlipXml": "{0, 38, 47, 60, 62, 255}", "FlipCsv": "{0, 10, 34, 44, 255}"},
    "thorough": {"FlipMsgPack": "{0, 127, 128, 143, 144, 145, 159, 160, 191, 192, 193, 196, 198, 199, 201, 202, 203, 207, 211, 214, 216, 217, 219, 220, 221, 222, 223, 224, 255}",
                 "FlipJson": "{0, 10, 32, 34, 44, 45, 46, 48, 57, 58, 91, 92, 93, 101, 117, 123, 125, 128, 195, 237, 255}",
                 "FlipXml": "{0, 32, 33, 34, 35, 38, 39, 47, 48, 59, 60, 61, 62, 63, 91, 93, 120, 128, 239, 255}",
                 "FlipCsv": "{0, 9, 10, 13, 34, 44, 48, 59, 97, 128, 254, 255}"},
}


def install_known_findings_override():
    p = os.environ.get("VERIF_KNOWN_FINDINGS")
    if p:
        def load():
            with open(p) as f:
                return json.load(f)
        vlib.load_known_findings = load


def write_cfg(name, text):
    p = os.path.join(vlib.scratch(), name)
    with open(p, "w") as f:
        f.write(text)
    return p


# ----------------------------------------------------------------------------------------------
# builds
# ----------------------------------------------------------------------------------------------
def _ignorelist():
    """UBSan is not applied to functions of namespace rapidjson (third-party header code: RapidJSON 1.1.0 computes
    `null + offset` in internal/stack.h on every first push); ASan stays on.  A committed file: its path is part of the build
    cache key, nothing is written at run time (both build legs run as threads of one process), nothing is needed under /tmp."""
    p = os.path.join(vlib.VERIF, "harness", "ubsan-ignorelist.txt")
    if not os.path.isfile(p):
        raise vlib.MachineryError("missing " + p)
    return p


def build_all(sanitized):
    """Five executables (one per part) of harness/robust_harness.cpp; copied into scratch (the shared cache is pruned by other checks)."""
    # the flags vlib.build(sanitize=True) uses, plus: misaligned accesses are reported and the run continues (one report per source
    # location and process: a non-recoverable alignment check would hide every later defect of the same run)
    san_flags = ["-fsanitize=address,undefined", "-fno-omit-frame-pointer", "-fno-sanitize-recover=undefined",
                 "-fsanitize-recover=alignment", "-fsanitize-ignorelist=" + _ignorelist()]

    def one(part):
        groups, libs = PARTS[part]
        exe = vlib.build("robust_%s%s" % (part, "_san" if sanitized else ""), ["robust_harness.cpp"], defines=["RB_" + part.upper()],
                         groups=groups, libs=libs, compiler="clang++" if sanitized else None, extra_flags=san_flags if sanitized else [])
        dst = os.path.join(vlib.scratch(), os.path.basename(exe).split("-")[0])
        shutil.copy(exe, dst)
        return part, dst

    with ThreadPoolExecutor(max_workers=5) as ex:
        return dict(ex.map(one, PARTS))


# ----------------------------------------------------------------------------------------------
# generation
# ----------------------------------------------------------------------------------------------
def generate_documents(chk, tier):
    quick = tier == "quick"
    consts = dict({"Formats": '{"msgpack", "json", "xml", "csv"}', "CorpusLevel": 1 if quick else 2,
                   "NestDepths": "{10, 100, 1000, 10000, 100000}", "WideSizes": "{100, 100000}", "AdvLevel": 1 if quick else 2},
                  **FLIP[tier])
    cfg = "SPECIFICATION Spec\nCONSTANTS\n" + "".join("  %s = %s\n" % kv for kv in consts.items()) + \
          "INVARIANTS TypeOK ValidAccepted DamageExact NestShape AdvDeclared PresizeLemma Export\n"
    # -coverage 1 exhausts a 6 GB heap on this module (measured); the vacuity guard is the class check below: every action puts
    # its own class label on its successor states, and every label must occur among the exported states
    r = vlib.tlc("MC_Robust", cfg=write_cfg("mc_robust.cfg", cfg), timeout=1700, xmx="6g", coverage=False, workers=min(8, vlib.NCPU))
    chk.add_tlc("MC_Robust (input space; invariants TypeOK ValidAccepted DamageExact NestShape AdvDeclared PresizeLemma)", r, consts)
    gen = r.printed("GEN")
    if len(gen) != r.distinct:
        raise vlib.MachineryError("MC_Robust exported %d inputs for %d states" % (len(gen), r.distinct))
    classes = {g["cls"] for g in gen}
    missing = {"valid", "empty", "cut", "flip", "adv", "nest", "nestcut", "wide"} - classes
    if missing:
        raise vlib.MachineryError("vacuity: input classes never generated: %s" % sorted(missing))
    seen = set()
    inputs = []
    for g in gen:
        key = (g["fmt"], json.dumps(g["rle"]))
        if key in seen:
            continue
        seen.add(key)
        inputs.append({"id": "%s-%s-%d" % (g["fmt"], g["cls"], len(inputs)), "fmt": g["fmt"], "cls": g["cls"], "rle": g["rle"], "u": [],
                       "n": g["n"], "info": g["info"]})
    return inputs


def generate_converter_inputs(chk, tier):
    """The string sets of C12 / C15 / C16, reduced: produced by those checks' own TLC generator modules."""
    quick = tier == "quick"
    rows = []
    # --- C12: ill-formed and neighbouring well-formed code unit strings
    ujobs = [("u8x1", 0, 0), ("u8long", 0, 0), ("u16", 7, 7), ("u32", 7, 7)]
    if not quick:
        ujobs += [("u8r2", 1, 31), ("u8o3", 5, 9), ("u16", 9, 9), ("u16", 1, 1), ("u16", 15, 15), ("u32", 15, 15), ("u32", 21, 21), ("u32", 1, 1)]
    jobs = []
    outs = []
    for kind, lo, hi in ujobs:
        out = os.path.join(vlib.scratch(), "c02-u-%s-%d.ndjson" % (kind, lo))
        outs.append(out)
        jobs.append(dict(module="Gen_Unicode12", cfg="Gen_Unicode12.cfg", env={"KIND": kind, "LO": lo, "HI": hi, "OUT": out}, workers=1, timeout=900, xmx="2g"))
    # --- C16: numeric texts
    nout = os.path.join(vlib.scratch(), "c02-num-extra.ndjson")
    jobs.append(dict(module="NumericTables", cfg="NumericTables.cfg", env={"MODE": "extra", "OUT": nout}, workers=1, timeout=900, xmx="2g"))
    sout = os.path.join(vlib.scratch(), "c02-num-strings.ndjson")
    hi = (12 ** 4 - 1) // 11 - 1 if quick else (12 ** 5 - 1) // 11 - 1          # all strings of length <= 3 / <= 4 over the 12 symbols
    jobs.append(dict(module="NumericTables", cfg="NumericTables.cfg", env={"MODE": "strings", "LO": 0, "HI": hi, "OUT": sout}, workers=1, timeout=900, xmx="2g"))
    # --- C15: ISO-8601 texts from the grammar state machine
    ccfg = write_cfg("c02_chronogen.cfg", "SPECIFICATION Spec\nCONSTANTS\n  Kinds = {\"dt\", \"du\", \"lim\", \"mut\"}\n  MaxDevDt = %d\n  MaxDevDu = 1\n"
                     "  FracLen = 1\n  FracSample = 1\n  Seed = %d\n  MutBases = %d\nINVARIANTS TypeOK Export\n" % (1 if quick else 2, vlib.seed() % 1000, 2 if quick else 6))
    jobs.append(dict(module="ChronoGen", cfg=ccfg, timeout=1500, xmx="4g", workers=4))
    res = vlib.tlc_parallel(jobs, max_parallel=JOBS)
    for (kind, lo, hi2), out, r in zip(ujobs, outs, res):
        for q in vlib.read_ndjson(out):
            u = [(x[0] * 65536 + x[1]) if isinstance(x, list) else x for x in q["u"]]     # UTF-32 units are exported as 16-bit halves
            rows.append({"fmt": "utf", "sf": q["sf"], "u": u, "src": "Gen_Unicode12/" + kind})
        os.unlink(out)
    for out, fmt in ((nout, "num"), (sout, "num")):
        for q in vlib.read_ndjson(out):
            rows.append({"fmt": fmt, "sf": 32, "u": q["t"], "src": "NumericTables"})
        os.unlink(out)
    cr = res[-1]
    chk.add_tlc("ChronoGen (C15 grammar state machine, reduced)", cr)
    seen = set()
    for g in cr.printed("GEN"):
        key = (g["k"], tuple(g["t"]))
        if key not in seen:
            seen.add(key)
            rows.append({"fmt": g["k"], "sf": 32, "u": g["t"], "src": "ChronoGen/" + g["g"]})
    inputs = []
    dedup = set()
    for q in rows:
        key = (q["fmt"], q["sf"], tuple(q["u"]))
        if key in dedup:
            continue
        dedup.add(key)
        inputs.append({"id": "%s-%d" % (q["fmt"], len(inputs)), "fmt": q["fmt"], "cls": q["src"], "rle": [], "u": q["u"], "sf": q["sf"], "n": len(q["u"])})
    if not all(any(i["fmt"] == f for i in inputs) for f in ("utf", "num", "dt", "du")):
        raise vlib.MachineryError("vacuity: a converter input class is empty")
    return inputs


# ----------------------------------------------------------------------------------------------
# execution
# ----------------------------------------------------------------------------------------------
def group_key(o):
    return (o["o"], o.get("x", "") if o["o"] != "Completed" else "", o.get("kind", ""), o.get("file", ""), o.get("sig", 0),
            bool(o.get("stack", False)), o["acc"],
            o["t"] == "encstream" or (o["m"] != "mem" and o["t"] != "transcode" and "/" not in o["t"]),     # input travelled through a stream reader
            o["pk"] > 131072, o["tb"] > 262144)       # runs with large requests are kept apart from the ordinary ones (counts stay meaningful)


def aggregate(inputs, lines, build, expected_runs):
    """Observation lines of one harness process -> one trace record per input (runs with the same observation merged;
    plumbing only: the merged record keeps the maxima of the monotone quantities and one example)."""
    per = collections.defaultdict(dict)
    counts = collections.Counter()
    notrun = [0]
    samples = {}
    done = None
    for l in lines:
        if not l.startswith("{"):
            continue
        o = json.loads(l)
        if "done" in o:
            done = o["done"]
            continue
        i = o["i"]
        if not (o["o"] == "Sanitizer" and o.get("x") == "leak-check"):
            counts[i] += 1
        if o["o"] == "NotRun":          # the harness stopped after several hangs (see RB_MAX_HANGS)
            notrun[0] += 1
            continue
        k = group_key(o)
        g = per[i].get(k)
        if g is None:
            per[i][k] = {"o": k[0], "x": k[1], "kind": k[2], "file": k[3], "sig": k[4], "stack": k[5], "acc": k[6], "stream": k[7],
                         "pk": o["pk"], "tb": o["tb"], "cnt": 1, "ex": "%s/%s/%s" % (o["t"], o["p"], o["m"])}
            if o["o"] not in ("Completed", "StdException"):
                samples[(i, k)] = o
        else:
            if o["pk"] > g["pk"]:
                g["ex"] = "%s/%s/%s" % (o["t"], o["p"], o["m"])        # the example is the run with the largest request
            g["pk"] = max(g["pk"], o["pk"])
            g["tb"] = max(g["tb"], o["tb"])
            g["cnt"] += 1
    if done is None:
        raise vlib.MachineryError("harness did not finish its run table")
    recs = []
    for i, inp in enumerate(inputs):
        if counts[i] != expected_runs(inp):
            raise vlib.MachineryError("input %s: %d observations for %d runs (%s build)" % (inp["id"], counts[i], expected_runs(inp), build))
        recs.append({"id": inp["id"], "fmt": inp["fmt"], "cls": inp["cls"], "rle": inp["rle"], "u": inp["u"], "build": build,
                     "groups": list(per[i].values())})
    return recs, samples, notrun[0]


def run_shard(exe, inputs, media, cpu, sanitized, tag, leakcheck):
    path = os.path.join(vlib.scratch(), "c02-in-%s.ndjson" % tag)
    with open(path, "w") as f:
        for inp in inputs:
            row = {"id": inp["id"], "fmt": inp["fmt"]}
            if inp["rle"]:
                row["rle"] = inp["rle"]
            if inp["u"] or inp["fmt"] in ("utf", "num", "dt", "du"):
                row["u"] = inp["u"]
                row["sf"] = inp.get("sf", 8)
            f.write(json.dumps(row, separators=(",", ":")) + "\n")
    env = {"ASAN_OPTIONS": ASAN_OPTIONS, "UBSAN_OPTIONS": "print_stacktrace=0:symbolize=0"}
    if leakcheck:
        env["RB_LEAKCHECK"] = "1"
    p = vlib.run([exe, "run", path, ",".join(media), str(cpu)], timeout=2400, env=env if sanitized else None, check=False)
    os.unlink(path)
    if p.returncode != 0:
        raise vlib.MachineryError("robust harness failed (exit %d) on shard %s:\n%s" % (p.returncode, tag, p.stderr[-2000:]))
    return p.stdout.splitlines()


def weight(inp):
    return 1 + inp["n"] // 2000 + (40 if inp["cls"] in ("nest", "nestcut", "wide") and inp["n"] > 50000 else 0)


def make_shards(inputs, nshards):
    """Greedy balancing: the deep / wide documents are spread over the shards."""
    order = sorted(range(len(inputs)), key=lambda i: -weight(inputs[i]))
    loads = [0] * nshards
    shards = [[] for _ in range(nshards)]
    for i in order:
        k = loads.index(min(loads))
        shards[k].append(inputs[i])
        loads[k] += weight(inputs[i])
    return [s for s in shards if s]


def plan_leg(tasks, part, exe, inputs, media, build, cpu, leakcheck=False):
    """Splits the inputs of one (part, build) leg into shard tasks."""
    if not inputs:
        return
    sanitized = build == "san"
    per_shard = 250 if sanitized else 1500
    shards = make_shards(inputs, max(1, min(4 * JOBS, (len(inputs) + per_shard - 1) // per_shard)))
    for k, shard in enumerate(shards):
        tasks.append({"part": part, "exe": exe, "inputs": shard, "media": media, "build": build, "cpu": cpu, "leak": leakcheck,
                      "tag": "%s-%s-%d" % (part, build, k)})


def run_task(t):
    """One harness process; its output is condensed to trace records at once (the raw run lines are not kept)."""
    nm = len(t["media"])

    def expected(inp):
        if t["part"] == "conv":
            return CONV_RUNS[inp["fmt"]](nm)
        return N_TARGETS[t["part"]] * 2 * nm

    t0 = time.time()
    out = run_shard(t["exe"], t["inputs"], t["media"], t["cpu"], t["build"] == "san", t["tag"], t["leak"])
    recs, smp, notrun = aggregate(t["inputs"], out, t["build"], expected)
    samples = {(t["inputs"][i]["id"], k): o for (i, k), o in smp.items()}
    return recs, samples, time.time() - t0, notrun


class Judge:
    """Collects trace records and has them judged by Trace_Robust in batches."""

    def __init__(self, chk, stats):
        self.chk, self.stats = chk, stats
        self.lines, self.byid, self.samples = [], {}, {}
        self.wall = 0.0

    def add(self, task, recs, samples):
        stats = self.stats
        part, build = task["part"], task["build"]
        for rec in recs:
            self.byid[(rec["id"], build)] = (rec, task)
            for g in rec["groups"]:
                stats["runs"][(build, part)] += g["cnt"]
                stats["outcomes"][(build, part, g["o"] + ((":" + g["kind"]) if g["kind"] else (":" + g["x"]) if g["o"] not in ("Completed", "StdException") else ""))] += g["cnt"]
                if g["acc"] == "malloc" and rec["fmt"] in N_TARGETS and g["o"] in ("Completed", "StdException") and rec["cls"] in ("valid", "nest", "wide"):
                    n = sum(s[0] * len(s[1]) for s in rec["rle"])
                    stats["maxpk_wellformed"] = max(stats["maxpk_wellformed"], (g["pk"] - 131072) / max(n, 1))
                    stats["maxtb_wellformed"] = max(stats["maxtb_wellformed"], (g["tb"] - 262144) / max(n, 1))
            self.lines.append(json.dumps(rec, separators=(",", ":")))
        stats["inputs"][(build, part)] += len(recs)
        for (rid, k), o in samples.items():
            self.samples[(rid, build, k)] = o
        if len(self.lines) >= 60000:
            self.flush()

    def flush(self):
        if not self.lines:
            return
        chk, stats = self.chk, self.stats
        t1 = time.time()
        checked, bad = vlib.validate_traces("Trace_Robust", self.lines, cfg="Trace_Robust.cfg", shards=min(vlib.NCPU, max(1, len(self.lines) // 1500 + 1)),
                                            timeout=1700, xmx="3g")
        self.wall += time.time() - t1
        chk.add_cases(0, validated=checked)
        for b in bad:
            rec, task = self.byid[(b["id"], b["build"])]
            part, build = task["part"], task["build"]
            g = rec["groups"][b["g"] - 1]
            dev = b["dev"] or None
            cls_key = (dev or "(unexplained) " + b["why"], part, build)
            stats["rejected"][cls_key] += g["cnt"]
            stats["rejected_inputs"][cls_key] += 1
            if dev and stats["rejected_inputs"][cls_key] > DEV_CAP:
                continue
            gk = (g["o"], g["x"], g["kind"], g["file"], g["sig"], g["stack"], g["acc"], g["stream"])
            obs = next((o for (i2, b2, k2), o in self.samples.items() if i2 == b["id"] and b2 == build and k2[:8] == gk), g)
            sf = next((i.get("sf", 8) for i in task["inputs"] if i["id"] == rec["id"]), 8)
            chk.fail("%s input %s (%s, %d bytes): %s in %d run(s), e.g. %s on the %s build" % (
                part, b["id"], describe_input(rec), b["n"], b["why"], g["cnt"], g["ex"], "ASan+UBSan" if build == "san" else "normal"),
                {"input": {"id": rec["id"], "fmt": rec["fmt"], "cls": rec["cls"], "rle": rec["rle"], "u": rec["u"], "sf": sf},
                 "build": build, "media": task["media"], "group": g, "observation": obs, "verdict": b}, dev=dev)
        self.lines, self.byid, self.samples = [], {}, {}


def execute(chk, tasks, stats):
    """Runs all shard tasks with JOBS harness processes at a time; the heavy (sanitizer, deep nesting) shards start first."""
    tasks.sort(key=lambda t: -(sum(weight(i) for i in t["inputs"]) * (12 if t["build"] == "san" else 1)))
    judge = Judge(chk, stats)
    nruns0 = sum(stats["runs"].values())
    with ThreadPoolExecutor(max_workers=JOBS) as ex:
        futs = [(t, ex.submit(run_task, t)) for t in tasks]
        for t, f in futs:
            recs, samples, wall, notrun = f.result()
            stats["notrun"] += notrun
            stats["wall"][(t["build"], t["part"])] = round(stats["wall"].get((t["build"], t["part"]), 0) + wall, 1)
            judge.add(t, recs, samples)
    judge.flush()
    stats["wall"][("judge", "all")] = round(judge.wall, 1)
    chk.add_cases(sum(stats["runs"].values()) - nruns0)


def describe_input(rec):
    if rec["u"] or not rec["rle"]:
        return "units " + json.dumps(rec["u"][:24]) if rec["u"] else "empty input"
    segs = []
    for n, b in rec["rle"][:5]:
        h = bytes(b[:24]).hex() + (".." if len(b) > 24 else "")
        segs.append(h if n == 1 else "%dx(%s)" % (n, h))
    return "bytes " + " ".join(segs)


# ----------------------------------------------------------------------------------------------
def run_check(tier, only_inputs=None):
    install_known_findings_override()
    chk = Check("C02", tier, level="model_checking")
    quick = tier == "quick"
    chk.cov["rule"] = ("case = one run = (input, target of the catalogue, policy setting, medium) on one build; inputs are the states of "
                       "MC_Robust (valid / cut / flip / adv / nest / nestcut / wide / empty) plus the reduced C12 / C15 / C16 string sets; "
                       "distinct = distinct (format, input bytes)")
    chk.assumptions += [
        "resource constants (Robust.tla): CPeak = CTotal = 256 bytes per input byte, KPeak = 128 KiB, KTotal = 256 KiB, derived from what "
        "well-formed inputs need with the catalogue's largest element type (176 bytes) and RapidJSON's 64 KiB first chunk",
        "Hang = CPU time of one call above 10 s (normal build) / 60 s (sanitizer build) + 1 s per 10 KB of input, or 12 times that + 60 s of wall time",
        "undefined behaviour is observable only as a sanitizer report on the generated inputs (no coverage-guided search); UBSan is not "
        "applied to functions of namespace rapidjson (third-party header code)",
        "the ASan build counts and caps C++ allocations only; malloc-level requests of RapidJSON / pugixml are capped by max_allocation_size_mb",
        "stack: default 8 MiB main-thread stack; D0 = 15000 (g++ -O1) / 5000 (ASan) nesting levels"]
    stats = {"outcomes": collections.Counter(), "runs": collections.Counter(), "inputs": collections.Counter(), "wall": {},
             "rejected": collections.Counter(), "rejected_inputs": collections.Counter(), "maxpk_wellformed": 0.0, "maxtb_wellformed": 0.0, "notrun": 0}
    t0 = time.time()
    with ThreadPoolExecutor(max_workers=2) as ex:
        fb = ex.submit(build_all, False)
        fs = ex.submit(build_all, True)
        if only_inputs is None:
            docs = generate_documents(chk, tier)
            conv = generate_converter_inputs(chk, tier)
        else:
            docs = [i for i in only_inputs if i["fmt"] in N_TARGETS]
            conv = [i for i in only_inputs if i["fmt"] not in N_TARGETS]
        exes = fb.result()
        exes_san = fs.result()
    chk.cov["prepare_wall_s"] = round(time.time() - t0, 1)
    by_class = collections.Counter((i["fmt"], i["cls"]) for i in docs)
    chk.cov["inputs_by_class"] = {"%s/%s" % k: v for k, v in sorted(by_class.items())}
    chk.cov["converter_inputs"] = dict(collections.Counter(i["fmt"] for i in conv))
    rnd = random.Random(vlib.seed())
    media_gcc = ["mem", "sstream"] if quick else ["mem", "sstream", "short3", "short1"]
    media_san = ["mem", "sstream"] if quick else ["mem", "sstream", "short3"]
    tasks = []
    for part in ("msgpack", "json", "xml", "csv"):
        mine = [i for i in docs if i["fmt"] == part]
        plan_leg(tasks, part, exes[part], mine, media_gcc, "gcc", 10)
        if quick and only_inputs is None:
            # sanitizer subset: everything except a seeded sample (one in six) of the truncations and corruptions
            sub = [i for i in mine if i["cls"] not in ("cut", "flip") or rnd.random() < 1 / 6]
        else:
            sub = mine
        plan_leg(tasks, part, exes_san[part], sub, media_san, "san", 60, leakcheck=True)
    plan_leg(tasks, "conv", exes["conv"], conv, ["sstream", "short3"], "gcc", 10)
    csub = conv if not quick or only_inputs is not None else [i for i in conv if rnd.random() < 1 / 6]
    plan_leg(tasks, "conv", exes_san["conv"], csub, ["sstream", "short3"], "san", 60, leakcheck=True)
    t1 = time.time()
    execute(chk, tasks, stats)
    chk.cov["execute_and_judge_wall_s"] = round(time.time() - t1, 1)
    for i in docs + conv:
        chk._distinct.add((i["fmt"], json.dumps(i["rle"]), json.dumps(i["u"])))
    chk.cov["runs"] = {"%s/%s" % k: v for k, v in sorted(stats["runs"].items())}
    chk.cov["inputs_executed"] = {"%s/%s" % k: v for k, v in sorted(stats["inputs"].items())}
    chk.cov["harness_process_seconds"] = {"%s/%s" % k: v for k, v in sorted(stats["wall"].items())}
    chk.cov["outcomes"] = {"%s/%s/%s" % k: v for k, v in sorted(stats["outcomes"].items())}
    chk.cov["rejected_runs_by_class"] = {"%s | %s | %s" % k: v for k, v in sorted(stats["rejected"].items())}
    chk.cov["rejected_inputs_by_class"] = {"%s | %s | %s" % k: v for k, v in sorted(stats["rejected_inputs"].items())}
    chk.cov["wellformed_max_bytes_per_input_byte"] = {"peak_over_KPeak": round(stats["maxpk_wellformed"], 2), "total_over_KTotal": round(stats["maxtb_wellformed"], 2)}
    if docs:
        d = docs[len(docs) // 2]
        chk.sample({"input": {k: d[k] for k in ("id", "fmt", "cls", "rle", "n")}})
    if conv:
        chk.sample({"converter_input": conv[len(conv) // 2]})
    if stats["notrun"]:
        chk.cov["runs_not_executed_after_repeated_hangs"] = stats["notrun"]
        print("NOTE: %d runs were not executed: their harness process had already recorded %s hangs" % (stats["notrun"], os.environ.get("RB_MAX_HANGS", "4")))
        if not any(f["dev"] is None and "Hang" in f["what"] for f in chk.failures):
            raise vlib.MachineryError("runs were skipped after hangs, but no unexplained Hang is being reported: coverage would be silently incomplete")
    return chk.finish(exhaustive=False)


def run(tier):
    return run_check(tier)


def replay(path):
    """Re-executes the input of a recorded violation on both builds and lets the specification judge it again."""
    f = json.load(open(path))
    inp = f["case"]["input"]
    print("replaying %s input %s: %s" % (inp["fmt"], inp["id"], describe_input(inp)))
    inp = dict(inp, n=sum(s[0] * len(s[1]) for s in inp["rle"]) + len(inp["u"]), info={})
    return run_check("quick", only_inputs=[inp])
