"""C10 - memory and stream loading are equivalent wherever buffer boundaries fall."""
import json
import os
import vlib
from vlib import Check, tlc, build


def write_cfg(name, text):
    p = os.path.join(vlib.scratch(), name)
    with open(p, "w") as f:
        f.write(text)
    return p


MC_CFG = """SPECIFICATION Spec
CONSTANTS
  CHUNK = %(chunk)d
  MAXLEN = %(maxlen)d
  MAXOPS = %(maxops)d
  SolidSizes = %(solid)s
  ChunkSizes = %(chunks)s
  Fix = "probe"
  SeekKinds = %(seek)s
  PastEndKinds = %(pastend)s
  KeepHist = %(hist)s
  TolerateNonSeekable = TRUE
INVARIANTS ResultsAgree PositionAgrees IsEndAgrees WellFormed %(export)s
"""


def complete_lines(chk, pr, what):
    """Trace lines of a bsr_harness run.  The harness drives the real class directly: when it dies from a signal (the class read or wrote
    outside its window on a call sequence of the specification) that is a violation, not a machinery problem; the traces
    written before are still validated."""
    lines = []
    for l in pr.stdout.splitlines():
        l = l.strip()
        if not l:
            continue
        try:
            json.loads(l)
            lines.append(l)
        except ValueError:
            pass            # the line that was being written when the process died
    if pr.returncode < 0 or pr.returncode in (134, 139):
        chk.fail("CBinaryStreamReader: the process died (exit %d) during %s after %d complete traces" % (pr.returncode, what, len(lines)),
                 {"leg": "binstream", "last_complete_trace": json.loads(lines[-1]) if lines else None, "stderr": pr.stderr[-500:]})
    elif pr.returncode != 0:
        raise vlib.MachineryError("bsr_harness failed (exit %d): %s" % (pr.returncode, pr.stderr[-2000:]))
    return lines


def leg_binstream(chk, tier):
    """CBinaryStreamReader: M => A exhaustively; TLC-generated call sequences replayed on the real class with
    small windows; random traces at the real window size validated against M and A."""
    # 1. exhaustive refinement check (history not kept: states merge)
    confs = [dict(chunk=4, maxlen=9, maxops=6)] if tier == "quick" else \
        [dict(chunk=4, maxlen=13, maxops=8), dict(chunk=3, maxlen=10, maxops=8), dict(chunk=6, maxlen=13, maxops=7)]
    for c in confs:
        cfg = write_cfg("mc_bsr_%d.cfg" % c["chunk"], MC_CFG % dict(
            c, solid="{1, 2, 3, %d, %d}" % (c["chunk"], c["chunk"] + 1), chunks="{1, 3, %d}" % (c["chunk"] + 2),
            seek="{TRUE, FALSE}", pastend="{TRUE, FALSE}", hist="FALSE", export=""))
        r = tlc("MC_BinStreamReader", cfg=cfg, coverage=True, timeout=1500)
        chk.add_tlc("MC_BinStreamReader M=>A", r, c)
        zero = [a for a in r.coverage_zero_actions() if a.startswith("Do")]
        if zero:
            raise vlib.MachineryError("vacuity: actions never taken in MC_BinStreamReader: %s" % zero)
    # 2. path-mode generation -> replay on the real class compiled with the same small window
    lines = []
    gens = [(4, 9, 3)] if tier == "quick" else [(4, 9, 4), (8, 17, 3)]
    for chunk, maxlen, maxops in gens:
        cfg = write_cfg("gen_bsr_%d.cfg" % chunk, MC_CFG % dict(
            chunk=chunk, maxlen=maxlen, maxops=maxops, solid="{1, 2, %d, %d}" % (chunk, chunk + 1),
            chunks="{1, %d}" % (chunk + 2), seek="{TRUE}", pastend="{FALSE}", hist="TRUE", export="Export"))
        r = tlc("MC_BinStreamReader", cfg=cfg, timeout=1500, xmx="8g")
        chk.add_tlc("Gen_BinStreamReader path mode", r, dict(chunk=chunk, maxlen=maxlen, maxops=maxops))
        scen = r.printed("GEN")
        exe = build("bsr_c%d" % chunk, ["bsr_harness.cpp"], groups=("common",),
                    defines=["BITSERIALIZER_VERIF_CHUNK_SIZE=%d" % chunk])
        kinds = ["sstream", "short1", "short3", "nonseek", "file"]
        rows = []
        for i, s in enumerate(scen):
            for k in kinds:
                rows.append({"id": "g%d-%s" % (i, k), "kind": k, "len": s["len"], "mul": 7, "add": 3,
                             "ops": [{"op": o["op"], "arg": o["arg"]} for o in s["ops"]]})
        sp = os.path.join(vlib.scratch(), "bsr_scen_%d.ndjson" % chunk)
        vlib.write_ndjson(sp, rows)
        pr = vlib.run([exe, "replay", sp], timeout=900, check=False)
        os.unlink(sp)
        out = complete_lines(chk, pr, "replay of TLC call sequences (window %d)" % chunk)
        lines += out
        chk.sample({"leg": "binstream-replay", "scenario": rows[len(rows) // 2]})
        chk.add_cases(len(rows), distinct_keys=(("bsr", chunk, s["len"], json.dumps(s["ops"])) for s in scen))
    # 3. random driver at the real window size
    exe = build("bsr_c256", ["bsr_harness.cpp"], groups=("common",))
    nrand = 3000 if tier == "quick" else 40000
    pr = vlib.run([exe, "random", str(nrand), str(vlib.seed()), "1300", "40"], timeout=900, check=False)
    rl = complete_lines(chk, pr, "seeded random call sequences (window 256)")
    lines += rl
    chk.add_cases(len(rl), distinct_keys=(("bsr-rand", hash(l)) for l in rl))
    cfg = write_cfg("trace_bsr.cfg", 'INIT Init\nNEXT Next\nCONSTANT Fix = "probe"\n')
    checked, bad = vlib.validate_traces("Trace_BinStreamReader", lines, cfg=cfg)
    chk.add_cases(0, validated=checked)
    byid = None
    for b in bad:
        if byid is None:
            byid = {json.loads(l)["id"]: l for l in lines}
        t = json.loads(byid[b["id"]])
        t["ev"] = t["ev"][:max(b["bad"], 1)]
        chk.fail("CBinaryStreamReader trace rejected at event %d (%s): kind=%s len=%d chunk=%d" % (
            b["bad"], b["why"], t["kind"], t["len"], t["chunk"]), {"leg": "binstream", "verdict": b, "trace": t},
            dev=b["dev"] or None)


def leg_msgpack_docs(chk, tier):
    """The same MsgPack bytes (valid, truncated, corrupted) through the string reader and through every stream kind at the
    8-byte and the real 256-byte window, with paddings that move the document across window boundaries.  Where the spec
    prescribes the outcome both must equal it; where it is unspecified the outcomes must still be pairwise equal."""
    from checks import mpcommon as mp
    quick = tier == "quick"
    sc = mp.gen("MC_LoadScript", {"Mode": '"typed"', "MaxOps": 1 if quick else 3, "Widths": "{0, 4}" if quick else "{0, 2, 4, 5}", "Pads": "{0}",
                                  "TypedTargets": '{"i32", "str", "f32", "vec_u8", "tp_ns", "objscope", "null"}' if quick else "{}"},
                ["Export"], "c10-typed", chk, timeout=3000, xmx="8g")
    pairs = mp.replay(sc, (["mem", "sstream", "short3", "nonseek", "fileapi"] if quick else mp.MEDIA_SEEKABLE + ["nonseek", "file", "fileapi"]), 8, "d8")
    sf = mp.gen("MC_LoadScript", {"Mode": '"fields"', "MaxOps": 1, "Widths": "{0}", "Pads": mp.tla_set([248, 251, 254] if quick else range(240, 262))},
                ["Export"], "c10-fields256", chk, timeout=3000, xmx="8g")
    pairs += mp.replay(sf, ["mem", "sstream", "short64", "nonseek", "file", "fileapi"], 256, "d256")
    # the property is an equivalence: every stream run must give the outcome of the memory run on the same bytes
    # (same exception category, and when both complete the same events); absolute correctness is decided by C07
    by = {}
    for s, o in pairs:
        by.setdefault(id(s), (s, []))[1].append(o)
    for s, obs in by.values():
        mem = [o for o in obs if o["medium"] == "mem"]
        if not mem or "e" in mem[0]:
            continue
        for o in obs:
            if o["medium"] == "mem" or "e" in o:
                continue
            same = o["exc"] == mem[0]["exc"] and (o["exc"] != ["none"] or o["ev"] == mem[0]["ev"])
            if not same:
                dev = "Dev_NonSeekableStream" if (o["medium"] == "nonseek" and o.get("refused")) else None
                chk.fail("memory and %s loading differ (window %d): %s vs %s" % (o["medium"], o["chunk"], json.dumps(mem[0]["exc"]), json.dumps(o["exc"])),
                         {"scenario": {k: s[k] for k in ("doc", "root", "pol")}, "memory": mem[0], "stream": o}, dev=dev)
    chk.add_cases(len(pairs), distinct_keys=(("docs", json.dumps(s["doc"]), json.dumps(s["root"]), json.dumps(s["pol"])) for s in sc + sf), validated=len(pairs))


def leg_text_docs(chk, tier):
    """JSON and XML: valid documents (UTF-8, with and without BOM) of the C08 space and every damaged variant of MC_DocDamage, loaded
    from memory and through every stream kind: the outcomes must agree (error category, or the delivered events)."""
    from checks import mpcommon as mp
    quick = tier == "quick"
    for arch in ("json", "xml"):
        sc = mp.gen("MC_LoadScript", {"Arch": '"%s"' % arch, "Mode": '"typed"', "MaxOps": 0, "Widths": ("{0, 1}" if quick else "{0, 1, 2}") if arch == "json" else ("{0, 8}" if quick else "{0, 1, 2, 8, 9}"), "Pads": "{0}",
                                      "TypedTargets": '{"i32", "str", "vec_i32", "objscope"}' if quick else "{}"},
                    ["Export"], "c10-%s-typed" % arch, chk, timeout=3000, xmx="6g")
        sc = [s for s in sc if s.get("meta", {}).get("enc", "utf8") == "utf8" and s["root"]["k"] != "leaf"]
        step = max(1, len(sc) // (60 if quick else 600))
        base = sc[::step]
        dp = os.path.join(vlib.scratch(), "c10_%s_docs.ndjson" % arch)
        vlib.write_ndjson(dp, [{"id": i, "doc": s["doc"]} for i, s in enumerate(base)])
        cfg = write_cfg("mc_damage_%s.cfg" % arch, 'SPECIFICATION Spec\nCONSTANTS\n  Arch = "%s"\n  MaxCuts = %d\n  FlipBytes = %s\n  MaxFlipLen = %d\nINVARIANT Export\n' % (
            arch, 3 if quick else 12, "{0, 34, 60, 123}" if quick else "{0, 32, 34, 44, 60, 62, 91, 123, 125, 128, 255}", 40 if quick else 90))
        r = tlc("MC_DocDamage", cfg=cfg, env={"DOCS": dp}, timeout=3000, xmx="6g")
        chk.add_tlc("MC_DocDamage (%s)" % arch, r, {"documents": len(base)})
        scen = [dict(base[g["src"] - 1], doc=g["doc"], kind=g["kind"], utf8ok=g["utf8ok"]) for g in r.printed("GEN")]
        # every intact document of the space (not only the sample that gets damaged)
        sampled = set(id(x) for x in base)
        scen += [dict(x, kind="intact") for x in sc if id(x) not in sampled]
        pairs = mp.replay(scen, ["mem", "sstream", "short3", "nonseek", "fileapi"] if quick else ["mem", "sstream", "short1", "short3", "nonseek", "file", "fileapi"], 8, "t" + arch[0], arch)
        by = {}
        for s, o in pairs:
            by.setdefault(id(s), (s, []))[1].append(o)
        for s, obs in by.values():
            mem = [o for o in obs if o["medium"] == "mem"]
            if not mem or "e" in mem[0]:
                if mem:
                    chk.fail("%s memory load: %s" % (arch, mem[0]["e"]), {"scenario": {k: s[k] for k in ("doc", "root", "pol", "kind")}, "memory": mem[0]})
                continue
            for o in obs:
                if o["medium"] == "mem":
                    continue
                same = "e" not in o and o["exc"] == mem[0]["exc"] and (o["exc"] != ["none"] or o["ev"] == mem[0]["ev"])
                if not same:
                    # guard of Dev_JsonMemoryAcceptsIllFormedUtf8: JSON, the bytes are not well-formed UTF-8 (decided by MC_DocDamage!ValidUtf8),
                    # the stream loader reports a parsing error and the memory loader does not
                    dev = None
                    if arch == "json" and s.get("utf8ok") is False and "e" not in o and o["exc"] == ["ser", "Parsing error"] and mem[0]["exc"] != ["ser", "Parsing error"]:
                        dev = "Dev_JsonMemoryAcceptsIllFormedUtf8"
                    chk.fail("%s: memory and %s loading differ on a %s document: %s vs %s" % (arch, o["medium"], s["kind"], json.dumps(mem[0]["exc"]), o.get("e") or json.dumps(o["exc"])),
                             {"scenario": {k: s[k] for k in ("doc", "root", "pol", "kind")}, "document": bytes(s["doc"]).decode("latin-1")[:200], "memory": mem[0], "stream": o}, dev=dev)
        chk.add_cases(len(pairs), distinct_keys=((arch, json.dumps(s["doc"]), json.dumps(s["root"]), json.dumps(s["pol"])) for s in scen), validated=len(pairs))
        kinds = {}
        for s in scen:
            kinds[s["kind"]] = kinds.get(s["kind"], 0) + 1
        chk.cov.setdefault("text_documents_by_kind", {})[arch] = kinds


def leg_save_identity(chk, tier):
    """Saving to a stream (UTF-8, no BOM) yields exactly the bytes of saving to memory: MsgPack and JSON writers."""
    from checks import mpcommon as mp
    from checks import jsoncommon as jc
    quick = tier == "quick"
    cfg = mp.write_cfg("mc_save_c10.cfg", "SPECIFICATION Spec\nCONSTANT MaxMembers = %d\nINVARIANTS EncoderConsistent Export\n" % (1 if quick else 3))
    r = vlib.tlc("MC_SaveScript", cfg=cfg, timeout=3000, xmx="6g")
    chk.add_tlc("MC_SaveScript (save identity)", r)
    rows = [{"id": "sv%d" % i, "root": s["root"]} for i, s in enumerate(r.printed("GEN"))]
    sp = os.path.join(vlib.scratch(), "save_c10.ndjson")
    vlib.write_ndjson(sp, rows)
    obs = vlib.run_resumable([mp.harness(256), "save", sp], timeout=1800)
    for o in obs:
        if "e" in o or o["mem"] != o["stream"] or o["excmem"] != o["excstream"] or o.get("file", o["mem"]) != o["mem"] or o.get("excfile", o["excmem"]) != o["excmem"]:
            chk.fail("MsgPack save: memory, stream and file (SaveObjectToFile) output differ", {"scenario": rows[o["run"]], "observed": o})
    chk.add_cases(len(rows), distinct_keys=(("save", json.dumps(x["root"])) for x in rows), validated=len(rows))
    jc.save_leg(chk, tier, label="json-save-identity")
    jc.save_leg(chk, tier, label="xml-save-identity", arch="xml")


def run_check(tier):
    chk = Check("C10", tier)
    chk.cov["rule"] = ("cases = call sequences on CBinaryStreamReader (TLC path-mode behaviours x stream kinds, plus seeded random "
                       "sequences at the real 256-byte window); distinct = distinct (window size, stream length, call sequence)")
    chk.assumptions += ["libstdc++ istream semantics as modelled in BinStreamReader.tla (validated: M-state equality after every call)",
                        "stream kinds are the harness test doubles: stringstream, short-read (1/3/64 bytes per underflow), non-seekable"]
    leg_binstream(chk, tier)
    leg_msgpack_docs(chk, tier)
    leg_text_docs(chk, tier)
    leg_save_identity(chk, tier)
    return chk.finish()


def run(tier):
    return run_check(tier)


def replay(path):
    """Re-executes one recorded violation (memory/stream document leg) against the current tree; other legs re-run quick."""
    rec = json.load(open(path))
    case = rec.get("case", {})
    if "scenario" in case and "memory" in case:
        from checks import mpcommon as mp
        s = dict(case["scenario"], id="replay")
        chunk = case["stream"]["chunk"]
        pairs = mp.replay([s], ["mem", case["stream"]["medium"]], chunk, "rp")
        obs = {o["medium"]: o for _, o in pairs}
        print(json.dumps(obs, indent=1))
        m, o = obs["mem"], obs[case["stream"]["medium"]]
        same = o["exc"] == m["exc"] and (o["exc"] != ["none"] or o["ev"] == m["ev"])
        print("REPLAY property=C10 %s" % ("agrees" if same else "still differs"))
        return 0 if same else 1
    print(open(path).read())
    return run_check("quick")
