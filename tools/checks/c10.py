"""C10 - memory and stream loading are equivalent wherever buffer boundaries fall."""
import json
import os
import vlib
from vlib import Check, tlc, build


def write_cfg(name, text):
    p = os.path.join(vlib.scratch(), name)
    with open(p, "w") as f:
        f.write(text)
    return p


MC_CFG = """SPECIFICATION Spec
CONSTANTS
  CHUNK = %(chunk)d
  MAXLEN = %(maxlen)d
  MAXOPS = %(maxops)d
  SolidSizes = %(solid)s
  ChunkSizes = %(chunks)s
  Fix = "clear"
  SeekKinds = %(seek)s
  KeepHist = %(hist)s
  TolerateNonSeekable = TRUE
INVARIANTS ResultsAgree PositionAgrees IsEndAgrees WellFormed %(export)s
"""


def leg_binstream(chk, tier):
    """CBinaryStreamReader: M => A exhaustively; TLC-generated call sequences replayed on the real class with
    small windows; random traces at the real window size validated against M and A."""
    # 1. exhaustive refinement check (history not kept: states merge)
    confs = [dict(chunk=4, maxlen=9, maxops=6)] if tier == "quick" else \
        [dict(chunk=4, maxlen=13, maxops=8), dict(chunk=3, maxlen=10, maxops=8), dict(chunk=6, maxlen=13, maxops=7)]
    for c in confs:
        cfg = write_cfg("mc_bsr_%d.cfg" % c["chunk"], MC_CFG % dict(
            c, solid="{1, 2, 3, %d, %d}" % (c["chunk"], c["chunk"] + 1), chunks="{1, 3, %d}" % (c["chunk"] + 2),
            seek="{TRUE, FALSE}", hist="FALSE", export=""))
        r = tlc("MC_BinStreamReader", cfg=cfg, coverage=True, timeout=1500)
        chk.add_tlc("MC_BinStreamReader M=>A", r, c)
        zero = [a for a in r.coverage_zero_actions() if a.startswith("Do")]
        if zero:
            raise vlib.MachineryError("vacuity: actions never taken in MC_BinStreamReader: %s" % zero)
    # 2. path-mode generation -> replay on the real class compiled with the same small window
    lines = []
    gens = [(4, 9, 3)] if tier == "quick" else [(4, 9, 4), (8, 17, 3)]
    for chunk, maxlen, maxops in gens:
        cfg = write_cfg("gen_bsr_%d.cfg" % chunk, MC_CFG % dict(
            chunk=chunk, maxlen=maxlen, maxops=maxops, solid="{1, 2, %d, %d}" % (chunk, chunk + 1),
            chunks="{1, %d}" % (chunk + 2), seek="{TRUE}", hist="TRUE", export="Export"))
        r = tlc("MC_BinStreamReader", cfg=cfg, timeout=1500, xmx="8g")
        chk.add_tlc("Gen_BinStreamReader path mode", r, dict(chunk=chunk, maxlen=maxlen, maxops=maxops))
        scen = r.printed("GEN")
        exe = build("bsr_c%d" % chunk, ["bsr_harness.cpp"], groups=("common",),
                    defines=["BITSERIALIZER_VERIF_CHUNK_SIZE=%d" % chunk])
        kinds = ["sstream", "short1", "short3", "nonseek"]
        rows = []
        for i, s in enumerate(scen):
            for k in kinds:
                rows.append({"id": "g%d-%s" % (i, k), "kind": k, "len": s["len"], "mul": 7, "add": 3,
                             "ops": [{"op": o["op"], "arg": o["arg"]} for o in s["ops"]]})
        sp = os.path.join(vlib.scratch(), "bsr_scen_%d.ndjson" % chunk)
        vlib.write_ndjson(sp, rows)
        out = vlib.run([exe, "replay", sp], timeout=900).stdout
        os.unlink(sp)
        lines += [l for l in out.splitlines() if l.strip()]
        chk.sample({"leg": "binstream-replay", "scenario": rows[len(rows) // 2]})
        chk.add_cases(len(rows), distinct_keys=(("bsr", chunk, s["len"], json.dumps(s["ops"])) for s in scen))
    # 3. random driver at the real window size
    exe = build("bsr_c256", ["bsr_harness.cpp"], groups=("common",))
    nrand = 3000 if tier == "quick" else 40000
    out = vlib.run([exe, "random", str(nrand), str(vlib.seed()), "1300", "40"], timeout=900).stdout
    rl = [l for l in out.splitlines() if l.strip()]
    lines += rl
    chk.add_cases(len(rl), distinct_keys=(("bsr-rand", hash(l)) for l in rl))
    cfg = write_cfg("trace_bsr.cfg", 'INIT Init\nNEXT Next\nCONSTANT Fix = "clear"\n')
    checked, bad = vlib.validate_traces("Trace_BinStreamReader", lines, cfg=cfg)
    chk.add_cases(0, validated=checked)
    byid = None
    for b in bad:
        if byid is None:
            byid = {json.loads(l)["id"]: l for l in lines}
        t = json.loads(byid[b["id"]])
        t["ev"] = t["ev"][:max(b["bad"], 1)]
        chk.fail("CBinaryStreamReader trace rejected at event %d (%s): kind=%s len=%d chunk=%d" % (
            b["bad"], b["why"], t["kind"], t["len"], t["chunk"]), {"leg": "binstream", "verdict": b, "trace": t},
            dev=b["dev"] or None)


def run_check(tier):
    chk = Check("C10", tier)
    chk.cov["rule"] = ("cases = call sequences on CBinaryStreamReader (TLC path-mode behaviours x stream kinds, plus seeded random "
                       "sequences at the real 256-byte window); distinct = distinct (window size, stream length, call sequence)")
    chk.assumptions += ["libstdc++ istream semantics as modelled in BinStreamReader.tla (validated: M-state equality after every call)",
                        "stream kinds are the harness test doubles: stringstream, short-read (1/3/64 bytes per underflow), non-seekable"]
    leg_binstream(chk, tier)
    return chk.finish()


def run(tier):
    return run_check(tier)


def replay(path):
    print(open(path).read())
    return run_check("quick")
