"""Helpers shared by the Unicode checks C11, C12, C13 (owned by the builder of those checks)."""
import json
import os
import random
import vlib


def pick(seq, n):
    """n seeded choices from seq (VERIF_SEED)."""
    seq = list(seq)
    rnd = random.Random(vlib.seed())
    idx = sorted(rnd.sample(range(len(seq)), min(n, len(seq))))
    return [seq[i] for i in idx]


def use_known_findings_override():
    """VERIF_KNOWN_FINDINGS=<file> makes Check.finish() read the known findings from that file instead of
    /verif/known_findings.json (for trying out entries before they are registered)."""
    p = os.environ.get("VERIF_KNOWN_FINDINGS")
    if p:
        def load():
            with open(p) as f:
                return json.load(f)
        vlib.load_known_findings = load


def known_ids(pid):
    return {k["id"] for k in vlib.load_known_findings()
            if (k.get("property") == pid or pid in k.get("properties", [])) and k.get("status") == "known"}


def report_bad(chk, bad, byid, pid, per_class=25):
    """bad: verdicts of a Trace_* module with fields id, why, dev (dev may be 'Dev_A+Dev_B').
    One failure per (record, deviation class), at most per_class per class; a combined class counts as known
    only if all its parts are."""
    known = known_ids(pid)
    seen = set()
    classes = chk.cov.setdefault("rejected_by_class", {})
    reported = {}
    for b in bad:
        c = b.get("dev") or "(unexplained: %s)" % b.get("why", "")
        classes[c] = classes.get(c, 0) + 1
        key = (b["id"], c)
        if key in seen:
            continue
        seen.add(key)
        reported[c] = reported.get(c, 0) + 1
        if reported[c] > per_class:
            continue
        devs = [d for d in b.get("dev", "").split("+") if d]
        dev = None
        if devs:
            unknown = [d for d in devs if d not in known]
            dev = unknown[0] if unknown else devs[0]
        t = byid.get(b["id"])
        what = "%s: %s (record %s%s)" % (pid, b.get("why", "rejected"), b["id"],
                                         (", input %s -> width %s" % (json.dumps(t["u"]), t.get("tw"))) if t and "u" in t else "")
        case = {"verdict": b, "record": t}
        if t and "runs" in t and isinstance(b.get("run"), int) and 1 <= b["run"] <= len(t["runs"]):
            case["observation"] = t["runs"][b["run"] - 1]
        chk.fail(what, case, dev=dev)


def write_cfg(name, text):
    p = os.path.join(vlib.scratch(), name)
    with open(p, "w") as f:
        f.write(text)
    return p


MC_DEC_CFG = """SPECIFICATION FairSpec
CONSTANTS
  MaxLen = %(maxlen)d
  Alpha8 = %(a8)s
  Alpha16 = %(a16)s
  Alpha32 = %(a32)s
  MarkKinds = {"def", "empty"}
INVARIANTS InBounds OutWellFormed ValidPreserved CountIsMarks ValidInputExact AcceptorAgrees AcceptorRejectsCopy
PROPERTY Terminates
"""


def leg_mc_decstep(chk, tier):
    """DecStep explored exhaustively by TLC (all behaviours of all short strings over class representatives):
    safety invariants of the specification itself + termination under fairness."""
    confs = [dict(maxlen=3, a8="{65, 128, 144, 160, 191, 192, 195, 224, 226, 237, 240, 244, 245, 248, 255}",
                  a16="{65, 8364, 55296, 56319, 56320, 57343, 57344, 65535}",
                  a32="{65, 55296, 57343, 57344, 65536, 1114111, 1114112, 2147483647}")]
    if tier != "quick":
        confs.append(dict(maxlen=4, a8="{65, 128, 144, 191, 193, 195, 224, 237, 240, 244, 247, 252}",
                          a16="{65, 55296, 56319, 56320, 57343, 57344}", a32="{65, 55296, 57344, 1114111, 1114112}"))
    for k, c in enumerate(confs):
        cfg = write_cfg("mc_unicodedec_%d.cfg" % k, MC_DEC_CFG % c)
        r = vlib.tlc("MC_UnicodeDec", cfg=cfg, coverage=True, timeout=1500, workers=8)
        chk.add_tlc("MC_UnicodeDec DecStep safety+liveness", r, c)
        zero = r.coverage_zero_actions()
        if zero:
            raise vlib.MachineryError("vacuity: actions never taken in MC_UnicodeDec: %s" % zero)
