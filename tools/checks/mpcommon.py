"""Shared legs of the MessagePack checks (C03, C05, C07, C10, C20): TLC generates scenarios together with the
observation prescribed by the abstract semantics (spec/LoadScript.tla); the real archive executes them through
the scripted public-API driver (harness/vh_script.h); observations are compared by equality."""
import json
import os
import vlib

MEDIA_SEEKABLE = ["mem", "sstream", "short1", "short3"]


def write_cfg(name, text):
    p = os.path.join(vlib.scratch(), name)
    with open(p, "w") as f:
        f.write(text)
    return p


def tla_set(xs):
    return "{" + ", ".join(str(x) for x in xs) + "}"


def gen_chunks(module, constants, invariants, label, chk, timeout=1500, xmx="10g", chunk=50000):
    """Like gen(), for exhaustive runs with very many exported states: yields the scenarios in lists of at most `chunk`
    (the parsed form of a scenario takes ~20 KB of Python objects; millions of them must never exist at the same time)."""
    if module == "MC_LoadScript":
        constants = dict({"CorruptBytes": "{}", "TypedTargets": "{}", "Arch": '"msgpack"', "NumNeg": "0", "NumPos": "0", "NumBase": "0", "NumLeafOnly": "FALSE"}, **constants)
    cfg = "SPECIFICATION Spec\nCONSTANTS\n" + "".join("  %s = %s\n" % kv for kv in constants.items()) + \
          "INVARIANTS " + " ".join(invariants) + "\n"
    r = vlib.tlc(module, cfg=write_cfg("%s_%s.cfg" % (module, label), cfg), timeout=timeout, xmx=xmx)
    chk.add_tlc("%s %s" % (module, label), r, constants)
    for part in r.printed_chunks("GEN", chunk):
        yield part


def gen(module, constants, invariants, label, chk, timeout=1500, xmx="10g", simulate=None, depth=None):
    if module == "MC_LoadScript":
        constants = dict({"CorruptBytes": "{}", "TypedTargets": "{}", "Arch": '"msgpack"', "NumNeg": "0", "NumPos": "0", "NumBase": "0", "NumLeafOnly": "FALSE"}, **constants)
    cfg = "SPECIFICATION Spec\nCONSTANTS\n" + "".join("  %s = %s\n" % kv for kv in constants.items()) + \
          "INVARIANTS " + " ".join(invariants) + "\n"
    r = vlib.tlc(module, cfg=write_cfg("%s_%s.cfg" % (module, label), cfg), timeout=timeout, xmx=xmx, simulate=simulate, depth=depth)
    chk.add_tlc("%s %s%s" % (module, label, " (simulation)" if simulate else ""), r, constants)
    # random behaviours revisit states: keep each scenario once (dropped on the raw text, before parsing)
    out = r.printed_unique("GEN") if simulate else r.printed("GEN")
    return out


def harness(chunk, arch="msgpack"):
    if arch == "json":
        return vlib.build("scn_json", ["scn_json.cpp"], groups=("common",))
    if arch == "xml":
        return vlib.build("scn_xml", ["scn_xml.cpp"], groups=("common",), libs=["-lpugixml"])
    defs = [] if chunk == 256 else ["BITSERIALIZER_VERIF_CHUNK_SIZE=%d" % chunk]
    return vlib.build("scn_msgpack_c%d" % chunk, ["scn_msgpack.cpp"], groups=("msgpack", "common"), defines=defs)


def media_for(s, media, arch):
    """Text archives: the in-memory entry point takes UTF-8 (with or without a BOM: a file read into a string keeps its BOM);
    the other encodings only travel through streams."""
    if arch == "msgpack":
        return media
    m = s.get("meta", {})
    if m.get("enc", "utf8") == "utf8":
        return media
    return [x for x in media if x != "mem"]


REPLAY_BATCH = 100000      # scenarios per harness process (the interpreter keeps its scenario file in memory; children run under a 3 GiB cap)


def replay(scens, media, chunk, tag, arch="msgpack"):
    """Executes scenarios (dicts with doc/root/pol) on the real archive; returns list (scenario, observation)."""
    out = []
    exe = harness(chunk, arch)
    for lo in range(0, max(len(scens), 1), REPLAY_BATCH):
        part = scens[lo:lo + REPLAY_BATCH]
        rows = []
        runmap = []
        for i, s in enumerate(part):
            ms = media_for(s, media, arch)
            rows.append({"id": "%s%d" % (tag, lo + i), "media": ms, "pol": s["pol"], "doc": s["doc"], "root": s["root"]})
            runmap += [(i, m) for m in ms]
        if not rows:
            continue
        sp = os.path.join(vlib.scratch(), "scn_%s_%d_%d.ndjson" % (tag, chunk, lo))
        vlib.write_ndjson(sp, rows)
        obs = vlib.run_resumable([exe, "load", sp], timeout=1800)
        os.unlink(sp)
        if len(obs) != len(runmap):
            raise vlib.MachineryError("replay %s: %d observations for %d runs" % (tag, len(obs), len(runmap)))
        for o in obs:
            i, m = runmap[o["run"]]
            o["medium"] = m
            o["chunk"] = chunk
            o["arch"] = arch
            out.append((part[i], o))
    return out


def matches(exp, o):
    """Does observation o equal the observation prescribed by exp?  (plain comparison; no semantics here)"""
    if "e" in o:
        return False
    if exp["exc"] == ["unspecified"]:
        return True
    if exp["exc"][0] == "damaged":
        # truncated / corrupted document: ParsingError, or the policy error which the intact prefix already justifies
        x = exp["exc"][1]
        return o["exc"] == ["ser", "Parsing error"] or (x not in ("", "*", "*count") and o["exc"] == ["ser", x]) \
            or (x in ("*", "*count") and o["exc"][0] == "ser" and o["exc"][1] in ("Mismatched types", "Overflow", "Out of range"))
    return o["ev"] == exp["ev"] and o["exc"] == exp["exc"]


def judge(chk, pairs, what):
    """Equality of the observation with the one prescribed by the spec.  Deviation guards come from the spec:
    Dev_NonSeekableStream (non-seekable medium AND a refused seek was recorded in that run), the exported `expdev`
    expectations (observation equals what the spec prescribes under exactly that named deviation), and the reference
    decoder's "count" verdict for Dev_PresizeFromDeclaredCount."""
    for s, o in pairs:
        exp = s["exp"]
        if matches(exp, o):
            continue
        if "e" in o and "medium" in o:
            # crash / hang / terminate: reported only when a run of this scenario alone, in a fresh process, repeats it
            again = replay([s], [o["medium"]], o["chunk"], "rr", o.get("arch", "msgpack"))
            if again and "e" not in again[0][1]:
                chk.cov["abnormal_runs_not_reproduced"] = chk.cov.get("abnormal_runs_not_reproduced", 0) + 1
                o = again[0][1]
                if matches(exp, o):
                    continue
        dev = None
        if o["medium"] == "nonseek" and o.get("refused"):
            dev = "Dev_NonSeekableStream"
        elif exp["exc"] == ["damaged", "*count"] and o.get("exc") == ["std", "bad_alloc"]:
            dev = "Dev_PresizeFromDeclaredCount"
        else:
            for d in s.get("expdev", []):
                if matches(d["exp"], o):
                    dev = d["dev"]
        desc = "%s: %s window=%d: expected %s after %d events, observed %s" % (
            what, o["medium"], o["chunk"], json.dumps(exp["exc"]), len(exp["ev"]),
            o.get("e") or (json.dumps(o["exc"]) + " after %d events" % len(o["ev"])))
        chk.fail(desc, {"scenario": {k: s[k] for k in s if k not in ("exp", "expdev")}, "expected": exp, "observed": o}, dev=dev)


def validate_scope_states(chk, pairs, what):
    """M-level conformance of CMsgPackReadObjectScope: the private cursor the harness projects after every public call on an object
    scope (friend hook) is validated against spec/MsgPackScope.tla on the bytes of the document (Trace_MsgPackScope).
    One trace per scope instance; identical traces (same bytes, same calls, same states - e.g. from different media) are judged once."""
    traces = {}
    example = {}
    for s, o in pairs:
        if "st" not in o or o.get("arch", "msgpack") != "msgpack":
            continue
        if o.get("medium") == "nonseek" and o.get("refused") and "exp" in s and not matches(s["exp"], o):
            # Dev_NonSeekableStream (same guard as in judge(): the outcome deviates and the stream buffer recorded a refused seek): the
            # reader failed inside a call; the cursor left behind by the failed skip is M's error state, which carries no position to compare
            chk.cov["scope_state_runs_with_refused_seek"] = chk.cov.get("scope_state_runs_with_refused_seek", 0) + 1
            continue
        cur = {}
        done = []
        for r in o["st"]:
            if r["op"] == "enter":
                if r["s"] in cur:
                    done.append(cur[r["s"]])
                cur[r["s"]] = {"doc": s["doc"], "start": r["s"], "size": r["n"], "enter": {"i": r["i"], "ck": r["ck"], "p": r["p"]}, "recs": []}
            elif r["s"] in cur:
                cur[r["s"]]["recs"].append({"op": r["op"], "k": r["k"], "i": r["i"], "ck": r["ck"], "p": r["p"]})
        for t in done + list(cur.values()):
            key = json.dumps(t, sort_keys=True)
            if key not in traces:
                traces[key] = t
                example[key] = (s, o)
    if not traces:
        raise vlib.MachineryError("%s: no scope states were recorded (friend hook not compiled in?)" % what)
    keys = list(traces)
    lines = [json.dumps(dict(traces[k], id="sc%d" % i)) for i, k in enumerate(keys)]
    checked, bad = vlib.validate_traces("Trace_MsgPackScope", lines)
    for b in bad:
        k = keys[int(b["id"][2:])]
        s, o = example[k]
        chk.fail("%s: private cursor of the object scope deviates from the model: %s" % (what, b["why"]),
                 {"scenario": {x: s[x] for x in ("doc", "root", "pol")}, "scope_trace": traces[k], "medium": o.get("medium"), "chunk": o.get("chunk")})
    chk.cov["scope_state_traces"] = chk.cov.get("scope_state_traces", 0) + checked
    chk.cov["scope_state_calls"] = chk.cov.get("scope_state_calls", 0) + sum(len(t["recs"]) for t in traces.values())
    return checked
