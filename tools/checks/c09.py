"""C09 - CSV written and read per RFC 4180 for any field content and separator.

Legs
  1. MC_Csv (TLC, exhaustive within the stated bounds): writer machine vs the RFC automaton; reader machines (memory,
     chunked stream; by name in every key order, positional) on every rendering; ragged records rejected; the
     renderer/automaton consistency.  Run with the deviations off (must hold), once more light-weight with -coverage
     (vacuity guard on the actions) and once per named deviation (TLC must produce the counterexample).
  2. Generation by the same module (Gen = "save" / "load"; exhaustive for small tables, seeded simulation for bigger).
  3. Replay on the real code (harness/csv_harness.cpp, CEncodedStreamReader chunk 32 and 256) and judgement of every
     observation by Trace_Csv.tla.
VERIF_KNOWN_FINDINGS=<file> substitutes the known-findings file (for testing the KNOWN-FINDING path locally).
"""
import json
import os
from concurrent.futures import ThreadPoolExecutor
import vlib
from vlib import Check, tlc, build

if os.environ.get("VERIF_KNOWN_FINDINGS"):
    _kf = os.environ["VERIF_KNOWN_FINDINGS"]
    vlib.load_known_findings = lambda: json.load(open(_kf))

DEVS = ["Dev_CsvWriterLoneCrUnquoted", "Dev_CsvMemTrailingEmptyField", "Dev_CsvStreamKeyReadCutsQuoted"]
ALL_SEPS = "{44, 59, 9, 32, 124}"
CLASSES10 = '{"empty", "plain", "sep", "quote", "cr", "lf", "crlf", "nonascii", "blank", "mix"}'
CLASSES12 = '{"empty", "plain", "sep", "quote", "cr", "lf", "crlf", "nonascii", "blank", "mix", "dquote", "endq"}'
CLASSES6 = '{"empty", "plain", "sep", "quote", "crlf", "nonascii"}'
CLASSES5 = '{"empty", "plain", "sep", "quote", "crlf"}'
CLASSES4 = '{"plain", "sep", "quote", "crlf"}'
CLASSES3 = '{"plain", "sep", "quote"}'
# runs of 2 and 3 adjacent quotes at the start, in the middle and at the end of a value
CLASSES_Q = '{"plain", "quote", "qq", "qqq", "xqqy", "xqqqy", "tailqq", "headqq"}'
CLASSES_Q4 = '{"plain", "qq", "xqqy", "tailqq"}'
CLASSES_BIG = ('{"empty", "plain", "sep", "quote", "cr", "lf", "crlf", "nonascii", "astral", "blank", "mix", "dquote", "endq", "long", '
               '"qq", "qqq", "xqqy", "xqqqy", "tailqq", "headqq"}')
# quote runs at the 8-bit thresholds of a per-field quote counter (n quotes are written as 2n + 2 quote characters)
CLASSES_QN = '{"plain", "q126", "q127", "q128", "q129", "q254", "q255", "q256", "xq127y", "xq128y", "xq255y", "q100xq27"}'
CLASSES_QN4 = '{"plain", "q127", "q128", "q255"}'
# header names of which each is a proper prefix of the next (a, ab, abc, abcd), in both file orders
HK_PREFIX = '{"prefix", "prefixrev"}'
HK_ALL = '{"plain", "nasty", "prefix", "prefixrev"}'
ENCODINGS = ["utf8", "utf16le", "utf16be", "utf32le", "utf32be"]

MAX_ABNORMAL = 6
FULL_INV = "WriterCorrect WriterRefusesRagged RenderSound ReadersCorrect RaggedRejected"
LIGHT_INV = "WriterCorrect WriterRefusesRagged RenderSound"

CFG = """SPECIFICATION Spec
CONSTANTS
  Seps = %(seps)s
  Classes = %(classes)s
  Shapes = %(shapes)s
  HeaderKinds = %(hk)s
  RenderMode = "%(mode)s"
  Chunks = %(chunks)s
  Devs = %(devs)s
  Ragged = %(ragged)s
  Gen = "%(gen)s"
INVARIANTS %(inv)s
"""


def write_cfg(name, **kw):
    d = dict(seps=ALL_SEPS, classes=CLASSES10, shapes="{11}", hk='{"plain", "nasty"}', mode="all", chunks="{3, 5}",
             devs="{}", ragged="TRUE", gen="", inv=FULL_INV)
    d.update(kw)
    p = os.path.join(vlib.scratch(), name)
    with open(p, "w") as f:
        f.write(CFG % d)
    return p


def log_tlc(chk, label, r, constants):
    """Records a TLC run in the evidence without adding its states to the model-checking totals."""
    chk.cov["tlc_runs"].append({"label": label, "distinct_states": r.distinct, "states_generated": r.generated, "depth": r.depth,
                                "wall_s": round(r.wall, 1), "exit": r.rc, "constants": constants})


def consts(kw):
    return {k: v for k, v in kw.items() if k not in ("inv", "gen")}


# ----------------------------------------------------------------------------------------------
# 1. model checking
# ----------------------------------------------------------------------------------------------
def leg_mc(chk, tier):
    if tier == "quick":
        confs = [dict(shapes="{10, 11, 21, 12}", mode="all", chunks="{3, 5}"),
                 dict(shapes="{31, 22}", classes=CLASSES5, hk='{"nasty", "prefix"}', mode="uniform", chunks="{4}", ragged="FALSE"),
                 dict(shapes="{11, 21}", classes=CLASSES_Q, hk=HK_PREFIX, seps="{44, 32}", mode="all", chunks="{3, 5}"),
                 dict(shapes="{31}", classes=CLASSES_Q4, hk=HK_PREFIX, seps="{44, 59}", mode="uniform", chunks="{4}", ragged="FALSE"),
                 dict(shapes="{11}", classes=CLASSES_QN, hk='{"plain"}', seps="{44}", mode="uniform", chunks="{7, 64}")]
    else:
        confs = [dict(shapes="{10, 11, 21, 12}", classes=CLASSES12, mode="all", chunks="{3, 4, 5}"),
                 dict(shapes="{31, 13}", classes=CLASSES6, seps="{44}", hk='{"plain"}', mode="all", chunks="{4, 7}"),
                 dict(shapes="{22}", seps="{44, 32}", hk='{"plain"}', mode="uniform", chunks="{3, 7}", ragged="FALSE"),
                 dict(shapes="{32, 23}", classes=CLASSES4, mode="uniform", chunks="{4}", ragged="FALSE",
                      hk='{"plain"}', seps="{44}"),
                 dict(shapes="{11, 21, 12}", classes=CLASSES_Q, hk=HK_PREFIX, mode="all", chunks="{3, 4, 5}"),
                 dict(shapes="{31, 41}", classes=CLASSES_Q4, hk=HK_PREFIX, seps="{44, 59}", mode="uniform", chunks="{4, 7}", ragged="FALSE"),
                 dict(shapes="{11}", classes=CLASSES_QN, hk='{"plain"}', seps="{44, 32}", mode="uniform", chunks="{7, 64}"),
                 dict(shapes="{21}", classes=CLASSES_QN4, hk='{"plain"}', seps="{59}", mode="uniform", chunks="{32}", ragged="FALSE")]
    jobs = []
    for i, c in enumerate(confs):
        jobs.append(dict(module="MC_Csv", cfg=write_cfg("mc_csv_%d.cfg" % i, **c), workers=6 if tier == "quick" else 8, timeout=1700, xmx="4g"))
    # vacuity guard: -coverage on the first configuration with the invariants that do not unfold the reader machines
    # (TLC's coverage instrumentation of the deeply nested recursive reader operators exhausts the heap)
    cov_cfg = write_cfg("mc_csv_cov.cfg", **dict(confs[0], inv=LIGHT_INV))
    jobs.append(dict(module="MC_Csv", cfg=cov_cfg, workers=4, timeout=1700, coverage=True, xmx="4g"))
    # each named deviation must be visible to the model checker (otherwise its guard is vacuous)
    for d in DEVS:
        jobs.append(dict(module="MC_Csv", cfg=write_cfg("mc_csv_%s.cfg" % d, shapes="{11, 21}", chunks="{4}", devs='{"%s"}' % d),
                         workers=2, timeout=600, allow=(0, 12)))
    res = vlib.tlc_parallel(jobs, max_parallel=3 if tier == "quick" else 2)
    for c, r in zip(confs, res):
        chk.add_tlc("MC_Csv M=>A (deviations off)", r, consts(c))
    rcov = res[len(confs)]
    log_tlc(chk, "MC_Csv -coverage (action vacuity guard, light invariants; same state graph, not added to the totals)", rcov, consts(confs[0]))
    zero = [a for a in rcov.coverage_zero_actions() if a in ("AddCell", "Write", "WriteRagged", "Render", "MakeRagged")]
    if zero or "<Render line" not in rcov.out:
        raise vlib.MachineryError("vacuity: actions never taken in MC_Csv: %s" % zero)
    if rcov.distinct != res[0].distinct:
        raise vlib.MachineryError("coverage run explored %d states, the checked run %d" % (rcov.distinct, res[0].distinct))
    for d, r in zip(DEVS, res[len(confs) + 1:]):
        chk.cov["tlc_runs"].append({"label": "MC_Csv with %s enabled" % d, "exit": r.rc, "wall_s": round(r.wall, 1),
                                    "counterexample_found": r.rc == 12})
        if r.rc != 12:
            raise vlib.MachineryError("deviation %s is not visible to MC_Csv (no counterexample)" % d)


# ----------------------------------------------------------------------------------------------
# 2. generation
# ----------------------------------------------------------------------------------------------
def generate(chk, tier):
    """-> (tables, texts): dicts as printed by MC_Csv.Export"""
    jobs = []
    if tier == "quick":
        save_confs = [dict(shapes="{10, 11, 21, 12}"), dict(shapes="{31, 22}", classes=CLASSES4, hk='{"nasty"}', seps="{44, 32}"),
                      dict(shapes="{11, 21, 12}", classes=CLASSES_Q, hk=HK_PREFIX, seps="{44, 32}"),
                      dict(shapes="{11}", classes=CLASSES_QN, hk='{"plain"}', seps="{44, 9}")]
        load_confs = [dict(shapes="{10, 11, 21}", classes=CLASSES5, hk='{"plain"}', seps="{44, 59, 32}", mode="all"),
                      dict(shapes="{12}", classes=CLASSES4, hk='{"nasty"}', seps="{59, 32}", mode="all"),
                      dict(shapes="{31}", classes=CLASSES5, hk='{"nasty"}', seps="{9, 124}", mode="uniform", ragged="FALSE"),
                      # adjacent quotes in every position x both readers; prefix-related column names x every request order
                      dict(shapes="{11, 21}", classes=CLASSES_Q, hk=HK_PREFIX, seps="{44, 32}", mode="uniform", ragged="FALSE"),
                      dict(shapes="{31}", classes=CLASSES_Q4, hk=HK_PREFIX, seps="{59}", mode="uniform", ragged="FALSE"),
                      # 126..256 quotes in one value (256, 258, 512 quote characters in the field), first and later column
                      dict(shapes="{11}", classes=CLASSES_QN, hk='{"plain"}', seps="{44}", mode="uniform", ragged="FALSE"),
                      dict(shapes="{21}", classes=CLASSES_QN4, hk='{"plain"}', seps="{59}", mode="uniform", ragged="FALSE")]
        sims = [dict(shapes="{32, 33, 23, 43}", classes=CLASSES_BIG, hk=HK_ALL, mode="random", ragged="FALSE", n=500),
                dict(shapes="{32, 23}", classes=CLASSES_BIG, hk=HK_ALL, mode="random", n=60)]
    else:
        save_confs = [dict(shapes="{10, 11, 21, 12}", classes=CLASSES12),
                      dict(shapes="{31, 22, 13}", classes=CLASSES6, seps="{44, 59, 32}"),
                      dict(shapes="{32, 23}", classes=CLASSES3, seps="{9, 124}", hk='{"nasty"}'),
                      dict(shapes="{11, 21, 12, 31}", classes=CLASSES_Q, hk=HK_PREFIX, seps="{44, 32}"),
                      dict(shapes="{11, 21}", classes=CLASSES_QN, hk='{"plain"}', seps="{44, 9}")]
        load_confs = [dict(shapes="{10, 11, 21}", classes=CLASSES10, seps="{44, 32}", hk='{"plain"}', mode="all"),
                      dict(shapes="{12}", classes=CLASSES6, seps="{59, 9}", hk='{"nasty"}', mode="all"),
                      dict(shapes="{31}", classes=CLASSES3, hk='{"plain"}', seps="{124}", mode="all", ragged="FALSE"),
                      dict(shapes="{22, 31, 13}", classes=CLASSES4, seps="{124}", mode="uniform", ragged="FALSE"),
                      dict(shapes="{11, 21, 12}", classes=CLASSES_Q, hk=HK_PREFIX, seps="{44, 32}", mode="all"),
                      dict(shapes="{31, 41}", classes=CLASSES_Q4, hk=HK_PREFIX, seps="{59}", mode="uniform", ragged="FALSE"),
                      dict(shapes="{11, 21}", classes=CLASSES_QN, hk='{"plain"}', seps="{44}", mode="uniform", ragged="FALSE"),
                      dict(shapes="{12}", classes=CLASSES_QN4, hk='{"nasty"}', seps="{59}", mode="all", ragged="FALSE")]
        sims = [dict(shapes="{32, 33, 23, 43}", classes=CLASSES_BIG, hk=HK_ALL, mode="random", ragged="FALSE", n=3000),
                dict(shapes="{46, 38, 49}", classes=CLASSES_BIG, hk=HK_ALL, mode="random", ragged="FALSE", n=600),
                dict(shapes="{32, 23, 44}", classes=CLASSES_BIG, hk=HK_ALL, mode="random", n=300)]
    for i, c in enumerate(save_confs):
        jobs.append(("save", c, dict(module="MC_Csv", workers=4, timeout=1200, xmx="4g", cfg=write_cfg(
            "gen_save_%d.cfg" % i, **dict(c, mode="none", ragged="FALSE", gen="save", inv="Export")))))
    for i, c in enumerate(load_confs):
        jobs.append(("load", c, dict(module="MC_Csv", workers=4, timeout=1200, xmx="4g", cfg=write_cfg(
            "gen_load_%d.cfg" % i, **dict(c, gen="load", inv="Export RenderSound")))))
    for i, c in enumerate(sims):
        cc = dict(c)
        n = cc.pop("n")
        jobs.append(("load", c, dict(module="MC_Csv", workers=1, timeout=1200, xmx="4g", simulate=n, depth=20, cfg=write_cfg(
            "gen_sim_%d.cfg" % i, **dict(cc, gen="load", inv="Export RenderSound ReadersCorrect RaggedRejected")))))
    res = vlib.tlc_parallel([j[2] for j in jobs], max_parallel=4)
    tables, texts = [], []
    seen = set()
    for (kind, c, _), r in zip(jobs, res):
        log_tlc(chk, "MC_Csv generation (%s%s; not added to the totals)" % (kind, ", seeded simulation, all invariants checked" if "n" in c else ""), r, consts(c))
        for g in r.printed("GEN"):
            key = json.dumps(g, sort_keys=True)
            if key in seen:
                continue
            seen.add(key)
            (tables if kind == "save" else texts).append(g)
    chk.notes.append("generated %d tables to save and %d texts to load" % (len(tables), len(texts)))
    if not tables or not texts:
        raise vlib.MachineryError("generation produced no scenarios (%d tables, %d texts)" % (len(tables), len(texts)))
    return tables, texts


# ----------------------------------------------------------------------------------------------
# 3. replay on the real code + judgement by Trace_Csv
# ----------------------------------------------------------------------------------------------
def run_harness(exe, scen, tag=""):
    """Runs all scenario lines; a hang / std::terminate becomes an observation and the harness is restarted behind it."""
    path = os.path.join(vlib.scratch(), "csv_scen_%s_%d.ndjson" % (tag, len(scen)))
    vlib.write_ndjson(path, scen)
    obs = {}
    first = 0
    abnormal = 0
    index = {s["id"]: i for i, s in enumerate(scen)}
    while first < len(scen):
        if abnormal >= MAX_ABNORMAL:
            # every further scenario would cost another watchdog period: stop, the observed hangs/crashes are reported
            for s in scen[first:]:
                obs.setdefault(s["id"], {"abn": "skipped"})
            break
        p = vlib.run([exe, "run", path, str(first)], timeout=1500, check=False)
        last = None
        for line in p.stdout.splitlines():
            line = line.strip()
            if not line:
                continue
            o = json.loads(line)
            if "e" in o and o["e"] == "Terminate":
                last = o["ctx"]
                obs[last] = {"abn": "std::terminate"}
            elif o.get("hang"):
                last = o["id"]
                obs[last] = {"abn": "hang (no result within 5 s)"}
            else:
                last = o["id"]
                o["abn"] = ""
                obs[last] = o
        if p.returncode == 0:
            break
        abnormal += 1
        if p.returncode in (42, 43) and last is not None:
            first = index[last] + 1
            continue
        if p.returncode < 0 or p.returncode in (134, 136, 139):   # crashed without passing the handlers
            nxt = (index[last] + 1) if last is not None else first
            if nxt < len(scen):
                obs[scen[nxt]["id"]] = {"abn": "crash (exit %d)" % p.returncode}
            first = nxt + 1
            continue
        raise vlib.MachineryError("csv_harness failed (exit %d): %s" % (p.returncode, p.stderr[-2000:]))
    os.unlink(path)
    missing = [s["id"] for s in scen if s["id"] not in obs]
    if missing:
        raise vlib.MachineryError("csv_harness returned no observation for %d scenarios, e.g. %s" % (len(missing), missing[:3]))
    return obs


def save_runs():
    runs = [dict(target="mem", enc="utf8", bom=False, api="class"), dict(target="mem", enc="utf8", bom=False, api="map")]
    for e in ENCODINGS:
        for b in (False, True):
            runs.append(dict(target="stream", enc=e, bom=b, api="class"))
    runs.append(dict(target="stream", enc="utf8", bom=False, api="map"))
    runs.append(dict(target="stream", enc="utf16le", bom=True, api="map"))
    return runs


def load_runs(i, g, big):
    """The run matrix of one text: (run, chunk sizes).  Memory input is UTF-8 without BOM (what the archive documents for
    std::string).  istream::read fills the whole chunk whatever the stream buffer delivers per underflow, so the stream
    kinds other than stringstream get one rotating run each; the default 256-byte chunk build gets the full matrix only
    for texts that do not fit into one 32-byte chunk (below that both builds take the same path)."""
    orders = g["orders"]
    rot = orders[i % len(orders)]
    runs = []
    for src in ("mem", "sstream"):
        chunks = (256,) if src == "mem" else ((32, 256) if big else (32,))
        for o in orders:
            runs.append((dict(src=src, enc="utf8", bom=False, api="class", keys=o), chunks))
        for api in ("map", "pos", "posnh"):
            runs.append((dict(src=src, enc="utf8", bom=False, api=api), chunks))
    if not big:
        runs.append((dict(src="sstream", enc="utf8", bom=False, api="class", keys=rot), (256,)))
    runs.append((dict(src="short1", enc="utf8", bom=False, api="class", keys=rot), (32,)))
    runs.append((dict(src="short3", enc="utf8", bom=False, api="pos"), (32,)))
    runs.append((dict(src="nonseek", enc="utf8", bom=False, api="class", keys=orders[(i + 1) % len(orders)]), (32,)))
    runs.append((dict(src="sstream", enc="utf8", bom=True, api="class", keys=rot), (32,)))
    # other encodings on a rotating subset (detection without BOM needs >= 2 characters; all headers start with ASCII)
    enc = ENCODINGS[1 + (i % 4)]
    bom = (i // 4) % 2 == 0 or len(g["text"]) < 2
    runs.append((dict(src="short3" if i % 3 else "sstream", enc=enc, bom=bom, api="class", keys=orders[(i // 2) % len(orders)]), (32,)))
    runs.append((dict(src="sstream", enc=enc, bom=bom, api="map" if i % 2 else "pos"), (32, 256) if big else (32,)))
    return runs


_FAIL_COUNT = {}
BATCH = 3000      # trace records per batch (bounds the memory of the Python driver: a record carries ~25 runs)


def leg_conformance(chk, tier, tables, texts):
    vlib.scratch()
    exe32 = build("csv_c32", ["csv_harness.cpp"], groups=("csv",), defines=["BITSERIALIZER_VERIF_ENC_CHUNK_SIZE=32"])
    exe256 = build("csv_c256", ["csv_harness.cpp"], groups=("csv",))
    items = [("S", i, g) for i, g in enumerate(tables)] + [("L", i, g) for i, g in enumerate(texts)]
    chk.add_cases(0, distinct_keys=[("save", json.dumps([g["sep"], g["hdr"], g["rows"]])) for g in tables] +
                                    [("load", g["sep"], json.dumps(g["text"])) for g in texts])
    nw = [0]
    for b in range(0, len(items), BATCH):
        # build() is a cache lookup; repeated because the shared cache is pruned whenever any harness source changes
        exe32 = build("csv_c32", ["csv_harness.cpp"], groups=("csv",), defines=["BITSERIALIZER_VERIF_ENC_CHUNK_SIZE=32"])
        exe256 = build("csv_c256", ["csv_harness.cpp"], groups=("csv",))
        conformance_batch(chk, exe32, exe256, items[b:b + BATCH], nw)


def conformance_batch(chk, exe32, exe256, items, nw):
    # ---- scenarios ----
    scen32, scen256 = [], []
    recs = {}
    for tag, i, g in items:
        if tag != "S":
            continue
        rid = "S%d" % i
        recs[rid] = {"id": rid, "op": "save", "sep": g["sep"], "hdr": g["hdr"], "rows": g["rows"], "outs": []}
        for k, r in enumerate(save_runs()):
            scen256.append(dict(r, id="%s.%d" % (rid, k), op="save", sep=g["sep"], hdr=g["hdr"], rows=g["rows"]))
            recs[rid]["outs"].append(dict(r))
        if len(g["rows"]) < 2 or i % 5:
            continue
        # the writer classes directly: equal widths, one object with a value less, one with a value more
        objs = [[[h, c] for h, c in zip(g["hdr"], row)] for row in g["rows"]]
        for how in ("ok", "drop", "add"):
            o = [list(x) for x in objs]
            if how == "drop":
                if len(o[-1]) < 2:
                    continue
                o[-1] = o[-1][:-1]
            elif how == "add":
                o[1] = o[1] + [[[122], [122]]]
            for kind in ("string", "stream"):
                rid = "W%d" % nw[0]
                nw[0] += 1
                recs[rid] = {"id": rid, "op": "wdirect", "sep": g["sep"], "kind": kind, "objs": o}
                scen256.append({"id": rid + ".0", "op": "wdirect", "sep": g["sep"], "kind": kind, "objs": o})
    for tag, i, g in items:
        if tag != "L":
            continue
        rid = "L%d" % i
        big = len(g["text"]) >= 30
        recs[rid] = {"id": rid, "op": "load", "sep": g["sep"], "text": g["text"], "cls": g["cls"], "runs": []}
        k = 0
        for r, chunks in load_runs(i, g, big):
            for c in chunks:
                (scen32 if c == 32 else scen256).append(dict(r, id="%s.%d" % (rid, k), op="load", sep=g["sep"], text=g["text"]))
                recs[rid]["runs"].append(dict(r))
                k += 1
    # ---- execution (both builds concurrently) ----
    with ThreadPoolExecutor(max_workers=2) as ex:
        f256 = ex.submit(run_harness, exe256, scen256, "256")
        f32 = ex.submit(run_harness, exe32, scen32, "32")
        obs = f256.result()
        obs.update(f32.result())
    del scen32, scen256
    nruns = 0
    for rid, rec in recs.items():
        if rec["op"] == "save":
            for k, o in enumerate(rec["outs"]):
                ob = obs["%s.%d" % (rid, k)]
                o.update({"abn": ob["abn"], "exc": ob.get("exc", ""), "out": ob.get("out", [])})
                nruns += ob["abn"] != "skipped"
            rec["outs"] = [o for o in rec["outs"] if o["abn"] != "skipped"]
        elif rec["op"] == "load":
            for k, r in enumerate(rec["runs"]):
                ob = obs["%s.%d" % (rid, k)]
                r.setdefault("keys", [])
                r.update({"abn": ob["abn"], "exc": ob.get("exc", ""), "rows": ob.get("rows", []), "fed": ob.get("fed", []),
                          "chunk": ob.get("chunk", 0), "n": ob.get("n", 0)})
                nruns += ob["abn"] != "skipped"
            rec["runs"] = [r for r in rec["runs"] if r["abn"] != "skipped"]
        else:
            ob = obs[rid + ".0"]
            rec.update({"abn": ob["abn"], "exc": ob.get("exc", ""), "row": ob.get("row", -1), "out": ob.get("out", [])})
            nruns += ob["abn"] != "skipped"
    skipped = sum(1 for o in obs.values() if o["abn"] == "skipped")
    del obs
    if skipped:
        chk.notes.append("%d scenarios not executed: the harness was stopped after %d hangs/crashes" % (skipped, MAX_ABNORMAL))
        print("NOTE: %d scenarios not executed (harness stopped after %d hangs/crashes, each reported below)" % (skipped, MAX_ABNORMAL))
    lines = [json.dumps(r, separators=(",", ":")) for r in recs.values()
             if not (r["op"] == "wdirect" and r["abn"] == "skipped") and (r["op"] == "wdirect" or r.get("outs") or r.get("runs"))]
    checked, bad = vlib.validate_traces("Trace_Csv", lines, cfg="Trace_Csv.cfg", shards=min(vlib.NCPU, max(1, len(lines) // 40)),
                                        timeout=1700, xmx="2g")
    del lines
    chk.add_cases(nruns, validated=checked)
    for tag in ("S", "L"):
        first = [r for r in recs.values() if r["id"].startswith(tag)]
        if first and not any(isinstance(x, dict) and x.get("leg") == tag for x in chk.cov["samples"]):
            r0 = first[len(first) // 2]
            chk.sample({"leg": tag, "record": dict(r0, **({"outs": r0["outs"][:3]} if tag == "S" else {"runs": r0["runs"][:3]}))})
    for b in bad:
        rec = recs[b["id"]]
        case = {k: v for k, v in rec.items() if k not in ("outs", "runs")}
        run = None
        if rec["op"] == "save" and b["run"] >= 1:
            run = rec["outs"][b["run"] - 1]
        elif rec["op"] == "load":
            run = rec["runs"][b["run"] - 1]
        case["run"] = run
        where = ""
        if run is not None:
            where = " [%s]" % ", ".join("%s=%s" % (k, run[k]) for k in ("target", "src", "enc", "bom", "api", "chunk") if k in run)
        txt = rec.get("text") or rec.get("rows") or rec.get("objs")
        shown = "".join(chr(c) if 32 < c < 127 else "<%02X>" % c for c in rec["text"]) if rec["op"] == "load" else json.dumps(txt)
        what = "CSV %s: %s%s; sep=%r; %s=%s" % (rec["op"], b["why"], where, chr(rec["sep"]),
                                                 "text" if rec["op"] == "load" else "table", shown[:300])
        # occurrences of one classification beyond the first 300 are counted, their full cases are not kept in memory
        seen = _FAIL_COUNT.get(b["dev"], 0)
        _FAIL_COUNT[b["dev"]] = seen + 1
        chk.fail(what, {"leg": "conformance", "verdict": b, "case": case if seen < 300 else {"id": rec["id"]}}, dev=b["dev"] or None)


def run_check(tier):
    chk = Check("C09", tier)
    chk.cov["rule"] = ("cases = executions of the real CSV archive (one table saved to one target/encoding/BOM/container, or one "
                       "generated text loaded through one reader/stream kind/encoding/key order); distinct = distinct (separator, "
                       "table) saved + distinct (separator, text) loaded; all of them generated by TLC from MC_Csv")
    chk.assumptions += [
        "RFC 4180 TEXTDATA widened to every character except quote, separator, CR, LF; LF alone accepted as line break (property text)",
        "an empty array is saved as empty text (no object, so the column names are unknown to the archive): accepted",
        "memory input is UTF-8 without BOM (docs: std::string = UTF-8); encoding detection itself belongs to C13: inputs without "
        "BOM start with an ASCII header character and have >= 2 characters",
        "stream kinds are the harness test doubles (stringstream, short-read, non-seekable); CEncodedStreamReader chunk 32 (hook) and 256",
    ]
    leg_mc(chk, tier)
    tables, texts = generate(chk, tier)
    leg_conformance(chk, tier, tables, texts)
    return chk.finish()


def run(tier):
    return run_check(tier)


def replay(path):
    """Re-executes the recorded case on the current tree and judges it again."""
    f = json.load(open(path))
    print(json.dumps(f, indent=1)[:4000])
    evp = os.path.join(vlib.VERIF, "evidence", "C09.json")
    saved = open(evp).read() if os.path.exists(evp) else None
    case = f["case"]["case"]
    chk = Check("C09", "replay")
    run_ = case.pop("run", None)
    if case["op"] == "save":
        tables, texts = [dict(sep=case["sep"], hdr=case["hdr"], rows=case["rows"])], []
    elif case["op"] == "load":
        hdr = run_.get("keys") if run_ else []
        tables, texts = [], [dict(sep=case["sep"], text=case["text"], cls=case.get("cls", ""), hdr=hdr, orders=[hdr or [[97]]])]
    else:
        print("replay of writer-direct cases: run the quick tier")
        return run_check("quick")
    leg_conformance(chk, "quick", tables, texts)
    rc = chk.finish()
    if saved is not None:          # a replay must not replace the evidence of the last full run
        with open(evp, "w") as fh:
            fh.write(saved)
    return rc
