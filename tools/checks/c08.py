"""C08 - JSON/XML output is standard-conformant; standard renderings load identically."""
import vlib
from vlib import Check
from checks import jsoncommon as jc

ALL_STYLES = "{0, 1, 2, 3, 4, 5, 6, 7, 8}"


def run_check(tier):
    chk = Check("C08", tier)
    chk.cov["rule"] = ("case = save script x output configuration whose produced bytes TLC decodes and parses with the strict RFC 8259 parser, "
                       "or a standard rendering (whitespace / escapes / member order / encoding / BOM chosen by the spec) of a document loaded "
                       "into typed targets; distinct = distinct (script, configuration) resp. (document bytes, script, policies)")
    chk.assumptions += ["independent parser/emitter = spec/JsonFormat.tla (strict RFC 8259 recogniser, renderer, five encoding forms), self-consistency checked by MC_JsonFormat",
                        "floating point lexical forms are table driven (dyadic values with listed spellings); BOM-less UTF-16/32 only where the RFC 4627 detection heuristic is defined",
                        "XML: spec/XmlFormat.tla models the XML 1.0 subset the archive emits/accepts (declaration, elements, attributes, character data, predefined entities, character references, end-of-line normalisation, CDATA sections and comments in content); DTD, namespaces, processing instructions are outside",
                        "XML load semantics are prescribed only where the archive's data model is unambiguous (null vs empty, containers in scalar positions and numeric-looking strings are left open and counted under unspecified_scenarios)"]
    quick = tier == "quick"
    r = vlib.tlc("MC_JsonFormat", timeout=1500)
    chk.add_tlc("MC_JsonFormat", r)
    jc.save_leg(chk, tier)
    jc.load_leg(chk, tier, "typed", {"MaxOps": 0, "Widths": ALL_STYLES}, ["Export"], label="JSON rendering loaded into typed targets")
    jc.load_leg(chk, tier, "fields", {"MaxOps": 1 if quick else 2, "Widths": "{1, 3, 6}" if quick else ALL_STYLES},
                ["SentinelIntact", "UnchangedOnFailure", "Export"], label="JSON rendering loaded by a request script")
    # XML half: output parsed by the spec's XML parser; spec renderings (indentation, entity vs numeric references, quotes,
    # empty-element forms, declaration, encodings, BOM) loaded by the real archive
    r = vlib.tlc("MC_XmlFormat", timeout=1500)
    chk.add_tlc("MC_XmlFormat", r)
    jc.save_leg(chk, tier, label="xml-save", arch="xml")
    XS = "{0, 1, 2, 3, 4, 5, 6, 7, 8, 9}"
    jc.load_leg(chk, tier, "typed", {"MaxOps": 0, "Widths": XS}, ["Export"], label="XML rendering loaded into typed targets", arch="xml")
    jc.load_leg(chk, tier, "fields", {"MaxOps": 1 if quick else 2, "Widths": "{1, 3, 4, 7, 8}" if quick else XS},
                ["SentinelIntact", "UnchangedOnFailure", "Export"], label="XML rendering loaded by a request script", arch="xml")
    return chk.finish()


def run(tier):
    return run_check(tier)


def replay(path):
    print(open(path).read())
    return run_check("quick")
