"""C03 - named fields load correctly in any request order, with absent and unread fields."""
import json
import vlib
from vlib import Check
from checks import mpcommon as mp
from checks import jsoncommon as jc


def run_check(tier):
    chk = Check("C03", tier)
    chk.cov["rule"] = ("case = (object document, legal encoding, padding, policies, request script) executed on one medium; "
                       "distinct = distinct (document bytes, script, policies); non-trivial = at least one request")
    chk.assumptions += ["abstract load semantics spec/LoadScript.tla (A); MessagePack Layer-1 spec MsgPackFormat.tla checked by MC_MsgPackFormat",
                        "implementation-shaped model of CMsgPackReadObjectScope spec/MsgPackScope.tla (M): M => A model-checked (MC_MsgPackScope); the private cursor of the real class (friend hook) is validated against M after every public call",
                        "observations compared by equality with the events A prescribes (bool of every request, target values, sentinel)"]
    quick = tier == "quick"
    # M => A for the object scope itself (cursor machine over the bytes): every small map x every call history
    cfg = mp.write_cfg("mc_scope_c03.cfg", "SPECIFICATION Spec\nCONSTANTS\n  MaxPairs = %d\n  MaxOps = %d\n  Widths = %s\nINVARIANTS NeverErr Cursor RequestAgrees VisitAgrees DtorAtEnd\n" % (
        2, 3 if quick else 4, "{0, 4}" if quick else "{0, 1, 4, 5}"))
    r = vlib.tlc("MC_MsgPackScope", cfg=cfg, timeout=3000, xmx="8g")
    chk.add_tlc("MC_MsgPackScope (CMsgPackReadObjectScope M => A)", r)
    # window 8: every alignment of keys/values against the window boundary with small documents
    # exhaustive: all request histories of length <= 2; thorough: every padding 0..8 (generated in slices to bound memory)
    # (thorough: three slices (padding, pair of width policies) - one TLC run each, so that no run holds more than a quick run's worth of scenarios)
    slices = [([5], "{0, 5}")] if quick else [([0], "{0, 1}"), ([8], "{2, 5}"), ([3], "{0, 5}")]
    scen8 = []
    pairs = []
    for ps, ws in slices:
        for part in mp.gen_chunks("MC_LoadScript", {"Mode": '"fields"', "MaxOps": 2, "Widths": ws, "Pads": mp.tla_set(ps)},
                                  ["SentinelIntact", "UnchangedOnFailure", "Export"], "fields-w8-p%d-%s" % (ps[0], ws[1]), chk, timeout=3000, xmx="8g", chunk=15000):
            pp = mp.replay(part, ["mem", "sstream", "short3", "nonseek"] if quick else mp.MEDIA_SEEKABLE + ["nonseek"], 8, "f8")
            mp.judge(chk, pp, "MsgPack scripted load")
            mp.validate_scope_states(chk, pp, "MsgPack scripted load")
            chk.add_cases(len(pp), distinct_keys=((json.dumps(s["doc"]), json.dumps(s["root"]), json.dumps(s["pol"])) for s in part), validated=len(pp))
            scen8 = scen8 or part[:50]
            del pp, part
    if not quick:
        # longer histories (up to 6 requests) by seeded simulation of the same state machine
        sim = mp.gen("MC_LoadScript", {"Mode": '"fields"', "MaxOps": 6, "Widths": "{0, 2}", "Pads": "{0, 3}"},
                     ["SentinelIntact", "UnchangedOnFailure", "Export"], "fields-sim", chk, timeout=1800, xmx="8g", simulate=150, depth=7)      # 800 walks per worker took 19 min of TLC plus ~25 min of replay
        for lo in range(0, len(sim), 15000):             # bounded memory: 40k scenarios x 4 media at a time
            pp = mp.replay(sim[lo:lo + 15000], mp.MEDIA_SEEKABLE, 8, "fs")
            mp.judge(chk, pp, "MsgPack scripted load (long history)")
            chk.add_cases(len(pp), validated=len(pp))
            del pp
        chk.add_cases(0, distinct_keys=((json.dumps(s["doc"]), json.dumps(s["root"]), json.dumps(s["pol"])) for s in sim))
        del sim
    # real 256-byte window: paddings that move the object across the first boundary
    scen256 = mp.gen("MC_LoadScript", {"Mode": '"fields"', "MaxOps": 1, "Widths": "{0}",
                                       "Pads": mp.tla_set([250, 253] if quick else range(243, 258))},
                     ["SentinelIntact", "UnchangedOnFailure", "Export"], "fields-w256", chk, timeout=3000, xmx="16g")
    pairs = mp.replay(scen256, ["mem", "sstream", "short3", "nonseek"], 256, "f256")
    mp.judge(chk, pairs, "MsgPack scripted load")
    chk.add_cases(len(pairs), distinct_keys=((json.dumps(s["doc"]), json.dumps(s["root"]), json.dumps(s["pol"])) for s in scen256),
                  validated=len(pairs))
    chk.sample({"scenario": {k: scen8[len(scen8) // 3][k] for k in ("doc", "root", "pol")}, "expected": scen8[len(scen8) // 3]["exp"]})
    del pairs, scen8, scen256
    # JSON archive: the same request scripts against documents rendered by the JSON spec (several styles / encodings)
    jc.load_leg(chk, tier, "fields", {"MaxOps": 2, "Widths": "{0, 3}" if quick else "{0, 3, 6}"},
                ["SentinelIntact", "UnchangedOnFailure", "Export"], label="JSON scripted load")
    jc.load_leg(chk, tier, "fields", {"MaxOps": 2, "Widths": "{0, 3}" if quick else "{0, 3, 8}"},
                ["SentinelIntact", "UnchangedOnFailure", "Export"], label="XML scripted load", arch="xml")
    return chk.finish()


def run(tier):
    return run_check(tier)


def replay(path):
    print(open(path).read())
    return run_check("quick")
