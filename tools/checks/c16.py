"""C16 - number/text conversion is lossless; numeric parsing is total and range-checked.

 spec/Numeric.tla          literal grammar (blanks, sign, digits; from_chars general format for floats; bool literals),
                           allowed outcome per target type, exact rounding-interval test for IEEE results, shortest text
 spec/MC_Numeric.tla       every text up to MaxLen over the 12-symbol alphabet as a state machine; grammar invariants
 spec/NumericTables.tla    TLC generates: all strings of length <= 5 (quick) / 6 (thorough) over the alphabet, the rule
                           based extra texts, the expected table of ALL 8/16-bit integers, boundary bit patterns
 harness/num_harness.cpp   Convert::To<> into 11 target types from char (and i64/u8/bool/double from char16_t, char32_t,
                           wchar_t) strings; Convert::ToString in four widths and back, bit patterns before / after
 spec/Trace_Numeric.tla    decides every logged outcome
"""
import json
import os
import subprocess
from concurrent.futures import ThreadPoolExecutor
import vlib
from vlib import Check
from checks import c14 as base

GC = base.GC


def build_num():
    return base.stable_exe("num", ["num_harness.cpp"], ())


def gen_table(tag, env):
    out = os.path.join(vlib.scratch(), "num-%s.ndjson" % tag)
    e = dict(env)
    e.update({"OUT": out})
    e.update(GC)
    r = vlib.tlc("NumericTables", cfg="NumericTables.cfg", env=e, workers=1, timeout=1700, xmx="2g")
    w = r.printed("WROTE")
    if not w:
        raise vlib.MachineryError("NumericTables wrote nothing for %s:\n%s" % (tag, r.out[-1500:]))
    return out, w[0]["n"], r


def leg_mc(chk, tier):
    base.leg_mc_bigint(chk, tier)
    cfg = base.write_cfg("mc_numeric.cfg", "SPECIFICATION Spec\nCONSTANTS\n  MaxLen = %d\nINVARIANTS Total PrefixStable IntVsFloat Canonical BoolDigits\n" % (
        4 if tier == "quick" else 5))
    r = vlib.tlc("MC_Numeric", cfg=cfg, timeout=1700, coverage=False, env={"JAVA_TOOL_OPTIONS": "-XX:ParallelGCThreads=4"})
    if r.distinct < 13:
        raise vlib.MachineryError("vacuity: MC_Numeric did not grow any text")
    chk.add_tlc("MC_Numeric (texts over the 12-symbol alphabet; Total PrefixStable IntVsFloat Canonical BoolDigits)", r,
                {"MaxLen": 4 if tier == "quick" else 5})


def leg_ints(chk):
    """All 8- and 16-bit integers: TLC writes the expected table (decimal text, reparsed from four string widths)."""
    out, n, r = gen_table("ints", {"MODE": "ints"})
    exe = build_num()
    obs = out + ".obs"
    with open(obs, "w") as fo:
        p = subprocess.run(["timeout", "900", exe, "ints", out], stdout=fo, stderr=subprocess.PIPE, text=True)
    if p.returncode != 0:
        raise vlib.MachineryError("num_harness ints failed: %s" % p.stderr[-1500:])
    if subprocess.run(["cmp", "-s", out, obs]).returncode != 0:
        with open(out) as fa, open(obs) as fb:
            la, lb = fa.readlines(), fb.readlines()
        if len(la) != len(lb):
            raise vlib.MachineryError("integer table: %d expected rows, %d observed" % (len(la), len(lb)))
        for a, b in zip(la, lb):
            if a != b:
                ea, eb = json.loads(a), json.loads(b)
                chk.fail("%s value %d: ToString/To round trip differs from the specification's table (observed %s, expected %s)" % (
                    ea[0], ea[1], eb[2:], ea[2:]), {"kind": "ints", "expected": ea, "observed": eb})
    os.unlink(out)
    os.unlink(obs)
    chk.cov["tlc_runs"].append({"label": "NumericTables ints (expected table of all 8/16-bit integers)", "rows": n, "wall_s": round(r.wall, 1), "exit": 0})
    chk.add_cases(n, distinct_keys=[("ints", "all-8-16-bit")])
    chk.cov["exhaustive_int8_int16"] = n


def leg_strings(chk, tier):
    """All strings over the alphabet + the extra texts -> parse records."""
    L = 5 if tier == "quick" else 6
    total = (12 ** (L + 1) - 1) // 11
    shards = 16 if tier == "quick" else 48
    size = (total + shards - 1) // shards
    jobs = [("str%d" % i, {"MODE": "strings", "LO": i * size, "HI": min(total, (i + 1) * size) - 1}) for i in range(shards) if i * size < total]
    jobs.append(("extra", {"MODE": "extra"}))
    exe = build_num()

    def one(j):
        out, n, r = gen_table(j[0], j[1])
        # ids are line numbers within the shard (plumbing only)
        req = out + ".req"
        with open(out) as fi, open(req, "w") as fo:
            for k, line in enumerate(fi):
                fo.write('{"id":"%s-%d",' % (j[0], k) + line.lstrip()[1:])
        os.unlink(out)
        obs = vlib.run([exe, "parse", req], timeout=1700).stdout
        os.unlink(req)
        lines = [l for l in obs.splitlines() if l.strip()]
        if len(lines) != n:
            raise vlib.MachineryError("num_harness parse returned %d of %d records" % (len(lines), n))
        checked, bad = base.validate_shard("Trace_Numeric", "Trace_Numeric.cfg", lines, j[0], xmx="3g")
        texts = {}
        if bad:
            ids = {b["id"] for b in bad}
            for l in lines:
                d = json.loads(l)
                if d["id"] in ids:
                    texts[d["id"]] = d
        return n, r, bad, texts

    with ThreadPoolExecutor(max_workers=max(2, vlib.NCPU // 2)) as ex:       # shared machine: 8 shards at a time
        results = list(ex.map(one, jobs))
    n_all = 0
    for (tag, env), (n, r, bad, texts) in zip(jobs, results):
        n_all += n
        for b in bad:
            if b["why"] == "shape":
                raise vlib.MachineryError("trace validator could not judge %s" % b)
            d = texts[b["id"]]
            text = "".join(chr(c) if 32 <= c < 127 else "\\u%04x" % c for c in d["t"])
            chk.fail("text \"%s\" -> %s: %s (observed %s, specification allows %s)" % (text, b["tgt"], b["why"], b["obs"], b["exp"]),
                     {"kind": "parse", "codes": d["t"], "text": text, "verdict": b}, dev=b["dev"] or None)
    chk.cov["tlc_runs"].append({"label": "NumericTables strings (all texts of length <= %d over 12 symbols, %d shards) + extra" % (L, len(jobs) - 1),
                                "rows": n_all, "wall_s": round(sum(r[1].wall for r in results), 1), "exit": 0})
    chk.add_cases(n_all, validated=n_all, distinct_keys=(("strings", j[0]) for j in jobs))
    chk.cov["strings_exhaustive"] = "all %d strings of length <= %d over {blank, tab, -, 0, 1, 9, ., e, x, U+00E9, NUL, a}" % (total, L)
    chk.sample({"leg": "strings", "length": L, "texts": n_all})


def leg_values(chk, tier):
    """ToString/To round trips: boundary bit patterns from the spec + seeded random patterns from the harness."""
    out, n, r = gen_table("values", {"MODE": "values", "STEP32": 4 if tier == "quick" else 1, "STEP64": 32 if tier == "quick" else 1})
    rows = vlib.read_ndjson(out)
    os.unlink(out)
    for i, q in enumerate(rows):
        q["id"] = "v%d" % i
    exe = build_num()
    req = os.path.join(vlib.scratch(), "c16_vals.ndjson")
    vlib.write_ndjson(req, rows)
    lines = base.run_sharded(exe, "vals", req, rows)
    nrand = 1600 if tier == "quick" else 100000
    shards = 4 if tier == "quick" else 16
    with ThreadPoolExecutor(max_workers=shards) as ex:
        outs = list(ex.map(lambda i: vlib.run([exe, "random", str(nrand // shards), str(vlib.seed() * 977 + i)], timeout=1700).stdout, range(shards)))
    for i, o in enumerate(outs):
        for l in o.splitlines():
            if l.strip():
                lines.append(l.replace('{"id":"r', '{"id":"R%d-' % i, 1))
    checked, bad = vlib.validate_traces("Trace_Numeric", lines, cfg="Trace_Numeric.cfg", shards=vlib.NCPU, timeout=1700, env=GC)
    byid = {}
    if bad:
        for l in lines:
            d = json.loads(l)
            byid[d["id"]] = d
    for b in bad:
        d = byid[b["id"]]
        chk.fail("%s bits %s: text \"%s\": %s (observed %s%s)" % (d["ty"], d["b"], d["text"], b["why"], b["obs"], (", expected " + b["exp"]) if b["exp"] else ""),
                 {"kind": "value", "request": {"id": "replay", "ty": d["ty"], "b": d["b"]}, "verdict": b}, dev=b["dev"] or None)
    chk.cov["tlc_runs"].append({"label": "NumericTables values (boundary bit patterns)", "rows": n, "wall_s": round(r.wall, 1), "exit": 0})
    chk.add_cases(len(lines), validated=checked)
    chk._distinct.update(("value", json.loads(l)["ty"], tuple(json.loads(l)["b"])) for l in lines[:20000])
    chk.sample({"leg": "values", "boundary_patterns": n, "random": len(lines) - n, "record": json.loads(lines[len(lines) // 2])})


def run_check(tier):
    base.install_known_findings_override()
    chk = Check("C16", tier)
    chk.cov["rule"] = ("cases = texts parsed into 11 target types from four string widths + values converted to text in four widths "
                       "and back; distinct = table shards / distinct (type, bit pattern)")
    chk.assumptions += [
        "grammar decisions N1-N7 in spec/Numeric.tla ('-' for unsigned targets, multi-digit bool literals, underflow to zero, "
        "inf/nan spellings, shortest = fewest characters as std::to_chars defines it)",
        "built with BITSERIALIZER_HAS_FLOAT_FROM_CHARS=1 (g++ 12): the strtod/snprintf fallback of convert_compatibility.h is not exercised",
        "all 2^32 float patterns are not swept through TLC: every exponent with extreme fractions plus a seeded sample"]
    leg_mc(chk, tier)
    leg_ints(chk)
    leg_strings(chk, tier)
    leg_values(chk, tier)
    return chk.finish()


def run(tier):
    return run_check(tier)


def replay(path):
    base.install_known_findings_override()
    f = json.load(open(path))
    case = f["case"]
    exe = build_num()
    req = os.path.join(vlib.scratch(), "c16_replay.ndjson")
    if case["kind"] == "parse":
        print("replaying text %r" % case["text"])
        vlib.write_ndjson(req, [{"id": "replay", "t": case["codes"]}])
        lines = [l for l in vlib.run([exe, "parse", req]).stdout.splitlines() if l.strip()]
    elif case["kind"] == "value":
        print("replaying value %s" % case["request"])
        vlib.write_ndjson(req, [case["request"]])
        lines = [l for l in vlib.run([exe, "vals", req]).stdout.splitlines() if l.strip()]
    else:
        print("integer table row: expected %s observed %s" % (case["expected"], case["observed"]))
        return run_check("quick")
    print(lines[0][:1500])
    checked, bad = vlib.validate_traces("Trace_Numeric", lines, cfg="Trace_Numeric.cfg", env=GC)
    for b in bad:
        print("REJECTED: %s" % json.dumps(b))
    print("replay: %d verdict(s) rejected" % len(bad))
    return 1 if any(not b["dev"] for b in bad) else 0
