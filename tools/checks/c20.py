"""C20 - every failure surfaces as a catchable exception: no terminate, no leak (all four archives)."""
import json
import os
import vlib
from vlib import Check
from checks import mpcommon as mp

S = lambda s: [ord(c) for c in s]
I = lambda neg, n: ["int", neg, list(n.to_bytes(8, "big"))]


SCOPE_CFG = """SPECIFICATION Spec
CONSTANTS
  MaxDepth = %(d)d
  MaxItems = %(i)d
  MaxBudget = %(b)d
  DtorPolicy = "%(pol)s"
INVARIANTS %(inv)s
CHECK_DEADLOCK FALSE
"""

UNITS = {"utf8": (1, False), "utf16le": (2, False), "utf16be": (2, True), "utf32le": (4, False), "utf32be": (4, True)}


def msgpack_fixed():
    load_doc = [0x93, 0xa3] + S("pad") + [0x84, 0xa1, 0x61, 5, 0xa1, 0x62, 0xd9, 40] + [120] * 40 + [0xa1, 0x63, 0x93, 1, 0xcd, 1, 0, 3,
                                                                                              0xa1, 0x64, 0x82, 0xa1, 0x6e, 9, 0xa1, 0x6d, 0xc4, 3, 1, 2, 3, 7]
    load_root = {"k": "arr", "ops": [{"op": "elem", "t": "str"},
                                     {"op": "obj", "ops": [{"op": "req", "ks": S("b"), "t": "str"}, {"op": "req", "ks": S("c"), "t": "vec_i32"},
                                                           {"op": "obj", "ks": S("d"), "ops": [{"op": "req", "ks": S("m"), "t": "vec_u8"}]},
                                                           {"op": "req", "ks": S("a"), "t": "i8"}, {"op": "req", "ks": S("z"), "t": "i32"}]},
                                     {"op": "elem", "t": "i32"}]}
    save_root = {"k": "obj", "ops": [{"op": "req", "ks": S("s"), "t": "str", "v": ["str", [120] * 40]},
                                     {"op": "req", "ks": S("v"), "t": "vec_i32", "v": ["arr", [I(False, 256), I(True, 5)]]},
                                     {"op": "obj", "ks": S("o"), "ops": [{"op": "req", "ks": S("t"), "t": "tp_ns", "v": ["ts", True, [0, 0, 0, 0, 0, 0, 0, 2], 500000000]},
                                                                          {"op": "req", "ks": S("m"), "t": "map_str_i32", "v": ["map", [[["str", [97]], I(False, 1)]]]}]},
                                     {"op": "arr", "ks": S("a"), "ops": [{"op": "elem", "t": "vec_u8", "v": ["bin", [1, 2, 3]]}, {"op": "elem", "t": "f64", "v": ["f64", [63, 248, 0, 0, 0, 0, 0, 0]]}]}]}
    out = []
    for stream in (False, True):
        sfx = "stream" if stream else "mem"
        out.append({"id": "load-" + sfx, "doc": load_doc, "root": load_root, "pol": {"mm": "throw", "ov": "throw"}, "stream": stream})
        out.append({"id": "loadskip-" + sfx, "doc": load_doc, "root": load_root, "pol": {"mm": "skip", "ov": "skip"}, "stream": stream})
        out.append({"id": "save-" + sfx, "save": True, "root": save_root, "pol": {}, "stream": stream})
        if stream:
            out.append({"id": "save-stream-oexc", "save": True, "root": save_root, "pol": {}, "stream": True, "oexc": True})      # the caller's stream throws on errors
        # members the target never requests, with payloads larger than the reader's window, at the end of the document
        # (skipped by the scope's destructor) and before the requested one (skipped while searching for the key)
        tail_doc = [0x82, 0xa1, 0x61, 5, 0xa1, 0x62, 0xd9, 40] + [120] * 40
        head_doc = [0x83, 0xa1, 0x62, 0xc4, 30] + [7] * 30 + [0xa1, 0x61, 5, 0xa1, 0x63, 0x92, 0xd9, 33] + [121] * 33 + [0xcd, 1, 0]
        # a std::tuple member loaded with the Skip policies: truncation inside a component must still be reported
        tuple_doc = [0x82, 0xa1, 0x74, 0x93, 1, 0xa5] + S("hello") + [0xcb, 0x3f, 0xf8, 0, 0, 0, 0, 0, 0, 0xa1, 0x6e, 5]
        tuple_root = {"k": "obj", "ops": [{"op": "req", "ks": S("t"), "t": "tuple_i32_str_f64"}, {"op": "req", "ks": S("n"), "t": "i32"}]}
        tuple_last_doc = [0x82, 0xa1, 0x6e, 5, 0xa1, 0x74, 0x93, 1, 0xa5] + S("hello") + [0xcb, 0x3f, 0xf8, 0, 0, 0, 0, 0, 0]
        tuple_last_root = {"k": "obj", "ops": [{"op": "req", "ks": S("n"), "t": "i32"}, {"op": "req", "ks": S("t"), "t": "tuple_i32_str_f64"}]}
        tuple_leaf_doc = [0x93, 1, 0xa5] + S("hello") + [0xcb, 0x3f, 0xf8, 0, 0, 0, 0, 0, 0]
        for polname, pol in (("skip", {"mm": "skip", "ov": "skip"}), ("throw", {"mm": "throw", "ov": "throw"})):
            out.append({"id": "tuple-%s-%s" % (polname, sfx), "doc": tuple_doc, "root": tuple_root, "pol": pol, "stream": stream})
            out.append({"id": "tuple-last-%s-%s" % (polname, sfx), "doc": tuple_last_doc, "root": tuple_last_root, "pol": pol, "stream": stream})
            out.append({"id": "tuple-root-%s-%s" % (polname, sfx), "doc": tuple_leaf_doc, "root": {"k": "leaf", "t": "tuple_i32_str_f64"}, "pol": pol, "stream": stream})
        # a std::unique_ptr member whose pointee is created during the load (must not be orphaned when the load fails midway)
        uptr_doc = [0x82, 0xa1, 0x70, 0xce, 0, 1, 0, 0, 0xa1, 0x6e, 5]
        uptr_root = {"k": "obj", "ops": [{"op": "req", "ks": S("p"), "t": "uptr_i32"}, {"op": "req", "ks": S("n"), "t": "i32"}]}
        out.append({"id": "uptr-" + sfx, "doc": uptr_doc, "root": uptr_root, "pol": {"mm": "throw", "ov": "throw"}, "stream": stream})
        out.append({"id": "uptr-mismatch-" + sfx, "doc": [0x82, 0xa1, 0x70, 0xa1, 0x78, 0xa1, 0x6e, 5], "root": uptr_root, "pol": {"mm": "throw", "ov": "throw"}, "stream": stream, "exp": "exception"})
        only_a = {"k": "obj", "ops": [{"op": "req", "ks": S("a"), "t": "i8"}]}
        out.append({"id": "unreadtail-" + sfx, "doc": tail_doc, "root": only_a, "pol": {"mm": "throw", "ov": "throw"}, "stream": stream})
        out.append({"id": "unreadhead-" + sfx, "doc": head_doc, "root": only_a, "pol": {"mm": "throw", "ov": "throw"}, "stream": stream})
    return out


def text_fixed(arch, exe):
    """JSON / XML: a representative object is saved (memory, and to a stream in UTF-16LE with BOM); the produced documents are the
    inputs of the load scenarios, which request the members out of order, skip one and ask for a missing one."""
    save_root = {"k": "obj", "ops": [{"op": "req", "ks": S("s"), "t": "str", "v": ["str", [120] * 40]},
                                     {"op": "req", "ks": S("v"), "t": "vec_i32", "v": ["arr", [I(False, 256), I(True, 5)]]},
                                     {"op": "obj", "ks": S("o"), "ops": [{"op": "req", "ks": S("n"), "t": "i32", "v": I(False, 9)},
                                                                          {"op": "req", "ks": S("m"), "t": "map_str_i32", "v": ["map", [[["str", [97]], I(False, 1)]]]}]},
                                     {"op": "arr", "ks": S("a"), "ops": [{"op": "elem", "t": "str", "v": ["str", S("q")]}, {"op": "elem", "t": "str", "v": ["str", S("w")]}]},
                                     {"op": "req", "ks": S("u"), "t": "str", "v": ["str", S("unread")]}]}
    load_root = {"k": "obj", "ops": [{"op": "req", "ks": S("v"), "t": "vec_i32"},
                                     {"op": "obj", "ks": S("o"), "ops": [{"op": "req", "ks": S("m"), "t": "map_str_i32"}, {"op": "req", "ks": S("n"), "t": "i32"}]},
                                     {"op": "req", "ks": S("s"), "t": "str"},
                                     {"op": "arr", "ks": S("a"), "ops": [{"op": "elem", "t": "str"}, {"op": "elem", "t": "str"}]},
                                     {"op": "req", "ks": S("z"), "t": "i32"}]}
    wide = {"enc": "utf16le", "bom": True}
    rows = [{"id": "sv0", "root": save_root, "pol": {}}, {"id": "sv1", "root": save_root, "pol": {}, "opt": wide}]
    sp = os.path.join(vlib.scratch(), "c20_%s_presave.ndjson" % arch)
    vlib.write_ndjson(sp, rows)
    saved = vlib.run_resumable([exe, "save", sp], timeout=300)
    if len(saved) != 2 or any("e" in o or o["excmem"] != ["none"] or o["excstream"] != ["none"] for o in saved):
        raise vlib.MachineryError("C20 %s: the representative object cannot be saved: %s" % (arch, json.dumps(saved)[:300]))
    out = []
    for stream in (False, True):
        sfx = "stream" if stream else "mem"
        out.append({"id": "save-" + sfx, "save": True, "root": save_root, "pol": {}, "stream": stream})
        out.append({"id": "load-" + sfx, "doc": saved[0]["mem"], "root": load_root, "pol": {"mm": "throw", "ov": "throw"}, "stream": stream})
    out.append({"id": "save-utf16", "save": True, "root": save_root, "pol": {}, "opt": wide, "stream": True})
    out.append({"id": "save-stream-oexc", "save": True, "root": save_root, "pol": {}, "stream": True, "oexc": True})      # the caller's stream throws on errors
    if arch == "json":
        # a value the format cannot carry, detected by the writer midway through the save (library-detected error): NaN after other members,
        # in every output configuration (memory / stream x compact / pretty x UTF-8 / UTF-16)
        nan_root = {"k": "obj", "ops": [{"op": "req", "ks": S("s"), "t": "str", "v": ["str", [120] * 40]},
                                        {"op": "req", "ks": S("d"), "t": "f64", "v": ["f64", [127, 248, 0, 0, 0, 0, 0, 0]]},
                                        {"op": "req", "ks": S("n"), "t": "i32", "v": I(False, 9)}]}
        for stream in (False, True):
            for fmt in (False, True):
                for enc in (("utf8", False), ("utf16le", True)) if stream else (("utf8", False),):
                    out.append({"id": "save-nan-%s-%s-%s" % ("stream" if stream else "mem", "pretty" if fmt else "compact", enc[0]), "save": True, "root": nan_root, "pol": {},
                                "opt": {"fmt": fmt, "padChar": 32, "padNum": 2, "enc": enc[0], "bom": enc[1]}, "stream": stream, "exp": "exception"})
    out.append({"id": "load-utf16", "doc": saved[1]["stream"], "root": load_root, "pol": {"mm": "skip", "ov": "skip"}, "stream": True, "enc": "utf16le"})
    return out


def outcome(o):
    if "e" in o:
        return o["e"].lower()
    return "none" if o["exc"] == ["none"] else "exception"


def evs(o):
    """What the run delivered to the caller, one string per public call (compared as opaque items by the specification)."""
    return [json.dumps(e, separators=(",", ":")) for e in o.get("ev", [])]


def generated(chk, arch, quick):
    """Documents/scripts of the C03/C05/C08 spaces whose fault-free run the specification expects to succeed, loaded from a stream."""
    base = {"Arch": '"%s"' % arch} if arch != "msgpack" else {}
    pads = "{0}" if arch != "xml" else "{2}"
    gen = mp.gen("MC_LoadScript", dict(base, Mode='"skip"', MaxOps=1, Widths="{0}", Pads=pads), ["Export"], "c20-%s-skip" % arch, chk, timeout=1500)
    gen += mp.gen("MC_LoadScript", dict(base, Mode='"fields"', MaxOps=2, Widths="{0}", Pads="{3}" if arch == "msgpack" else pads), ["Export"],
                  "c20-%s-fields" % arch, chk, timeout=1500)
    gen = [g for g in gen if g["exp"]["exc"] == ["none"] and g["root"]["k"] != "leaf"]
    step = max(1, len(gen) // (12 if quick else 150))
    return [{"id": "gen%d" % i, "doc": g["doc"], "root": g["root"], "pol": g["pol"], "stream": True, "enc": g.get("meta", {}).get("enc", "utf8")} for i, g in enumerate(gen[::step])]


def csv_scenarios(chk, quick):
    cfg = mp.write_cfg("mc_csvfaults.cfg", "SPECIFICATION Spec\nCONSTANT MaxRows = %d\nINVARIANTS Export ExportWide\n" % (2 if quick else 3))
    r = vlib.tlc("MC_CsvFaults", cfg=cfg, timeout=1500)
    chk.add_tlc("MC_CsvFaults scenarios", r)
    out, seen = [], set()
    for i, g in enumerate(r.printed("GEN")):
        if "wload" in g:
            ld = g["wload"]
            out.append({"id": "csvwide%d" % i, "save": False, "stream": True, "doc": ld["doc"], "keys": ld["keys"], "pol": ld["pol"], "exp": ld["exp"], "always": True})
            continue
        sv, ld = g["save"], g["load"]
        out.append({"id": "csvsave%d" % i, "save": True, "stream": sv["stream"], "rows": sv["rows"], "opt": sv["opt"], "pol": sv["pol"], "exp": sv["exp"]})
        key = json.dumps([ld["doc"], ld["stream"], ld["keys"], ld["pol"]])
        if not ld["skip"] and key not in seen:
            seen.add(key)
            out.append({"id": "csvload%d" % i, "save": False, "stream": ld["stream"], "doc": ld["doc"], "keys": ld["keys"], "pol": ld["pol"], "exp": ld["exp"]})
    return out


def fault_leg(chk, tier, arch):
    quick = tier == "quick"
    if arch == "csv":
        exe = vlib.build("csv_fault_c32", ["csv_fault.cpp"], groups=("csv", "common"), defines=["BITSERIALIZER_VERIF_ENC_CHUNK_SIZE=32"])
        scen = csv_scenarios(chk, quick)
        # every generated scenario is probed (the specification prescribes the fault-free outcome); faults are injected into a sample
        nfault = 60 if quick else 600
    else:
        exe = mp.harness(8, arch)
        scen = (msgpack_fixed() if arch == "msgpack" else text_fixed(arch, exe)) + generated(chk, arch, quick)
        nfault = len(scen)
    sp = os.path.join(vlib.scratch(), "c20_%s_probe.ndjson" % arch)
    vlib.write_ndjson(sp, [dict(s, fault={"kind": "probe", "k": 0}) for s in scen])
    probes = vlib.run_resumable([exe, "fault", sp], timeout=900)
    if len(probes) != len(scen):
        raise vlib.MachineryError("C20 %s: %d probe observations for %d scenarios" % (arch, len(probes), len(scen)))
    pl, chosen = [], []
    step = max(1, len(scen) // nfault)
    for i, (s, p) in enumerate(zip(scen, probes)):
        if "e" in p:
            chk.fail("%s: fault-free run of %s ended with %s" % (arch, s["id"], p["e"]), {"arch": arch, "scenario": s, "observed": p})
            continue
        if p.get("leak", 0) != 0:
            chk.fail("%s: fault-free run of %s leaked %d block(s)" % (arch, s["id"], p["leak"]), {"arch": arch, "scenario": s, "observed": p})
            continue
        if "exp" in s and outcome(p) != s["exp"]:
            chk.fail("%s: fault-free run of %s: the specification prescribes %s, observed %s" % (arch, s["id"], s["exp"], json.dumps(p["exc"])),
                     {"arch": arch, "scenario": s, "observed": p})
            continue
        if "exp" not in s and outcome(p) != "none":
            chk.fail("%s: fault-free run of %s raised %s" % (arch, s["id"], json.dumps(p["exc"])), {"arch": arch, "scenario": s, "observed": p})
            continue
        if i % step == 0 or s.get("always") or ("exp" in s and s["exp"] == "exception" and i % 3 == 0):
            chosen.append(s)
            pl.append({"id": s["id"], "arch": arch, "save": bool(s.get("save")), "stream": bool(s.get("stream")), "allocs": p["allocs"],
                       "doc": s.get("doc", []), "unit": UNITS.get(s.get("enc", "utf8"), (1, False))[0], "be": UNITS.get(s.get("enc", "utf8"), (1, False))[1], "produced": p["produced"], "probe": outcome(p), "pev": evs(p)})
    chk.add_cases(len(scen), distinct_keys=((arch, "probe", s["id"]) for s in scen), validated=len(scen))
    pp = os.path.join(vlib.scratch(), "c20_%s_probes.ndjson" % arch)
    vlib.write_ndjson(pp, pl)
    r = vlib.tlc("MC_Faults", env={"PROBES": pp}, timeout=1500)
    chk.add_tlc("MC_Faults fault plan (%s)" % arch, r, {"scenarios": len(pl)})
    plan = r.printed("GEN")
    rows = [dict(chosen[f["s"] - 1], fault={"kind": f["kind"], "k": f["k"]}) for f in plan]
    vlib.write_ndjson(sp, rows)
    obs = vlib.run_resumable([exe, "fault", sp], timeout=3000)
    if len(obs) != len(rows):
        raise vlib.MachineryError("fault replay (%s): %d observations for %d runs" % (arch, len(obs), len(rows)))
    lines = []
    for f, row, o in zip(plan, rows, obs):
        lines.append(json.dumps({"id": "%s/%s/%s/%d" % (arch, row["id"], f["kind"], f["k"]), "kind": f["kind"], "k": f["k"], "n": f["n"], "reject": f["reject"],
                                 "outcome": outcome(o), "leak": o.get("leak", 0), "hits": o.get("hits", 0), "probe": pl[f["s"] - 1]["probe"],
                                 "ev": evs(o), "pev": pl[f["s"] - 1]["pev"]}))
    checked, bad = vlib.validate_traces("Trace_Faults", lines)
    obsby = {json.loads(l)["id"]: (row, o) for l, row, o in zip(lines, rows, obs)}
    for b in bad:
        row, o = obsby[b["id"]]
        chk.fail("fault %s: %s" % (b["id"], b["why"]), {"arch": arch, "scenario": row, "observed": o})
    # scope life cycle: the events recorded by the hook during each run (and during the probes) against the protocol of ScopeUnwind
    sclines = [json.dumps({"id": json.loads(l)["id"], "sc": o.get("sc", []), "outcome": outcome(o)}) for l, o in zip(lines, obs) if "sc" in o]
    sclines += [json.dumps({"id": "%s/%s/probe" % (arch, s["id"]), "sc": p.get("sc", []), "outcome": outcome(p)}) for s, p in zip(scen, probes) if "sc" in p]
    if not any(len(json.loads(l)["sc"]) > 2 for l in sclines):
        raise vlib.MachineryError("C20 %s: no scope life-cycle events were recorded (hook not compiled in?)" % arch)
    sc_checked, sc_bad = vlib.validate_traces("Trace_ScopeUnwind", sclines)
    for b in sc_bad:
        row, o = obsby.get(b["id"], ({"id": b["id"]}, {}))
        chk.fail("scope life cycle %s: %s" % (b["id"], b["why"]), {"arch": arch, "scenario": row, "observed": o})
    chk.cov.setdefault("scope_event_traces", {})[arch] = sc_checked
    parked = sum(1 for l in sclines if '["park"]' in l)
    chk.cov.setdefault("runs_with_parked_destructor_error", {})[arch] = parked
    chk.add_cases(len(rows), distinct_keys=(json.loads(l)["id"] for l in lines), validated=checked)
    if lines:
        chk.sample({"arch": arch, "fault_run": json.loads(lines[len(lines) // 2]), "scenario": {k: v for k, v in rows[len(rows) // 2].items() if k != "doc"}})
    chk.cov.setdefault("fault_points", {})[arch] = {p["id"]: {"allocs": p["allocs"], "input_bytes": len(p["doc"]), "output_bytes": p["produced"]} for p in pl[:8]}
    kinds = {}
    for f in plan:
        kinds[f["kind"]] = kinds.get(f["kind"], 0) + 1
    chk.cov.setdefault("fault_runs_by_kind", {})[arch] = kinds


def run_check(tier):
    chk = Check("C20", tier, level="model_checking")
    chk.cov["rule"] = ("case = a probe run of a scenario, or (scenario, fault kind, fault position k) with k ranging over every counted fault point of the "
                       "fault-free run (k-th operator new / byte k of the input stream ends the data or raises an I/O error / byte k of the output stream "
                       "is refused or throws) plus one position past the last; distinct = distinct (archive, scenario, kind, k)")
    chk.assumptions += ["fault points are those the harness can count: operator new calls, bytes requested from / written to the stream buffer "
                        "(RapidJSON and pugixml allocate their DOM with malloc: those allocations are not fault points)",
                        "leak = blocks allocated with operator new during the call that are still allocated after every object of the call was destroyed",
                        "JSON and XML scenarios have an object/array root, so every prefix that cuts a significant byte is malformed"]
    # design level: the session machine (scopes with fallible destructors, a fault at every step, user exceptions) refines the
    # life-cycle protocol and never terminates; the variant whose destructors throw must produce the terminate counterexample
    r = vlib.tlc("MC_ScopeUnwind", cfg=mp.write_cfg("mc_scope.cfg", SCOPE_CFG % dict(d=3 if tier == "quick" else 4, i=2 if tier == "quick" else 3, b=6 if tier == "quick" else 14,
                                                                                      pol="park", inv="NeverTerminated EventsAccepted EndAccepted ErrorReachesCaller AllDestroyed")), timeout=1500)
    chk.add_tlc("MC_ScopeUnwind (destructors park their error)", r)
    r2 = vlib.tlc("MC_ScopeUnwind", cfg=mp.write_cfg("mc_scope_throw.cfg", SCOPE_CFG % dict(d=3, i=2, b=6, pol="throw", inv="NeverTerminated")), timeout=600, allow=(0, 12))
    if not (r2.safety_violation and "Invariant NeverTerminated is violated" in r2.out):
        raise vlib.MachineryError("vacuity self-test: the session machine with throwing destructors must reach std::terminate")
    chk.cov["expected_counterexamples"] = ["MC_ScopeUnwind with DtorPolicy = throw: NeverTerminated violated (the pinned tree before the destructor fixes)"]
    for arch in ("msgpack", "json", "xml", "csv"):
        fault_leg(chk, tier, arch)
    return chk.finish()


def run(tier):
    return run_check(tier)


def replay(path):
    """Re-executes a recorded fault run against the current tree."""
    rec = json.load(open(path))
    case = rec.get("case", {})
    if "scenario" in case and "arch" in case:
        arch = case["arch"]
        exe = vlib.build("csv_fault_c32", ["csv_fault.cpp"], groups=("csv", "common"), defines=["BITSERIALIZER_VERIF_ENC_CHUNK_SIZE=32"]) if arch == "csv" else mp.harness(8, arch)
        row = dict(case["scenario"])
        row.setdefault("fault", {"kind": "probe", "k": 0})
        sp = os.path.join(vlib.scratch(), "c20_replay.ndjson")
        vlib.write_ndjson(sp, [row])
        o = vlib.run_resumable([exe, "fault", sp], timeout=300)
        print(json.dumps({"recorded": case["observed"], "now": o}, indent=1))
        same = o and outcome(o[0]) == outcome(case["observed"]) and o[0].get("leak", 0) == case["observed"].get("leak", 0)
        print("REPLAY property=C20 %s" % ("reproduced" if same else "not reproduced"))
        return 1 if same else 0
    print(open(path).read())
    return run_check("quick")
