"""C20 - every failure surfaces as a catchable exception: no terminate, no leak."""
import json
import os
import vlib
from vlib import Check
from checks import mpcommon as mp


def fixed_scenarios():
    """Representative scenarios (fault-free runs end without exception)."""
    S = lambda s: [ord(c) for c in s]
    load_doc = [0x93, 0xa3] + S("pad") + [0x84, 0xa1, 0x61, 5, 0xa1, 0x62, 0xd9, 40] + [120] * 40 + [0xa1, 0x63, 0x93, 1, 0xcd, 1, 0, 3,
                                                                                              0xa1, 0x64, 0x82, 0xa1, 0x6e, 9, 0xa1, 0x6d, 0xc4, 3, 1, 2, 3, 7]
    load_root = {"k": "arr", "ops": [{"op": "elem", "t": "str"},
                                     {"op": "obj", "ops": [{"op": "req", "ks": S("b"), "t": "str"}, {"op": "req", "ks": S("c"), "t": "vec_i32"},
                                                           {"op": "obj", "ks": S("d"), "ops": [{"op": "req", "ks": S("m"), "t": "vec_u8"}]},
                                                           {"op": "req", "ks": S("a"), "t": "i8"}, {"op": "req", "ks": S("z"), "t": "i32"}]},
                                     {"op": "elem", "t": "i32"}]}
    save_root = {"k": "obj", "ops": [{"op": "req", "ks": S("s"), "t": "str", "v": ["str", [120] * 40]},
                                     {"op": "req", "ks": S("v"), "t": "vec_i32", "v": ["arr", [["int", False, [0, 0, 0, 0, 0, 0, 1, 0]], ["int", True, [0, 0, 0, 0, 0, 0, 0, 5]]]]},
                                     {"op": "obj", "ks": S("o"), "ops": [{"op": "req", "ks": S("t"), "t": "tp_ns", "v": ["ts", True, [0, 0, 0, 0, 0, 0, 0, 2], 500000000]},
                                                                          {"op": "req", "ks": S("m"), "t": "map_str_i32", "v": ["map", [[["str", [97]], ["int", False, [0, 0, 0, 0, 0, 0, 0, 1]]]]]}]},
                                     {"op": "arr", "ks": S("a"), "ops": [{"op": "elem", "t": "vec_u8", "v": ["bin", [1, 2, 3]]}, {"op": "elem", "t": "f64", "v": ["f64", [63, 248, 0, 0, 0, 0, 0, 0]]}]}]}
    out = []
    for stream in (False, True):
        out.append({"id": "load-%s" % ("stream" if stream else "mem"), "doc": load_doc, "root": load_root, "pol": {"mm": "throw", "ov": "throw"}, "stream": stream})
        out.append({"id": "loadskip-%s" % ("stream" if stream else "mem"), "doc": load_doc, "root": load_root, "pol": {"mm": "skip", "ov": "skip"}, "stream": stream})
        out.append({"id": "save-%s" % ("stream" if stream else "mem"), "save": True, "root": save_root, "pol": {}, "stream": stream})
    return out


def outcome(o):
    if "e" in o:
        return o["e"].lower()
    return "none" if o["exc"] == ["none"] else "exception"


def run_check(tier):
    chk = Check("C20", tier, level="model_checking")
    chk.cov["rule"] = ("case = (scenario, fault kind, fault position k) with k ranging over every counted fault point of the fault-free run "
                       "(k-th operator new / byte k of the input stream / byte k of the output stream) plus one position past the last; "
                       "distinct = distinct (scenario, kind, k); all of them inject a fault, so all are non-trivial")
    chk.assumptions += ["fault points are those the harness can count: operator new calls, bytes requested from / written to the stream buffer",
                        "leak = blocks allocated during the call that are still allocated after every object of the call was destroyed"]
    quick = tier == "quick"
    scen = fixed_scenarios()
    # generated scenarios: documents/scripts of the C03/C05 spaces (fault-free subset), loaded from a stream
    chk2 = Check("C20", tier)
    gen = mp.gen("MC_LoadScript", {"Mode": '"skip"', "MaxOps": 1, "Widths": "{0}", "Pads": "{0}"}, ["Export"], "c20-skip", chk, timeout=1500)
    gen += mp.gen("MC_LoadScript", {"Mode": '"fields"', "MaxOps": 2, "Widths": "{0}", "Pads": "{3}"}, ["Export"], "c20-fields", chk, timeout=1500)
    gen = [g for g in gen if g["exp"]["exc"] == ["none"]]
    step = max(1, len(gen) // (12 if quick else 150))
    for i, g in enumerate(gen[::step]):
        scen.append({"id": "gen%d" % i, "doc": g["doc"], "root": g["root"], "pol": g["pol"], "stream": True})
    exe = mp.harness(8)
    # probe runs: count the fault points
    rows = [dict(s, fault={"kind": "probe", "k": 0}) for s in scen]
    sp = os.path.join(vlib.scratch(), "probe.ndjson")
    vlib.write_ndjson(sp, rows)
    probes = vlib.run_resumable([exe, "fault", sp], timeout=900)
    pl = []
    for s, p in zip(scen, probes):
        if "e" in p:
            chk.fail("fault-free run of %s ended with %s" % (s["id"], p["e"]), {"scenario": s, "observed": p})
            continue
        pl.append({"id": s["id"], "save": bool(s.get("save")), "stream": bool(s.get("stream")), "allocs": p["allocs"],
                   "len": len(s.get("doc", [])), "produced": p["produced"], "probe": outcome(p)})
    pp = os.path.join(vlib.scratch(), "probes.ndjson")
    vlib.write_ndjson(pp, pl)
    r = vlib.tlc("MC_Faults", env={"PROBES": pp}, timeout=1500)
    chk.add_tlc("MC_Faults fault plan", r, {"scenarios": len(pl)})
    plan = r.printed("GEN")
    byid = {s["id"]: s for s in scen}
    rows = []
    for f in plan:
        s = byid[pl[f["s"] - 1]["id"]]
        rows.append(dict(s, fault={"kind": f["kind"], "k": f["k"]}))
    vlib.write_ndjson(sp, rows)
    obs = vlib.run_resumable([exe, "fault", sp], timeout=3000)
    if len(obs) != len(rows):
        raise vlib.MachineryError("fault replay: %d observations for %d runs" % (len(obs), len(rows)))
    lines = []
    for f, row, o in zip(plan, rows, obs):
        lines.append(json.dumps({"id": "%s/%s/%d" % (row["id"], f["kind"], f["k"]), "kind": f["kind"], "k": f["k"], "n": f["n"],
                                 "outcome": outcome(o), "leak": o.get("leak", 0), "probe": pl[f["s"] - 1]["probe"]}))
    checked, bad = vlib.validate_traces("Trace_Faults", lines)
    obsby = {json.loads(l)["id"]: (row, o) for l, row, o in zip(lines, rows, obs)}
    for b in bad:
        row, o = obsby[b["id"]]
        chk.fail("fault %s: %s" % (b["id"], b["why"]), {"scenario": row, "observed": o})
    chk.add_cases(len(rows), distinct_keys=(json.loads(l)["id"] for l in lines), validated=checked)
    chk.sample({"fault_run": json.loads(lines[len(lines) // 2]), "scenario_root": rows[len(rows) // 2]["root"]})
    chk.cov["fault_points"] = {p["id"]: {"allocs": p["allocs"], "input_bytes": p["len"], "output_bytes": p["produced"]} for p in pl[:12]}
    return chk.finish()


def run(tier):
    return run_check(tier)


def replay(path):
    print(open(path).read())
    return run_check("quick")
