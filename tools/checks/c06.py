"""C06 - MsgPack output is spec-conformant, compact, and readable by any decoder."""
import json
import vlib
from vlib import Check
from checks import mpcommon as mp

DEVNAMES = {"signed": "Dev_SignedPositiveNotCompact", "ts96": "Dev_Timestamp96FieldOrder", "negns": "Fix_NegativeNanoseconds"}


def run_check(tier):
    chk = Check("C06", tier)
    chk.cov["rule"] = ("case = save script (typed value at a format threshold in root/array/object position, containers, typed-key maps, "
                       "objects growing member by member) saved to memory and to a stream; TLC decodes the produced bytes; "
                       "distinct = distinct script")
    chk.assumptions += ["independent decoder = spec/MsgPackFormat.tla Decode (checked by MC_MsgPackFormat); compactness = length of Compact(document)",
                        "values are constructed in C++ from the canonical tuples chosen by the spec (harness FromCanon)"]
    quick = tier == "quick"
    r = vlib.tlc("MC_MsgPackFormat", timeout=900)
    chk.add_tlc("MC_MsgPackFormat", r)
    cfg = mp.write_cfg("mc_save.cfg", "SPECIFICATION Spec\nCONSTANT MaxMembers = %d\nINVARIANTS EncoderConsistent DecodesBack DeviationsNeverShorter MapHeaderCounts Export\n" % 2)
    r = vlib.tlc("MC_SaveScript", cfg=cfg, timeout=3000, xmx="8g")
    chk.add_tlc("MC_SaveScript", r, {"MaxMembers": 2})      # MaxMembers 3 does not finish within the hour (>262144 initial states); the thorough tier deepens the sweep leg instead
    import os
    base = 0
    sampled = False
    for scen in r.printed_chunks("GEN", 40000):              # streamed: bounded memory whatever MaxMembers is
        rows = [{"id": "v%d" % (base + i), "root": s["root"]} for i, s in enumerate(scen)]
        base += len(rows)
        sp = os.path.join(vlib.scratch(), "save_scn.ndjson")
        vlib.write_ndjson(sp, rows)
        obs = vlib.run_resumable([mp.harness(256), "save", sp], timeout=1800)
        os.unlink(sp)
        lines = []
        for o in obs:
            if "e" in o:
                chk.fail("save %s: %s" % (rows[o["run"]]["id"], o["e"]), {"scenario": rows[o["run"]], "observed": o})
                continue
            o["root"] = rows[o["run"]]["root"]
            lines.append(json.dumps(o))
        checked, bad = vlib.validate_traces("Trace_SaveScript", lines)
        byid = None
        for b in bad:
            if byid is None:
                byid = {json.loads(l)["id"]: json.loads(l) for l in lines}
            dev = None
            if b["why"].startswith("dev:"):
                dev = "+".join(DEVNAMES[x] for x in b["why"][4:].split("+"))
            chk.fail("MsgPack save: %s" % b["why"], {"record": byid[b["id"]], "verdict": b}, dev=dev)
        chk.add_cases(len(rows), distinct_keys=(json.dumps(x["root"]) for x in rows), validated=checked)
        if not sampled and lines:
            chk.sample({"script": rows[len(rows) // 2]["root"], "bytes": json.loads(lines[len(lines) // 2])["mem"]})
            sampled = True
        del rows, obs, lines
    sweep_leg(chk, quick)
    return chk.finish()


def sweep_leg(chk, quick):
    """Exhaustive part: every integer of the swept range through every integer type that holds it (thorough: all 16-bit values and
    the neighbourhood of 2^16), and strings / binary / arrays at the 16/32-bit length thresholds."""
    import os
    neg, pos = (300, 300) if quick else (32770, 65540)
    longs = "{65536}" if quick else "{65535, 65536}"
    cfg = mp.write_cfg("mc_sweep.cfg", "SPECIFICATION Spec\nCONSTANTS\n  SweepNeg = %d\n  SweepPos = %d\n  LongLens = %s\n  LongKinds = %s\nINVARIANTS EncoderConsistent ShortestInt Export\n" % (neg, pos, longs, '{"str", "bin"}'))        # "arr" of 65536 elements: TLC does not finish encoding it within 15 min
    r = vlib.tlc("MC_SaveSweep", cfg=cfg, timeout=3000, xmx="8g")
    chk.add_tlc("MC_SaveSweep", r, {"SweepNeg": neg, "SweepPos": pos, "LongLens": longs})
    total = 0
    for part in r.printed_chunks("GEN", 50000):          # streamed: the thorough sweep exports ~0.5M scripts
        lo = total
        rows = [{"id": "w%d" % (lo + i), "root": s["root"]} for i, s in enumerate(part)]
        sp = os.path.join(vlib.scratch(), "sweep_scn.ndjson")
        vlib.write_ndjson(sp, rows)
        obs = vlib.run_resumable([mp.harness(256), "save", sp], timeout=1800)
        os.unlink(sp)
        lines = []
        for o in obs:
            if "e" in o:
                chk.fail("save %s: %s" % (rows[o["run"]]["id"], o["e"]), {"scenario": rows[o["run"]], "observed": o})
                continue
            o["root"] = rows[o["run"]]["root"]
            lines.append(json.dumps(o))
        checked, bad = vlib.validate_traces("Trace_SaveScript", lines)
        byid = None
        for b in bad:
            if byid is None:
                byid = {json.loads(l)["id"]: json.loads(l) for l in lines}
            dev = None
            if b["why"].startswith("dev:"):
                dev = "+".join(DEVNAMES[x] for x in b["why"][4:].split("+"))
            rec = byid[b["id"]]
            if len(rec.get("mem", [])) > 300:
                rec = dict(rec, mem=rec["mem"][:300], stream=rec["stream"][:300], root={"k": rec["root"]["k"], "t": rec["root"].get("t"), "len": len(rec["root"]["v"][1])})
            chk.fail("MsgPack save (sweep): %s" % b["why"], {"record": rec, "verdict": b}, dev=dev)
        chk.add_cases(len(rows), distinct_keys=(("sweep", x["root"]["t"], json.dumps(x["root"]["v"])[:80], len(json.dumps(x["root"]["v"]))) for x in rows), validated=checked)
        total += len(rows)
    chk.cov["sweep"] = {"integers": [-neg, pos], "long_lengths": longs, "scripts": total}


def run(tier):
    return run_check(tier)


def replay(path):
    print(open(path).read())
    return run_check("quick")
