#!/usr/bin/env python3
"""Regenerates MANIFEST.json from the table below (single source of truth for the registered checks)."""
import json
import os
import subprocess

VERIF = os.path.dirname(os.path.dirname(os.path.abspath(__file__)))

CHECKS = {
    "C10": dict(
        category="model_checking",
        technique="TLA+ refinement (TLC, exhaustive small scope): CBinaryStreamReader window machine M => ByteCursor A; TLC-generated call sequences replayed on the real class; recorded traces (results + private window state) validated against M and A by TLC",
        text="TLC exhaustively checks that the implementation-shaped model of CBinaryStreamReader (window, mStreamPos, istream eof/fail bits) refines the abstract byte cursor for all stream lengths up to 3 windows and all call sequences up to the bound; the model is bound to the code in both directions: every TLC path-mode behaviour is executed on the real class compiled with the same small window over four stream kinds, and seeded random call sequences at the real 256-byte window are validated event by event (result bytes and private state) by TLC.",
        note="Trusted: libstdc++ istream semantics as modelled (each trace validates them), harness stream doubles, TLC. Bounded: window 3..8 in the exhaustive part; random part covers lengths to 1300 bytes at window 256.",
        design_ref="DESIGN.md#c10"),
}

NOT_YET = {
}


def main():
    props = [json.loads(l) for l in open(os.path.join(VERIF, "properties.jsonl"))]
    commits = subprocess.run(["git", "-C", "/repo", "log", "--format=%h %s"], stdout=subprocess.PIPE, text=True).stdout.splitlines()
    hook_commits = [c.split()[0] for c in commits if c.split(" ", 1)[1].startswith("verif hook")]
    checks = []
    na = []
    for p in props:
        pid = p["id"]
        if pid in CHECKS:
            c = CHECKS[pid]
            checks.append({
                "property_id": pid,
                "quick_cmd": "python3 tools/check.py %s --tier quick" % pid,
                "thorough_cmd": "python3 tools/check.py %s --tier thorough" % pid,
                "evidence_file": "evidence/%s.json" % pid,
                "replay_cmd_template": "python3 tools/check.py %s --replay {path}" % pid,
                "engine": "tlc",
                "level_claimed": {"category": c["category"], "text": c["text"], "design_ref": c["design_ref"]},
                "level_note": c["note"],
                "technique": c["technique"],
            })
        else:
            na.append({"property_id": pid, "reason": NOT_YET.get(pid, "check under construction in this session (TLA+ model and conformance harness not yet committed); not claimed until it runs clean")})
    m = {
        "version": 1,
        "setup_cmd": "python3 tools/setup.py",
        "hooks": {
            "guard": "BITSERIALIZER_VERIF",
            "enable": "-DBITSERIALIZER_VERIF [-DBITSERIALIZER_VERIF_CHUNK_SIZE=<n>] [-DBITSERIALIZER_VERIF_ENC_CHUNK_SIZE=<n>] (harnesses are compiled by tools/vlib.py build() from /repo's working tree)",
            "baseline_off_cmd": "python3 tools/baseline.py",
            "source_commits": hook_commits,
            "add_only": True,
        },
        "engines": [
            {"name": "tlc", "path": "spec/", "serves_properties": sorted(CHECKS), "kind_free_text": "TLA+ specification family (A = abstract, M = implementation-shaped) checked with TLC; the same modules generate scenarios and validate traces"},
            {"name": "harness", "path": "harness/", "serves_properties": sorted(CHECKS), "kind_free_text": "C++ scenario interpreters / trace recorders compiled against /repo's working tree with the BITSERIALIZER_VERIF hooks; they execute and log, TLC judges"},
        ],
        "checks": checks,
        "notes": "Fixed defects and known findings: known_findings.json. A TLC/model/build failure exits 2 with MACHINERY-ERROR and is never reported as a VIOLATION.",
        "not_applicable": na,
    }
    with open(os.path.join(VERIF, "MANIFEST.json"), "w") as f:
        json.dump(m, f, indent=1)
    print("MANIFEST.json: %d checks, %d not claimed" % (len(checks), len(na)))


if __name__ == "__main__":
    main()
