#!/usr/bin/env python3
"""Regenerates MANIFEST.json from the table below (single source of truth for the registered checks)."""
import json
import os
import subprocess

VERIF = os.path.dirname(os.path.dirname(os.path.abspath(__file__)))

CHECKS = {
    "C08": dict(
        category="model_checking",
        technique="TLA+ Layer-1 specifications of JSON (strict RFC 8259 parser + renderer) and of the XML 1.0 subset the archive uses (parser + renderer), both model-checked for self-consistency by TLC; real archive output is decoded and parsed by TLC (trace validation); spec-generated standard renderings are loaded by the real archives and compared with the abstract load semantics",
        text="MC_JsonFormat / MC_XmlFormat check that every rendering style x 5 encodings x BOM of every corpus document parses back to the same data and that ill-formed texts are rejected. Save half: MC_SaveJson / MC_SaveXml enumerate typed values at numeric extremes, strings over the Unicode range (quotes, backslashes, control/markup characters, 2-4 byte UTF-8), containers, nested objects, base classes x {compact, pretty with padding char/count} x encodings; TLC decodes the bytes the real archive produced (memory and stream), parses them strictly and requires the same names, nesting, order and scalar lexical values (non-finite floats must be rejected by an exception in JSON). Load half: 9 JSON and 7 XML rendering styles (whitespace, escapes / character references, member order, quotes, empty-element forms, declaration, encoding, BOM) of the documents are loaded into typed targets and by request scripts; every observation must equal the one the abstract semantics prescribes.",
        note="Trusted: TLC, harness, the TLA+ transcriptions of RFC 8259 and of the XML subset. Floating point lexical forms are table driven (dyadic values). XML attributes are not exercised; XML load results are prescribed only where the archive's data model is unambiguous. Known finding: carriage return not escaped by the XML writer.",
        design_ref="DESIGN.md#c08"),
    "C10": dict(
        category="model_checking",
        technique="TLA+ refinement (TLC, exhaustive small scope): CBinaryStreamReader window machine M => ByteCursor A; TLC-generated call sequences replayed on the real class; recorded traces (results + private window state) validated against M and A by TLC",
        text="TLC exhaustively checks that the implementation-shaped model of CBinaryStreamReader (window, mStreamPos, istream eof/fail bits) refines the abstract byte cursor for all stream lengths up to 3 windows and all call sequences up to the bound; the model is bound to the code in both directions: every TLC path-mode behaviour is executed on the real class compiled with the same small window over four stream kinds, and seeded random call sequences at the real 256-byte window are validated event by event (result bytes and private state) by TLC.",
        note="Trusted: libstdc++ istream semantics as modelled (each trace validates them), harness stream doubles, TLC. Bounded: window 3..8 in the exhaustive part; random part covers lengths to 1300 bytes at window 256.",
        design_ref="DESIGN.md#c10"),
}

CHECKS.update({
    "C01": dict(
        category="model_checking",
        technique="TLA+ save scripts (typed trees) enumerated by TLC for MsgPack / JSON / XML with the load-back observation the abstract semantics (LoadScript!Exec on the abstract document) prescribes; the real archive saves each script to memory and to a stream in the chosen configuration and loads the produced bytes back from memory, stringstream and a short-read stream; observations compared with the prescription",
        text="TLC enumerates typed values at numeric extremes and format thresholds, strings over the Unicode range, floats, time points, containers, typed-key maps, nested objects/arrays, base classes and objects growing member by member x output configuration (pretty printing with padding, 5 encodings, BOM on/off for the text archives) and checks the specification's own encoder/renderer/parser consistency in every state; each state is saved by the real archive (memory and stream) and the produced bytes are loaded back through three media with the mirrored script: the events must equal those of loading the abstract document (value equality for every member, bool results, sentinel), or the save must fail with an exception when the format cannot carry the value (NaN/Infinity in JSON). The documents themselves are judged by the independent parsers of C06/C08/C09, so symmetric save/load errors cannot hide.",
        note="Archives: MsgPack, JSON, XML through the scripted driver; CSV tables round-trip in C09. XML results are prescribed only where its data model is unambiguous. The load-save-load fixed point is exercised through the C03/C07/C08 legs that load spec-rendered documents and the save legs; a dedicated fixed-point leg is not built. Known findings: XML CR normalisation, BOM-less UTF-16/32 JSON not detectable, empty string / empty container in XML.",
        design_ref="DESIGN.md#c01"),
    "C03": dict(
        category="model_checking",
        technique="TLA+ abstract load semantics (LoadScript) explored by TLC in path mode: every request history up to the bound x documents x encodings x paddings; every behaviour replayed through the public API on memory and four stream kinds at window 8 and 256; observations compared with the events the spec prescribes",
        text="TLC enumerates all object documents (up to 3 keys incl. typed keys, nested arrays/objects, a 20-byte string) x all request scripts up to the bound (present/absent/repeated keys, both target kinds, nested open/partial read/close, VisitKeys) and checks the property-level invariants (sentinel intact, failed request leaves target unchanged) on the abstract semantics; each state is exported with the prescribed observation and executed on the real MsgPack archive from memory and from stringstream / short-read / non-seekable streams with the reader window shrunk to 8 bytes (every alignment) and at the real 256 bytes with paddings across the boundary.",
        note="Trusted: TLC, the scripted driver harness (public API only), spec/LoadScript.tla as the statement of the documented semantics. MessagePack, JSON and XML archives (CSV by-name reads are covered by C09); bounds: scripts <= 2 (quick) / 3 (thorough) requests, documents <= 3 members.",
        design_ref="DESIGN.md#c03"),
    "C04": dict(
        category="model_checking",
        technique="TLA+ typed-load semantics (LoadScript!LoadLeaf: exact / rounded / Overflow / Mismatched / skip) explored by TLC in numeric mode: exhaustive integer source range + every type limit +-2 + 2^k +-1 + booleans + floats x 11 arithmetic targets x positions x legal MsgPack formats / JSON / XML renderings x policies; replayed on the real archives and compared",
        text="TLC enumerates every integer of -130..260 (quick) / -32770..65540 (thorough) plus all type limits +-2, 2^k +-1 for k in {7,8,15,16,24,31,32,53,63}, booleans and floating point values as sources, all 11 arithmetic targets, root / array element / object member positions, every MessagePack format able to carry the value (incl. the signed family for non-negative values and wider formats), JSON and XML text, and both OverflowNumberPolicy / MismatchedTypesPolicy settings; the abstract semantics prescribes: the same mathematical value stored, rounding only into floating point targets, Overflow or MismatchedTypes per policy, or skip with the target untouched; the real archives must produce exactly these events (loaded flag, value or prior value, exception code).",
        note="int -> float is prescribed for |n| < 2^24 only (larger magnitudes into float targets are left open); XML attributes, CSV cells and map keys are not driven by this check (text cells: C09/C16, typed keys: C03/C07). Direct Convert::To between arithmetic types is reached through the MsgPack reader (ConvertByPolicy). Known findings: negative text into unsigned target reports MismatchedTypes; JSON integers below -2^63 are read as doubles.",
        design_ref="DESIGN.md#c04"),
    "C05": dict(
        category="model_checking",
        technique="TLA+ abstract load semantics with Skip policies explored by TLC over well-typed document shapes with every subset (up to the bound) of values replaced by offending values; invariants SkipNeverThrows/SkipKeepsShape; all behaviours replayed on the real archive and compared",
        text="TLC explores 4 document shapes (array of scalars in typed containers, array of objects, byte containers as bin and as int array, scalars in an array) with up to 2/3 positions replaced by 8 kinds of offending values under both Skip policy combinations, checks on the abstract semantics that no error is raised and neighbours keep their events, and exports each state; the real MsgPack archive executes them from memory and streams at window 8 and 256 and must produce exactly the prescribed events (bool results, targets incl. prior values, sentinel).",
        note="Trusted: TLC, harness, LoadScript.tla. MessagePack, JSON and XML archives. Required()-validator reporting of skipped fields is covered through the isLoaded flag each request logs.",
        design_ref="DESIGN.md#c05"),
    "C06": dict(
        category="model_checking",
        technique="TLA+ typed-tree encoder spec (SaveScript: abstract document A, compact encoding, deviation-parameterised M) model-checked against the MessagePack spec; TLC-generated save scripts executed by the real writer (memory and stream); TLC is the independent decoder of the produced bytes (trace validation)",
        text="MC_SaveScript enumerates typed values of every integer width at all format thresholds, floats, strings/bin/arrays at header thresholds, time points/durations incl. pre-epoch sub-second, containers, typed-key maps and objects growing member by member, and checks on the spec itself that the typed encoder equals Compact(document), decodes back and that map headers equal the members written. Every state is saved by the real MsgPack archive to memory and to a stream; TLC decodes the bytes with the reference decoder and decides: exactly one well-formed object, same data, length of the most compact encoding, memory == stream.",
        note="Trusted: TLC, harness (constructs C++ values from spec-chosen tuples), MsgPackFormat.tla. Known findings: signed positive values not compact in three ranges; timestamp-96 field order. Bounds: corpus values (thresholds), objects <= 2 extra members; exhaustive integer sweep -300..300 (quick) / all 16-bit values and the neighbourhood of 2^16 (thorough) through every holding type; strings and binary of 65535/65536 bytes (arrays at the 16-bit header threshold come from the corpus only: TLC does not finish encoding a 65536-element array).",
        design_ref="DESIGN.md#c06"),
    "C07": dict(
        category="model_checking",
        technique="TLA+ reference MessagePack decoder/encoder (MsgPackFormat) model-checked for self-consistency; TLC enumerates corpus values x legal width policies x typed targets x truncations and single-byte corruptions with the outcome the reference decoder + typed-load semantics prescribe; replayed through both readers",
        text="MC_MsgPackFormat checks Decode(Enc(v,w))=v, compactness of Enc(v,0) and prefix-freeness for 105 values at every format threshold x 5 width policies x all prefixes. MC_LoadScript (typed mode) enumerates value x encoding x 16 target types x 3 positions x 2 policy settings, every truncation (thorough) and single-byte corruptions; the spec's decoder decides what damaged bytes mean. The real string and stream readers must deliver exactly the prescribed value / policy outcome / ParsingError.",
        note="Trusted: TLC, harness, the TLA+ transcription of the MessagePack specification. Results for duplicate or exotic map keys and nanoseconds > 999999999 are left unspecified. Known findings: timestamp-96 field order, pre-sizing from declared counts.",
        design_ref="DESIGN.md#c07"),
    "C20": dict(
        category="model_checking",
        technique="TLA+ fault model (Faults: outcome alphabet, fault points, code-unit aware truncation bound, delivery-prefix rule) with the fault plan enumerated by TLC (MC_Faults) from probe runs of the real code; CSV tables with library-detected errors generated by TLC (MC_CsvFaults); every (scenario, fault kind, position) injected into the real archives (MsgPack, JSON, XML, CSV) in crash-contained children and judged by TLC (Trace_Faults); scope life-cycle protocol (ScopeUnwind) model-checked against a code-shaped session machine (MC_ScopeUnwind) and trace-validated (Trace_ScopeUnwind) on the events a BITSERIALIZER_VERIF hook records in every fault run",
        text="For representative and TLC-generated load/save scenarios of all four archives the harness first measures the fault points of the fault-free run (operator new calls, input bytes, output bytes); MC_Faults enumerates every position of every applicable fault kind (k-th allocation fails; the input ends at byte k like a short file, or the stream buffer throws at byte k = I/O error; the output buffer refuses or throws at byte k) plus one position past the last; each is injected into a real run. Trace_Faults requires: outcome is a normal return or an exception (never terminate / crash / hang), nothing leaked, a reached fault is reported as an exception (truncation: wherever at least one significant code unit is cut; CSV is not prefix-free, there an I/O error must still be reported), an unreached fault changes nothing, and what the run delivered before failing is a prefix of what the fault-free run delivers. MC_CsvFaults prescribes the fault-free outcome for tables whose rows differ in width, contain text the output encoding cannot carry, or cells that do not convert. MC_ScopeUnwind explores a session machine with nested scopes whose destructors do fallible work, a fault at every step and user exceptions: events accepted by the protocol, never terminated, every failure ends with an exception; the variant with throwing destructors must yield the terminate counterexample (self-test on every run). The hook events (open / move / close / park / rethrow) of every fault run are validated against the same protocol: LIFO destruction, everything destroyed before the call ends, a parked destructor error is never lost.",
        note="Fault points are those the harness can count: operator new calls (RapidJSON and pugixml allocate their DOM with malloc: not fault points), bytes requested from / written to the stream buffer. JSON/XML scenarios have an object/array root. Truncation at every byte of generated MsgPack documents from memory is covered by C07. Level reported as model_checking with TLC state counts; the fault enumeration is exhaustive over the counted fault points of each chosen scenario (CSV: a sample of the generated tables, all of them probed).",
        design_ref="DESIGN.md#c20"),
    "C11": dict(
        category="model_checking",
        technique="TLA+ Layer-1 specification of the UTF encoding forms (Unicode.tla) as independent oracle: TLC evaluates the encoding table for scalar values (sharded), the real transcoders run on every row, random sequences are trace-validated by TLC; MC_Unicode explores the spec's own consistency exhaustively",
        text="TLC explores MC_Unicode (cp -> Encode -> Decode over all range boundaries +-3 and slices: round trip, shortest form, surrogates only for supplementary, byte orders, BOM). TLC writes the five-scheme byte encoding of every scalar value (all 1,112,064 in thorough; boundaries +-2 plus one seeded plane in quick); the harness pushes each through the 20 ordered scheme pairs x both policies, Transcode and Convert::To among the four string types, appended to a non-empty output; outputs, ErrorCode, iterator-at-end and error count must equal the table. Random sequences up to 4096 scalar values are judged by TLC from the logged input.",
        note="Table comparison is plain equality against TLC's table. Little-endian host. Archive string keys/values are driven by the C01/C08 checks, not here.",
        design_ref="DESIGN.md#c11"),
    "C12": dict(
        category="model_checking",
        technique="TLA+ decoder transition system (Canon + DecStep with nondeterministic segmentation of bad runs) model-checked by TLC incl. termination; TLC-generated ill-formed inputs executed on every real decoder/encoder/Transcode entry point; each observation accepted only if some DecStep behaviour explains it (named deviation transitions classify findings)",
        text="MC_UnicodeDec checks exhaustively for all strings up to length 3-4 over class representatives and all behaviours: iterator in bounds, output well-formed, valid items preserved, count = marks, valid input has a unique outcome, every behaviour terminates under FairSpec. TLC generates all 1- and 2-byte UTF-8 strings, 3/4-byte strings by boundary class, 5/6-byte forms, UTF-16 strings by class, UTF-32 units as 16-bit halves, bare and embedded between valid neighbours, x target widths x {default, custom, empty, null mark, ThrowError}; the real code runs them on 8-11 entry points and TLC's acceptor decides each record.",
        note="UnexpectedEnd is accepted for a structurally truncated tail; the count of the failing call under ThrowError is unconstrained; same-width copies are outside the property.",
        design_ref="DESIGN.md#c12"),
    "C13": dict(
        category="model_checking",
        technique="TLA+ refinement M => A for CEncodedStreamReader / DetectEncoding with safety and liveness (FairSpec, termination of the client loop) checked by TLC; TLC-generated parametric streams executed on the real reader/writer under a call limit and watchdog; traces (results, window offsets via friend accessor, output) validated by TLC against M and A",
        text="MC_EncodedStream checks all texts up to 3-4 characters over length-class representatives x 5 schemes x BOM x every truncation point x 3 target widths x 2 policies x model chunks {8,12}: WellFormed, DetectionCorrect, ContentCorrect (concatenated chunk outputs = a decoding of the whole stream, chunk independent), WholeTextExact, and Terminates under FairSpec (the odd-length UTF-16 livelock of the original tree is a liveness counterexample). Real code: chunk 32 with filler 0..39 and 60..70, chunk 256 around its boundaries, the hook build, short-read stream buffers, and the writer (bytes = BOM + encoding).",
        note="Detection is demanded only for a complete BOM or a complete ASCII non-NUL first character when the bytes are not ambiguous. Known finding: NUL-containing text confuses detection. CSV/JSON/XML stream entry points are driven by C09/C08/C10.",
        design_ref="DESIGN.md#c13"),
    "C18": dict(
        category="model_checking",
        technique="explicit TLA+ specification (Containers.tla: abstract load semantics A and implementation-shaped step functions M with origin-tagged leaves and named deviations) model-checked with TLC (MC_Containers); every state exported as a scenario and replayed on the real MsgPack/JSON/XML/CSV archives (populated vs default-constructed target); observations compared by equality with the prescribed ones",
        text="TLC exhaustively checks M => A, populated = fresh, no stale leaf survives, nothing loaded is lost and the OnlyExistKeys/UpdateKeys key laws for prior size 0..3/4 x document size 0..2/4 x estimate {zero, exact, larger} x 41 target types (sequence containers, vector<bool>, forward_list, valarray, adaptors, fixed arrays, bitset, tuple, sets, maps in three load modes, multimap, optional, smart pointers, strings, nested combinations) x placement x policy; every state (10k quick / 106k thorough) is replayed on the four real archives and each observation must equal what A prescribes, or what M prescribes under a listed named deviation.",
        note="Exhaustive only within the stated bounds and element alphabets; XML data-model deviations are named deviations, not part of A; null items are not generated for vector<bool>, bitset, integer sets and atomic; forced estimates on MsgPack/JSON/XML come from a forwarding array scope in the harness.",
        design_ref="DESIGN.md#c18"),
    "C17": dict(
        category="model_checking",
        technique="TLA+ rules of validation (Validation.tla: A = documented semantics, M = AddValidationError-shaped) explored by TLC over classes x documents x placements x maxValidationErrors; every state exported with the prescribed observation and executed through the public API on MsgPack/JSON/XML/CSV archives with the real built-in validators; observations compared by equality (array positions normalised)",
        text="TLC enumerates (a) one field x every ordered list of <=3 distinct validators (Required, Range, MinSize, MaxSize, Email, PhoneNumber, custom lambda, default/custom messages) x every status (at / just inside / just outside each bound, absent, null, mismatched-and-skipped, documented e-mail/phone examples) and (b) classes of <=3 (4) fields from a catalogue of outcome profiles x cap 0..3(4), in flat/nested/array/map/root-array placement; invariants ExceptionIffFailure, ExactlyFailingFields, ExactlyFailingRules, PassingFieldsLoaded, BuiltinSemantics, M refines A hold in every state; each state is replayed on every applicable archive and must yield exactly the prescribed path->messages map, exception and field values.",
        note="Trusted: TLC, harness (public API, real validators), Validation.tla as the statement of the docs. Not prescribed: values of failing fields; XML with cap>0 when two array elements share a path; Email/PhoneNumber outside documented examples; array positions are abstracted as the property allows. Memory input only.",
        design_ref="DESIGN.md#c17"),
    "C09": dict(
        category="model_checking",
        technique="TLA+ (TLC, exhaustive small scope): RFC 4180 as a reader automaton plus the set of all conformant renderings (CsvFormat, A); writer and memory/stream reader machines shaped like the code (CsvMachines, M); M=>A and renderer/automaton consistency checked over all small tables x every rendering; the same module generates tables and texts executed on the real archive; every observation judged by TLC (Trace_Csv)",
        text="TLC checks exhaustively, for tables up to 3 columns x 1-2 rows over a 10-12 class cell alphabet (empty, plain, separator, quote, CR, LF, CRLF, non-ASCII, blanks, mixtures) x 5 separators x plain and hostile header names: (a) the writer machine's text parsed by the RFC 4180 automaton is exactly the header and cells and a row of a different width is refused; (b) every conformant rendering (optional quoting / LF-CRLF / final break) is loaded by the memory reader and by the chunked stream reader, by name in every column order, with an absent key, and positionally, to exactly the rows; ragged records are rejected. Bound to the code: TLC-generated tables are saved by the real archive to memory and streams in 5 encodings x BOM and TLC decodes and parses the bytes; TLC-generated renderings (exhaustive for small tables, seeded simulation up to 4x9 tables) are loaded through both real readers with 32- and 256-byte decode chunks and compared with the table the text denotes.",
        note="Bounded: all renderings only for <= 4-6 fields per text; stream-reader chunk mechanics modelled for UTF-8 input; cells are strings here (numbers/dates reach CSV through their text conversion: C04/C14/C16); duplicate header names and malformed texts carry no demand. Trusted: TLC, harness stream doubles.",
        design_ref="DESIGN.md#c09"),
    "C14": dict(
        category="model_checking",
        technique="TLA+ calendar / ISO-8601 specification on arbitrary-precision integers (BSBigInt); TLC model-checks it (day walk by the successor rule, Parse(Print(x)) = x, BigInt laws against native integers) and evaluates it as oracle: TLC-written expected tables replayed on the real conversions, single instants judged by TLC trace validation",
        text="TLC exhaustively checks the specification itself (quick 97k / thorough 11.2M states: every day of years -10000..20000 reached by the defining successor rule agrees with the closed forms, their wide-integer versions and the printers/parsers) and then acts as evaluator: for every day of that range x 11 (unit, representation) pairs (thorough), every second of selected days, the limit neighbourhoods of every printable type and seeded random 64-bit counts, the real ToString / To / CBinTimestamp / MsgPack results must equal what the specification prescribes.",
        note="Trusted: TLC, the harness (logs only), libstdc++ chrono. 32-bit representations for s/min/h/d only; unsigned representations cannot be printed. Duration texts are judged by grammar and denotation, not spelling. Quick tier: boundaries + seeded sample of days.",
        design_ref="DESIGN.md#c14"),
    "C15": dict(
        category="model_checking",
        technique="TLA+ ISO-8601 grammar specification with exact denotation (BSBigInt); TLC state machine with one action per grammar production generates the texts (path mode), replayed into 30+28 target types x string widths; TLC decides every outcome",
        text="TLC enumerates every combination of up to 2 (quick) / 3 (thorough) deviations from a valid date-time and 1 / 2 for durations, the calendar product, limit neighbourhoods of all 28 (unit, representation) pairs printed by the spec, all 1-4 digit fractions plus boundary patterns plus seeded 5-9 digit fractions, and single-character mutations; the specification gives the allowed outcome set per (text, target) (value with only sub-second rounding / invalid_argument / out_of_range) and the real parsers must stay inside it.",
        note="The 10^1..10^9 fractions are not exhaustive (1-4 digits exhaustive + boundary patterns + seeded sample). Rounding ties may go either way; two simultaneous errors may be reported as either exception class. Known findings: see known_findings.json (Dev_AccumulationOrder remainder, Dev_DaysFromCivilEdge remainder, Dev_ComponentwisePrecision, Dev_NegZeroUnsigned, Dev_RangeBeforeSyntax).",
        design_ref="DESIGN.md#c15"),
    "C16": dict(
        category="model_checking",
        technique="TLA+ literal grammar and exact big-integer IEEE rounding-interval test (Numeric.tla); TLC enumerates all strings over a 12-symbol alphabet, writes the table of all 8/16-bit integers, and judges float bit patterns before and after",
        text="MC_Numeric explores every text up to 4/5 symbols with grammar invariants; all strings of length <= 5 (quick) / 6 (thorough, 3.26M) are parsed into 11 targets in four string widths and judged by TLC; all 131 584 8/16-bit integers are compared with the TLC-written table; floats/doubles: every exponent x extreme fractions plus seeded patterns: the text must round to the same bits and be shortest.",
        note="'Shortest' = fewest characters as std::to_chars defines it. The full 2^32 float sweep is not done (seeded sample + all exponent boundaries). The strtod/snprintf fallback configuration is not built.",
        design_ref="DESIGN.md#c16"),
})

NOT_YET = {
}


CHECKS.update({
    "C19": dict(
        category="model_checking",
        technique="TLA+ specification Threads (vector-clock happens-before over shared locations, C++11 static-initialisation guard protocol) model-checked by TLC over access summaries recorded from the real code (page-protection single-step tracer over the executable's .data/.bss, libpugixml's writable segment and surviving operator-new blocks, __cxa_guard_* interposed, cold and warm call of every catalogue operation); a real T-thread stress run is trace-validated by TLC against sequential golden results",
        text="TLC explores all interleavings of the recorded access summaries of 25 catalogue operations (save/load x 4 archives x memory/stream, validation-failing loads, a broken JSON load, Convert::To numbers/enum/chrono/UTF): for T=2 every pair of operation classes with every access as a step, plus seeded bounded subsets with 2 operations per thread and T=3; invariants NoRace (DJIT+ vector clocks, guard release->acquire edges, static initialisation at clock 0), SequentialEquivalence and GuardDiscipline. A write in a warmed-up operation or an unguarded write in a cold one surfaces as a counterexample interleaving (racy pair, symbol, writer functions). Three self-tests (synthetic racy summary, synthetic write added to the recorded summaries, the same write inside a guard) must give violation / violation / no violation on every run. Result level: 4x1500 (quick) or 8x12000x3 (thorough) concurrently executed operations compared with sequential golden results by Trace_Threads.",
        note="Decides races on static storage and on heap state that outlives an operation when allocated by library code via operator new, for the catalogue operations and inputs as recorded on x86-64 Linux with g++ -O1; schedules are exhaustive over the recorded summaries only. Trusted: libc, libstdc++, libgcc and dynamic-loader internals (filtered); libpugixml writable segment is traced for writes only; malloc'ed memory of RapidJSON/pugixml DOMs is not traced, locations are at symbol granularity, no mutex/atomic vocabulary (the library has none). The result level is a seeded stress run, not exhaustive.",
        design_ref="DESIGN.md#c19"),
})

CHECKS.update({
    "C02": dict(
        category="model_checking",
        technique="explicit TLA+ specification (Robust.tla: outcome alphabet, resource bounds, named deviations) + TLC input-space state machine (MC_Robust: valid corpus documents -> every truncation / single-byte corruption; adversarial MsgPack headers; Nest(d); Wide(n)) + conformance: TLC-generated inputs replayed into the real loaders and converters in crash-contained children, on a normal build with a counting and capping allocator and on a clang ASan+UBSan build; every observation judged by TLC (Trace_Robust)",
        text="The input space is exhaustive within the stated bounds: every truncation of every corpus document, every single-byte corruption over alphabets of 12-29 bytes, 1674 adversarial MsgPack headers, Nest(d) for d in {10..100000}, Wide(n); each input x 2-16 target types x both policy settings x 2-4 media (memory, stringstream, short-read streams) x 2 builds, plus converter strings (Convert::To number / bool / time_point / duration, UTF decoders) from the Unicode, numeric and chrono generators. Allowed outcomes: Completed or an exception derived from std::exception; not allowed: other exceptions, terminate, crash, hang (CPU watchdog), sanitizer report, or a largest request / total requested bytes above 256*n + 128/256 KiB (n = input length). MC_Robust's invariants (ValidAccepted, DamageExact, NestShape, AdvDeclared, PresizeLemma) check the generator and the guard lemmas of the named deviations.",
        note="Undefined behaviour is observable only as a sanitizer report on the generated inputs; there is no coverage-guided search. UBSan is not applied to functions of namespace rapidjson; pugixml is a prebuilt library and is not instrumented. Hang = CPU time above 10 s (normal) or 60 s (ASan) plus 1 s per 10 KB of input. Stack depth is judged against the default 8 MiB stack; D0 depends on the harness's recursive target types. The save path is not covered by C02. Known findings: pre-sizing from declared counts, deep nesting into recursive user types.",
        design_ref="DESIGN.md#c02"),
})

def main():
    props = [json.loads(l) for l in open(os.path.join(VERIF, "properties.jsonl"))]
    commits = subprocess.run(["git", "-C", "/repo", "log", "--format=%h %s"], stdout=subprocess.PIPE, text=True).stdout.splitlines()
    hook_commits = [c.split()[0] for c in commits if c.split(" ", 1)[1].startswith("verif hook")]
    checks = []
    na = []
    for p in props:
        pid = p["id"]
        if pid in CHECKS:
            c = CHECKS[pid]
            checks.append({
                "property_id": pid,
                "quick_cmd": "python3 tools/check.py %s --tier quick" % pid,
                "thorough_cmd": "python3 tools/check.py %s --tier thorough" % pid,
                "evidence_file": "evidence/%s.json" % pid,
                "replay_cmd_template": "python3 tools/check.py %s --replay {path}" % pid,
                "engine": "tlc",
                "level_claimed": {"category": c["category"], "text": c["text"], "design_ref": c["design_ref"]},
                "level_note": c["note"],
                "technique": c["technique"],
            })
        else:
            na.append({"property_id": pid, "reason": NOT_YET.get(pid, "check under construction in this session (TLA+ model and conformance harness not yet committed); not claimed until it runs clean")})
    m = {
        "version": 1,
        "setup_cmd": "python3 tools/setup.py",
        "hooks": {
            "guard": "BITSERIALIZER_VERIF",
            "enable": "-DBITSERIALIZER_VERIF [-DBITSERIALIZER_VERIF_CHUNK_SIZE=<n>] [-DBITSERIALIZER_VERIF_ENC_CHUNK_SIZE=<n>] (harnesses are compiled by tools/vlib.py build() from /repo's working tree)",
            "baseline_off_cmd": "python3 tools/baseline.py",
            "source_commits": hook_commits,
            "add_only": True,
        },
        "engines": [
            {"name": "tlc", "path": "spec/", "serves_properties": sorted(CHECKS), "kind_free_text": "TLA+ specification family (A = abstract, M = implementation-shaped) checked with TLC; the same modules generate scenarios and validate traces"},
            {"name": "harness", "path": "harness/", "serves_properties": sorted(CHECKS), "kind_free_text": "C++ scenario interpreters / trace recorders compiled against /repo's working tree with the BITSERIALIZER_VERIF hooks; they execute and log, TLC judges"},
        ],
        "checks": checks,
        "notes": "Fixed defects and known findings: known_findings.json. A TLC/model/build failure exits 2 with MACHINERY-ERROR and is never reported as a VIOLATION.",
        "not_applicable": na,
    }
    with open(os.path.join(VERIF, "MANIFEST.json"), "w") as f:
        json.dump(m, f, indent=1)
    print("MANIFEST.json: %d checks, %d not claimed" % (len(checks), len(na)))


if __name__ == "__main__":
    main()
