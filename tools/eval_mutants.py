#!/usr/bin/env python3
"""Runs registered checks against seeded changes in a scratch worktree (never in /repo).
usage: eval_mutants.py <check id> <patch.diff> [<check id> <patch.diff> ...]   -> one JSON line per pair"""
import json
import os
import shutil
import subprocess
import sys
import tempfile

VERIF_LIVE = os.path.dirname(os.path.dirname(os.path.abspath(__file__)))
# The checks run from a snapshot of the COMMITTED /verif (git worktree), so that edits in progress in the working tree
# cannot influence an evaluation; the build cache is shared (content addressed).  VERIF_EVAL_LIVE=1 uses the working tree.
snap = None
if os.environ.get("VERIF_EVAL_LIVE") == "1":
    VERIF = VERIF_LIVE
else:
    snap = tempfile.mkdtemp(prefix="bsverif-snap-")
    os.rmdir(snap)
    subprocess.run("git -C %s worktree add -q --detach %s HEAD" % (VERIF_LIVE, snap), shell=True, check=True)
    os.symlink(os.path.join(VERIF_LIVE, ".cache"), os.path.join(snap, ".cache"))
    VERIF = snap
import atexit
def _cleanup():
    if snap:
        subprocess.run("git -C %s worktree remove --force %s" % (VERIF_LIVE, snap), shell=True, stdout=subprocess.DEVNULL, stderr=subprocess.DEVNULL)
        shutil.rmtree(snap, ignore_errors=True)
atexit.register(_cleanup)
args = sys.argv[1:]
for i in range(0, len(args), 2):
    cid, patch = args[i], os.path.abspath(args[i + 1])
    wt = tempfile.mkdtemp(prefix="bsverif-mut-")
    os.rmdir(wt)
    ev = tempfile.mkdtemp(prefix="bsverif-ev-")
    try:
        subprocess.run("git -C /repo worktree add -q %s HEAD" % wt, shell=True, check=True)
        a = subprocess.run(["git", "apply", patch], cwd=wt, capture_output=True, text=True)
        if a.returncode != 0:
            print(json.dumps({"check": cid, "patch": patch, "error": "patch does not apply: " + a.stderr[:200]}))
            continue
        env = dict(os.environ, VERIF_REPO=wt, VERIF_EVIDENCE_DIR=ev, VERIF_REPLAY_DIR=ev)
        p = subprocess.run(["python3", os.path.join(VERIF, "tools", "check.py"), cid, "--tier", "quick"], cwd=VERIF, env=env,
                           capture_output=True, text=True, timeout=3000)
        viol = [l for l in p.stdout.splitlines() if l.startswith("VIOLATION")]
        what = [l.strip() for l in p.stdout.splitlines() if l.strip().startswith("what:")]
        print(json.dumps({"check": cid, "patch": patch, "rc": p.returncode, "violations": len(viol), "first": what[0][:200] if what else "",
                          "stderr": p.stderr[-300:] if p.returncode not in (0, 1) else ""}))
        sys.stdout.flush()
    finally:
        subprocess.run("git -C /repo worktree remove --force %s" % wt, shell=True, stdout=subprocess.DEVNULL, stderr=subprocess.DEVNULL)
        shutil.rmtree(wt, ignore_errors=True)
        shutil.rmtree(ev, ignore_errors=True)
