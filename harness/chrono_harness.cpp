// Conformance harness for the chrono conversions (properties C14, C15).  It executes and logs; the TLA+
// specification (spec/Chrono.tla) judges.
//   chrono_harness days   <table.ndjson>   day sweep: reads the day number that leads every row of the TLC-written table
//                                          and prints a row of the same shape with what the real code does
//   chrono_harness list   <file.ndjson>    instants {"id","k":"tp|dur|time_t","u","r","c":"<decimal>"} chosen by the spec
//   chrono_harness random <n> <seed>       seeded random instants (additional trace source)
//   chrono_harness parse  <file.ndjson>    texts {"id","k":"dt|du","t":[code points]} parsed into every target type
// Outcomes are logged as "V:<decimal>" | "I" (std::invalid_argument) | "O" (std::out_of_range) |
// "X:<SerializationErrorCode>" | "E:<other exception>".  Records that crash the process are re-run one by one in
// child processes and logged as {"id":..,"crash":<signal>}.
#include "vh_common.h"
#include <chrono>
#include <climits>
#include <cstdint>
#include <functional>
#include <map>
#include <random>
#include <typeinfo>
#include <sys/wait.h>
#include "bitserializer/bit_serializer.h"
#include "bitserializer/msgpack_archive.h"
#include "bitserializer/rapidjson_archive.h"
#include "bitserializer/convert.h"
#include "bitserializer/types/std/chrono.h"
#include "bitserializer/types/std/ctime.h"

using namespace BitSerializer;
namespace chr = std::chrono;
using MsgPackArchive = BitSerializer::MsgPack::MsgPackArchive;
using JsonArchive = BitSerializer::Json::RapidJson::JsonArchive;

//-----------------------------------------------------------------------------
template <class T> static std::string Dec(T v)
{
	if constexpr (std::is_signed_v<T>) return std::to_string(static_cast<long long>(v));
	else return std::to_string(static_cast<unsigned long long>(v));
}

template <class F> static std::string Outcome(F&& f)
{
	try { return "V:" + f(); }
	catch (const std::invalid_argument&) { return "I"; }
	catch (const std::out_of_range&) { return "O"; }
	catch (const SerializationException& e) { return "X:" + std::to_string(static_cast<int>(e.GetErrorCode())); }
	catch (const std::exception& e) { return std::string("E:") + typeid(e).name(); }
	catch (...) { return "E:unknown"; }
}

static std::string Q(const std::string& s) { return "\"" + vh::JsonEscape(s) + "\""; }

template <class TStr> static std::string UnitsJson(const TStr& s)
{
	std::string o = "[";
	bool first = true;
	for (auto c : s) {
		if (!first) o += ',';
		first = false;
		o += std::to_string(static_cast<uint32_t>(static_cast<std::make_unsigned_t<typename TStr::value_type>>(c)));
	}
	return o + "]";
}

template <class T> struct Holder
{
	T v{};
	template <class TArchive> void Serialize(TArchive& archive) { archive << KeyValue("v", v); }
};
struct HolderTime
{
	time_t v{};
	template <class TArchive> void Serialize(TArchive& archive) { archive << KeyValue("v", CTimeRef(v)); }
};

// MsgPack saved to a std::ostream and loaded from a std::istream (the stream writer / reader are separate implementations)
template <class THolder, class FSet, class FGet>
static void StreamRoundTrip(FSet set, FGet get, std::string& outcome, std::string& hex)
{
	std::string bytes;
	bool saved = false;
	const std::string sr = Outcome([&] {
		THolder h; set(h);
		std::ostringstream os(std::ios::out | std::ios::binary);
		BitSerializer::SaveObject<MsgPackArchive>(h, os);
		bytes = os.str(); saved = true; return std::string(); });
	if (!saved) { outcome = "S" + sr; return; }
	hex = vh::Hex(bytes);
	outcome = Outcome([&] {
		THolder h2;
		std::istringstream is(bytes, std::ios::in | std::ios::binary);
		BitSerializer::LoadObject<MsgPackArchive>(h2, is);
		return get(h2); });
}

// One observed instant
struct Obs
{
	std::string count, text, back, sec, ns, tsback, mp, mphex, t16, t32, tw;
	std::string mps = "-", mpshex, js = "-", jstext;		// MsgPack through std::ostream / std::istream; JSON text archive (time_t)
};

template <class TValue, class FMake, class FCount>
static Obs ObserveValue(const TValue& value, FMake make, FCount countOf)
{
	Obs o;
	o.count = Dec(countOf(value));
	bool haveText = false;
	std::string text;
	const std::string tr = Outcome([&] { text = Convert::ToString(value); haveText = true; return std::string(); });
	o.text = haveText ? text : tr;
	if (haveText) {
		o.back = Outcome([&] { return Dec(countOf(Convert::To<TValue>(text))); });
	}
	else o.back = "-";
	o.t16 = Outcome([&] { return UnitsJson(Convert::To<std::u16string>(value)); });
	o.t32 = Outcome([&] { return UnitsJson(Convert::To<std::u32string>(value)); });
	o.tw = Outcome([&] { return UnitsJson(Convert::To<std::wstring>(value)); });
	// binary timestamp split and join
	Detail::CBinTimestamp ts;
	bool haveTs = false;
	const std::string tsr = Outcome([&] { Detail::To(value, ts); haveTs = true; return std::string(); });
	if (haveTs) {
		o.sec = std::to_string(static_cast<long long>(ts.Seconds));
		o.ns = std::to_string(static_cast<long long>(ts.Nanoseconds));
		o.tsback = Outcome([&] { TValue v2 = make(0); Detail::To(ts, v2); return Dec(countOf(v2)); });
	}
	else { o.sec = tsr; o.ns = ""; o.tsback = "-"; }
	// MsgPack archive round trip of a member
	std::string bytes;
	bool saved = false;
	const std::string sr = Outcome([&] { Holder<TValue> h; h.v = value; bytes = BitSerializer::SaveObject<MsgPackArchive>(h); saved = true; return std::string(); });
	if (saved) {
		o.mphex = vh::Hex(bytes);
		o.mp = Outcome([&] { Holder<TValue> h2; h2.v = make(0); BitSerializer::LoadObject<MsgPackArchive>(h2, bytes); return Dec(countOf(h2.v)); });
	}
	else { o.mp = "S" + sr; }
	StreamRoundTrip<Holder<TValue>>([&](Holder<TValue>& h) { h.v = value; }, [&](Holder<TValue>& h) { return Dec(countOf(h.v)); }, o.mps, o.mpshex);
	return o;
}

template <class R, class P> static Obs ObserveTp(int64_t c)
{
	using D = chr::duration<R, P>;
	using TP = chr::time_point<chr::system_clock, D>;
	return ObserveValue(TP(D(static_cast<R>(c))), [](int) { return TP(D(0)); }, [](const TP& t) { return t.time_since_epoch().count(); });
}
template <class R, class P> static Obs ObserveDur(int64_t c)
{
	using D = chr::duration<R, P>;
	return ObserveValue(D(static_cast<R>(c)), [](int) { return D(0); }, [](const D& d) { return d.count(); });
}
static Obs ObserveTimeT(int64_t c)
{
	Obs o;
	o.count = std::to_string(static_cast<long long>(c));
	bool haveText = false;
	std::string text;
	const std::string tr = Outcome([&] { text = Convert::ToString(CRawTime(static_cast<time_t>(c))); haveText = true; return std::string(); });
	o.text = haveText ? text : tr;
	o.back = haveText ? Outcome([&] { return Dec(static_cast<int64_t>(Convert::To<CRawTime>(text).Time)); }) : "-";
	o.t16 = Outcome([&] { return UnitsJson(Convert::To<std::u16string>(CRawTime(static_cast<time_t>(c)))); });
	o.t32 = Outcome([&] { return UnitsJson(Convert::To<std::u32string>(CRawTime(static_cast<time_t>(c)))); });
	o.tw = Outcome([&] { return UnitsJson(Convert::To<std::wstring>(CRawTime(static_cast<time_t>(c)))); });
	o.sec = std::to_string(static_cast<long long>(c)); o.ns = "0"; o.tsback = "V:" + o.count;   // CTimeRef stores the seconds as they are
	std::string bytes;
	bool saved = false;
	const std::string sr = Outcome([&] { HolderTime h; h.v = static_cast<time_t>(c); bytes = BitSerializer::SaveObject<MsgPackArchive>(h); saved = true; return std::string(); });
	if (saved) {
		o.mphex = vh::Hex(bytes);
		o.mp = Outcome([&] { HolderTime h2; BitSerializer::LoadObject<MsgPackArchive>(h2, bytes); return Dec(static_cast<int64_t>(h2.v)); });
	}
	else o.mp = "S" + sr;
	StreamRoundTrip<HolderTime>([&](HolderTime& h) { h.v = static_cast<time_t>(c); }, [&](HolderTime& h) { return Dec(static_cast<int64_t>(h.v)); }, o.mps, o.mpshex);
	// time_t through CTimeRef in a text archive: written as ISO-8601 text, parsed back by Detail::SafeConvertIsoDate
	bool jsaved = false;
	const std::string jr = Outcome([&] { HolderTime h; h.v = static_cast<time_t>(c); o.jstext = BitSerializer::SaveObject<JsonArchive>(h); jsaved = true; return std::string(); });
	o.js = jsaved ? Outcome([&] { HolderTime h2; h2.v = 12345; BitSerializer::LoadObject<JsonArchive>(h2, o.jstext); return Dec(static_cast<int64_t>(h2.v)); }) : "S" + jr;
	return o;
}

using ObsFn = Obs(*)(int64_t);
struct UnitRep { const char* u; const char* r; ObsFn tp; ObsFn dur; int64_t lo; int64_t hi; };
#define UR(U, P, RN, R) { U, RN, &ObserveTp<R, P>, &ObserveDur<R, P>, std::numeric_limits<R>::min(), std::numeric_limits<R>::max() }
using PMin = std::ratio<60>; using PHour = std::ratio<3600>; using PDay = std::ratio<86400>;
static const UnitRep kPrintable[] = {
	UR("ns", std::nano, "i64", int64_t), UR("us", std::micro, "i64", int64_t), UR("ms", std::milli, "i64", int64_t),
	UR("s", std::ratio<1>, "i64", int64_t), UR("min", PMin, "i64", int64_t), UR("h", PHour, "i64", int64_t), UR("d", PDay, "i64", int64_t),
	// 32-bit representations: coarse units only (the quantifier of C14); 32-bit sub-second time points are outside it
	UR("s", std::ratio<1>, "i32", int32_t), UR("min", PMin, "i32", int32_t), UR("h", PHour, "i32", int32_t), UR("d", PDay, "i32", int32_t),
};
static const UnitRep* FindUR(const std::string& u, const std::string& r)
{
	for (const auto& x : kPrintable) if (u == x.u && r == x.r) return &x;
	return nullptr;
}

static std::string BytesBE(int64_t c)
{
	std::string o = "[";
	for (int i = 7; i >= 0; --i) { o += std::to_string(static_cast<unsigned>((static_cast<uint64_t>(c) >> (8 * i)) & 0xff)); if (i) o += ','; }
	return o + "]";
}

static std::string ObsLine(const std::string& id, const std::string& k, const std::string& u, const std::string& r, int64_t c, const Obs& o)
{
	return "{\"id\":" + Q(id) + ",\"k\":" + Q(k) + ",\"u\":" + Q(u) + ",\"r\":" + Q(r) + ",\"c\":" + Q(o.count) + ",\"cby\":" + BytesBE(c) +
		",\"text\":" + Q(o.text) + ",\"tc\":" + UnitsJson(o.text) + ",\"t16\":" + (o.t16.rfind("V:", 0) == 0 ? o.t16.substr(2) : UnitsJson(o.t16)) +
		",\"t32\":" + (o.t32.rfind("V:", 0) == 0 ? o.t32.substr(2) : UnitsJson(o.t32)) + ",\"tw\":" + (o.tw.rfind("V:", 0) == 0 ? o.tw.substr(2) : UnitsJson(o.tw)) +
		",\"back\":" + Q(o.back) + ",\"ts\":[" + Q(o.sec) + "," + Q(o.ns) + "],\"tsback\":" + Q(o.tsback) + ",\"mp\":" + Q(o.mp) + ",\"mpk\":" + Q(o.mp.substr(0, 1)) + ",\"mphex\":" + Q(o.mphex) +
		",\"mps\":" + Q(o.mps) + ",\"mpsk\":" + Q(o.mps.substr(0, 1)) + ",\"mpshex\":" + Q(o.mpshex) + ",\"js\":" + Q(o.js) + ",\"jstext\":" + Q(o.jstext) + "}\n";
}

static std::string RunInstant(const std::string& id, const std::string& k, const std::string& u, const std::string& r, int64_t c)
{
	if (k == "time_t") return ObsLine(id, k, u, r, c, ObserveTimeT(c));
	const UnitRep* ur = FindUR(u, r);
	if (!ur) { fprintf(stderr, "unknown unit/rep %s:%s\n", u.c_str(), r.c_str()); exit(3); }
	if (c < ur->lo || c > ur->hi) { fprintf(stderr, "count %lld outside %s:%s\n", static_cast<long long>(c), u.c_str(), r.c_str()); exit(3); }
	return ObsLine(id, k, u, r, c, k == "tp" ? ur->tp(c) : ur->dur(c));
}

//-----------------------------------------------------------------------------
// Day sweep
//-----------------------------------------------------------------------------
struct DayUnit { const char* u; const char* r; int64_t perDay; ObsFn tp; int64_t lo; int64_t hi; };
#define DU(U, P, R, PER) { U, #R, PER, &ObserveTpLite<R, P>, std::numeric_limits<R>::min(), std::numeric_limits<R>::max() }

// the day sweep logs text, reparse and the timestamp split/join only (no archive, no wide strings): 11 M rows
template <class R, class P> static Obs ObserveTpLite(int64_t c)
{
	using D = chr::duration<R, P>;
	using TP = chr::time_point<chr::system_clock, D>;
	const TP value{ D(static_cast<R>(c)) };
	Obs o;
	o.count = Dec(value.time_since_epoch().count());
	bool haveText = false;
	std::string text;
	const std::string tr = Outcome([&] { text = Convert::ToString(value); haveText = true; return std::string(); });
	o.text = haveText ? text : tr;
	o.back = haveText ? Outcome([&] { return Dec(Convert::To<TP>(text).time_since_epoch().count()); }) : "-";
	Detail::CBinTimestamp ts;
	bool haveTs = false;
	const std::string tsr = Outcome([&] { Detail::To(value, ts); haveTs = true; return std::string(); });
	if (haveTs) {
		o.sec = std::to_string(static_cast<long long>(ts.Seconds));
		o.ns = std::to_string(static_cast<long long>(ts.Nanoseconds));
		o.tsback = Outcome([&] { TP v2; Detail::To(ts, v2); return Dec(v2.time_since_epoch().count()); });
	}
	else { o.sec = tsr; o.ns = ""; o.tsback = "-"; }
	return o;
}

static const DayUnit kDayAll[] = {
	DU("d", PDay, int64_t, 1), DU("d", PDay, int32_t, 1), DU("h", PHour, int64_t, 24), DU("h", PHour, int32_t, 24),
	DU("min", PMin, int64_t, 1440), DU("min", PMin, int32_t, 1440), DU("s", std::ratio<1>, int64_t, 86400), DU("s", std::ratio<1>, int32_t, 86400),
	DU("ms", std::milli, int64_t, 86400000LL), DU("us", std::micro, int64_t, 86400000000LL), DU("ns", std::nano, int64_t, 86400000000000LL),
};
static const DayUnit kDayCore[] = {
	DU("d", PDay, int64_t, 1), DU("d", PDay, int32_t, 1), DU("s", std::ratio<1>, int64_t, 86400), DU("ms", std::milli, int64_t, 86400000LL),
};

static const DayUnit kSecUnits[] = {
	DU("s", std::ratio<1>, int64_t, 1), DU("s", std::ratio<1>, int32_t, 1), DU("ms", std::milli, int64_t, 1000LL),
	DU("us", std::micro, int64_t, 1000000LL), DU("ns", std::nano, int64_t, 1000000000LL),
};

// rows [d, sod, [...]]: every unit that can hold the instant d*86400 + sod seconds
static void SecondSweep(const char* path)
{
	std::ifstream f(path, std::ios::binary);
	if (!f) { fprintf(stderr, "cannot open %s\n", path); exit(3); }
	std::string line, out;
	while (std::getline(f, line))
	{
		if (line.size() < 2 || line[0] != '[') continue;
		char* endp = nullptr;
		const long long d = strtoll(line.c_str() + 1, &endp, 10);
		const long long sod = strtoll(endp + 1, nullptr, 10);
		out = "[" + std::to_string(d) + "," + std::to_string(sod) + ",[";
		const size_t n = sizeof kSecUnits / sizeof kSecUnits[0];
		for (size_t i = 0; i < n; ++i)
		{
			const auto& u = kSecUnits[i];
			if (i) out += ',';
			const __int128 c = (static_cast<__int128>(d) * 86400 + sod) * u.perDay;
			if (c < u.lo || c > u.hi) { out += "[]"; continue; }
			const Obs o = u.tp(static_cast<int64_t>(c));
			out += "[" + Q(o.count) + "," + Q(o.text) + "," + Q(o.back) + "," + Q(o.sec) + "," + Q(o.ns) + "," + Q(o.tsback) + "]";
		}
		out += "]]\n";
		fputs(out.c_str(), stdout);
	}
}

template <size_t N> static void DaySweep(const char* path, const DayUnit (&units)[N])
{
	std::ifstream f(path, std::ios::binary);
	if (!f) { fprintf(stderr, "cannot open %s\n", path); exit(3); }
	std::string line, out;
	while (std::getline(f, line))
	{
		if (line.size() < 2 || line[0] != '[') continue;
		const long long d = strtoll(line.c_str() + 1, nullptr, 10);
		out = "[" + std::to_string(d) + ",[";
		for (size_t i = 0; i < N; ++i)
		{
			const auto& u = units[i];
			if (i) out += ',';
			// the instant "midnight of day d" exists in this unit/representation iff d * perDay fits
			const __int128 c = static_cast<__int128>(d) * u.perDay;
			if (c < u.lo || c > u.hi) { out += "[]"; continue; }
			const Obs o = u.tp(static_cast<int64_t>(c));
			out += "[" + Q(o.count) + "," + Q(o.text) + "," + Q(o.back) + "," + Q(o.sec) + "," + Q(o.ns) + "," + Q(o.tsback) + "]";
		}
		out += "]]\n";
		fputs(out.c_str(), stdout);
	}
}

//-----------------------------------------------------------------------------
// Parsing of texts into every target (C15)
//-----------------------------------------------------------------------------
template <class TSym> static std::basic_string<TSym> FromCodePoints(const std::vector<uint32_t>& cps)
{
	std::basic_string<TSym> s;
	for (uint32_t c : cps)
	{
		if constexpr (sizeof(TSym) == 1) {
			if (c < 0x80) s.push_back(static_cast<TSym>(c));
			else if (c < 0x800) { s.push_back(static_cast<TSym>(0xC0 | (c >> 6))); s.push_back(static_cast<TSym>(0x80 | (c & 0x3F))); }
			else if (c < 0x10000) { s.push_back(static_cast<TSym>(0xE0 | (c >> 12))); s.push_back(static_cast<TSym>(0x80 | ((c >> 6) & 0x3F))); s.push_back(static_cast<TSym>(0x80 | (c & 0x3F))); }
			else { s.push_back(static_cast<TSym>(0xF0 | (c >> 18))); s.push_back(static_cast<TSym>(0x80 | ((c >> 12) & 0x3F))); s.push_back(static_cast<TSym>(0x80 | ((c >> 6) & 0x3F))); s.push_back(static_cast<TSym>(0x80 | (c & 0x3F))); }
		}
		else if constexpr (sizeof(TSym) == 2) {
			if (c < 0x10000) s.push_back(static_cast<TSym>(c));
			else { c -= 0x10000; s.push_back(static_cast<TSym>(0xD800 + (c >> 10))); s.push_back(static_cast<TSym>(0xDC00 + (c & 0x3FF))); }
		}
		else s.push_back(static_cast<TSym>(c));
	}
	return s;
}

template <class R, class P, class TSym> static std::string ParseTp(const std::basic_string<TSym>& s)
{
	using TP = chr::time_point<chr::system_clock, chr::duration<R, P>>;
	return Outcome([&] { return Dec(Convert::To<TP>(s).time_since_epoch().count()); });
}
template <class R, class P, class TSym> static std::string ParseDur(const std::basic_string<TSym>& s)
{
	using D = chr::duration<R, P>;
	return Outcome([&] { return Dec(Convert::To<D>(s).count()); });
}
template <class TSym> static std::string ParseTimeT(const std::basic_string<TSym>& s)
{
	return Outcome([&] { return Dec(static_cast<int64_t>(Convert::To<CRawTime>(s).Time)); });
}
template <class TSym> static std::string ParseTm(const std::basic_string<TSym>& s)
{
	return Outcome([&] {
		const tm t = Convert::To<tm>(s);
		return std::to_string(t.tm_year) + "/" + std::to_string(t.tm_mon) + "/" + std::to_string(t.tm_mday) + "/" +
			std::to_string(t.tm_hour) + "/" + std::to_string(t.tm_min) + "/" + std::to_string(t.tm_sec);
	});
}

#define ALLREPS(FN, P, TSym, s) FN<int64_t, P, TSym>(s), FN<int32_t, P, TSym>(s), FN<uint64_t, P, TSym>(s), FN<int8_t, P, TSym>(s)
// order: units ns,us,ms,s,min,h,d (outer) x reps i64,i32,u64,i8 (inner) -- the order of Targets in spec/Trace_Chrono.tla
template <class TSym> static std::vector<std::string> ParseAllTp(const std::basic_string<TSym>& s)
{
	return { ALLREPS(ParseTp, std::nano, TSym, s), ALLREPS(ParseTp, std::micro, TSym, s), ALLREPS(ParseTp, std::milli, TSym, s),
		ALLREPS(ParseTp, std::ratio<1>, TSym, s), ALLREPS(ParseTp, PMin, TSym, s), ALLREPS(ParseTp, PHour, TSym, s), ALLREPS(ParseTp, PDay, TSym, s),
		ParseTimeT(s), ParseTm(s) };
}
template <class TSym> static std::vector<std::string> ParseAllDur(const std::basic_string<TSym>& s)
{
	return { ALLREPS(ParseDur, std::nano, TSym, s), ALLREPS(ParseDur, std::micro, TSym, s), ALLREPS(ParseDur, std::milli, TSym, s),
		ALLREPS(ParseDur, std::ratio<1>, TSym, s), ALLREPS(ParseDur, PMin, TSym, s), ALLREPS(ParseDur, PHour, TSym, s), ALLREPS(ParseDur, PDay, TSym, s) };
}
// subset parsed from the wide string types: the order of WideDt / WideDu in spec/Trace_Chrono.tla
template <class TSym> static std::vector<std::string> ParseWideDt(const std::basic_string<TSym>& s)
{
	return { ParseTp<int64_t, std::ratio<1>, TSym>(s), ParseTp<int64_t, std::nano, TSym>(s), ParseTp<int32_t, PDay, TSym>(s), ParseTimeT(s), ParseTm(s) };
}
template <class TSym> static std::vector<std::string> ParseWideDu(const std::basic_string<TSym>& s)
{
	return { ParseDur<int64_t, std::milli, TSym>(s), ParseDur<uint64_t, std::ratio<1>, TSym>(s), ParseDur<int8_t, PHour, TSym>(s) };
}

static std::string StrList(const std::vector<std::string>& v)
{
	std::string o = "[";
	for (size_t i = 0; i < v.size(); ++i) { if (i) o += ','; o += Q(v[i]); }
	return o + "]";
}

static std::string RunParse(const rapidjson::Document& d)
{
	std::vector<uint32_t> cps;
	for (auto& v : d["t"].GetArray()) cps.push_back(v.GetUint());
	const std::string k = d["k"].GetString();
	const auto s8 = FromCodePoints<char>(cps);
	const auto s16 = FromCodePoints<char16_t>(cps);
	const auto s32 = FromCodePoints<char32_t>(cps);
	const auto sw = FromCodePoints<wchar_t>(cps);
	std::string tj = "[";
	for (size_t i = 0; i < cps.size(); ++i) { if (i) tj += ','; tj += std::to_string(cps[i]); }
	tj += "]";
	std::string out = "{\"id\":" + Q(d["id"].GetString()) + ",\"k\":" + Q(k) + ",\"t\":" + tj;
	if (k == "dt")
		out += ",\"r\":" + StrList(ParseAllTp(s8)) + ",\"r16\":" + StrList(ParseWideDt(s16)) + ",\"r32\":" + StrList(ParseWideDt(s32)) + ",\"rw\":" + StrList(ParseWideDt(sw));
	else
		out += ",\"r\":" + StrList(ParseAllDur(s8)) + ",\"r16\":" + StrList(ParseWideDu(s16)) + ",\"r32\":" + StrList(ParseWideDu(s32)) + ",\"rw\":" + StrList(ParseWideDu(sw));
	return out + "}\n";
}

//-----------------------------------------------------------------------------
// Crash isolation: batches run in a child; a batch that dies is re-run record by record
//-----------------------------------------------------------------------------
static bool RunBatchInChild(const std::vector<std::string>& lines, size_t from, size_t to, const std::function<std::string(const std::string&)>& fn, std::string& output, int& status)
{
	int fd[2];
	if (pipe(fd) != 0) { perror("pipe"); exit(3); }
	fflush(stdout);
	const pid_t pid = fork();
	if (pid < 0) { perror("fork"); exit(3); }
	if (pid == 0)
	{
		close(fd[0]);
		FILE* w = fdopen(fd[1], "w");
		for (size_t i = from; i < to; ++i) { const std::string r = fn(lines[i]); fwrite(r.data(), 1, r.size(), w); }
		fflush(w);
		_exit(0);
	}
	close(fd[1]);
	output.clear();
	char buf[65536];
	ssize_t n;
	while ((n = read(fd[0], buf, sizeof buf)) > 0) output.append(buf, static_cast<size_t>(n));
	close(fd[0]);
	waitpid(pid, &status, 0);
	return WIFEXITED(status) && WEXITSTATUS(status) == 0;
}

static void RunIsolated(const std::vector<std::string>& lines, const std::function<std::string(const std::string&)>& fn)
{
	const size_t batch = 512;
	for (size_t from = 0; from < lines.size(); from += batch)
	{
		const size_t to = std::min(lines.size(), from + batch);
		std::string out;
		int status = 0;
		if (RunBatchInChild(lines, from, to, fn, out, status)) { fputs(out.c_str(), stdout); continue; }
		for (size_t i = from; i < to; ++i)
		{
			if (RunBatchInChild(lines, i, i + 1, fn, out, status)) { fputs(out.c_str(), stdout); continue; }
			rapidjson::Document d;
			d.Parse(lines[i].c_str());
			const int sig = WIFSIGNALED(status) ? WTERMSIG(status) : -WEXITSTATUS(status);
			printf("{\"id\":%s,\"crash\":%d}\n", Q(d["id"].GetString()).c_str(), sig);
		}
	}
}

//-----------------------------------------------------------------------------
int main(int argc, char** argv)
{
	const std::string mode = argc >= 2 ? argv[1] : "";
	if (mode == "days" && argc >= 3)
	{
		if (argc >= 4 && std::string(argv[3]) == "core") DaySweep(argv[2], kDayCore); else DaySweep(argv[2], kDayAll);
		return 0;
	}
	if (mode == "secs" && argc >= 3) { SecondSweep(argv[2]); return 0; }
	if (mode == "list" && argc >= 3)
	{
		RunIsolated(vh::ReadLines(argv[2]), [](const std::string& line) {
			rapidjson::Document d;
			d.Parse(line.c_str());
			return RunInstant(d["id"].GetString(), d["k"].GetString(), d["u"].GetString(), d["r"].GetString(), strtoll(d["c"].GetString(), nullptr, 10));
		});
		return 0;
	}
	if (mode == "parse" && argc >= 3)
	{
		RunIsolated(vh::ReadLines(argv[2]), [](const std::string& line) {
			rapidjson::Document d;
			d.Parse(line.c_str());
			return RunParse(d);
		});
		return 0;
	}
	if (mode == "random" && argc >= 4)
	{
		const int n = atoi(argv[2]);
		std::mt19937_64 rng(static_cast<uint64_t>(atoll(argv[3])));
		std::vector<std::string> reqs;
		for (int i = 0; i < n; ++i)
		{
			const int kind = static_cast<int>(rng() % 9);            // 0..3 tp, 4..7 dur, 8 time_t
			const UnitRep& ur = kPrintable[rng() % (sizeof kPrintable / sizeof kPrintable[0])];
			int64_t c;
			switch (rng() % 6) {
			case 0: c = static_cast<int64_t>(rng()); break;                                   // full 64-bit range
			case 1: c = static_cast<int64_t>(rng()) >> (rng() % 64); break;                   // every magnitude
			case 2: c = ur.hi - static_cast<int64_t>(rng() % 100000); break;
			case 3: c = ur.lo + static_cast<int64_t>(rng() % 100000); break;
			case 4: c = static_cast<int64_t>(rng() % 4000000000000ULL) - 2000000000000LL; break;
			default: c = static_cast<int64_t>(rng() % 2000001) - 1000000; break;
			}
			std::string k = kind < 4 ? "tp" : kind < 8 ? "dur" : "time_t";
			std::string u = ur.u, r = ur.r;
			if (k == "time_t") { u = "s"; r = "i64"; }
			else if (std::string(ur.r) == "i32") c = static_cast<int32_t>(c);                   // wrap into the representation
			reqs.push_back("{\"id\":\"r" + std::to_string(i) + "\",\"k\":\"" + k + "\",\"u\":\"" + u + "\",\"r\":\"" + r + "\",\"c\":\"" + std::to_string(static_cast<long long>(c)) + "\"}");
		}
		RunIsolated(reqs, [](const std::string& line) {
			rapidjson::Document d;
			d.Parse(line.c_str());
			return RunInstant(d["id"].GetString(), d["k"].GetString(), d["u"].GetString(), d["r"].GetString(), strtoll(d["c"].GetString(), nullptr, 10));
		});
		return 0;
	}
	fprintf(stderr, "usage: chrono_harness days <table> [core] | secs <table> | list <file> | random <n> <seed> | parse <file>\n");
	return 3;
}
