// Conformance harness for number <-> text conversion (property C16).  Executes and logs; spec/Numeric.tla judges.
//   num_harness parse <file>     texts {"id","t":[code points]} parsed into i8,u8,i16,u16,i32,u32,i64,u64,bool,float,double
//                                from char strings, and into i64,u8,bool,double from char16_t / char32_t / wchar_t strings
//   num_harness ints <table>     rows ["<type>", v, ...] of the TLC-written table of all 8/16-bit integers: prints rows
//                                [type, v, text, reparsed] of what the real code does (compared with the table for equality)
//   num_harness vals <file>      {"id","ty":"i32|u32|i64|u64|f32|f64","b":[bytes, big endian]}: ToString in the four widths and back
//   num_harness random <n> <seed>  the same for seeded random bit patterns
// Outcomes: "V:<decimal>" | "I" (std::invalid_argument) | "O" (std::out_of_range) | "E:<other>"; IEEE values as bytes.
#include "vh_common.h"
#include <cstdint>
#include <cstring>
#include <random>
#include <typeinfo>
#include "bitserializer/convert.h"

using namespace BitSerializer;

template <class F> static std::string Outcome(F&& f)
{
	try { return "V:" + f(); }
	catch (const std::invalid_argument&) { return "I"; }
	catch (const std::out_of_range&) { return "O"; }
	catch (const std::exception& e) { return std::string("E:") + typeid(e).name(); }
	catch (...) { return "E:unknown"; }
}
static std::string Q(const std::string& s) { return "\"" + vh::JsonEscape(s) + "\""; }

template <class T> static std::string Dec(T v)
{
	if constexpr (std::is_same_v<T, bool>) return v ? "1" : "0";
	else if constexpr (std::is_signed_v<T>) return std::to_string(static_cast<long long>(v));
	else return std::to_string(static_cast<unsigned long long>(v));
}

template <class T> static std::string BitsJson(T v)
{
	unsigned char raw[sizeof(T)];
	std::memcpy(raw, &v, sizeof(T));
	std::string o = "[";
	for (size_t i = 0; i < sizeof(T); ++i) { if (i) o += ','; o += std::to_string(raw[sizeof(T) - 1 - i]); }   // little endian host
	return o + "]";
}

template <class TSym> static std::basic_string<TSym> FromCodePoints(const std::vector<uint32_t>& cps)
{
	std::basic_string<TSym> s;
	for (uint32_t c : cps)
	{
		if constexpr (sizeof(TSym) == 1) {
			if (c < 0x80) s.push_back(static_cast<TSym>(c));
			else if (c < 0x800) { s.push_back(static_cast<TSym>(0xC0 | (c >> 6))); s.push_back(static_cast<TSym>(0x80 | (c & 0x3F))); }
			else if (c < 0x10000) { s.push_back(static_cast<TSym>(0xE0 | (c >> 12))); s.push_back(static_cast<TSym>(0x80 | ((c >> 6) & 0x3F))); s.push_back(static_cast<TSym>(0x80 | (c & 0x3F))); }
			else { s.push_back(static_cast<TSym>(0xF0 | (c >> 18))); s.push_back(static_cast<TSym>(0x80 | ((c >> 12) & 0x3F))); s.push_back(static_cast<TSym>(0x80 | ((c >> 6) & 0x3F))); s.push_back(static_cast<TSym>(0x80 | (c & 0x3F))); }
		}
		else if constexpr (sizeof(TSym) == 2) {
			if (c < 0x10000) s.push_back(static_cast<TSym>(c));
			else { c -= 0x10000; s.push_back(static_cast<TSym>(0xD800 + (c >> 10))); s.push_back(static_cast<TSym>(0xDC00 + (c & 0x3FF))); }
		}
		else s.push_back(static_cast<TSym>(c));
	}
	return s;
}

template <class TStr> static std::string UnitsJson(const TStr& s)
{
	std::string o = "[";
	bool first = true;
	for (auto c : s) {
		if (!first) o += ',';
		first = false;
		o += std::to_string(static_cast<uint32_t>(static_cast<std::make_unsigned_t<typename TStr::value_type>>(c)));
	}
	return o + "]";
}

template <class T, class TSym> static std::string ParseInt(const std::basic_string<TSym>& s)
{
	return Outcome([&] { return Dec(Convert::To<T>(s)); });
}
// float results: {"k":"V","b":[bytes]} | {"k":"I"|"O"|"E:..","b":[]}
template <class T, class TSym> static std::string ParseFloat(const std::basic_string<TSym>& s)
{
	T v{};
	bool ok = false;
	const std::string r = Outcome([&] { v = Convert::To<T>(s); ok = true; return std::string(); });
	return ok ? "{\"k\":\"V\",\"b\":" + BitsJson(v) + "}" : "{\"k\":" + Q(r) + ",\"b\":[]}";
}

static std::string RunParse(const std::string& line)
{
	rapidjson::Document d;
	d.Parse(line.c_str());
	std::vector<uint32_t> cps;
	for (auto& v : d["t"].GetArray()) cps.push_back(v.GetUint());
	const auto s8 = FromCodePoints<char>(cps);
	const auto s16 = FromCodePoints<char16_t>(cps);
	const auto s32 = FromCodePoints<char32_t>(cps);
	const auto sw = FromCodePoints<wchar_t>(cps);
	std::string tj = "[";
	for (size_t i = 0; i < cps.size(); ++i) { if (i) tj += ','; tj += std::to_string(cps[i]); }
	tj += "]";
	auto wide = [](const auto& s) {
		using TSym = typename std::decay_t<decltype(s)>::value_type;
		return "{\"r\":[" + Q(ParseInt<int64_t, TSym>(s)) + "," + Q(ParseInt<uint8_t, TSym>(s)) + "," + Q(ParseInt<bool, TSym>(s)) + "],\"f64\":" + ParseFloat<double, TSym>(s) + "}";
	};
	return "{\"id\":" + Q(d["id"].GetString()) + ",\"t\":" + tj + ",\"r\":[" +
		Q(ParseInt<int8_t, char>(s8)) + "," + Q(ParseInt<uint8_t, char>(s8)) + "," + Q(ParseInt<int16_t, char>(s8)) + "," + Q(ParseInt<uint16_t, char>(s8)) + "," +
		Q(ParseInt<int32_t, char>(s8)) + "," + Q(ParseInt<uint32_t, char>(s8)) + "," + Q(ParseInt<int64_t, char>(s8)) + "," + Q(ParseInt<uint64_t, char>(s8)) + "," +
		Q(ParseInt<bool, char>(s8)) + "],\"f32\":" + ParseFloat<float, char>(s8) + ",\"f64\":" + ParseFloat<double, char>(s8) +
		",\"w16\":" + wide(s16) + ",\"w32\":" + wide(s32) + ",\"ww\":" + wide(sw) + "}\n";
}

// ToString in the four widths and back
template <class T> static std::string ObserveValue(const std::string& id, const std::string& ty, T v)
{
	std::string text;
	bool ok = false;
	const std::string tr = Outcome([&] { text = Convert::ToString(v); ok = true; return std::string(); });
	std::string out = "{\"id\":" + Q(id) + ",\"ty\":" + Q(ty) + ",\"b\":" + BitsJson(v) + ",\"text\":" + Q(ok ? text : tr) + ",\"tc\":" + UnitsJson(ok ? text : tr);
	auto wideText = [&](auto tag) {
		using TStr = decltype(tag);
		TStr s;
		bool wok = false;
		const std::string r = Outcome([&] { s = Convert::To<TStr>(v); wok = true; return std::string(); });
		return wok ? UnitsJson(s) : UnitsJson(r);
	};
	out += ",\"t16\":" + wideText(std::u16string()) + ",\"t32\":" + wideText(std::u32string()) + ",\"tw\":" + wideText(std::wstring());
	// back from each width: the bits of the reparsed value
	auto back = [&](const auto& s) {
		T v2{};
		bool bok = false;
		const std::string r = Outcome([&] { v2 = Convert::To<T>(s); bok = true; return std::string(); });
		return bok ? "{\"k\":\"V\",\"b\":" + BitsJson(v2) + "}" : "{\"k\":" + Q(r) + ",\"b\":[]}";
	};
	if (ok) {
		std::vector<uint32_t> cps(text.begin(), text.end());
		out += ",\"back\":" + back(text) + ",\"back16\":" + back(FromCodePoints<char16_t>(cps)) + ",\"back32\":" + back(FromCodePoints<char32_t>(cps)) + ",\"backw\":" + back(FromCodePoints<wchar_t>(cps));
	}
	else out += ",\"back\":{\"k\":\"-\",\"b\":[]},\"back16\":{\"k\":\"-\",\"b\":[]},\"back32\":{\"k\":\"-\",\"b\":[]},\"backw\":{\"k\":\"-\",\"b\":[]}";
	return out + "}\n";
}

template <class T> static T FromBits(uint64_t bits)
{
	using U = std::conditional_t<sizeof(T) == 4, uint32_t, uint64_t>;
	const U u = static_cast<U>(bits);
	T v;
	std::memcpy(&v, &u, sizeof(T));
	return v;
}

static std::string RunValue(const std::string& id, const std::string& ty, uint64_t bits)
{
	if (ty == "i32") return ObserveValue(id, ty, FromBits<int32_t>(bits));
	if (ty == "u32") return ObserveValue(id, ty, FromBits<uint32_t>(bits));
	if (ty == "i64") return ObserveValue(id, ty, FromBits<int64_t>(bits));
	if (ty == "u64") return ObserveValue(id, ty, FromBits<uint64_t>(bits));
	if (ty == "f32") return ObserveValue(id, ty, FromBits<float>(bits));
	if (ty == "f64") return ObserveValue(id, ty, FromBits<double>(bits));
	fprintf(stderr, "unknown type %s\n", ty.c_str());
	exit(3);
}

template <class T> static std::string IntRow(const char* ty, long long v)
{
	const T x = static_cast<T>(v);
	std::string text;
	bool ok = false;
	const std::string tr = Outcome([&] { text = Convert::ToString(x); ok = true; return std::string(); });
	const std::string back = ok ? Outcome([&] { return Dec(Convert::To<T>(text)); }) : "-";
	const std::string b16 = Outcome([&] { return Dec(Convert::To<T>(Convert::To<std::u16string>(x))); });
	const std::string b32 = Outcome([&] { return Dec(Convert::To<T>(Convert::To<std::u32string>(x))); });
	const std::string bw = Outcome([&] { return Dec(Convert::To<T>(Convert::To<std::wstring>(x))); });
	return std::string("[\"") + ty + "\"," + std::to_string(v) + "," + Q(ok ? text : tr) + "," + Q(back) + "," + Q(b16) + "," + Q(b32) + "," + Q(bw) + "]\n";
}

int main(int argc, char** argv)
{
	const std::string mode = argc >= 2 ? argv[1] : "";
	if (mode == "parse" && argc >= 3)
	{
		for (const auto& line : vh::ReadLines(argv[2])) fputs(RunParse(line).c_str(), stdout);
		return 0;
	}
	if (mode == "ints" && argc >= 3)
	{
		for (const auto& line : vh::ReadLines(argv[2]))
		{
			rapidjson::Document d;
			d.Parse(line.c_str());
			const std::string ty = d[0].GetString();
			const long long v = d[1].GetInt64();
			if (ty == "i8") fputs(IntRow<int8_t>("i8", v).c_str(), stdout);
			else if (ty == "u8") fputs(IntRow<uint8_t>("u8", v).c_str(), stdout);
			else if (ty == "i16") fputs(IntRow<int16_t>("i16", v).c_str(), stdout);
			else if (ty == "u16") fputs(IntRow<uint16_t>("u16", v).c_str(), stdout);
			else { fprintf(stderr, "unknown type %s\n", ty.c_str()); return 3; }
		}
		return 0;
	}
	if (mode == "vals" && argc >= 3)
	{
		for (const auto& line : vh::ReadLines(argv[2]))
		{
			rapidjson::Document d;
			d.Parse(line.c_str());
			uint64_t bits = 0;
			for (auto& v : d["b"].GetArray()) bits = (bits << 8) | v.GetUint();
			fputs(RunValue(d["id"].GetString(), d["ty"].GetString(), bits).c_str(), stdout);
		}
		return 0;
	}
	if (mode == "random" && argc >= 4)
	{
		const int n = atoi(argv[2]);
		std::mt19937_64 rng(static_cast<uint64_t>(atoll(argv[3])));
		static const char* types[] = { "f32", "f64", "f32", "f64", "i64", "u64", "i32", "u32" };
		for (int i = 0; i < n; ++i)
		{
			const std::string ty = types[rng() % 8];
			uint64_t bits = rng();
			if (ty[0] == 'f') {
				// skip non-finite patterns (the property speaks about finite values); vary the exponent classes
				const bool f32 = ty == "f32";
				switch (rng() % 4) {
				case 0: bits &= f32 ? 0x807FFFFFull : 0x800FFFFFFFFFFFFFull; break;                          // subnormals
				case 1: bits = f32 ? (bits & 0xFF800000ull) | (rng() % 3) : (bits & 0xFFF0000000000000ull) | (rng() % 3); break;   // binade starts
				default: break;
				}
				if (f32) { bits &= 0xFFFFFFFFull; if (((bits >> 23) & 0xFF) == 0xFF) bits &= ~(1ull << 23); }
				else if (((bits >> 52) & 0x7FF) == 0x7FF) bits &= ~(1ull << 52);
			}
			else if (rng() % 3 == 0) bits = static_cast<uint64_t>(static_cast<int64_t>(bits) >> (rng() % 64));
			fputs(RunValue("r" + std::to_string(i), ty, bits).c_str(), stdout);
		}
		return 0;
	}
	fprintf(stderr, "usage: num_harness parse <file> | ints <table> | vals <file> | random <n> <seed>\n");
	return 3;
}
