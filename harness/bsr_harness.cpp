// Conformance harness for CBinaryStreamReader.
//   bsr_harness replay <scenarios.ndjson>       executes TLC-generated operation sequences
//   bsr_harness random <count> <seed> <maxlen> <maxops>   seeded random driver
// Emits one JSON trace per scenario: every public call with its result and the projected private state.
#include "vh_common.h"
#include "common/binary_stream_reader.h"
#include <random>

using BitSerializer::Detail::CBinaryStreamReader;

struct BitSerializerVerifAccess
{
	static std::string State(const CBinaryStreamReader& r)
	{
		return "[" + std::to_string(r.mStartDataPtr - r.mBuffer) + "," + std::to_string(r.mEndDataPtr - r.mBuffer) + "," +
			std::to_string(r.mStreamPos) + "," + (r.mStream.eof() ? "1" : "0") + "," + (r.mStream.fail() ? "1" : "0") + "]";
	}
};

struct Op { std::string op; size_t arg; };

static std::string Pattern(size_t len, int mul, int add)
{
	std::string s(len, '\0');
	for (size_t i = 0; i < len; ++i) s[i] = static_cast<char>((i * mul + add) % 256);
	return s;
}

static void RunScenario(const std::string& id, const std::string& kind, size_t len, int mul, int add, const std::vector<Op>& ops)
{
	auto holder = vh::MakeStream(kind, Pattern(len, mul, add));
	CBinaryStreamReader reader(holder.get());
	std::string out = "{\"id\":\"" + id + "\",\"kind\":\"" + kind + "\",\"seekable\":" + (kind == "nonseek" ? "false" : "true") + ",\"pastend\":" + (kind == "file" ? "true" : "false") +
		",\"len\":" + std::to_string(len) + ",\"chunk\":" + std::to_string(CBinaryStreamReader::chunk_size) +
		",\"mul\":" + std::to_string(mul) + ",\"add\":" + std::to_string(add) + ",\"init\":" + BitSerializerVerifAccess::State(reader) + ",\"ev\":[";
	bool first = true;
	for (const auto& o : ops)
	{
		std::string res;
		const size_t refusedBefore = holder.scripted ? holder.scripted->seekRefused : 0;
		if (o.op == "peek") { auto b = reader.PeekByte(); res = b ? std::to_string(static_cast<unsigned char>(*b)) : "-1"; }
		else if (o.op == "goto") { reader.GotoNextByte(); res = "0"; }
		else if (o.op == "readbyte") { auto b = reader.ReadByte(); res = b ? std::to_string(static_cast<unsigned char>(*b)) : "-1"; }
		else if (o.op == "solid") { auto v = reader.ReadSolidBlock(o.arg); res = vh::BytesJson(std::string(v)); }
		else if (o.op == "chunks") { auto v = reader.ReadByChunks(o.arg); res = vh::BytesJson(std::string(v)); }
		else if (o.op == "setpos") { res = reader.SetPosition(o.arg) ? "true" : "false"; }
		else { fprintf(stderr, "unknown op %s\n", o.op.c_str()); exit(3); }
		const size_t refusedAfter = holder.scripted ? holder.scripted->seekRefused : 0;
		if (!first) out += ',';
		first = false;
		out += "{\"op\":\"" + o.op + "\",\"arg\":" + std::to_string(o.arg) + ",\"res\":" + res +
			",\"pos\":" + std::to_string(reader.GetPosition()) + ",\"isend\":" + (reader.IsEnd() ? "true" : "false") +
			",\"refused\":" + (refusedAfter != refusedBefore ? "true" : "false") +
			",\"st\":" + BitSerializerVerifAccess::State(reader) + "}";
	}
	out += "]}\n";
	fputs(out.c_str(), stdout);
}

int main(int argc, char** argv)
{
	vh::InstallTerminateHandler();
	if (argc >= 3 && std::string(argv[1]) == "replay")
	{
		for (const auto& line : vh::ReadLines(argv[2]))
		{
			rapidjson::Document d;
			d.Parse(line.c_str());
			std::vector<Op> ops;
			for (auto& o : d["ops"].GetArray()) ops.push_back({ o["op"].GetString(), static_cast<size_t>(o["arg"].GetInt()) });
			RunScenario(d["id"].GetString(), d["kind"].GetString(), d["len"].GetUint(), d["mul"].GetInt(), d["add"].GetInt(), ops);
		}
		return 0;
	}
	if (argc >= 6 && std::string(argv[1]) == "random")
	{
		const int count = atoi(argv[2]);
		std::mt19937 rng(static_cast<unsigned>(atoll(argv[3])));
		const size_t maxLen = static_cast<size_t>(atoll(argv[4]));
		const int maxOps = atoi(argv[5]);
		const size_t C = CBinaryStreamReader::chunk_size;
		static const char* kinds[] = { "sstream", "short1", "short3", "short64", "nonseek", "file" };
		for (int i = 0; i < count; ++i)
		{
			// Lengths cluster around multiples of the chunk size
			size_t len;
			switch (rng() % 4) {
			case 0: len = rng() % (maxLen + 1); break;
			case 1: len = (rng() % 4) * C + (rng() % 5) - 2 + C; break;
			default: len = (rng() % (maxLen / C + 1)) * C + rng() % 3; break;
			}
			if (len > maxLen) len = maxLen;
			std::vector<Op> ops;
			const int n = 1 + static_cast<int>(rng() % maxOps);
			for (int k = 0; k < n; ++k)
			{
				switch (rng() % 9) {
				case 0: ops.push_back({ "peek", 0 }); break;
				case 1: ops.push_back({ "goto", 0 }); break;
				case 2: ops.push_back({ "readbyte", 0 }); break;
				case 3: ops.push_back({ "solid", 1 + rng() % 8 }); break;
				case 4: ops.push_back({ "solid", rng() % (C + 2) }); break;
				case 5: ops.push_back({ "chunks", 1 + rng() % (2 * C) }); break;
				case 6: ops.push_back({ "chunks", 1 + rng() % 16 }); break;
				case 7: ops.push_back({ "setpos", rng() % (len + 2) }); break;
				default: ops.push_back({ "setpos", (rng() % (len / C + 2)) * C + rng() % 3 }); break;
				}
			}
			RunScenario("r" + std::to_string(i), kinds[rng() % 6], len, 1 + 2 * static_cast<int>(rng() % 60), static_cast<int>(rng() % 256), ops);
		}
		return 0;
	}
	fprintf(stderr, "usage: bsr_harness replay <file> | random <count> <seed> <maxlen> <maxops>\n");
	return 3;
}
