// Robustness driver (property C02): feeds raw byte strings chosen by the TLA+ specification (spec/MC_Robust.tla, and the
// generator modules of C12 / C15 / C16 for the string converters) into a fixed catalogue of targets through the PUBLIC API and
// logs what happened.  It never judges: spec/Trace_Robust.tla decides every observation.
//
//   robust_<part> run <inputs.ndjson> <media-csv> [cpu-seconds] [target-filter-csv]
//
// One executable per part (the same source compiled with -DRB_MSGPACK / RB_JSON / RB_XML / RB_CSV / RB_CONV), so that the
// five translation units build in parallel.  Input line:
//   {"id":"..","fmt":"msgpack|json|xml|csv","rle":[[n,[bytes]],...]}        document = concatenation of n copies of each segment
//   {"id":"..","fmt":"utf|num|dt|du","sf":8|16|32,"u":[units]}              code units / code points for the converters
// One output line per run = (input, target, policy setting, medium):
//   {"i":k,"t":"vec_i32","p":"throw|skip","m":"mem|sstream|short3","o":"Completed|StdException|NonStdException|Terminate|
//    Crash|Hang|Sanitizer", "x":"<exception class>", "pk":<largest single request>, "tb":<bytes requested during the call>,
//    "na":<number of requests>, "acc":"malloc|new", "us":<cpu microseconds>, ...}
// pk / tb saturate at 2^30 (TLC integers are 32 bit; every bound of the specification is far below).
//
// Containment: every run executes in a forked child (a child serves consecutive runs until it dies).  The child has
//   * an allocation cap: a single request above RB_ALLOC_CAP (256 MiB) is recorded and refused (malloc returns NULL /
//     operator new throws std::bad_alloc) - the real code can never allocate from an untrusted size unchecked;
//     non-sanitizer builds additionally run under RLIMIT_AS = 3 GiB;
//   * a CPU-time watchdog (ITIMER_PROF; independent of machine load) plus a long wall-clock alarm  -> "Hang";
//   * std::set_terminate -> "Terminate";  SIGSEGV/SIGBUS handler on an alternate stack -> "Crash" with "stack":true when
//     the fault address is next to the stack pointer at the end of the stack (stack overflow);
//   * sanitizer builds: stderr of the child goes to a file; when the child dies with a report the parent logs
//     "Sanitizer" with the report kind (heap-buffer-overflow, stack-overflow, allocation-size-too-big, ubsan, ...).
#include "vh_common.h"
#include <cerrno>
#include <ctime>
#include <map>
#include <optional>
#include <sys/time.h>
#include <ucontext.h>
#include <fcntl.h>
#include <pthread.h>
#include <sys/stat.h>

#if defined(__has_feature)
#  if __has_feature(address_sanitizer)
#    define RB_SAN 1
#  endif
#endif
#if defined(__SANITIZE_ADDRESS__) && !defined(RB_SAN)
#  define RB_SAN 1
#endif
#ifndef RB_SAN
#  define RB_SAN 0
#endif

#ifndef RB_ALLOC_CAP
#  define RB_ALLOC_CAP (static_cast<size_t>(256) << 20)
#endif

//------------------------------------------------------------------------------------------------
// Allocation accounting + cap
//------------------------------------------------------------------------------------------------
namespace rb {
struct Acc
{
	bool armed = false;
	unsigned long long peak = 0, total = 0, count = 0, refused = 0;
};
static Acc g_acc;
// returns false when the request must be refused
static inline bool Account(size_t n)
{
	if (!g_acc.armed) return true;
	++g_acc.count;
	g_acc.total += n;
	if (n > g_acc.peak) g_acc.peak = n;
	if (n > RB_ALLOC_CAP) { ++g_acc.refused; return false; }
	return true;
}
}

#if !RB_SAN
// glibc: replacing the malloc family in the executable; the real work is done by the __libc_* entry points
extern "C" {
void* __libc_malloc(size_t);
void __libc_free(void*);
void* __libc_realloc(void*, size_t);
void* __libc_calloc(size_t, size_t);
void* __libc_memalign(size_t, size_t);
void* malloc(size_t n) { if (!rb::Account(n)) { errno = ENOMEM; return nullptr; } return __libc_malloc(n); }
void free(void* p) { __libc_free(p); }
void* calloc(size_t a, size_t b)
{
	size_t n = 0;
	if (__builtin_mul_overflow(a, b, &n)) { rb::Account(static_cast<size_t>(-1)); errno = ENOMEM; return nullptr; }
	if (!rb::Account(n)) { errno = ENOMEM; return nullptr; }
	return __libc_calloc(a, b);
}
void* realloc(void* p, size_t n) { if (n && !rb::Account(n)) { errno = ENOMEM; return nullptr; } return __libc_realloc(p, n); }
void* memalign(size_t al, size_t n) { if (!rb::Account(n)) { errno = ENOMEM; return nullptr; } return __libc_memalign(al, n); }
void* aligned_alloc(size_t al, size_t n) { return memalign(al, n); }
int posix_memalign(void** out, size_t al, size_t n) { void* p = memalign(al, n); if (!p) return ENOMEM; *out = p; return 0; }
}
#define RB_ACC "malloc"
#else
// sanitizer build: the allocator belongs to ASan; only C++ allocations are counted/capped here (C-level requests of
// RapidJSON / pugixml are bounded by ASAN_OPTIONS=max_allocation_size_mb)
void* operator new(std::size_t n) { if (!rb::Account(n)) throw std::bad_alloc(); void* p = std::malloc(n ? n : 1); if (!p) throw std::bad_alloc(); return p; }
void* operator new[](std::size_t n) { return operator new(n); }
void operator delete(void* p) noexcept { std::free(p); }
void operator delete[](void* p) noexcept { std::free(p); }
void operator delete(void* p, std::size_t) noexcept { std::free(p); }
void operator delete[](void* p, std::size_t) noexcept { std::free(p); }
#define RB_ACC "new"
extern "C" int __lsan_do_recoverable_leak_check();
#endif

#include "bitserializer/bit_serializer.h"
#include "bitserializer/types/std/vector.h"
#include "bitserializer/types/std/map.h"
#include "bitserializer/types/std/chrono.h"
#include "bitserializer/types/std/ctime.h"
#include "bitserializer/types/std/optional.h"
#include "bitserializer/types/std/memory.h"
#if defined(RB_MSGPACK)
#  include "bitserializer/msgpack_archive.h"
using TheArchive = BitSerializer::MsgPack::MsgPackArchive;
static const char* kPart = "msgpack";
#elif defined(RB_JSON)
#  include "bitserializer/rapidjson_archive.h"
using TheArchive = BitSerializer::Json::RapidJson::JsonArchive;
static const char* kPart = "json";
#elif defined(RB_XML)
#  include "bitserializer/pugixml_archive.h"
using TheArchive = BitSerializer::Xml::PugiXml::XmlArchive;
static const char* kPart = "xml";
#elif defined(RB_CSV)
#  include "bitserializer/csv_archive.h"
using TheArchive = BitSerializer::Csv::CsvArchive;
static const char* kPart = "csv";
#elif defined(RB_CONV)
#  include "bitserializer/convert.h"
#  include "bitserializer/conversion_detail/convert_utf.h"
static const char* kPart = "conv";
#else
#  error "define one of RB_MSGPACK RB_JSON RB_XML RB_CSV RB_CONV"
#endif

using namespace BitSerializer;

//------------------------------------------------------------------------------------------------
// Run bookkeeping shared with the signal handlers
//------------------------------------------------------------------------------------------------
static char g_label[256];          // "\"i\":12,\"t\":\"..\",\"p\":\"..\",\"m\":\"..\""
static uintptr_t g_stackTop = 0;
static size_t g_stackLimit = 0;

static void EmitFromHandler(const char* tail)
{
	char buf[512];
	const int n = snprintf(buf, sizeof buf, "{%s,%s,\"acc\":\"%s\",\"pk\":%llu,\"tb\":%llu,\"na\":%llu}\n", g_label, tail, RB_ACC,
		std::min<unsigned long long>(rb::g_acc.peak, 1ull << 30), std::min<unsigned long long>(rb::g_acc.total, 1ull << 30), rb::g_acc.count);
	if (n > 0) (void)!write(1, buf, static_cast<size_t>(n));
}

static void OnCpuTimer(int) { rb::g_acc.armed = false; EmitFromHandler("\"o\":\"Hang\",\"x\":\"cpu\""); _exit(43); }
static void OnWallTimer(int) { rb::g_acc.armed = false; EmitFromHandler("\"o\":\"Hang\",\"x\":\"wall\""); _exit(43); }

#if !RB_SAN
static void OnSegv(int sig, siginfo_t* si, void* ctx)
{
	rb::g_acc.armed = false;
	const auto* uc = static_cast<const ucontext_t*>(ctx);
	const uintptr_t sp = static_cast<uintptr_t>(uc->uc_mcontext.gregs[REG_RSP]);
	const uintptr_t addr = reinterpret_cast<uintptr_t>(si->si_addr);
	const uintptr_t end = g_stackTop - g_stackLimit;            // lowest address the main stack may grow to
	const uintptr_t dist = addr > sp ? addr - sp : sp - addr;
	const bool onStack = dist < (1u << 20) && sp < end + (1u << 18) && sp + (1u << 24) > end;
	char tail[160];
	snprintf(tail, sizeof tail, "\"o\":\"Crash\",\"x\":\"signal\",\"sig\":%d,\"stack\":%s", sig, onStack ? "true" : "false");
	EmitFromHandler(tail);
	_exit(44);
}
#endif

static void OnTerminate()
{
	rb::g_acc.armed = false;
	EmitFromHandler("\"o\":\"Terminate\",\"x\":\"std::terminate\"");
	_exit(42);
}

//------------------------------------------------------------------------------------------------
// Sanitizer reports (sanitizer builds: stderr of the child is a file)
//------------------------------------------------------------------------------------------------
static std::string SummarizeOne(const std::string& textIn);
// fatal = the report that ended the process: it is the last one of the text (earlier ones are recovered alignment reports of
// previous runs of the same child); otherwise the first report of the text
static std::string SummarizeReport(const std::string& textIn, bool fatal = false)
{
	if (!fatal) return SummarizeOne(textIn);
	size_t start = 0, p = 0;
	while (true) {
		const size_t a = textIn.find("ERROR: AddressSanitizer: ", p);
		const size_t u = textIn.find("runtime error: ", p);
		const size_t l = textIn.find("ERROR: LeakSanitizer: ", p);
		const size_t m = std::min(a, std::min(u, l));
		if (m == std::string::npos) break;
		start = textIn.rfind('\n', m);
		start = start == std::string::npos ? 0 : start + 1;
		p = m + 10;
	}
	return SummarizeOne(textIn.substr(start));
}
static std::string SummarizeOne(const std::string& textIn)
{
	// Tokenises the first report of the text: kind (ASan error class, or "ubsan:<check>"), source file / line when the report
	// carries one (UBSan always does), and the raw first lines for the replay file.  No judgement here.
	std::istringstream f(textIn);
	std::string line, kind, text, file;
	long lineNo = 0;
	while (std::getline(f, line)) {
		size_t p;
		if ((p = line.find("runtime error: ")) != std::string::npos && kind.empty()) {
			const std::string msg = line.substr(p + 15);
			text = msg.substr(0, 160);
			const char* cat = "other";
			if (msg.rfind("load of misaligned address", 0) == 0 || msg.rfind("reference binding to misaligned", 0) == 0) cat = "misaligned-load";
			else if (msg.rfind("store to misaligned address", 0) == 0 || msg.rfind("member access within misaligned", 0) == 0 || msg.rfind("member call on misaligned", 0) == 0) cat = "misaligned-access";
			else if (msg.find("signed integer overflow") != std::string::npos) cat = "signed-overflow";
			else if (msg.find("applying non-zero offset") != std::string::npos || msg.find("pointer index expression") != std::string::npos || msg.find("applying zero offset to null") != std::string::npos) cat = "pointer-overflow";
			else if (msg.find("out of bounds") != std::string::npos) cat = "bounds";
			else if (msg.find("shift exponent") != std::string::npos || msg.find("left shift") != std::string::npos) cat = "shift";
			else if (msg.find("null pointer") != std::string::npos) cat = "null";
			else if (msg.find("is outside the range of representable values") != std::string::npos) cat = "float-cast-overflow";
			else if (msg.find("not a valid value for type") != std::string::npos) cat = "invalid-enum-or-bool";
			else if (msg.find("division by zero") != std::string::npos) cat = "div-by-zero";
			else if (msg.find("negation of") != std::string::npos) cat = "signed-overflow";
			kind = std::string("ubsan:") + cat;
			// "<path>:<line>:<col>: runtime error: ..."
			const std::string loc = line.substr(0, p >= 2 ? p - 2 : 0);
			const size_t c2 = loc.rfind(':');
			const size_t c1 = c2 == std::string::npos ? std::string::npos : loc.rfind(':', c2 - 1);
			if (c1 != std::string::npos) {
				const size_t sl = loc.rfind('/', c1);
				file = loc.substr(sl == std::string::npos ? 0 : sl + 1, c1 - (sl == std::string::npos ? 0 : sl + 1));
				lineNo = atol(loc.c_str() + c1 + 1);
			}
		}
		if ((p = line.find("ERROR: AddressSanitizer: ")) != std::string::npos && kind.empty()) {
			const std::string rest = line.substr(p + 25);
			kind = rest.substr(0, rest.find_first_of(" :("));
			text = rest.substr(0, 160);
			if (rest.rfind("requested allocation size", 0) == 0) kind = "allocation-size-too-big";
		}
		if ((p = line.find("ERROR: LeakSanitizer: ")) != std::string::npos && kind.empty()) { kind = "leak"; text = line.substr(p + 22, 160); }
		if ((p = line.find("SUMMARY: ")) != std::string::npos && text.size() < 240) text += " | " + line.substr(p + 9, 160);
	}
	if (kind.empty()) return "";
	return "\"kind\":\"" + vh::JsonEscape(kind) + "\",\"file\":\"" + vh::JsonEscape(file) + "\",\"line\":" + std::to_string(lineNo) + ",\"report\":\"" + vh::JsonEscape(text) + "\"";
}
#if RB_SAN
static off_t g_errSeen = 0;
// text written to stderr since the last call (recoverable UBSan checks print a report and continue)
static std::string NewStderrText()
{
	struct stat st{};
	if (fstat(2, &st) != 0 || st.st_size <= g_errSeen) return "";
	std::string buf(static_cast<size_t>(std::min<off_t>(st.st_size - g_errSeen, 1 << 16)), '\0');
	const ssize_t n = pread(2, buf.data(), buf.size(), g_errSeen);
	g_errSeen = st.st_size;
	buf.resize(n > 0 ? static_cast<size_t>(n) : 0);
	return buf;
}
#endif

//------------------------------------------------------------------------------------------------
// Exception in flight -> class name
//------------------------------------------------------------------------------------------------
static std::string DescribeException(bool& isStd)
{
	isStd = true;
	try { throw; }
	catch (const ValidationException&) { return "ser:validation"; }
	catch (const SerializationException& e) { return "ser:" + Convert::ToString(e.GetErrorCode()); }
	catch (const std::bad_alloc&) { return "std:bad_alloc"; }
	catch (const std::length_error&) { return "std:length_error"; }
	catch (const std::ios_base::failure&) { return "std:ios_failure"; }
	catch (const std::invalid_argument&) { return "std:invalid_argument"; }
	catch (const std::out_of_range&) { return "std:out_of_range"; }
	catch (const std::range_error&) { return "std:range_error"; }
	catch (const std::overflow_error&) { return "std:overflow_error"; }
	catch (const std::runtime_error&) { return "std:runtime_error"; }
	catch (const std::logic_error&) { return "std:logic_error"; }
	catch (const std::exception&) { return "std:exception"; }
	catch (...) { isStd = false; return "nonstd"; }
}

//------------------------------------------------------------------------------------------------
// Target catalogue of the archive parts
//------------------------------------------------------------------------------------------------
#if !defined(RB_CONV)
struct Inner
{
	int32_t x = 0; std::string y;
	template <class TArchive> void Serialize(TArchive& archive) { archive << KeyValue("x", x) << KeyValue("y", y); }
};
struct Cls
{
	int32_t a = 0; std::string b; std::vector<int32_t> c; std::map<std::string, int32_t> d; Inner o; std::optional<double> f; uint8_t g = 0;
	template <class TArchive> void Serialize(TArchive& archive)
	{
		archive << KeyValue("a", a) << KeyValue("b", b);
#if !defined(RB_CSV)
		archive << KeyValue("c", c) << KeyValue("d", d) << KeyValue("o", o);
#endif
		archive << KeyValue("f", f) << KeyValue("g", g);
	}
};
// dynamic trees: arbitrarily deep arrays / objects
struct ArrTree { std::vector<ArrTree> items; size_t size() const { return items.size(); } };
template <class TArchive> void SerializeArray(TArchive& archive, ArrTree& t) { BitSerializer::SerializeArray(archive, t.items); }
struct ObjTree
{
	std::unique_ptr<ObjTree> c; std::vector<ObjTree> k; int32_t v = 0;
	template <class TArchive> void Serialize(TArchive& archive) { archive << KeyValue("c", c) << KeyValue("k", k) << KeyValue("v", v); }
};
using TpNs = std::chrono::time_point<std::chrono::system_clock, std::chrono::nanoseconds>;

struct TargetDef { const char* name; };
#if defined(RB_CSV)
static const char* kTargets[] = { "rows", "maps" };
#elif defined(RB_XML)
static const char* kTargets[] = { "cls", "vec_i32", "vec_str", "vec_cls", "map_str_i32", "arrtree", "objtree" };
#else
static const char* kTargets[] = { "i32", "u8", "f64", "bool", "str", "tp_ns", "cls", "vec_i32", "vec_str", "vec_cls", "vec_vec_i32", "bin",
                                  "map_str_i32", "map_i32_str", "arrtree", "objtree" };
#endif

template <class F>
static void WithTarget(const std::string& t, F&& f)
{
#if defined(RB_CSV)
	if (t == "rows") f(static_cast<std::vector<Cls>*>(nullptr));
	else if (t == "maps") f(static_cast<std::vector<std::map<std::string, std::string>>*>(nullptr));
#else
	if (t == "cls") f(static_cast<Cls*>(nullptr));
	else if (t == "vec_i32") f(static_cast<std::vector<int32_t>*>(nullptr));
	else if (t == "vec_str") f(static_cast<std::vector<std::string>*>(nullptr));
	else if (t == "vec_cls") f(static_cast<std::vector<Cls>*>(nullptr));
	else if (t == "map_str_i32") f(static_cast<std::map<std::string, int32_t>*>(nullptr));
	else if (t == "arrtree") f(static_cast<ArrTree*>(nullptr));
	else if (t == "objtree") f(static_cast<ObjTree*>(nullptr));
#if !defined(RB_XML)
	else if (t == "i32") f(static_cast<int32_t*>(nullptr));
	else if (t == "u8") f(static_cast<uint8_t*>(nullptr));
	else if (t == "f64") f(static_cast<double*>(nullptr));
	else if (t == "bool") f(static_cast<bool*>(nullptr));
	else if (t == "str") f(static_cast<std::string*>(nullptr));
	else if (t == "tp_ns") f(static_cast<TpNs*>(nullptr));
	else if (t == "vec_vec_i32") f(static_cast<std::vector<std::vector<int32_t>>*>(nullptr));
	else if (t == "bin") f(static_cast<std::vector<uint8_t>*>(nullptr));
	else if (t == "map_i32_str") f(static_cast<std::map<int32_t, std::string>*>(nullptr));
#endif
#endif
	else { fprintf(stderr, "unknown target %s\n", t.c_str()); exit(3); }
}

static SerializationOptions OptionsFor(const std::string& pol)
{
	SerializationOptions o;
	if (pol == "skip") {
		o.mismatchedTypesPolicy = MismatchedTypesPolicy::Skip;
		o.overflowNumberPolicy = OverflowNumberPolicy::Skip;
		o.utfEncodingErrorPolicy = Convert::Utf::UtfEncodingErrorPolicy::Skip;
	}
	return o;
}
#endif

//------------------------------------------------------------------------------------------------
// Converter part
//------------------------------------------------------------------------------------------------
#if defined(RB_CONV)
namespace Utf = BitSerializer::Convert::Utf;
enum class Colour { Red, Green, Blue };
REGISTER_ENUM(Colour, { { Colour::Red, "Red" }, { Colour::Green, "Green" }, { Colour::Blue, "Blue" } })

struct Tally { unsigned calls = 0, returned = 0, stdexc = 0, nonstd = 0; std::string lastExc; };
template <class F> static void Call(Tally& t, F&& f)
{
	++t.calls;
	try { f(); ++t.returned; }
	catch (...) { bool isStd = true; t.lastExc = DescribeException(isStd); if (isStd) ++t.stdexc; else ++t.nonstd; }
}

template <class TSym> static std::basic_string<TSym> FromUnits(const std::vector<uint32_t>& u)
{
	// code points -> string of TSym: UTF-8 for char (input construction only), the plain value otherwise (16-bit: supplementary
	// code points as surrogate pairs)
	std::basic_string<TSym> s;
	for (uint32_t c : u) {
		if constexpr (sizeof(TSym) == 1) {
			if (c < 0x80) s += static_cast<TSym>(c);
			else if (c < 0x800) { s += static_cast<TSym>(0xC0 | (c >> 6)); s += static_cast<TSym>(0x80 | (c & 0x3F)); }
			else if (c < 0x10000) { s += static_cast<TSym>(0xE0 | (c >> 12)); s += static_cast<TSym>(0x80 | ((c >> 6) & 0x3F)); s += static_cast<TSym>(0x80 | (c & 0x3F)); }
			else { s += static_cast<TSym>(0xF0 | ((c >> 18) & 7)); s += static_cast<TSym>(0x80 | ((c >> 12) & 0x3F)); s += static_cast<TSym>(0x80 | ((c >> 6) & 0x3F)); s += static_cast<TSym>(0x80 | (c & 0x3F)); }
		}
		else if constexpr (sizeof(TSym) == 2) {
			if (c < 0x10000) s += static_cast<TSym>(c);
			else { s += static_cast<TSym>(0xD800 + (((c - 0x10000) >> 10) & 0x3FF)); s += static_cast<TSym>(0xDC00 + ((c - 0x10000) & 0x3FF)); }
		}
		else s += static_cast<TSym>(c);
	}
	return s;
}
template <class TSym> static std::basic_string<TSym> RawUnits(const std::vector<uint32_t>& u)
{
	std::basic_string<TSym> s;
	for (uint32_t c : u) s += static_cast<TSym>(c);
	return s;
}

// exactly sized heap copy of a string and a view on it (sanitizer build: the first unit behind the text is poisoned)
template <class TSym> struct Exact
{
	explicit Exact(const std::basic_string<TSym>& src) : buf(new TSym[src.size() ? src.size() : 1]), view(buf.get(), src.size())
	{
		std::copy(src.begin(), src.end(), buf.get());
	}
	std::unique_ptr<TSym[]> buf;
	std::basic_string_view<TSym> view;
};

template <class TSym> static void RunNum(Tally& t, const std::vector<uint32_t>& u)
{
	const Exact<TSym> exact(FromUnits<TSym>(u));
	const auto s = exact.view;
	Call(t, [&] { (void)Convert::To<int8_t>(s); });    Call(t, [&] { (void)Convert::To<uint8_t>(s); });
	Call(t, [&] { (void)Convert::To<int16_t>(s); });   Call(t, [&] { (void)Convert::To<uint16_t>(s); });
	Call(t, [&] { (void)Convert::To<int32_t>(s); });   Call(t, [&] { (void)Convert::To<uint32_t>(s); });
	Call(t, [&] { (void)Convert::To<int64_t>(s); });   Call(t, [&] { (void)Convert::To<uint64_t>(s); });
	Call(t, [&] { (void)Convert::To<float>(s); });     Call(t, [&] { (void)Convert::To<double>(s); });
	Call(t, [&] { (void)Convert::To<bool>(s); });      Call(t, [&] { (void)Convert::To<Colour>(s); });
	Call(t, [&] { (void)Convert::TryTo<int32_t>(s); }); Call(t, [&] { (void)Convert::TryTo<Colour>(s); });
}
template <class TSym> static void RunDt(Tally& t, const std::vector<uint32_t>& u)
{
	using namespace std::chrono;
	const Exact<TSym> exact(FromUnits<TSym>(u));
	const auto s = exact.view;
	Call(t, [&] { (void)Convert::To<time_point<system_clock, nanoseconds>>(s); });
	Call(t, [&] { (void)Convert::To<time_point<system_clock, microseconds>>(s); });
	Call(t, [&] { (void)Convert::To<time_point<system_clock, milliseconds>>(s); });
	Call(t, [&] { (void)Convert::To<time_point<system_clock, seconds>>(s); });
	Call(t, [&] { (void)Convert::To<time_point<system_clock, duration<int32_t>>>(s); });
	Call(t, [&] { (void)Convert::To<time_point<system_clock, duration<int64_t, std::ratio<60>>>>(s); });
	Call(t, [&] { (void)Convert::To<time_point<system_clock, duration<int32_t, std::ratio<86400>>>>(s); });
	Call(t, [&] { (void)Convert::To<time_point<system_clock, duration<int8_t, std::milli>>>(s); });
	Call(t, [&] { (void)Convert::To<CRawTime>(s); });
	Call(t, [&] { (void)Convert::To<tm>(s); });
}
template <class TSym> static void RunDu(Tally& t, const std::vector<uint32_t>& u)
{
	using namespace std::chrono;
	const Exact<TSym> exact(FromUnits<TSym>(u));
	const auto s = exact.view;
	Call(t, [&] { (void)Convert::To<nanoseconds>(s); });  Call(t, [&] { (void)Convert::To<microseconds>(s); });
	Call(t, [&] { (void)Convert::To<milliseconds>(s); }); Call(t, [&] { (void)Convert::To<seconds>(s); });
	Call(t, [&] { (void)Convert::To<minutes>(s); });      Call(t, [&] { (void)Convert::To<hours>(s); });
	Call(t, [&] { (void)Convert::To<duration<int32_t, std::ratio<86400>>>(s); });
	Call(t, [&] { (void)Convert::To<duration<int8_t>>(s); });
	Call(t, [&] { (void)Convert::To<duration<uint16_t, std::milli>>(s); });
	Call(t, [&] { (void)Convert::To<duration<int64_t, std::ratio<604800>>>(s); });
}

template <class TIn, class TOut> static void RunTranscode(Tally& t, const std::basic_string<TIn>& srcString, Utf::UtfEncodingErrorPolicy pol)
{
	const Exact<TIn> exact(srcString);
	const auto src = exact.view;
	const TIn* b = src.data(); const TIn* e = src.data() + src.size();
	Call(t, [&] { std::basic_string<TOut> out; (void)Utf::Transcode(b, e, out, pol); });
	if constexpr (sizeof(TIn) == 1) { Call(t, [&] { std::basic_string<TOut> out; (void)Utf::Utf8::Decode(b, e, out, pol); }); }
	else if constexpr (sizeof(TIn) == 2) {
		Call(t, [&] { std::basic_string<TOut> out; (void)Utf::Utf16Le::Decode(b, e, out, pol); });
		Call(t, [&] { std::basic_string<TOut> out; (void)Utf::Utf16Be::Decode(b, e, out, pol); });
	}
	else {
		Call(t, [&] { std::basic_string<TOut> out; (void)Utf::Utf32Le::Decode(b, e, out, pol); });
		Call(t, [&] { std::basic_string<TOut> out; (void)Utf::Utf32Be::Decode(b, e, out, pol); });
	}
	if constexpr (sizeof(TOut) == 1) { Call(t, [&] { std::basic_string<TOut> out; (void)Utf::Utf8::Encode(b, e, out, pol); }); }
	else if constexpr (sizeof(TOut) == 2) { Call(t, [&] { std::basic_string<TOut> out; (void)Utf::Utf16Le::Encode(b, e, out, pol); }); Call(t, [&] { std::basic_string<TOut> out; (void)Utf::Utf16Be::Encode(b, e, out, pol); }); }
	else { Call(t, [&] { std::basic_string<TOut> out; (void)Utf::Utf32Le::Encode(b, e, out, pol); }); Call(t, [&] { std::basic_string<TOut> out; (void)Utf::Utf32Be::Encode(b, e, out, pol); }); }
	Call(t, [&] { (void)Convert::To<std::basic_string<TOut>>(src); });
	Call(t, [&] { (void)Convert::TryTo<std::basic_string<TOut>>(src); });
}
template <class TIn> static void RunUtf(Tally& t, const std::vector<uint32_t>& u, bool skip)
{
	const auto pol = skip ? Utf::UtfEncodingErrorPolicy::Skip : Utf::UtfEncodingErrorPolicy::ThrowError;
	const auto src = RawUnits<TIn>(u);
	if constexpr (sizeof(TIn) != 1) RunTranscode<TIn, char>(t, src, pol);
	if constexpr (sizeof(TIn) != 2) RunTranscode<TIn, char16_t>(t, src, pol);
	if constexpr (sizeof(TIn) != 4) RunTranscode<TIn, char32_t>(t, src, pol);
}
// the encoded stream reader over the bytes of the units (byte order / BOM variants), client loop as in the CSV stream reader;
// the loop has no iteration bound of its own: a reader that stops making progress is caught by the CPU watchdog
template <class TChar> static void ReadAll(Tally& t, const std::string& bytes, const std::string& medium, bool skip)
{
	Call(t, [&] {
		auto holder = vh::MakeStream(medium, bytes);
		Utf::CEncodedStreamReader<TChar> reader(holder.get(), skip ? Utf::UtfEncodingErrorPolicy::Skip : Utf::UtfEncodingErrorPolicy::ThrowError);
		std::basic_string<TChar> out;
		while (reader.ReadChunk(out) == Utf::EncodedStreamReadResult::Success) { if (out.size() > (1u << 20)) out.clear(); }
	});
}
static void RunEncStream(Tally& t, int sf, const std::vector<uint32_t>& u, const std::string& medium, bool skip)
{
	for (int be = 0; be < 2; ++be) for (int bom = 0; bom < 2; ++bom)
	{
		if (sf == 8 && be) continue;
		std::string bytes;
		auto put = [&](uint32_t x, int w) { for (int k = 0; k < w; ++k) bytes += static_cast<char>((x >> (be ? 8 * (w - 1 - k) : 8 * k)) & 0xFF); };
		const int w = sf / 8;
		if (bom) { if (sf == 8) bytes += "\xEF\xBB\xBF"; else put(0xFEFF, w); }
		for (uint32_t x : u) put(x, w);
		ReadAll<char>(t, bytes, medium, skip);
		ReadAll<char16_t>(t, bytes, medium, skip);
		ReadAll<char32_t>(t, bytes, medium, skip);
		if (!bytes.empty()) { bytes.pop_back(); ReadAll<char>(t, bytes, medium, skip); ReadAll<char32_t>(t, bytes, medium, skip); }   // ends inside a code unit
	}
}
#endif

//------------------------------------------------------------------------------------------------
// Inputs, run table
//------------------------------------------------------------------------------------------------
struct Input
{
	std::string id, fmt;
	std::string doc;                  // archive parts
	std::vector<uint32_t> units;      // converter part
	int sf = 8;
};

static Input ParseInput(const std::string& line)
{
	rapidjson::Document d;
	d.Parse(line.c_str());
	if (d.HasParseError() || !d.IsObject()) { fprintf(stderr, "bad input line\n"); exit(3); }
	Input in;
	in.id = d["id"].GetString();
	in.fmt = d["fmt"].GetString();
	if (d.HasMember("rle")) {
		for (const auto& seg : d["rle"].GetArray()) {
			const size_t n = seg[0].GetUint();
			std::string piece;
			for (const auto& b : seg[1].GetArray()) piece.push_back(static_cast<char>(b.GetUint()));
			if (n == 1) in.doc += piece;
			else { in.doc.reserve(in.doc.size() + n * piece.size()); for (size_t k = 0; k < n; ++k) in.doc += piece; }
		}
	}
	if (d.HasMember("u")) for (const auto& x : d["u"].GetArray()) in.units.push_back(x.IsUint() ? x.GetUint() : static_cast<uint32_t>(x.GetInt64()));
	if (d.HasMember("sf")) in.sf = d["sf"].GetInt();
	return in;
}

struct Run { uint32_t input; uint16_t target, pol, medium; };

static std::vector<std::string> SplitCsv(const std::string& s)
{
	std::vector<std::string> r;
	size_t p = 0;
	while (p <= s.size()) { size_t q = s.find(',', p); if (q == std::string::npos) q = s.size(); if (q > p) r.push_back(s.substr(p, q - p)); p = q + 1; }
	return r;
}

static std::vector<std::string> g_targets, g_media;
static const char* kPols[] = { "throw", "skip" };

static std::vector<std::string> TargetsOf(const std::string& fmt)
{
#if defined(RB_CONV)
	if (fmt == "num") return { "num/char", "num/char16", "num/char32", "num/wchar" };
	if (fmt == "dt") return { "dt/char", "dt/char16", "dt/char32", "dt/wchar" };
	if (fmt == "du") return { "du/char", "du/char16", "du/char32", "du/wchar" };
	if (fmt == "utf") return { "transcode", "encstream" };
	return {};
#else
	if (fmt != kPart) return {};
	return g_targets;
#endif
}

//------------------------------------------------------------------------------------------------
// One run
//------------------------------------------------------------------------------------------------
static void ExecuteRun(const Input& in, const std::string& target, const std::string& pol, const std::string& medium)
{
	std::string outcome = "Completed", exc;
	std::string extra;
	timespec t0{}, t1{};
	clock_gettime(CLOCK_PROCESS_CPUTIME_ID, &t0);
	rb::g_acc = rb::Acc();
#if defined(RB_CONV)
	Tally t;
	const bool skip = pol == "skip";
	rb::g_acc.armed = true;
	try
	{
		if (in.fmt == "num" || in.fmt == "dt" || in.fmt == "du") {
			const std::string w = target.substr(target.find('/') + 1);
			auto go = [&](auto* sym) {
				using TSym = std::remove_pointer_t<decltype(sym)>;
				if (in.fmt == "num") RunNum<TSym>(t, in.units); else if (in.fmt == "dt") RunDt<TSym>(t, in.units); else RunDu<TSym>(t, in.units);
			};
			if (w == "char") go(static_cast<char*>(nullptr)); else if (w == "char16") go(static_cast<char16_t*>(nullptr));
			else if (w == "char32") go(static_cast<char32_t*>(nullptr)); else go(static_cast<wchar_t*>(nullptr));
		}
		else if (target == "transcode") {
			if (in.sf == 8) RunUtf<char>(t, in.units, skip); else if (in.sf == 16) RunUtf<char16_t>(t, in.units, skip); else RunUtf<char32_t>(t, in.units, skip);
		}
		else RunEncStream(t, in.sf, in.units, medium == "mem" ? "sstream" : medium, skip);
		rb::g_acc.armed = false;
	}
	catch (...) { rb::g_acc.armed = false; bool isStd = true; exc = DescribeException(isStd); outcome = "NonStdException"; exc = "escaped:" + exc; }
	if (t.nonstd) { outcome = "NonStdException"; exc = t.lastExc; }
	else if (t.stdexc && outcome == "Completed") { outcome = t.returned ? "Completed" : "StdException"; exc = t.lastExc; }
	extra = ",\"calls\":" + std::to_string(t.calls) + ",\"threw\":" + std::to_string(t.stdexc);
#else
	const auto options = OptionsFor(pol);
	WithTarget(target, [&](auto* tag) {
		using T = std::remove_pointer_t<decltype(tag)>;
		try
		{
			// the caller's objects (target, stream holding a copy of the document) are created before the accounted region:
			// only what LoadObject itself requests is counted
			T value{};
			if (medium == "mem") {
				// exactly sized heap copy: in the sanitizer build the first byte behind the document is poisoned (a std::string
				// would leave readable slack: small-string buffer, capacity, terminating NUL)
				const size_t n = in.doc.size();
				std::unique_ptr<char[]> exact(new char[n ? n : 1]);
				std::memcpy(exact.get(), in.doc.data(), n);
				const std::string_view view(exact.get(), n);
				rb::g_acc.armed = true; LoadObject<TheArchive>(value, view, options); rb::g_acc.armed = false;
			}
			else if (medium == "sstream") {
				std::istringstream s(in.doc, std::ios::in | std::ios::binary);
				rb::g_acc.armed = true; LoadObject<TheArchive>(value, s, options); rb::g_acc.armed = false;
			}
			else {
				auto holder = vh::MakeStream(medium, in.doc);
				rb::g_acc.armed = true; LoadObject<TheArchive>(value, holder.get(), options); rb::g_acc.armed = false;
			}
		}
		catch (...) { rb::g_acc.armed = false; bool isStd = true; exc = DescribeException(isStd); outcome = isStd ? "StdException" : "NonStdException"; }
	});
#endif
	clock_gettime(CLOCK_PROCESS_CPUTIME_ID, &t1);
	const long long us = (t1.tv_sec - t0.tv_sec) * 1000000LL + (t1.tv_nsec - t0.tv_nsec) / 1000;
#if RB_SAN
	{
		// a recoverable check reported during this run: the run is a sanitizer observation although it went on
		const std::string rep = SummarizeReport(NewStderrText());
		if (!rep.empty()) { extra += ",\"was\":\"" + outcome + "\"," + rep; outcome = "Sanitizer"; exc = "recovered"; }
	}
#endif
	// the stream copy of the document is part of the harness, not of the loader: it is reported so that the judge can discount it
	fprintf(stdout, "{%s,\"o\":\"%s\",\"x\":\"%s\",\"acc\":\"%s\",\"pk\":%llu,\"tb\":%llu,\"na\":%llu,\"rf\":%llu,\"us\":%lld%s}\n", g_label, outcome.c_str(),
		vh::JsonEscape(exc).c_str(), RB_ACC, std::min<unsigned long long>(rb::g_acc.peak, 1ull << 30), std::min<unsigned long long>(rb::g_acc.total, 1ull << 30),
		rb::g_acc.count, rb::g_acc.refused, us, extra.c_str());
}

//------------------------------------------------------------------------------------------------
// Crash-contained runner
//------------------------------------------------------------------------------------------------
static std::string SanitizerSummary(const std::string& path)
{
	std::ifstream f(path, std::ios::binary);
	std::stringstream ss;
	ss << f.rdbuf();
	return SummarizeReport(ss.str(), true);
}

int main(int argc, char** argv)
{
	if (argc < 4 || std::string(argv[1]) != "run") { fprintf(stderr, "usage: robust_%s run <inputs.ndjson> <media-csv> [cpu-seconds] [targets-csv]\n", kPart); return 3; }
	const auto lines = vh::ReadLines(argv[2]);
	g_media = SplitCsv(argv[3]);
	const unsigned cpuSeconds = argc > 4 ? static_cast<unsigned>(atoi(argv[4])) : 10;
#if !defined(RB_CONV)
	for (const char* t : kTargets) g_targets.push_back(t);
	if (argc > 5 && std::string(argv[5]) != "all") g_targets = SplitCsv(argv[5]);
#endif
	// run table
	std::vector<Run> runs;
	std::vector<std::vector<std::string>> targetsOfInput(lines.size());
	{
		std::map<std::string, std::vector<std::string>> cache;
		for (size_t i = 0; i < lines.size(); ++i) {
			// only "fmt" is needed here; documents are expanded lazily in the child
			const size_t p = lines[i].find("\"fmt\":\"");
			if (p == std::string::npos) { fprintf(stderr, "input without fmt\n"); return 3; }
			const std::string fmt = lines[i].substr(p + 7, lines[i].find('"', p + 7) - (p + 7));
			if (!cache.count(fmt)) cache[fmt] = TargetsOf(fmt);
			targetsOfInput[i] = cache[fmt];
			for (size_t t = 0; t < targetsOfInput[i].size(); ++t)
				for (uint16_t p2 = 0; p2 < 2; ++p2)
					for (uint16_t m = 0; m < g_media.size(); ++m) {
#if defined(RB_CONV)
						if (targetsOfInput[i][t] != "encstream" && m > 0) continue;        // pure functions: the medium does not matter
						if (fmt != "utf" && p2 > 0) continue;                               // no policy argument
#endif
						runs.push_back({ static_cast<uint32_t>(i), static_cast<uint16_t>(t), p2, m });
					}
		}
	}
	{
		struct rlimit rl{};
		getrlimit(RLIMIT_STACK, &rl);
		g_stackLimit = rl.rlim_cur == RLIM_INFINITY ? (static_cast<size_t>(8) << 20) : static_cast<size_t>(rl.rlim_cur);
		pthread_attr_t attr;
		void* addr = nullptr; size_t size = 0;
		if (pthread_getattr_np(pthread_self(), &attr) == 0) { pthread_attr_getstack(&attr, &addr, &size); pthread_attr_destroy(&attr); }
		g_stackTop = addr ? reinterpret_cast<uintptr_t>(addr) + size : reinterpret_cast<uintptr_t>(&rl);
	}
	const std::string errPath = std::string(argv[2]) + ".stderr." + std::to_string(getpid());
	size_t next = 0;
	const size_t total = runs.size();
	auto labelOf = [&](const Run& r, char* buf, size_t n) {
		snprintf(buf, n, "\"i\":%u,\"t\":\"%s\",\"p\":\"%s\",\"m\":\"%s\"", r.input, targetsOfInput[r.input][r.target].c_str(), kPols[r.pol], g_media[r.medium].c_str());
	};
	// a defect that makes many runs hang must not make the whole batch take hours: after `maxHangs` watchdog hits the remaining
	// runs of this process are logged as "NotRun" (the check then reports the hangs and states the incomplete coverage)
	const unsigned maxHangs = getenv("RB_MAX_HANGS") ? static_cast<unsigned>(atoi(getenv("RB_MAX_HANGS"))) : 4;
	unsigned hangs = 0;
	while (next < total)
	{
		if (hangs >= maxHangs)
		{
			for (size_t r = next; r < total; ++r) {
				char label[256];
				labelOf(runs[r], label, sizeof label);
				fprintf(stdout, "{%s,\"o\":\"NotRun\",\"x\":\"\",\"acc\":\"%s\",\"pk\":0,\"tb\":0,\"na\":0}\n", label, RB_ACC);
			}
			break;
		}
		int fds[2];
		if (pipe(fds) != 0) return 3;
		fflush(stdout);
		const pid_t pid = fork();
		if (pid == 0)
		{
			close(fds[0]);
#if RB_SAN
			{ const int fd = open(errPath.c_str(), O_RDWR | O_CREAT | O_TRUNC, 0600); if (fd >= 0) { dup2(fd, 2); close(fd); } }
#else
			{ struct rlimit rl; rl.rlim_cur = rl.rlim_max = static_cast<rlim_t>(3) << 30; setrlimit(RLIMIT_AS, &rl); }
			{
				static char altstack[1 << 16];
				stack_t ss{}; ss.ss_sp = altstack; ss.ss_size = sizeof altstack; ss.ss_flags = 0;
				sigaltstack(&ss, nullptr);
				struct sigaction sa{}; sa.sa_sigaction = OnSegv; sa.sa_flags = SA_SIGINFO | SA_ONSTACK; sigemptyset(&sa.sa_mask);
				sigaction(SIGSEGV, &sa, nullptr); sigaction(SIGBUS, &sa, nullptr);
			}
#endif
			std::set_terminate(OnTerminate);
			signal(SIGPROF, OnCpuTimer);
			signal(SIGALRM, OnWallTimer);
			size_t cached = static_cast<size_t>(-1);
			Input in;
			for (size_t r = next; r < total; ++r)
			{
				const Run& run = runs[r];
#if RB_SAN
				// one child per input: UBSan reports each source location only once per process
				if (r > next && run.input != runs[next].input) { fflush(stdout); if (getenv("RB_LEAKCHECK") && __lsan_do_recoverable_leak_check()) _exit(45); _exit(46); }
#endif
				if (cached != run.input) { in = ParseInput(lines[run.input]); cached = run.input; }
				labelOf(run, g_label, sizeof g_label);
				const uint64_t cur = r;
				if (write(fds[1], &cur, sizeof cur) != sizeof cur) _exit(3);
				// CPU budget of one run: the base plus one second per 10 KB of input (only non-termination is a "Hang"; a long but
				// finite computation on a 400 KB document is not)
				const unsigned budget = cpuSeconds + static_cast<unsigned>((in.doc.size() + in.units.size()) / 10000);
				itimerval tv{}; tv.it_value.tv_sec = budget;
				setitimer(ITIMER_PROF, &tv, nullptr);
				alarm(budget * 12 + 60);
				ExecuteRun(in, targetsOfInput[run.input][run.target], kPols[run.pol], g_media[run.medium]);
				itimerval off{};
				setitimer(ITIMER_PROF, &off, nullptr);
				alarm(0);
				fflush(stdout);
			}
			fflush(stdout);
#if RB_SAN
			if (getenv("RB_LEAKCHECK") && __lsan_do_recoverable_leak_check()) _exit(45);
#endif
			_exit(0);
		}
		close(fds[1]);
		uint64_t last = next, cur = 0;
		bool any = false;
		while (read(fds[0], &cur, sizeof cur) == sizeof cur) { last = cur; any = true; }
		close(fds[0]);
		int status = 0;
		waitpid(pid, &status, 0);
		if (WIFEXITED(status) && WEXITSTATUS(status) == 0) break;
		if (!any) last = next;
		if (WIFEXITED(status) && WEXITSTATUS(status) == 46) { next = static_cast<size_t>(last) + 1; continue; }     // input finished, next child
		const bool selfReported = WIFEXITED(status) && (WEXITSTATUS(status) == 42 || WEXITSTATUS(status) == 43 || WEXITSTATUS(status) == 44);
		if (WIFEXITED(status) && WEXITSTATUS(status) == 43) ++hangs;
		if (!selfReported)
		{
			char label[256];
			labelOf(runs[last], label, sizeof label);
			std::string san;
#if RB_SAN
			san = SanitizerSummary(errPath);
#endif
			if (WIFEXITED(status) && WEXITSTATUS(status) == 45) {
				// all runs of this input completed; the leak check at the end of the child reported: logged as one more observation of the input
				fprintf(stdout, "{%s,\"o\":\"Sanitizer\",\"x\":\"leak-check\",\"acc\":\"%s\",\"pk\":0,\"tb\":0,\"na\":0,%s}\n", label, RB_ACC, san.empty() ? "\"kind\":\"leak\",\"file\":\"\",\"line\":0,\"report\":\"\"" : san.c_str());
				fflush(stdout);
				next = static_cast<size_t>(last) + 1;
				continue;
			}
			if (!san.empty()) fprintf(stdout, "{%s,\"o\":\"Sanitizer\",\"x\":\"report\",\"acc\":\"%s\",\"pk\":0,\"tb\":0,\"na\":0,%s,\"status\":%d}\n", label, RB_ACC, san.c_str(), status);
			else fprintf(stdout, "{%s,\"o\":\"Crash\",\"x\":\"%s\",\"acc\":\"%s\",\"pk\":0,\"tb\":0,\"na\":0,\"sig\":%d,\"stack\":false,\"status\":%d}\n", label,
				WIFSIGNALED(status) ? "signal" : "exit", RB_ACC, WIFSIGNALED(status) ? WTERMSIG(status) : 0, status);
			fflush(stdout);
		}
		next = static_cast<size_t>(last) + 1;
	}
	unlink(errPath.c_str());
	fprintf(stdout, "{\"done\":%zu}\n", total);
	return 0;
}
