// Fault-injection harness for the CSV archive (property C20):  csv_fault fault <scenarios.ndjson>
// Each line is a scenario chosen by the specification plus "fault":{"kind":..,"k":..}:
//   save: {"id","save":true,"stream":b,"rows":[[{"k":[bytes],"v":[bytes],"t":"s"|"i"},..],..],"opt":{..},"pol":{..}}
//   load: {"id","save":false,"stream":b,"doc":[bytes],"keys":[{"k":[bytes],"t":"s"|"i"},..],"opt":{..},"pol":{..}}
// kinds: probe | alloc (k-th operator new fails) | failat / throwat (input stream) | ofailat / othrowat (output stream).
// Every run is executed through the PUBLIC API (SaveObject / LoadObject<CsvArchive>) in a forked child; std::terminate, a hang
// or a crash are observations of the run (vh::ForkedRunner).  Nothing is judged here: spec/Trace_Faults.tla decides.
#include "vh_alloc.h"
#define VH_WITH_ALLOC 1
#include "vh_script.h"
#include "bitserializer/csv_archive.h"

namespace {

struct Cell { std::string key; std::string type; std::string sval; };

// observations of the load: one ["req", loaded, value] event per requested cell (the value is the prior one when not loaded)
std::string& Events() { static std::string s; return s; }

struct Row
{
	std::vector<Cell> cells;		// save: this row's own cells (texts)

	template <class TArchive>
	void Serialize(TArchive& archive)
	{
		if constexpr (TArchive::IsLoading())
		{
			for (const auto& c : *gLoadScript())
			{
				vh::WithType(c.type == "s" ? "str" : c.type == "i" ? "i32" : c.type, [&](auto* tag) {
					using T = std::remove_pointer_t<decltype(tag)>;
					if constexpr (std::is_arithmetic_v<T> || std::is_same_v<T, std::string>)
					{
						T target = vh::Prior<T>();
						const bool loaded = BitSerializer::Serialize(archive, c.key, target);
						if (Events().size() < (1u << 16)) Events() += std::string(Events().empty() ? "" : ",") + "[\"req\"," + (loaded ? "true" : "false") + "," + vh::Canon(target) + "]";
					}
					else { fprintf(stderr, "csv_fault: unsupported cell type\n"); exit(3); }
				});
			}
		}
		else
		{
			for (auto& c : cells) BitSerializer::Serialize(archive, c.key, c.sval);
		}
	}
	static const std::vector<Cell>*& gLoadScript() { static const std::vector<Cell>* p = nullptr; return p; }
};

std::vector<Cell> CellsFrom(const vh::JVal& arr)
{
	std::vector<Cell> out;
	for (const auto& c : arr.GetArray())
	{
		Cell cell;
		cell.key = vh::BytesFromJson(c["k"]);
		cell.type = c.HasMember("t") ? c["t"].GetString() : "s";
		if (c.HasMember("v")) cell.sval = vh::BytesFromJson(c["v"]);
		out.push_back(std::move(cell));
	}
	return out;
}

std::string RunCsvFault(const vh::JVal& scn, const std::string& kind, long long k)
{
	using namespace vh;
	std::string exc;
	exc.reserve(1 << 12);
	exc = "[\"none\"]";
	Events().clear();
	Events().reserve(1 << 16);
	const auto options = OptionsFrom(scn);
	const bool isSave = scn["save"].GetBool();
	const bool wantStream = scn.HasMember("stream") && scn["stream"].GetBool();
	TerminateContext() = std::string(scn["id"].GetString()) + "/" + kind + "/" + std::to_string(k);
	long long liveBefore = 0, liveAfter = 0, allocsInCall = 0;
	bool streamBad = false;
	size_t produced = 0, faultHits = 0, rowsLoaded = 0;
	// everything the scenario needs is prepared before the measured call
	std::vector<Row> saveRows;
	std::vector<Cell> loadScript;
	std::string doc;
	if (isSave) { for (const auto& r : scn["rows"].GetArray()) { Row row; row.cells = CellsFrom(r); saveRows.push_back(std::move(row)); } }
	else { loadScript = CellsFrom(scn["keys"]); Row::gLoadScript() = &loadScript; doc = BytesFromJson(scn["doc"]); }
	{
		std::unique_ptr<FailingOutBuf> obuf;
		std::unique_ptr<std::ostream> ostr;
		StreamHolder holder;
		std::string outMem;		// not pre-reserved: growing the caller's output string is a fault point of the save
		std::vector<Row> loaded;
		const bool streamIn = !isSave && (kind == "failat" || kind == "throwat" || wantStream);
		const bool streamOut = isSave && (kind == "ofailat" || kind == "othrowat" || wantStream);
		if (streamIn) holder = MakeStream(kind == "failat" || kind == "throwat" ? kind : "short3", doc, static_cast<size_t>(k));
		if (streamOut) { obuf = std::make_unique<FailingOutBuf>(kind == "ofailat" || kind == "othrowat" ? static_cast<size_t>(k) : static_cast<size_t>(-1), kind == "othrowat"); ostr = std::make_unique<std::ostream>(obuf.get());
			if (scn.HasMember("oexc") && scn["oexc"].GetBool()) ostr->exceptions(std::ios_base::badbit | std::ios_base::failbit); }
		liveBefore = AllocLive();
		vh::ScopeRecordStart();
		AllocArm(kind == "alloc" ? k : -1);
		try
		{
			if (isSave) { if (streamOut) BitSerializer::SaveObject<BitSerializer::Csv::CsvArchive>(saveRows, *ostr, options); else BitSerializer::SaveObject<BitSerializer::Csv::CsvArchive>(saveRows, outMem, options); }
			else { if (streamIn) BitSerializer::LoadObject<BitSerializer::Csv::CsvArchive>(loaded, holder.get(), options); else BitSerializer::LoadObject<BitSerializer::Csv::CsvArchive>(loaded, doc, options); }
			allocsInCall = AllocSinceArm();
			AllocDisarm();
		}
		catch (...) { allocsInCall = AllocSinceArm(); AllocDisarm(); exc = DescribeException(); }
		vh::ScopeRecordStop();
		rowsLoaded = loaded.size();
		{ std::vector<Row>().swap(loaded); }
		if (isSave && !streamOut) produced = outMem.size();
		{ std::string().swap(outMem); }
		if (ostr) { streamBad = ostr->fail(); produced = obuf->data.size(); faultHits = obuf->failHits; }
		if (holder.scripted) faultHits = holder.scripted->failHits;
		if (holder.stream) streamBad = holder.stream->bad();
		// the partly loaded target was destroyed above; streams and buffers existed before the call and are destroyed at the end of this block
		liveAfter = AllocLive();
	}
	return "{\"kind\":\"" + kind + "\",\"k\":" + std::to_string(k) + ",\"save\":" + (isSave ? "true" : "false") + ",\"exc\":" + exc +
		",\"leak\":" + std::to_string(liveAfter - liveBefore) + ",\"allocs\":" + std::to_string(allocsInCall) + ",\"produced\":" + std::to_string(produced) +
		",\"hits\":" + std::to_string(faultHits) + ",\"streambad\":" + (streamBad ? "true" : "false") + ",\"rows\":" + std::to_string(rowsLoaded) + ",\"ev\":[" + Events() + "],\"sc\":" + vh::ScopeEventsJson() + "}";
}

}

int main(int argc, char** argv)
{
	if (argc < 3 || std::string(argv[1]) != "fault") { fprintf(stderr, "usage: csv_fault fault <file>\n"); return 3; }
	const auto flines = vh::ReadLines(argv[2]);
	return vh::ForkedRunner(flines.size(), [&](size_t r) {
		rapidjson::Document scn;
		scn.Parse(flines[r].c_str());
		const std::string res = RunCsvFault(scn, scn["fault"]["kind"].GetString(), scn["fault"]["k"].GetInt64());
		fprintf(stdout, "{\"run\":%zu,\"id\":\"%s\",%s\n", r, scn["id"].GetString(), res.c_str() + 1);
	});
}
