// Conformance harness for the CSV archive (property C09).
//   csv_harness run <scenarios.ndjson> [first-line-index]
// Executes scenarios chosen by the TLA+ specification on the REAL code and logs what happened, one JSON object per
// scenario.  It never judges: spec/Trace_Csv.tla decides every record.
//
//   op "save"    SaveObject<CsvArchive>(std::vector<ScriptedRow> | std::vector<std::map<string,string>>) to std::string or
//                to std::ostream (5 encodings x BOM); logs the bytes produced.
//   op "load"    LoadObject<CsvArchive>(...) from std::string or std::istream (stream kinds of vh_common.h), by-name reads
//                in the requested key order, or the reader classes used positionally; logs rows / exception code, and the
//                bytes that were fed (the specification decodes these itself).
//   op "wdirect" CCsvStringWriter / CCsvStreamWriter driven directly (rows of different widths); logs text and exception.
// A watchdog turns a hang into an observation ({"hang":true}) and ends the process with exit code 43; std::terminate is
// logged by the common terminate handler (exit code 42).  The driver restarts the harness behind the offending scenario.
#include "vh_common.h"
#include <csignal>
#include <map>
#include <typeinfo>
#include "bitserializer/bit_serializer.h"
#include "bitserializer/csv_archive.h"
#include "bitserializer/types/std/vector.h"
#include "bitserializer/types/std/map.h"
#include "csv/csv_readers.h"
#include "csv/csv_writers.h"

using namespace BitSerializer;
using BitSerializer::Csv::CsvArchive;
namespace CsvDetail = BitSerializer::Csv::Detail;

//-----------------------------------------------------------------------------
// code points -> bytes (input construction only; the specification decodes the bytes that were really fed)
//-----------------------------------------------------------------------------
using CodePoints = std::vector<uint32_t>;

static void AppendUtf8(std::string& o, uint32_t c)
{
	if (c < 0x80) o += static_cast<char>(c);
	else if (c < 0x800) { o += static_cast<char>(0xC0 | (c >> 6)); o += static_cast<char>(0x80 | (c & 0x3F)); }
	else if (c < 0x10000) { o += static_cast<char>(0xE0 | (c >> 12)); o += static_cast<char>(0x80 | ((c >> 6) & 0x3F)); o += static_cast<char>(0x80 | (c & 0x3F)); }
	else { o += static_cast<char>(0xF0 | (c >> 18)); o += static_cast<char>(0x80 | ((c >> 12) & 0x3F)); o += static_cast<char>(0x80 | ((c >> 6) & 0x3F)); o += static_cast<char>(0x80 | (c & 0x3F)); }
}

static std::string Utf8(const CodePoints& cps)
{
	std::string o;
	for (auto c : cps) AppendUtf8(o, c);
	return o;
}

static void Put16(std::string& o, uint32_t u, bool be)
{
	if (be) { o += static_cast<char>(u >> 8); o += static_cast<char>(u & 0xFF); }
	else { o += static_cast<char>(u & 0xFF); o += static_cast<char>(u >> 8); }
}

static std::string Encode(const CodePoints& cps, const std::string& enc, bool bom)
{
	std::string o;
	if (enc == "utf8") { if (bom) o += "\xEF\xBB\xBF"; o += Utf8(cps); return o; }
	if (enc == "utf16le" || enc == "utf16be") {
		const bool be = enc == "utf16be";
		if (bom) Put16(o, 0xFEFF, be);
		for (auto c : cps) {
			if (c < 0x10000) Put16(o, c, be);
			else { Put16(o, 0xD800 + ((c - 0x10000) >> 10), be); Put16(o, 0xDC00 + ((c - 0x10000) & 0x3FF), be); }
		}
		return o;
	}
	if (enc == "utf32le" || enc == "utf32be") {
		const bool be = enc == "utf32be";
		auto put = [&](uint32_t c) {
			for (int i = 0; i < 4; ++i) o += static_cast<char>((c >> (be ? 24 - 8 * i : 8 * i)) & 0xFF);
		};
		if (bom) put(0xFEFF);
		for (auto c : cps) put(c);
		return o;
	}
	fprintf(stderr, "unknown encoding %s\n", enc.c_str());
	exit(3);
}

static Convert::Utf::UtfType UtfTypeOf(const std::string& enc)
{
	using Convert::Utf::UtfType;
	if (enc == "utf8") return UtfType::Utf8;
	if (enc == "utf16le") return UtfType::Utf16le;
	if (enc == "utf16be") return UtfType::Utf16be;
	if (enc == "utf32le") return UtfType::Utf32le;
	if (enc == "utf32be") return UtfType::Utf32be;
	fprintf(stderr, "unknown encoding %s\n", enc.c_str());
	exit(3);
}

template <class TVal>
static CodePoints CpsFromJson(const TVal& arr)
{
	CodePoints r;
	for (auto& v : arr.GetArray()) r.push_back(v.GetUint());
	return r;
}

static const char* CodeName(SerializationErrorCode c)
{
	switch (c) {
	case SerializationErrorCode::InvalidOptions: return "InvalidOptions";
	case SerializationErrorCode::ParsingError: return "ParsingError";
	case SerializationErrorCode::InputOutputError: return "InputOutputError";
	case SerializationErrorCode::UnsupportedEncoding: return "UnsupportedEncoding";
	case SerializationErrorCode::UtfEncodingError: return "UtfEncodingError";
	case SerializationErrorCode::OutOfRange: return "OutOfRange";
	case SerializationErrorCode::Overflow: return "Overflow";
	case SerializationErrorCode::MismatchedTypes: return "MismatchedTypes";
	case SerializationErrorCode::FailedValidation: return "FailedValidation";
	case SerializationErrorCode::UnregisteredEnum: return "UnregisteredEnum";
	}
	return "UnknownCode";
}

//-----------------------------------------------------------------------------
// The scripted class: which keys it serializes, and in which order, is decided by the scenario at run time
//-----------------------------------------------------------------------------
struct Script { std::vector<std::string> keys; };
static const Script* gScript = nullptr;

struct ScriptedRow
{
	std::vector<std::string> vals;
	std::vector<char> loaded;

	template <class TArchive>
	void Serialize(TArchive& archive)
	{
		const auto& keys = gScript->keys;
		vals.resize(keys.size());
		loaded.assign(keys.size(), 0);
		for (size_t i = 0; i < keys.size(); ++i)
		{
			const bool ok = BitSerializer::Serialize(archive, keys[i], vals[i]);
			loaded[i] = ok ? 1 : 0;
		}
	}
};

//-----------------------------------------------------------------------------
static std::string gCurrentId;

static void OnAlarm(int)
{
	// async-signal-safe enough for a test harness: format into a static buffer, write(2), _exit
	static char buf[512];
	const int n = snprintf(buf, sizeof buf, "{\"id\":\"%s\",\"hang\":true}\n", gCurrentId.c_str());
	fflush(stdout);
	if (n > 0) { ssize_t r = write(1, buf, static_cast<size_t>(n)); (void)r; }
	_exit(43);
}

template <class TFn>
static std::string Guarded(TFn&& fn)
{
	try { fn(); return ""; }
	catch (const SerializationException& ex) { return CodeName(ex.GetErrorCode()); }
	catch (const std::out_of_range&) { return "std::out_of_range"; }
	catch (const std::bad_alloc&) { return "std::bad_alloc"; }
	catch (const std::exception&) { return "std::exception"; }
	catch (...) { return "unknown"; }
}

static std::string RowsJson(const std::vector<std::vector<std::pair<bool, std::string>>>& rows)
{
	std::string o = "[";
	for (size_t i = 0; i < rows.size(); ++i) {
		if (i) o += ',';
		o += '[';
		for (size_t j = 0; j < rows[i].size(); ++j) {
			if (j) o += ',';
			o += std::string("{\"l\":") + (rows[i][j].first ? "true" : "false") + ",\"v\":" + vh::BytesJson(rows[i][j].second) + "}";
		}
		o += ']';
	}
	return o + "]";
}

static std::string CpsJson(const CodePoints& c)
{
	std::string o = "[";
	for (size_t i = 0; i < c.size(); ++i) { if (i) o += ','; o += std::to_string(c[i]); }
	return o + "]";
}

//-----------------------------------------------------------------------------
static void RunSave(const rapidjson::Document& d)
{
	const char sep = static_cast<char>(d["sep"].GetInt());
	const std::string target = d["target"].GetString();
	const std::string enc = d["enc"].GetString();
	const bool bom = d["bom"].GetBool();
	const std::string api = d["api"].GetString();
	Script script;
	for (auto& h : d["hdr"].GetArray()) script.keys.push_back(Utf8(CpsFromJson(h)));
	std::vector<std::vector<std::string>> cells;
	for (auto& r : d["rows"].GetArray()) {
		cells.emplace_back();
		for (auto& c : r.GetArray()) cells.back().push_back(Utf8(CpsFromJson(c)));
	}
	SerializationOptions options;
	options.valuesSeparator = sep;
	options.streamOptions.encoding = UtfTypeOf(enc);
	options.streamOptions.writeBom = bom;

	std::string out;
	gScript = &script;
	const std::string exc = Guarded([&] {
		std::ostringstream os(std::ios::out | std::ios::binary);
		if (api == "class") {
			std::vector<ScriptedRow> rows(cells.size());
			for (size_t i = 0; i < cells.size(); ++i) rows[i].vals = cells[i];
			if (target == "mem") BitSerializer::SaveObject<CsvArchive>(rows, out, options);
			else { BitSerializer::SaveObject<CsvArchive>(rows, os, options); out = os.str(); }
		}
		else {
			std::vector<std::map<std::string, std::string>> rows(cells.size());
			for (size_t i = 0; i < cells.size(); ++i)
				for (size_t j = 0; j < script.keys.size(); ++j) rows[i][script.keys[j]] = cells[i][j];
			if (target == "mem") BitSerializer::SaveObject<CsvArchive>(rows, out, options);
			else { BitSerializer::SaveObject<CsvArchive>(rows, os, options); out = os.str(); }
		}
	});
	gScript = nullptr;
	printf("{\"id\":\"%s\",\"op\":\"save\",\"exc\":\"%s\",\"out\":%s}\n", gCurrentId.c_str(), exc.c_str(), vh::BytesJson(out).c_str());
}

//-----------------------------------------------------------------------------
template <class TReader>
static void ReadPositional(TReader& reader, std::vector<std::vector<std::pair<bool, std::string>>>& rows)
{
	while (reader.ParseNextRow())
	{
		rows.emplace_back();
		for (int guard = 0; guard < 4096; ++guard)
		{
			std::string_view v;
			try { reader.ReadValue(v); }
			catch (const SerializationException& ex) {
				if (ex.GetErrorCode() == SerializationErrorCode::OutOfRange) break;   // end of the row
				throw;
			}
			rows.back().emplace_back(true, std::string(v));
		}
	}
}

static void RunLoad(const rapidjson::Document& d)
{
	const char sep = static_cast<char>(d["sep"].GetInt());
	const std::string src = d["src"].GetString();
	const std::string enc = d["enc"].GetString();
	const bool bom = d["bom"].GetBool();
	const std::string api = d["api"].GetString();
	const CodePoints text = CpsFromJson(d["text"]);
	const std::string fed = Encode(text, enc, bom);
	Script script;
	if (d.HasMember("keys")) for (auto& h : d["keys"].GetArray()) script.keys.push_back(Utf8(CpsFromJson(h)));
	SerializationOptions options;
	options.valuesSeparator = sep;

	std::vector<std::vector<std::pair<bool, std::string>>> rows;
	gScript = &script;
	const std::string exc = Guarded([&] {
		vh::StreamHolder holder;
		if (src != "mem") holder = vh::MakeStream(src, fed);
		if (api == "class") {
			std::vector<ScriptedRow> loaded;
			if (src == "mem") BitSerializer::LoadObject<CsvArchive>(loaded, fed, options);
			else BitSerializer::LoadObject<CsvArchive>(loaded, holder.get(), options);
			for (auto& x : loaded) { rows.emplace_back(); for (size_t j = 0; j < x.vals.size(); ++j) rows.back().emplace_back(x.loaded[j] != 0, x.vals[j]); }
		}
		else if (api == "map") {
			std::vector<std::map<std::string, std::string>> loaded;
			if (src == "mem") BitSerializer::LoadObject<CsvArchive>(loaded, fed, options);
			else BitSerializer::LoadObject<CsvArchive>(loaded, holder.get(), options);
			// a row is logged as key,value,key,value... in map order; the specification compares it as a set of pairs
			for (auto& m : loaded) { rows.emplace_back(); for (auto& kv : m) { rows.back().emplace_back(true, kv.first); rows.back().emplace_back(true, kv.second); } }
		}
		else {
			const bool withHeader = api == "pos";
			if (src == "mem") { CsvDetail::CCsvStringReader reader(fed, withHeader, sep); ReadPositional(reader, rows); }
			else { CsvDetail::CCsvStreamReader reader(holder.get(), withHeader, sep); ReadPositional(reader, rows); }
		}
	});
	gScript = nullptr;
	if (!exc.empty()) rows.clear();
	printf("{\"id\":\"%s\",\"op\":\"load\",\"chunk\":%u,\"n\":%u,\"fed\":%s,\"exc\":\"%s\",\"rows\":%s}\n", gCurrentId.c_str(),
		static_cast<unsigned>(Convert::Utf::CEncodedStreamReader<char>::chunk_size), static_cast<unsigned>(text.size()),
		vh::BytesJson(fed).c_str(), exc.c_str(), RowsJson(rows).c_str());
}

//-----------------------------------------------------------------------------
static void RunWriterDirect(const rapidjson::Document& d)
{
	const char sep = static_cast<char>(d["sep"].GetInt());
	const std::string kind = d["kind"].GetString();
	std::string out;
	std::ostringstream os(std::ios::out | std::ios::binary);
	int failedRow = -1;
	const std::string exc = Guarded([&] {
		std::unique_ptr<Csv::Detail::ICsvWriter> writer;
		if (kind == "string") writer = std::make_unique<CsvDetail::CCsvStringWriter>(out, true, sep);
		else writer = std::make_unique<CsvDetail::CCsvStreamWriter>(os, true, sep, Convert::Utf::UtfEncodingErrorPolicy::ThrowError, StreamOptions{ false, Convert::Utf::UtfType::Utf8 });
		int i = 0;
		for (auto& obj : d["objs"].GetArray()) {
			for (auto& kv : obj.GetArray()) {
				const std::string k = Utf8(CpsFromJson(kv[0])), v = Utf8(CpsFromJson(kv[1]));
				writer->WriteValue(k, v);
			}
			failedRow = i;
			writer->NextLine();
			failedRow = -1;
			++i;
		}
	});
	if (kind != "string") out = os.str();
	printf("{\"id\":\"%s\",\"op\":\"wdirect\",\"exc\":\"%s\",\"row\":%d,\"out\":%s}\n", gCurrentId.c_str(), exc.c_str(), failedRow, vh::BytesJson(out).c_str());
}

int main(int argc, char** argv)
{
	vh::InstallTerminateHandler();
	signal(SIGALRM, OnAlarm);
	if (argc >= 3 && std::string(argv[1]) == "run")
	{
		const size_t first = argc >= 4 ? static_cast<size_t>(atoll(argv[3])) : 0;
		const auto lines = vh::ReadLines(argv[2]);
		for (size_t i = first; i < lines.size(); ++i)
		{
			rapidjson::Document d;
			d.Parse(lines[i].c_str());
			if (d.HasParseError()) { fprintf(stderr, "bad scenario line %zu\n", i); return 3; }
			gCurrentId = d["id"].GetString();
			vh::TerminateContext() = gCurrentId;
			const std::string op = d["op"].GetString();
			alarm(5);
			if (op == "save") RunSave(d);
			else if (op == "load") RunLoad(d);
			else if (op == "wdirect") RunWriterDirect(d);
			else { fprintf(stderr, "unknown op %s\n", op.c_str()); return 3; }
			alarm(0);
			fflush(stdout);
		}
		return 0;
	}
	fprintf(stderr, "usage: csv_harness run <scenarios.ndjson> [first]\n");
	return 3;
}
