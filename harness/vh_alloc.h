// Counting / failing global allocator for fault enumeration (C20) and allocation accounting (C02).
// Include in exactly one translation unit of a harness.
#pragma once
#include <cstdlib>
#include <new>

namespace vh {
struct AllocState
{
	long long allocs = 0;      // blocks allocated since start
	long long frees = 0;       // blocks freed
	long long bytes = 0;       // bytes requested (cumulative)
	long long peakReq = 0;     // largest single request
	long long failAt = -1;     // fail the allocation with this ordinal (counted from `base`), -1 = never
	long long base = 0;
	bool armed = false;
};
inline AllocState& Alloc() { static AllocState s; return s; }
inline void AllocArm(long long failAt) { auto& a = Alloc(); a.base = a.allocs; a.failAt = failAt; a.peakReq = 0; a.armed = true; }
inline void AllocDisarm() { Alloc().armed = false; }
inline long long AllocLive() { return Alloc().allocs - Alloc().frees; }
inline long long AllocSinceArm() { return Alloc().allocs - Alloc().base; }
}

void* operator new(std::size_t n)
{
	auto& a = vh::Alloc();
	if (a.armed)
	{
		if (a.failAt >= 0 && a.allocs - a.base == a.failAt) { ++a.allocs; ++a.frees; throw std::bad_alloc(); }
		if (static_cast<long long>(n) > a.peakReq) a.peakReq = static_cast<long long>(n);
	}
	void* p = std::malloc(n ? n : 1);
	if (!p) throw std::bad_alloc();
	++a.allocs;
	a.bytes += static_cast<long long>(n);
	return p;
}
void* operator new[](std::size_t n) { return operator new(n); }
void operator delete(void* p) noexcept { if (p) { ++vh::Alloc().frees; std::free(p); } }
void operator delete[](void* p) noexcept { operator delete(p); }
void operator delete(void* p, std::size_t) noexcept { operator delete(p); }
void operator delete[](void* p, std::size_t) noexcept { operator delete(p); }
