// Runtime-scripted Serialize(): a scenario chosen by the TLA+ specification (keys, target kinds, nested scopes,
// VisitKeys, request order) is interpreted through the PUBLIC API of BitSerializer, on any archive.
// Every public call is logged with its observable result; nothing is judged here.
#pragma once
#include "vh_common.h"
#include "bitserializer/bit_serializer.h"
#include "bitserializer/types/std/vector.h"
#include "bitserializer/types/std/map.h"
#include "bitserializer/types/std/chrono.h"
#include "bitserializer/types/std/optional.h"
#include "bitserializer/types/std/memory.h"
#include "bitserializer/types/std/pair.h"
#include "bitserializer/types/std/tuple.h"
#include "bitserializer/types/std/set.h"
#include "bitserializer/types/std/array.h"
#include "bitserializer/types/std/deque.h"
#include "bitserializer/types/std/list.h"
#include "bitserializer/types/std/atomic.h"
#include <array>
#include <atomic>
#include <deque>
#include <list>
#include <memory>
#include <set>
#include <tuple>
#include <chrono>
#include <cstdint>
#include <map>
#include <optional>
#include <variant>

enum class VhColor { Red, Green, Blue };		// (the registration macro needs an unqualified type name)
REGISTER_ENUM(VhColor, {
	{ VhColor::Red, "Red" }, { VhColor::Green, "Green" }, { VhColor::Blue, "Blue" }
})
namespace vh { using Color = ::VhColor; }

namespace vh {

using JVal = rapidjson::Value;

//-----------------------------------------------------------------------------
// Canonical rendering of C++ values as "tagged tuple" JSON (the value ADT of spec/MsgPackFormat.tla)
//-----------------------------------------------------------------------------
inline std::string Mag8(uint64_t m)
{
	std::string o = "[";
	for (int i = 7; i >= 0; --i) { o += std::to_string((m >> (8 * i)) & 0xFF); if (i) o += ','; }
	return o + "]";
}
inline std::string CanonInt(bool neg, uint64_t mag) { return std::string("[\"int\",") + (neg ? "true" : "false") + "," + Mag8(mag) + "]"; }

template <typename T, std::enable_if_t<std::is_integral_v<T> && !std::is_same_v<T, bool>, int> = 0>
std::string Canon(const T& v)
{
	if constexpr (std::is_signed_v<T>) {
		if (v < 0) return CanonInt(true, static_cast<uint64_t>(0) - static_cast<uint64_t>(static_cast<int64_t>(v)));
	}
	return CanonInt(false, static_cast<uint64_t>(v));
}
inline std::string Canon(const bool& v) { return v ? "[\"bool\",true]" : "[\"bool\",false]"; }
inline std::string Canon(const std::nullptr_t&) { return "[\"nil\"]"; }
inline std::string Canon(const float& v)
{
	uint32_t b; std::memcpy(&b, &v, 4);
	return "[\"f32\",[" + std::to_string(b >> 24) + "," + std::to_string((b >> 16) & 255) + "," + std::to_string((b >> 8) & 255) + "," + std::to_string(b & 255) + "]]";
}
inline std::string Canon(const double& v)
{
	uint64_t b; std::memcpy(&b, &v, 8);
	return "[\"f64\"," + Mag8(b) + "]";
}
inline std::string Canon(const std::string& v) { return "[\"str\"," + BytesJson(v) + "]"; }
// The harness' own conversion between UTF-8 and code points (independent of the library; texts of the specification's corpora are valid):
// wide string targets ("u16str", "u32str") are reported as the UTF-8 text they hold, so that they compare with the abstract "str" value.
inline std::u32string CpsFromUtf8(const std::string& s)
{
	std::u32string out;
	for (size_t i = 0; i < s.size();)
	{
		const unsigned char c = static_cast<unsigned char>(s[i]);
		const int n = c < 0x80 ? 1 : c < 0xE0 ? 2 : c < 0xF0 ? 3 : 4;
		char32_t cp = n == 1 ? c : n == 2 ? (c & 0x1F) : n == 3 ? (c & 0x0F) : (c & 0x07);
		for (int j = 1; j < n && i + j < s.size(); ++j) cp = (cp << 6) | (static_cast<unsigned char>(s[i + j]) & 0x3F);
		out.push_back(cp);
		i += static_cast<size_t>(n);
	}
	return out;
}
inline std::string Utf8FromCps(const std::u32string& cps)
{
	std::string o;
	for (char32_t cp : cps)
	{
		if (cp < 0x80) o.push_back(static_cast<char>(cp));
		else if (cp < 0x800) { o.push_back(static_cast<char>(0xC0 | (cp >> 6))); o.push_back(static_cast<char>(0x80 | (cp & 0x3F))); }
		else if (cp < 0x10000) { o.push_back(static_cast<char>(0xE0 | (cp >> 12))); o.push_back(static_cast<char>(0x80 | ((cp >> 6) & 0x3F))); o.push_back(static_cast<char>(0x80 | (cp & 0x3F))); }
		else { o.push_back(static_cast<char>(0xF0 | (cp >> 18))); o.push_back(static_cast<char>(0x80 | ((cp >> 12) & 0x3F))); o.push_back(static_cast<char>(0x80 | ((cp >> 6) & 0x3F))); o.push_back(static_cast<char>(0x80 | (cp & 0x3F))); }
	}
	return o;
}
inline std::u16string Utf16FromCps(const std::u32string& cps)
{
	std::u16string o;
	for (char32_t cp : cps)
	{
		if (cp < 0x10000) o.push_back(static_cast<char16_t>(cp));
		else { cp -= 0x10000; o.push_back(static_cast<char16_t>(0xD800 + (cp >> 10))); o.push_back(static_cast<char16_t>(0xDC00 + (cp & 0x3FF))); }
	}
	return o;
}
inline std::u32string CpsFromUtf16(const std::u16string& s)
{
	std::u32string o;
	for (size_t i = 0; i < s.size(); ++i)
	{
		const char32_t u = s[i];
		if (u >= 0xD800 && u < 0xDC00 && i + 1 < s.size() && s[i + 1] >= 0xDC00 && s[i + 1] < 0xE000) { o.push_back(0x10000 + ((u - 0xD800) << 10) + (s[i + 1] - 0xDC00)); ++i; }
		else o.push_back(u);
	}
	return o;
}
inline std::string Canon(const std::u16string& v) { return "[\"str\"," + BytesJson(Utf8FromCps(CpsFromUtf16(v))) + "]"; }
inline std::string Canon(const std::u32string& v) { return "[\"str\"," + BytesJson(Utf8FromCps(v)) + "]"; }
// time as (seconds, nanoseconds) of the count since epoch, floor division: a pure re-representation of count()
template <class TRep, class TPeriod>
std::string Canon(const std::chrono::duration<TRep, TPeriod>& d)
{
	using namespace std::chrono;
	if constexpr (std::ratio_less_v<TPeriod, std::ratio<1>>) {
		const int64_t per = TPeriod::den / TPeriod::num;          // units per second
		const int64_t c = static_cast<int64_t>(d.count());
		int64_t s = c / per, r = c % per;
		if (r < 0) { r += per; s -= 1; }
		return "[\"ts\"," + std::string(s < 0 ? "true" : "false") + "," + Mag8(s < 0 ? 0 - static_cast<uint64_t>(s) : static_cast<uint64_t>(s)) + "," + std::to_string(static_cast<int64_t>((static_cast<__int128>(r) * 1000000000) / per)) + "]";	// exact also for periods that do not divide 10^9
	}
	else {
		// coarser than or equal to seconds: log the raw count and the unit (seconds per tick)
		const int64_t c = static_cast<int64_t>(d.count());
		return "[\"dur\"," + std::to_string(TPeriod::num / TPeriod::den) + "," + CanonInt(c < 0, c < 0 ? 0 - static_cast<uint64_t>(c) : static_cast<uint64_t>(c)) + "]";
	}
}
template <class TClock, class TDur>
std::string Canon(const std::chrono::time_point<TClock, TDur>& tp) { return Canon(tp.time_since_epoch()); }

template <class T> std::string Canon(const std::vector<T>& v);
template <class K, class V> std::string Canon(const std::map<K, V>& m);
// further std types are reported as the abstract document value they are serialized as (see LoadScript!TypeAlias)
template <class T> std::string Canon(const std::optional<T>& v) { return v ? Canon(*v) : std::string("[\"nil\"]"); }
template <class T> std::string Canon(const std::unique_ptr<T>& v) { return v ? Canon(*v) : std::string("[\"nil\"]"); }
template <class T> std::string Canon(const std::shared_ptr<T>& v) { return v ? Canon(*v) : std::string("[\"nil\"]"); }
template <class T> std::string Canon(const std::atomic<T>& v) { return Canon(v.load()); }
inline std::string Canon(const std::wstring& v)
{
	std::u32string cps;
	if constexpr (sizeof(wchar_t) == 4) { for (wchar_t c : v) cps.push_back(static_cast<char32_t>(c)); }
	else { std::u16string u; for (wchar_t c : v) u.push_back(static_cast<char16_t>(c)); cps = CpsFromUtf16(u); }
	return "[\"str\"," + BytesJson(Utf8FromCps(cps)) + "]";
}
inline std::string Canon(const Color& v) { return std::string("[\"str\",") + BytesJson(v == Color::Red ? "Red" : v == Color::Green ? "Green" : "Blue") + "]"; }
template <class TSeq> std::string CanonSeq(const TSeq& v)
{
	std::string o = "[\"arr\",[";
	bool first = true;
	for (const auto& e : v) { if (!first) o += ','; first = false; o += Canon(e); }
	return o + "]]";
}
template <class T> std::string Canon(const std::set<T>& v) { return CanonSeq(v); }
template <class T> std::string Canon(const std::deque<T>& v) { return CanonSeq(v); }
template <class T> std::string Canon(const std::list<T>& v) { return CanonSeq(v); }
template <class T, size_t N> std::string Canon(const std::array<T, N>& v) { return CanonSeq(v); }
template <class A, class B> std::string Canon(const std::pair<A, B>& v)
{
	return "[\"map\",[[[\"str\"," + BytesJson("key") + "]," + Canon(v.first) + "],[[\"str\"," + BytesJson("value") + "]," + Canon(v.second) + "]]]";
}
template <class A, class B, class C> std::string Canon(const std::tuple<A, B, C>& v)
{
	return "[\"arr\",[" + Canon(std::get<0>(v)) + "," + Canon(std::get<1>(v)) + "," + Canon(std::get<2>(v)) + "]]";
}

template <class T> std::string Canon(const std::vector<T>& v)
{
	if constexpr (sizeof(T) == 1 && std::is_integral_v<T> && !std::is_same_v<T, bool>) {
		return "[\"bin\"," + BytesJson(std::string(reinterpret_cast<const char*>(v.data()), v.size())) + "]";
	}
	else {
		std::string o = "[\"arr\",[";
		bool first = true;
		for (const auto& e : v) { if (!first) o += ','; first = false; if constexpr (std::is_same_v<T, bool>) o += Canon(static_cast<bool>(e)); else o += Canon(e); }
		return o + "]]";
	}
}
template <class K, class V> std::string Canon(const std::map<K, V>& m)
{
	std::string o = "[\"map\",[";
	bool first = true;
	for (const auto& kv : m) { if (!first) o += ','; first = false; o += "[" + Canon(kv.first) + "," + Canon(kv.second) + "]"; }
	return o + "]]";
}

//-----------------------------------------------------------------------------
// Target catalogue: named C++ types with a recognisable prior value ("target keeps its previous value")
//-----------------------------------------------------------------------------
template <class T> T Prior()
{
	if constexpr (std::is_same_v<T, bool>) return true;
	else if constexpr (std::is_same_v<T, std::nullptr_t>) return nullptr;
	else if constexpr (std::is_integral_v<T>) return static_cast<T>(77);
	else if constexpr (std::is_floating_point_v<T>) return static_cast<T>(7.5);
	else if constexpr (std::is_same_v<T, std::string>) return "prior";
	else if constexpr (std::is_same_v<T, std::u16string>) return u"prior";
	else if constexpr (std::is_same_v<T, std::u32string>) return U"prior";
	else return T{};
}

using TpNs = std::chrono::time_point<std::chrono::system_clock, std::chrono::nanoseconds>;
using TpMs = std::chrono::time_point<std::chrono::system_clock, std::chrono::milliseconds>;
using TpS = std::chrono::time_point<std::chrono::system_clock, std::chrono::seconds>;

// Calls f(T*) with the C++ type named by the scenario
template <class F>
void WithType(const std::string& t, F&& f)
{
	if (t == "bool") f(static_cast<bool*>(nullptr));
	else if (t == "i8") f(static_cast<int8_t*>(nullptr));
	else if (t == "u8") f(static_cast<uint8_t*>(nullptr));
	else if (t == "i16") f(static_cast<int16_t*>(nullptr));
	else if (t == "u16") f(static_cast<uint16_t*>(nullptr));
	else if (t == "i32") f(static_cast<int32_t*>(nullptr));
	else if (t == "u32") f(static_cast<uint32_t*>(nullptr));
	else if (t == "i64") f(static_cast<int64_t*>(nullptr));
	else if (t == "u64") f(static_cast<uint64_t*>(nullptr));
	else if (t == "f32") f(static_cast<float*>(nullptr));
	else if (t == "f64") f(static_cast<double*>(nullptr));
	else if (t == "str") f(static_cast<std::string*>(nullptr));
	else if (t == "u16str") f(static_cast<std::u16string*>(nullptr));
	else if (t == "u32str") f(static_cast<std::u32string*>(nullptr));
	else if (t == "null") f(static_cast<std::nullptr_t*>(nullptr));
	else if (t == "tp_ns") f(static_cast<TpNs*>(nullptr));
	else if (t == "tp_ms") f(static_cast<TpMs*>(nullptr));
	else if (t == "tp_s") f(static_cast<TpS*>(nullptr));
	else if (t == "dur_ns") f(static_cast<std::chrono::nanoseconds*>(nullptr));
	else if (t == "dur_60th") f(static_cast<std::chrono::duration<int64_t, std::ratio<1, 60>>*>(nullptr));
	else if (t == "dur_s") f(static_cast<std::chrono::seconds*>(nullptr));
	else if (t == "vec_i32") f(static_cast<std::vector<int32_t>*>(nullptr));
	else if (t == "vec_u8") f(static_cast<std::vector<uint8_t>*>(nullptr));       // binary container
	else if (t == "vec_str") f(static_cast<std::vector<std::string>*>(nullptr));
	else if (t == "vec_vec_i32") f(static_cast<std::vector<std::vector<int32_t>>*>(nullptr));
	else if (t == "vec_vec_u8") f(static_cast<std::vector<std::vector<uint8_t>>*>(nullptr));
	else if (t == "map_str_i32") f(static_cast<std::map<std::string, int32_t>*>(nullptr));
	else if (t == "map_i32_str") f(static_cast<std::map<int32_t, std::string>*>(nullptr));
	else if (t == "map_tp_i32") f(static_cast<std::map<TpNs, int32_t>*>(nullptr));
	else if (t == "opt_i32") f(static_cast<std::optional<int32_t>*>(nullptr));
	else if (t == "uptr_i32") f(static_cast<std::unique_ptr<int32_t>*>(nullptr));
	else if (t == "sptr_str") f(static_cast<std::shared_ptr<std::string>*>(nullptr));
	else if (t == "atomic_i32") f(static_cast<std::atomic<int32_t>*>(nullptr));
	else if (t == "wstr") f(static_cast<std::wstring*>(nullptr));
	else if (t == "enum_color") f(static_cast<Color*>(nullptr));
	else if (t == "set_i32") f(static_cast<std::set<int32_t>*>(nullptr));
	else if (t == "arr3_i32") f(static_cast<std::array<int32_t, 3>*>(nullptr));
	else if (t == "deque_i32") f(static_cast<std::deque<int32_t>*>(nullptr));
	else if (t == "list_str") f(static_cast<std::list<std::string>*>(nullptr));
	else if (t == "pair_str_i32") f(static_cast<std::pair<std::string, int32_t>*>(nullptr));
	else if (t == "tuple_i32_str_f64") f(static_cast<std::tuple<int32_t, std::string, double>*>(nullptr));
	else { fprintf(stderr, "unknown target type %s\n", t.c_str()); exit(3); }
}

//-----------------------------------------------------------------------------
// Construction of C++ values from the canonical tuples chosen by the specification (save scenarios)
//-----------------------------------------------------------------------------
inline uint64_t MagFrom(const JVal& a) { uint64_t m = 0; for (auto& b : a.GetArray()) m = (m << 8) | static_cast<uint64_t>(b.GetUint()); return m; }
inline int64_t SignedFrom(const JVal& neg, const JVal& mag) { const uint64_t m = MagFrom(mag); return neg.GetBool() ? static_cast<int64_t>(0 - m) : static_cast<int64_t>(m); }

template <class T> void FromCanon(const JVal& v, T& out);
template <class T> void FromCanon(const JVal& v, std::vector<T>& out);
template <class K, class V> void FromCanon(const JVal& v, std::map<K, V>& out);

template <class T> void FromCanon(const JVal& v, T& out)
{
	if constexpr (std::is_same_v<T, bool>) out = v[1].GetBool();
	else if constexpr (std::is_same_v<T, std::nullptr_t>) out = nullptr;
	else if constexpr (std::is_integral_v<T>) out = static_cast<T>(v[1].GetBool() ? (0 - MagFrom(v[2])) : MagFrom(v[2]));
	else if constexpr (std::is_same_v<T, float>) { uint32_t b = static_cast<uint32_t>(MagFrom(v[1])); std::memcpy(&out, &b, 4); }
	else if constexpr (std::is_same_v<T, double>) { uint64_t b = MagFrom(v[1]); std::memcpy(&out, &b, 8); }
	else if constexpr (std::is_same_v<T, std::string>) out = BytesFromJson(v[1]);
	else if constexpr (std::is_same_v<T, std::u16string>) out = Utf16FromCps(CpsFromUtf8(BytesFromJson(v[1])));
	else if constexpr (std::is_same_v<T, std::u32string>) out = CpsFromUtf8(BytesFromJson(v[1]));
	else if constexpr (std::is_same_v<T, std::chrono::duration<int64_t, std::ratio<1, 60>>>) {
		// ["ts", neg, mag8(seconds), nanoseconds] -> ticks of 1/60 s: the tick count whose floor-conversion gives these nanoseconds
		const int64_t sec = SignedFrom(v[1], v[2]);
		const int64_t ns = v[3].GetInt64();
		out = T(sec * 60 + (ns * 60 + 999999999) / 1000000000);
	}
	else if constexpr (std::is_same_v<T, TpNs> || std::is_same_v<T, TpMs> || std::is_same_v<T, std::chrono::nanoseconds>) {
		// ["ts", neg, mag8(seconds), nanoseconds]  (floor convention: nanoseconds in 0..999999999)
		const int64_t s = SignedFrom(v[1], v[2]);
		const int64_t ns = v[3].GetInt64();
		using D = std::conditional_t<std::is_same_v<T, std::chrono::nanoseconds>, std::chrono::nanoseconds, typename std::conditional_t<std::is_same_v<T, std::chrono::nanoseconds>, TpNs, T>::duration>;
		const int64_t per = D::period::den / D::period::num;
		const D d(static_cast<typename D::rep>(s * per + ns / (1000000000 / per)));
		if constexpr (std::is_same_v<T, std::chrono::nanoseconds>) out = d; else out = T(d);
	}
	else if constexpr (std::is_same_v<T, TpS> || std::is_same_v<T, std::chrono::seconds>) {
		// ["dur", unit, ["int", neg, mag8]]
		const std::chrono::seconds d(SignedFrom(v[2][1], v[2][2]));
		if constexpr (std::is_same_v<T, std::chrono::seconds>) out = d; else out = T(d);
	}
	else if constexpr (std::is_same_v<T, std::optional<int32_t>>) { if (std::string(v[0].GetString()) == "nil") out.reset(); else { int32_t x; FromCanon(v, x); out = x; } }
	else if constexpr (std::is_same_v<T, std::unique_ptr<int32_t>>) { if (std::string(v[0].GetString()) == "nil") out.reset(); else { int32_t x; FromCanon(v, x); out = std::make_unique<int32_t>(x); } }
	else if constexpr (std::is_same_v<T, std::shared_ptr<std::string>>) { if (std::string(v[0].GetString()) == "nil") out.reset(); else out = std::make_shared<std::string>(BytesFromJson(v[1])); }
	else if constexpr (std::is_same_v<T, std::atomic<int32_t>>) { int32_t x; FromCanon(v, x); out.store(x); }
	else if constexpr (std::is_same_v<T, std::wstring>) {
		out.clear();
		const auto cps = CpsFromUtf8(BytesFromJson(v[1]));
		if constexpr (sizeof(wchar_t) == 4) { for (char32_t c : cps) out.push_back(static_cast<wchar_t>(c)); }
		else { for (char16_t c : Utf16FromCps(cps)) out.push_back(static_cast<wchar_t>(c)); }
	}
	else if constexpr (std::is_same_v<T, Color>) { const std::string n = BytesFromJson(v[1]); out = n == "Red" ? Color::Red : n == "Green" ? Color::Green : Color::Blue; }
	else if constexpr (std::is_same_v<T, std::set<int32_t>>) { out.clear(); for (auto& e : v[1].GetArray()) { int32_t x; FromCanon(e, x); out.insert(x); } }
	else if constexpr (std::is_same_v<T, std::array<int32_t, 3>>) { size_t i = 0; for (auto& e : v[1].GetArray()) { if (i < 3) FromCanon(e, out[i++]); } }
	else if constexpr (std::is_same_v<T, std::deque<int32_t>>) { out.clear(); for (auto& e : v[1].GetArray()) { int32_t x; FromCanon(e, x); out.push_back(x); } }
	else if constexpr (std::is_same_v<T, std::list<std::string>>) { out.clear(); for (auto& e : v[1].GetArray()) out.push_back(BytesFromJson(e[1])); }
	else if constexpr (std::is_same_v<T, std::pair<std::string, int32_t>>) { out.first = BytesFromJson(v[1][0][1][1]); FromCanon(v[1][1][1], out.second); }
	else if constexpr (std::is_same_v<T, std::tuple<int32_t, std::string, double>>) { FromCanon(v[1][0], std::get<0>(out)); std::get<1>(out) = BytesFromJson(v[1][1][1]); FromCanon(v[1][2], std::get<2>(out)); }
	else { fprintf(stderr, "FromCanon: unsupported type\n"); exit(3); }
}
template <class T> void FromCanon(const JVal& v, std::vector<T>& out)
{
	out.clear();
	if constexpr (sizeof(T) == 1 && std::is_integral_v<T> && !std::is_same_v<T, bool>) { for (auto& b : v[1].GetArray()) out.push_back(static_cast<T>(b.GetUint())); }
	else { for (auto& e : v[1].GetArray()) { T x{}; FromCanon(e, x); out.push_back(std::move(x)); } }
}
template <class K, class V> void FromCanon(const JVal& v, std::map<K, V>& out)
{
	out.clear();
	for (auto& kv : v[1].GetArray()) { K k{}; V x{}; FromCanon(kv[0], k); FromCanon(kv[1], x); out.emplace(std::move(k), std::move(x)); }
}

//-----------------------------------------------------------------------------
// The script interpreter
//-----------------------------------------------------------------------------
// Fixed-point support (C01 load-save-load): pass 1 (load) records what every op loaded, pass 2 (save) writes exactly that.
struct Capture
{
	std::map<const void*, std::string> values;     // op -> canonical value that was loaded
	std::map<const void*, bool> opened;            // obj/arr op -> scope was entered
	bool recording = false;                        // pass 1
	bool replaying = false;                        // pass 2
};
inline Capture*& ActiveCapture() { static Capture* c = nullptr; return c; }

struct Log
{
	std::string ev;      // JSON array items, comma separated
	std::string st;      // private cursor states of the scopes (friend projection), one item per public call on an object scope
	void Add(const std::string& item) { if (!ev.empty()) ev += ','; ev += item; }
	void AddState(const std::string& item) { if (st.size() > (1u << 20)) return; if (!st.empty()) st += ','; st += item; }
};

// Private cursor state of an archive scope as JSON members (a harness may provide a more specialised overload before this header is
// included - scn_msgpack.cpp does for CMsgPackReadObjectScope through the BITSERIALIZER_VERIF friend); empty = nothing to project
template <class TArchive> std::string ScopeStateJson(const TArchive&) { return std::string(); }

// Scripted base classes: an op {"op":"base","ops":[...]} serializes BitSerializer::BaseObject<ScriptBase1>(*this), whose own
// script may contain one more {"op":"base"} level (ScriptBase2).  Members of bases land in the same object scope.
struct ScriptBase2 { const JVal* base2Ops = nullptr; Log* base2Log = nullptr; template <class TArchive> void Serialize(TArchive& archive); };
struct ScriptBase1 : ScriptBase2 { const JVal* base1Ops = nullptr; Log* base1Log = nullptr; template <class TArchive> void Serialize(TArchive& archive); };
struct ScriptObj : ScriptBase1
{
	ScriptObj(const JVal* o, Log* l) : ops(o), log(l) {}
	const JVal* ops; Log* log;
	template <class TArchive> void Serialize(TArchive& archive);
};
template <class TArchive, class TSelf> void RunObjectOps(TArchive& archive, const JVal& ops, Log* log, TSelf* self, int level);
struct ScriptArr { const JVal* ops; Log* log; size_t declared = 0; size_t size() const { return declared; } };

template <class TArchive> void SerializeArray(TArchive& archive, ScriptArr& arr);

// A key of the scenario: {"ks":[bytes]} string key, {"ki":n} int64 key, {"ku":n} uint64 key
template <class F>
void WithKey(const JVal& op, F&& f)
{
#ifdef VH_CSTR_KEYS
	// archives whose key API has `const char*` overloads (JSON, XML): string literal style key
	if (op.HasMember("ks") && op.HasMember("kc") && op["kc"].GetBool()) { const std::string key = BytesFromJson(op["ks"]); f(key.c_str()); return; }
#endif
#ifdef VH_ARRAY_KEYS
	// string literal keys as the compiler passes them: a reference to a char array (MsgPack compares them through operator==(T(&)[N]))
	if (op.HasMember("ks") && op.HasMember("kc") && op["kc"].GetBool())
	{
		const std::string key = BytesFromJson(op["ks"]);
		if (key.size() == 1) { const char lit[2] = { key[0], 0 }; f(lit); return; }
		if (key.size() == 2) { const char lit[3] = { key[0], key[1], 0 }; f(lit); return; }
		if (key.size() == 3) { const char lit[4] = { key[0], key[1], key[2], 0 }; f(lit); return; }
	}
#endif
	if (op.HasMember("ks")) f(BytesFromJson(op["ks"]));
	else if (op.HasMember("ki")) f(static_cast<int64_t>(op["ki"].GetInt64()));
	else if (op.HasMember("ku")) f(static_cast<uint64_t>(op["ku"].GetUint64()));
	else { fprintf(stderr, "op without key\n"); exit(3); }
}

template <class TArchive> void ScriptObj::Serialize(TArchive& archive) { RunObjectOps(archive, *ops, log, this, 0); }
template <class TArchive> void ScriptBase1::Serialize(TArchive& archive) { RunObjectOps(archive, *base1Ops, base1Log, this, 1); }
template <class TArchive> void ScriptBase2::Serialize(TArchive& archive) { RunObjectOps(archive, *base2Ops, base2Log, this, 2); }

// the key of an op in the notation of the specification: ["ks",[bytes]] | ["ki",n] | ["ku",n] | [] (no key)
inline std::string OpKeyJson(const JVal& op)
{
	if (op.HasMember("ks")) return "[\"ks\"," + BytesJson(BytesFromJson(op["ks"])) + "]";
	if (op.HasMember("ki")) return "[\"ki\"," + std::to_string(op["ki"].GetInt64()) + "]";
	if (op.HasMember("ku")) return "[\"ku\"," + std::to_string(op["ku"].GetUint64()) + "]";
	return "[]";
}
// (only the plain load runs record cursor states: in fault-injection runs the recorder's own allocations would be fault points)
inline bool& ScopeStateRecording() { static bool on = false; return on; }
template <class TArchive>
void LogScopeState(const TArchive& archive, Log* log, const std::string& kind, const std::string& keyJson)
{
	if constexpr (TArchive::IsLoading())
	{
		if (!ScopeStateRecording()) return;
		const std::string st = ScopeStateJson(archive);
		if (!st.empty()) log->AddState("{\"op\":\"" + kind + "\",\"k\":" + keyJson + "," + st + "}");
	}
}

template <class TArchive, class TSelf>
void RunObjectOps(TArchive& archive, const JVal& opsArr, Log* log, TSelf* self, int level)
{
	if (level == 0) LogScopeState(archive, log, "enter", "[]");
	for (const auto& op : opsArr.GetArray())
	{
		const std::string kind = op["op"].GetString();
		struct StateAtExit { const TArchive& a; Log* l; const JVal& o; const std::string& k; bool armed = true;
			~StateAtExit() { try { if (armed && ScopeStateRecording() && std::uncaught_exceptions() == 0 && k != "base") LogScopeState(a, l, k, OpKeyJson(o)); } catch (...) { } } } stateAtExit{ archive, log, op, kind };
		if (kind == "base")
		{
			if constexpr (std::is_same_v<TSelf, ScriptObj>) {
				self->base1Ops = &op["ops"]; self->base1Log = log;
				archive << BitSerializer::BaseObject<ScriptBase1>(*self);
			}
			else if constexpr (std::is_same_v<TSelf, ScriptBase1>) {
				self->base2Ops = &op["ops"]; self->base2Log = log;
				archive << BitSerializer::BaseObject<ScriptBase2>(*self);
			}
			else { fprintf(stderr, "base nesting too deep\n"); exit(3); }
		}
		else if (kind == "attr")
		{
			// XML attribute of the current object element: archive << AttributeValue(key, value)
			if constexpr (BitSerializer::can_serialize_attribute_v<TArchive>)
			{
				WithType(op["t"].GetString(), [&](auto* tag) {
					using T = std::remove_pointer_t<decltype(tag)>;
					if constexpr (std::is_arithmetic_v<T> || std::is_same_v<T, std::string> || std::is_same_v<T, std::u16string> || std::is_same_v<T, std::u32string>)
					{
						T target = Prior<T>();
						Capture* cap = ActiveCapture();
						if constexpr (!TArchive::IsLoading())
						{
							if (cap && cap->replaying)
							{
								const auto it = cap->values.find(&op);
								if (it == cap->values.end()) return;
								rapidjson::Document cv;
								cv.Parse(it->second.c_str());
								FromCanon(cv, target);
							}
							else if (op.HasMember("v")) FromCanon(op["v"], target);
						}
						bool loaded = false;
						const std::string key = BytesFromJson(op["ks"]);
						archive << BitSerializer::AttributeValue(key, target, [&loaded](const T&, bool isLoaded) -> std::optional<std::string> { loaded = isLoaded; return std::nullopt; });
						if constexpr (TArchive::IsLoading())
						{
							log->Add(std::string("[\"attr\",") + (loaded ? "true" : "false") + "," + Canon(target) + "]");
							if (cap && cap->recording && loaded) cap->values[&op] = Canon(target);
						}
					}
				});
			}
		}
		else if (kind == "req")
		{
			WithType(op["t"].GetString(), [&](auto* tag) {
				using T = std::remove_pointer_t<decltype(tag)>;
				T target = Prior<T>();
				Capture* cap = ActiveCapture();
				if constexpr (!TArchive::IsLoading())
				{
					if (cap && cap->replaying)
					{
						const auto it = cap->values.find(&op);
						if (it == cap->values.end()) return;        // not loaded in pass 1: not written in pass 2
						rapidjson::Document cv;
						cv.Parse(it->second.c_str());
						FromCanon(cv, target);
					}
					else if (op.HasMember("v")) FromCanon(op["v"], target);
				}
				bool loaded = false;
				WithKey(op, [&](auto&& key) {
					archive << BitSerializer::KeyValue(key, target, [&loaded](const T&, bool isLoaded) -> std::optional<std::string> { loaded = isLoaded; return std::nullopt; });
				});
				if constexpr (TArchive::IsLoading())
				{
					log->Add(std::string("[\"req\",") + (loaded ? "true" : "false") + "," + Canon(target) + "]");
					if (cap && cap->recording && loaded) cap->values[&op] = Canon(target);
				}
			});
		}
		else if (kind == "obj")
		{
			ScriptObj child(&op["ops"], log);
			bool loaded = false;
			Capture* cap = ActiveCapture();
			if constexpr (!TArchive::IsLoading()) { if (cap && cap->replaying && !cap->opened.count(&op)) continue; }
			if constexpr (TArchive::IsLoading()) log->Add("[\"open\"]");
			WithKey(op, [&](auto&& key) {
				archive << BitSerializer::KeyValue(key, child, [&loaded](const ScriptObj&, bool isLoaded) -> std::optional<std::string> { loaded = isLoaded; return std::nullopt; });
			});
			if constexpr (TArchive::IsLoading()) { log->Add(std::string("[\"close\",") + (loaded ? "true" : "false") + "]"); if (cap && cap->recording && loaded) cap->opened[&op] = true; }
		}
		else if (kind == "arr")
		{
			ScriptArr child{ &op["ops"], log, op.HasMember("declared") ? op["declared"].GetUint() : static_cast<unsigned>(op["ops"].Size()) };
			bool loaded = false;
			Capture* cap = ActiveCapture();
			if constexpr (!TArchive::IsLoading()) { if (cap && cap->replaying && !cap->opened.count(&op)) continue; }
			if constexpr (TArchive::IsLoading()) log->Add("[\"open\"]");
			WithKey(op, [&](auto&& key) {
				archive << BitSerializer::KeyValue(key, child, [&loaded](const ScriptArr&, bool isLoaded) -> std::optional<std::string> { loaded = isLoaded; return std::nullopt; });
			});
			if constexpr (TArchive::IsLoading()) { log->Add(std::string("[\"close\",") + (loaded ? "true" : "false") + "]"); if (cap && cap->recording && loaded) cap->opened[&op] = true; }
		}
		else if (kind == "visit")
		{
			if constexpr (TArchive::IsLoading())
			{
				std::string keys;
				archive.VisitKeys([&keys](auto&& key) {
					using K = std::decay_t<decltype(key)>;
					if (!keys.empty()) keys += ',';
					if constexpr (std::is_same_v<K, std::string_view> || std::is_same_v<K, std::string>) keys += Canon(std::string(key));
					else if constexpr (std::is_same_v<K, const char*> || std::is_same_v<K, char*>) keys += Canon(std::string(key));
					else if constexpr (std::is_arithmetic_v<K>) keys += Canon(key);
					else keys += "[\"other\"]";
				});
				log->Add("[\"visit\",[" + keys + "]]");
			}
		}
		else { fprintf(stderr, "unknown object op %s\n", kind.c_str()); exit(3); }
	}
}

template <class TArchive>
void SerializeArray(TArchive& archive, ScriptArr& arr)
{
	for (const auto& op : arr.ops->GetArray())
	{
		const std::string kind = op["op"].GetString();
		if (kind == "elem")
		{
			WithType(op["t"].GetString(), [&](auto* tag) {
				using T = std::remove_pointer_t<decltype(tag)>;
				T target = Prior<T>();
				if constexpr (!TArchive::IsLoading()) { if (op.HasMember("v")) FromCanon(op["v"], target); }
				const bool loaded = BitSerializer::Serialize(archive, target);
				if constexpr (TArchive::IsLoading()) arr.log->Add(std::string("[\"elem\",") + (loaded ? "true" : "false") + "," + Canon(target) + "]");
			});
		}
		else if (kind == "obj")
		{
			ScriptObj child(&op["ops"], arr.log);
			if constexpr (TArchive::IsLoading()) arr.log->Add("[\"open\"]");
			const bool loaded = BitSerializer::Serialize(archive, child);
			if constexpr (TArchive::IsLoading()) arr.log->Add(std::string("[\"close\",") + (loaded ? "true" : "false") + "]");
		}
		else if (kind == "arr")
		{
			ScriptArr child{ &op["ops"], arr.log, op.HasMember("declared") ? op["declared"].GetUint() : static_cast<unsigned>(op["ops"].Size()) };
			if constexpr (TArchive::IsLoading()) arr.log->Add("[\"open\"]");
			const bool loaded = BitSerializer::Serialize(archive, child);
			if constexpr (TArchive::IsLoading()) arr.log->Add(std::string("[\"close\",") + (loaded ? "true" : "false") + "]");
		}
		else if (kind == "isend")
		{
			if constexpr (TArchive::IsLoading()) arr.log->Add(std::string("[\"isend\",") + (archive.IsEnd() ? "true" : "false") + "]");
		}
		else if (kind == "size")
		{
			if constexpr (TArchive::IsLoading()) arr.log->Add("[\"size\"," + std::to_string(archive.GetEstimatedSize()) + "]");
		}
		else { fprintf(stderr, "unknown array op %s\n", kind.c_str()); exit(3); }
	}
}

// Root of a script: {"k":"obj","ops":[..]} | {"k":"arr","ops":[..]} | {"k":"leaf","t":"i32"}
struct ScriptRoot { const JVal* root; Log* log; };

inline BitSerializer::SerializationOptions OptionsFrom(const JVal& scn)
{
	BitSerializer::SerializationOptions o;
	if (scn.HasMember("pol"))
	{
		const auto& p = scn["pol"];
		if (p.HasMember("mm") && std::string(p["mm"].GetString()) == "skip") o.mismatchedTypesPolicy = BitSerializer::MismatchedTypesPolicy::Skip;
		if (p.HasMember("ov") && std::string(p["ov"].GetString()) == "skip") o.overflowNumberPolicy = BitSerializer::OverflowNumberPolicy::Skip;
		if (p.HasMember("utf") && std::string(p["utf"].GetString()) == "skip") o.utfEncodingErrorPolicy = BitSerializer::Convert::Utf::UtfEncodingErrorPolicy::Skip;
		if (p.HasMember("maxerr")) o.maxValidationErrors = p["maxerr"].GetUint();
	}
	if (scn.HasMember("opt"))
	{
		// output configuration: {"fmt":bool,"padChar":n,"padNum":n,"enc":"utf8|utf16le|utf16be|utf32le|utf32be","bom":bool,"sep":n}
		const auto& p = scn["opt"];
		if (p.HasMember("fmt")) o.formatOptions.enableFormat = p["fmt"].GetBool();
		if (p.HasMember("padChar")) o.formatOptions.paddingChar = static_cast<char>(p["padChar"].GetInt());
		if (p.HasMember("padNum")) o.formatOptions.paddingCharNum = static_cast<uint16_t>(p["padNum"].GetUint());
		if (p.HasMember("bom")) o.streamOptions.writeBom = p["bom"].GetBool();
		if (p.HasMember("sep")) o.valuesSeparator = static_cast<char>(p["sep"].GetInt());
		if (p.HasMember("enc"))
		{
			using BitSerializer::Convert::Utf::UtfType;
			const std::string e = p["enc"].GetString();
			o.streamOptions.encoding = e == "utf16le" ? UtfType::Utf16le : e == "utf16be" ? UtfType::Utf16be : e == "utf32le" ? UtfType::Utf32le : e == "utf32be" ? UtfType::Utf32be : UtfType::Utf8;
		}
	}
	return o;
}

// Describes the exception in flight as a tagged tuple
inline std::string DescribeException()
{
	try { throw; }
	catch (const BitSerializer::ValidationException& e) {
		std::string m = "[";
		bool first = true;
		for (const auto& kv : e.GetValidationErrors()) {
			if (!first) m += ','; first = false;
			m += "[\"" + JsonEscape(kv.first) + "\",[";
			for (size_t i = 0; i < kv.second.size(); ++i) { if (i) m += ','; m += "\"" + JsonEscape(kv.second[i]) + "\""; }
			m += "]]";
		}
		return "[\"validation\"," + m + "]]";
	}
	catch (const BitSerializer::SerializationException& e) {
		return "[\"ser\",\"" + BitSerializer::Convert::ToString(e.GetErrorCode()) + "\"]";
	}
	catch (const std::bad_alloc&) { return "[\"std\",\"bad_alloc\"]"; }
	catch (const std::ios_base::failure&) { return "[\"std\",\"ios_failure\"]"; }
	catch (const std::invalid_argument&) { return "[\"std\",\"invalid_argument\"]"; }
	catch (const std::out_of_range&) { return "[\"std\",\"out_of_range\"]"; }
	catch (const std::exception&) { return "[\"std\",\"exception\"]"; }
	catch (...) { return "[\"nonstd\"]"; }
}

// A temporary file holding `data` (removed on destruction), for the file entry points of the library
struct TempFile
{
	std::string path;
	explicit TempFile(const std::string& data)
	{
		const char* dir = getenv("TMPDIR");
		path = std::string(dir && *dir ? dir : "/tmp") + "/vhapiXXXXXX";
		const int fd = mkstemp(path.data());
		if (fd < 0) { perror("mkstemp"); exit(3); }
		size_t done = 0;
		while (done < data.size()) { const ssize_t w = write(fd, data.data() + done, data.size() - done); if (w <= 0) { perror("write"); exit(3); } done += static_cast<size_t>(w); }
		close(fd);
	}
	std::string Read() const { std::ifstream f(path, std::ios::binary); return std::string((std::istreambuf_iterator<char>(f)), std::istreambuf_iterator<char>()); }
	~TempFile() { unlink(path.c_str()); }
	TempFile(const TempFile&) = delete;
	TempFile& operator=(const TempFile&) = delete;
};

// Executes the load part of a scenario on one medium; returns the JSON of the observation
template <class TArchive>
std::string RunLoad(const JVal& scn, const std::string& doc, const std::string& medium)
{
	Log log;
	std::string exc = "[\"none\"]";
	const auto options = OptionsFrom(scn);
	const JVal& root = scn["root"];
	const std::string rk = root["k"].GetString();
	size_t refused = 0;
	TerminateContext() = std::string(scn["id"].GetString()) + "/" + medium;
	struct RecordingOn { RecordingOn() { ScopeStateRecording() = true; } ~RecordingOn() { ScopeStateRecording() = false; } } recordingOn;
	try
	{
		auto loadWith = [&](auto& target) {
			if (medium == "mem") BitSerializer::LoadObject<TArchive>(target, doc, options);
			else if (medium == "fileapi") {
				// the file entry point: LoadObjectFromFile(object, path, options) over a real temporary file
				TempFile tf(doc);
				BitSerializer::LoadObjectFromFile<TArchive>(target, tf.path, options);
			}
			else {
				auto holder = MakeStream(medium, doc);
				try { BitSerializer::LoadObject<TArchive>(target, holder.get(), options); }
				catch (...) { if (holder.scripted) refused = holder.scripted->seekRefused; throw; }
				if (holder.scripted) refused = holder.scripted->seekRefused;
			}
		};
		if (rk == "obj") { ScriptObj o(&root["ops"], &log); loadWith(o); }
		else if (rk == "arr") { ScriptArr a{ &root["ops"], &log }; loadWith(a); }
		else {
#ifndef VH_NO_ROOT_LEAF
			WithType(root["t"].GetString(), [&](auto* tag) {
				using T = std::remove_pointer_t<decltype(tag)>;
				T target = Prior<T>();
				loadWith(target);      // on an exception the partly loaded target is not logged (its state is unspecified)
				log.Add("[\"root\"," + Canon(target) + "]");
			});
#else
			fprintf(stderr, "this archive has no scalar root\n"); exit(3);
#endif
		}
	}
	catch (...) { exc = DescribeException(); }
	return "{\"medium\":\"" + medium + "\",\"ev\":[" + log.ev + "],\"exc\":" + exc + ",\"refused\":" + (refused ? "true" : "false") +
		(log.st.empty() ? std::string() : ",\"st\":[" + log.st + "]") + "}";
}


// Executes the save part of a scenario (root script with values) to memory and to a stream; logs both byte strings
template <class TArchive>
std::string RunSave(const JVal& scn)
{
	const auto options = OptionsFrom(scn);
	const JVal& root = scn["root"];
	const std::string rk = root["k"].GetString();
	Log log;
	std::string out[3], exc[3] = { "[\"none\"]", "[\"none\"]", "[\"none\"]" };
	for (int medium = 0; medium < 3; ++medium)		// 0 = std::string, 1 = std::ostream, 2 = SaveObjectToFile (real temporary file)
	{
		TerminateContext() = std::string(scn["id"].GetString()) + (medium == 2 ? "/save-file" : medium ? "/save-stream" : "/save-mem");
		try
		{
			std::ostringstream stream(std::ios::out | std::ios::binary);
			auto saveWith = [&](auto& value) {
				if (medium == 0) BitSerializer::SaveObject<TArchive>(value, out[0], options);
				else if (medium == 1) { BitSerializer::SaveObject<TArchive>(value, stream, options); out[1] = stream.str(); }
				else { TempFile tf{ std::string() }; BitSerializer::SaveObjectToFile<TArchive>(value, tf.path, options, true); out[2] = tf.Read(); }
			};
			if (rk == "obj") { ScriptObj o(&root["ops"], &log); saveWith(o); }
			else if (rk == "arr") { ScriptArr a{ &root["ops"], &log, static_cast<size_t>(root["ops"].Size()) }; saveWith(a); }
			else {
#ifndef VH_NO_ROOT_LEAF
				WithType(root["t"].GetString(), [&](auto* tag) {
					using T = std::remove_pointer_t<decltype(tag)>;
					T value = Prior<T>();
					FromCanon(root["v"], value);
					saveWith(value);
				});
#else
				fprintf(stderr, "this archive has no scalar root\n"); exit(3);
#endif
			}
		}
		catch (...) { exc[medium] = DescribeException(); }
	}
	return "{\"mem\":" + BytesJson(out[0]) + ",\"stream\":" + BytesJson(out[1]) + ",\"excmem\":" + exc[0] + ",\"excstream\":" + exc[1] +
		",\"file\":" + BytesJson(out[2]) + ",\"excfile\":" + exc[2] + "}";
}


//-----------------------------------------------------------------------------
// Fault enumeration (C20): the same scenario with one fault injected at a chosen point.
//   kind "probe"  : fault-free run that reports the number of fault points of each kind
//   kind "alloc"  : the k-th operator new during the call throws std::bad_alloc
//   kind "failat" / "throwat" : the input stream buffer reports EOF / throws when byte k is requested
//   kind "ofailat" / "othrowat" (save): the output stream buffer fails / throws when byte k is written
// Requires vh_alloc.h in the harness translation unit.
//-----------------------------------------------------------------------------
// Recorder for the scope life-cycle hook (BITSERIALIZER_VERIF): fixed storage, no allocation while recording
//-----------------------------------------------------------------------------
#if defined(BITSERIALIZER_VERIF)
struct ScopeEventRec { char kind; const void* a; const void* b; };
inline ScopeEventRec* ScopeEvents() { static ScopeEventRec recs[8192]; return recs; }
inline size_t& ScopeEventCount() { static size_t n = 0; return n; }
inline void ScopeListener(const char* event, const void* object, const void* other)
{
	if (ScopeEventCount() < 8192) ScopeEvents()[ScopeEventCount()++] = ScopeEventRec{ event[0] == 'r' ? 'r' : event[0] == 'p' ? 'p' : event[0] == 'm' ? 'm' : event[0] == 'o' ? 'o' : 'c', object, other };
}
inline void ScopeRecordStart() { ScopeEventCount() = 0; BitSerializer::Verif::GetScopeEventListener() = &ScopeListener; }
inline void ScopeRecordStop() { BitSerializer::Verif::GetScopeEventListener() = nullptr; }
// [["open",id],["move",id,from],["close",id],["park"],["rethrow"]] with small ids in order of first appearance
inline std::string ScopeEventsJson()
{
	std::vector<const void*> ids;
	auto idOf = [&ids](const void* p) { for (size_t i = 0; i < ids.size(); ++i) if (ids[i] == p) return i + 1; ids.push_back(p); return ids.size(); };
	auto forget = [&ids](const void* p) { for (auto& q : ids) if (q == p) q = nullptr; };	// an address may be reused by a later object
	std::string o = "[";
	for (size_t i = 0; i < ScopeEventCount(); ++i)
	{
		const auto& e = ScopeEvents()[i];
		if (i) o += ',';
		if (e.kind == 'o') { forget(e.a); o += "[\"open\"," + std::to_string(idOf(e.a)) + "]"; }
		else if (e.kind == 'm') { const size_t from = idOf(e.b); forget(e.a); o += "[\"move\"," + std::to_string(idOf(e.a)) + "," + std::to_string(from) + "]"; }
		else if (e.kind == 'c') { o += "[\"close\"," + std::to_string(idOf(e.a)) + "]"; forget(e.a); }
		else if (e.kind == 'p') o += "[\"park\"]";
		else o += "[\"rethrow\"]";
	}
	return o + "]";
}
#else
inline void ScopeRecordStart() {}
inline void ScopeRecordStop() {}
inline std::string ScopeEventsJson() { return "[]"; }
#endif

//-----------------------------------------------------------------------------
#ifdef VH_WITH_ALLOC
template <class TArchive>
std::string RunFault(const JVal& scn, const std::string& doc, const std::string& kind, long long k)
{
	Log log;
	log.ev.reserve(1 << 16);
	log.st.reserve(1 << 16);
	std::string exc;
	exc.reserve(1 << 12);
	exc = "[\"none\"]";
	const auto options = OptionsFrom(scn);
	const JVal& root = scn["root"];
	const std::string rk = root["k"].GetString();
	const bool isSave = scn.HasMember("save") && scn["save"].GetBool();
	TerminateContext() = std::string(scn["id"].GetString()) + "/" + kind + "/" + std::to_string(k);
	long long liveBefore = 0, liveAfter = 0, allocsInCall = 0;
	bool streamBad = false;
	size_t produced = 0, faultHits = 0;
	{
		std::unique_ptr<FailingOutBuf> obuf;
		std::unique_ptr<std::ostream> ostr;
		StreamHolder holder;
		std::string outMem;		// not pre-reserved: growing the caller's output string is a fault point of the save
		const bool streamIn = kind == "failat" || kind == "throwat" || (kind == "probe" && !isSave && scn.HasMember("stream") && scn["stream"].GetBool()) || (kind == "alloc" && !isSave && scn.HasMember("stream") && scn["stream"].GetBool());
		const bool streamOut = kind == "ofailat" || kind == "othrowat" || (isSave && scn.HasMember("stream") && scn["stream"].GetBool());
		if (!isSave && streamIn) holder = MakeStream(kind == "failat" || kind == "throwat" ? kind : "short3", doc, static_cast<size_t>(k));
		if (isSave && streamOut) { obuf = std::make_unique<FailingOutBuf>(kind == "ofailat" || kind == "othrowat" ? static_cast<size_t>(k) : static_cast<size_t>(-1), kind == "othrowat"); ostr = std::make_unique<std::ostream>(obuf.get());
			// the caller may have asked the stream to throw on errors (scenario flag "oexc")
			if (scn.HasMember("oexc") && scn["oexc"].GetBool()) ostr->exceptions(std::ios_base::badbit | std::ios_base::failbit); }
		liveBefore = AllocLive();
		ScopeRecordStart();
		AllocArm(kind == "alloc" ? k : -1);
		try
		{
			auto call = [&](auto& value) {
				if (isSave) { if (streamOut) BitSerializer::SaveObject<TArchive>(value, *ostr, options); else BitSerializer::SaveObject<TArchive>(value, outMem, options); }
				else { if (streamIn) BitSerializer::LoadObject<TArchive>(value, holder.get(), options); else BitSerializer::LoadObject<TArchive>(value, doc, options); }
			};
			if (rk == "obj") { ScriptObj o(&root["ops"], &log); call(o); }
			else if (rk == "arr") { ScriptArr a{ &root["ops"], &log, static_cast<size_t>(root["ops"].Size()) }; call(a); }
			else {
#ifndef VH_NO_ROOT_LEAF
				WithType(root["t"].GetString(), [&](auto* tag) {
					using T = std::remove_pointer_t<decltype(tag)>;
					T value = Prior<T>();
					if (isSave) FromCanon(root["v"], value);
					call(value);
				});
#else
				fprintf(stderr, "this archive has no scalar root\n"); exit(3);
#endif
			}
			allocsInCall = AllocSinceArm();
			AllocDisarm();
		}
		catch (...) { allocsInCall = AllocSinceArm(); AllocDisarm(); exc = DescribeException(); }
		ScopeRecordStop();
		if (isSave && !ostr) produced = outMem.size();
		{ std::string().swap(outMem); }
		liveAfter = AllocLive();
		if (ostr) { streamBad = ostr->fail(); produced = obuf->data.size(); faultHits = obuf->failHits; }
		if (holder.scripted) faultHits = holder.scripted->failHits;
		if (holder.stream) streamBad = holder.stream->bad();
	}
	return "{\"kind\":\"" + kind + "\",\"k\":" + std::to_string(k) + ",\"save\":" + (isSave ? "true" : "false") + ",\"exc\":" + exc +
		",\"leak\":" + std::to_string(liveAfter - liveBefore) + ",\"allocs\":" + std::to_string(allocsInCall) + ",\"produced\":" + std::to_string(produced) +
		",\"hits\":" + std::to_string(faultHits) + ",\"streambad\":" + (streamBad ? "true" : "false") + ",\"peak\":" + std::to_string(Alloc().peakReq) +
		",\"ev\":[" + log.ev + "],\"sc\":" + ScopeEventsJson() + "}";
}
#endif


//-----------------------------------------------------------------------------
// Round trip (C01): save the scripted value (memory + stream with the scenario's options), then load the produced
// bytes back with the same script (values ignored when loading) from memory (when UTF-8 without BOM) and from a stream.
//-----------------------------------------------------------------------------
template <class TArchive>
std::string RunRoundTrip(const JVal& scn)
{
	const std::string saved = RunSave<TArchive>(scn);
	rapidjson::Document sv;
	sv.Parse(saved.c_str());
	const std::string mem = BytesFromJson(sv["mem"]);
	const std::string stream = BytesFromJson(sv["stream"]);
	std::string out = saved.substr(0, saved.size() - 1);
	const bool memOk = std::string(sv["excmem"][0].GetString()) == "none";
	const bool streamOk = std::string(sv["excstream"][0].GetString()) == "none";
	out += ",\"loadmem\":" + (memOk ? RunLoad<TArchive>(scn, mem, "mem") : std::string("null"));
	out += ",\"loadstream\":" + (streamOk ? RunLoad<TArchive>(scn, stream, "sstream") : std::string("null"));
	out += ",\"loadshort\":" + (streamOk ? RunLoad<TArchive>(scn, stream, "short3") : std::string("null"));
	return out + "}";
}


//-----------------------------------------------------------------------------
// Load-save-load fixed point (C01): a document the loader accepts is loaded with the script, what was loaded is saved
// with the same script, and the saved document is loaded again: the second load must observe what the first one did.
// (Scripts for this leg use object-level requests and nested objects/arrays by key; array-level ops are loaded fully.)
//-----------------------------------------------------------------------------
template <class TArchive>
std::string RunFixedPoint(const JVal& scn, const std::string& doc)
{
	Capture cap;
	ActiveCapture() = &cap;
	cap.recording = true;
	const std::string first = RunLoad<TArchive>(scn, doc, "mem");
	cap.recording = false;
	cap.replaying = true;
	std::string saved, excSave = "[\"none\"]";
	try
	{
		const auto options = OptionsFrom(scn);
		const JVal& root = scn["root"];
		Log log;
		ScriptObj o(&root["ops"], &log);
		BitSerializer::SaveObject<TArchive>(o, saved, options);
	}
	catch (...) { excSave = DescribeException(); }
	cap.replaying = false;
	ActiveCapture() = nullptr;
	const std::string second = excSave == "[\"none\"]" ? RunLoad<TArchive>(scn, saved, "mem") : std::string("null");
	return "{\"first\":" + first + ",\"excsave\":" + excSave + ",\"saved\":" + BytesJson(saved) + ",\"second\":" + second + "}";
}

}  // namespace vh
