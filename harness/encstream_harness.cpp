// Conformance harness for CEncodedStreamReader / DetectEncoding / CEncodedStreamWriter (property C13).
//   encstream_harness read <scenarios.ndjson>     each row: scheme, BOM flag, text, complete byte stream (written by TLC) and the
//                                                 truncation points; executed for target char types {char, char16_t, char32_t} x
//                                                 {Skip, ThrowError} with chunk size row["C"] (32 or the default 256)
//   encstream_harness write <scenarios.ndjson>    writer scenarios (parts in all three source widths)
//   encstream_harness writeseq <scenarios.ndjson> sequences of Write(fragment) calls - accepted and rejected ones - on ONE writer
//                                                 object; logs the return code and the stream bytes after every call
//   encstream_harness detect <scenarios.ndjson>   DetectEncoding(std::istream&, skipBomWhenFound) on a stream whose first p bytes
//                                                 were already consumed; logs detected encoding, tellg() and the rest of the stream
//   encstream_harness csv <scenarios.ndjson>      LoadObject<CsvArchive>(std::vector<Row>, std::istream&) on TLC-written CSV byte
//                                                 streams (chunk size = default template argument of this build); logs rows / exception
// Logs per run: detected encoding, (result, mStartDataPtr, mEndDataPtr offsets) after every ReadChunk, the concatenated output,
// the final result; a client loop that does not terminate is logged as "hang":true (call limit), a call that does not
// return as {"e":"Hang"} (alarm).  The harness never judges.
#include "vh_common.h"
#include "bitserializer/convert.h"
#include "bitserializer/bit_serializer.h"
#include "bitserializer/csv_archive.h"
#include "bitserializer/types/std/vector.h"
#include <csignal>

namespace Utf = BitSerializer::Convert::Utf;
using Utf::UtfEncodingErrorPolicy;
using Utf::EncodedStreamReadResult;

struct BitSerializerVerifAccess
{
	template <class TReader> static long Start(const TReader& r) { return static_cast<long>(r.mStartDataPtr - r.mEncodedBuffer); }
	template <class TReader> static long End(const TReader& r) { return static_cast<long>(r.mEndDataPtr - r.mEncodedBuffer); }
};

static const char* UtfName(Utf::UtfType t)
{
	switch (t) {
	case Utf::UtfType::Utf8: return "Utf8";
	case Utf::UtfType::Utf16le: return "Utf16le";
	case Utf::UtfType::Utf16be: return "Utf16be";
	case Utf::UtfType::Utf32le: return "Utf32le";
	case Utf::UtfType::Utf32be: return "Utf32be";
	}
	return "invalid";
}
static Utf::UtfType UtfFromName(const std::string& n)
{
	if (n == "Utf8") return Utf::UtfType::Utf8;
	if (n == "Utf16le") return Utf::UtfType::Utf16le;
	if (n == "Utf16be") return Utf::UtfType::Utf16be;
	if (n == "Utf32le") return Utf::UtfType::Utf32le;
	return Utf::UtfType::Utf32be;
}
static const char* ResName(EncodedStreamReadResult r)
{
	switch (r) {
	case EncodedStreamReadResult::Success: return "Success";
	case EncodedStreamReadResult::DecodeError: return "DecodeError";
	case EncodedStreamReadResult::EndFile: return "EndFile";
	}
	return "?";
}

template <class TStr> static std::string UnitsJson(const TStr& s)
{
	std::string o = "[";
	for (size_t i = 0; i < s.size(); ++i) {
		if (i) o += ',';
		uint32_t x;
		if constexpr (sizeof(s[i]) == 1) x = static_cast<uint8_t>(s[i]);
		else if constexpr (sizeof(s[i]) == 2) x = static_cast<uint16_t>(s[i]);
		else x = static_cast<uint32_t>(s[i]);
		if (x >= 0x80000000u) o += "-1"; else o += std::to_string(x);
	}
	return o + "]";
}

static char gHangMsg[600];
static void OnAlarm(int) { (void)!write(1, gHangMsg, strlen(gHangMsg)); _exit(43); }
static void Arm(const std::string& ctx)
{
	snprintf(gHangMsg, sizeof gHangMsg, "\n{\"e\":\"Hang\",\"ctx\":\"%s\"}\n", vh::JsonEscape(ctx).c_str());
	alarm(10);
}

// The configured error mark: "def" = the constructor's default argument, "cust" = "<?>", "fffd" = U+FFFD, "null" = nullptr (skip silently)
static const char* const kMarkKinds[4] = { "def", "cust", "fffd", "null" };
template <class TChar> static const TChar* MarkPtr(int mk)
{
	static const TChar cust[] = { TChar('<'), TChar('?'), TChar('>'), 0 };
	if (mk == 1) return cust;
	if (mk == 2) {
		if constexpr (sizeof(TChar) == 1) { static const TChar m[] = { TChar('\xEF'), TChar('\xBF'), TChar('\xBD'), 0 }; return m; }
		else { static const TChar m[] = { TChar(0xFFFD), 0 }; return m; }
	}
	return nullptr;
}

// ChunkSize 0: the default template argument (256, or BITSERIALIZER_VERIF_ENC_CHUNK_SIZE when the hook is compiled in)
template <class TChar, size_t ChunkSize>
static std::string RunRead(const std::string& bytes, bool skip, const std::string& kind, int mk)
{
	using TReader = std::conditional_t<ChunkSize == 0, Utf::CEncodedStreamReader<TChar>, Utf::CEncodedStreamReader<TChar, ChunkSize == 0 ? 32 : ChunkSize>>;
	auto holder = vh::MakeStream(kind, bytes);
	const auto policy = skip ? UtfEncodingErrorPolicy::Skip : UtfEncodingErrorPolicy::ThrowError;
	// two constructor call shapes: default argument / explicit mark
	std::unique_ptr<TReader> readerPtr(mk == 0 ? new TReader(holder.get(), policy) : new TReader(holder.get(), policy, MarkPtr<TChar>(mk)));
	TReader& reader = *readerPtr;
	std::string o = std::string("{\"tw\":") + std::to_string(sizeof(TChar) * 8) + ",\"skip\":" + (skip ? "true" : "false") + ",\"mk\":\"" + kMarkKinds[mk] + "\"" +
		",\"utf\":\"" + (bytes.empty() ? "unset" : UtfName(reader.GetSourceUtfType())) + "\"" +
		",\"init\":[" + std::to_string(BitSerializerVerifAccess::Start(reader)) + "," + std::to_string(BitSerializerVerifAccess::End(reader)) + "],\"calls\":[";
	std::basic_string<TChar> out;
	const size_t limit = bytes.size() + 16;      // every successful call of a terminating loop consumes at least one byte
	size_t calls = 0;
	bool hang = false;
	EncodedStreamReadResult r;
	for (;;)
	{
		r = reader.ReadChunk(out);
		if (calls < 12 || r != EncodedStreamReadResult::Success) {
			if (calls) o += ',';
			o += std::string("[\"") + ResName(r) + "\"," + std::to_string(BitSerializerVerifAccess::Start(reader)) + "," + std::to_string(BitSerializerVerifAccess::End(reader)) + "]";
		}
		++calls;
		if (r != EncodedStreamReadResult::Success) break;
		if (calls > limit) { hang = true; break; }
	}
	o += std::string("],\"ncalls\":") + std::to_string(calls) + ",\"final\":\"" + (hang ? "Hang" : ResName(r)) + "\",\"isend\":" + (reader.IsEnd() ? "true" : "false") +
		",\"out\":" + UnitsJson(out) + "}";
	return o;
}

// The error mark is a dimension of every scenario: it rotates with the stream length and the target width, so that every truncation
// class (which recurs for every filler count) meets every mark, without multiplying the number of runs.
template <size_t ChunkSize>
static std::string RunAllTargets(const std::string& bytes, const std::string& kind)
{
	std::string o;
	const int rot = static_cast<int>(bytes.size());
	for (int skip = 1; skip >= 0; --skip) {
		o += RunRead<char, ChunkSize>(bytes, skip != 0, kind, (rot + 0 + (skip ? 0 : 2)) % 4) + ",";
		o += RunRead<char16_t, ChunkSize>(bytes, skip != 0, kind, (rot + 1 + (skip ? 0 : 2)) % 4) + ",";
		o += RunRead<char32_t, ChunkSize>(bytes, skip != 0, kind, (rot + 2 + (skip ? 0 : 2)) % 4);
		if (skip) o += ",";
	}
	return o;
}

static std::string IntsJson(const rapidjson::Value& v)
{
	std::string o = "[";
	bool f = true;
	for (auto& x : v.GetArray()) { if (!f) o += ','; f = false; o += std::to_string(x.GetInt()); }
	return o + "]";
}

static int ModeRead(const char* path)
{
	for (const auto& lineIn : vh::ReadLines(path))
	{
		rapidjson::Document d;
		d.Parse(lineIn.c_str());
		const std::string id = d["id"].GetString();
		const std::string full = vh::BytesFromJson(d["bytes"]);
		const int C = d["C"].GetInt();
		const std::string kind = d.HasMember("kind") ? d["kind"].GetString() : "sstream";
		for (auto& k : d["keeps"].GetArray())
		{
			const size_t keep = static_cast<size_t>(k.GetInt());
			const std::string bytes = full.substr(0, keep);
			const std::string rid = id + "/" + std::to_string(keep);
			Arm("read " + rid);
			std::string runs;
			if (static_cast<size_t>(C) == Utf::CEncodedStreamReader<char>::chunk_size) runs = RunAllTargets<0>(bytes, kind);
			else if (C == 32) runs = RunAllTargets<32>(bytes, kind);
			else { fprintf(stderr, "unsupported chunk size %d\n", C); return 3; }
			alarm(0);
			std::string line = "{\"id\":\"" + rid + "\",\"e\":\"" + d["e"].GetString() + "\",\"bom\":" + (d["bom"].GetBool() ? "true" : "false") +
				",\"cps\":" + IntsJson(d["cps"]) + ",\"keep\":" + std::to_string(keep) + ",\"C\":" + std::to_string(C) + ",\"kind\":\"" + kind + "\",\"runs\":[" + runs + "]}\n";
			fputs(line.c_str(), stdout);
		}
	}
	return 0;
}

template <class TChar>
static std::string RunWrite(const rapidjson::Value& d, const char* partsKey)
{
	std::ostringstream os(std::ios::out | std::ios::binary);
	std::string codes = "[";
	{
		Utf::CEncodedStreamWriter writer(os, UtfFromName(d["e"].GetString()), d["bom"].GetBool());
		bool first = true;
		for (auto& part : d[partsKey].GetArray())
		{
			std::basic_string<TChar> s;
			for (auto& x : part.GetArray()) s.push_back(static_cast<TChar>(x.GetUint()));
			const auto rc = writer.Write(s);
			if (!first) codes += ',';
			first = false;
			codes += std::to_string(static_cast<int>(rc));
		}
	}
	return std::string("{\"sw\":") + std::to_string(sizeof(TChar) * 8) + ",\"codes\":" + codes + "],\"bytes\":" + vh::BytesJson(os.str()) + "}";
}

static int ModeWrite(const char* path)
{
	int n = 0;
	for (const auto& lineIn : vh::ReadLines(path))
	{
		rapidjson::Document d;
		d.Parse(lineIn.c_str());
		Arm("write " + std::to_string(n));
		std::string parts = "[";
		bool f = true;
		for (auto& p : d["parts"].GetArray()) { if (!f) parts += ','; f = false; parts += IntsJson(p); }
		parts += "]";
		std::string line = "{\"id\":\"w" + std::to_string(n++) + "\",\"e\":\"" + d["e"].GetString() + "\",\"bom\":" + (d["bom"].GetBool() ? "true" : "false") +
			",\"parts\":" + parts + ",\"runs\":[" + RunWrite<char>(d, "p8") + "," + RunWrite<char16_t>(d, "p16") + "," + RunWrite<char32_t>(d, "p32") + "," + RunWrite<wchar_t>(d, "p32") + "]}\n";
		alarm(0);
		fputs(line.c_str(), stdout);
	}
	return 0;
}

//------------------------------------------------------------------------------------------------
// Writer: a sequence of calls on one object
//------------------------------------------------------------------------------------------------
static const char* CodeName(Utf::UtfEncodingErrorCode c)
{
	switch (c) {
	case Utf::UtfEncodingErrorCode::Success: return "Success";
	case Utf::UtfEncodingErrorCode::InvalidSequence: return "InvalidSequence";
	case Utf::UtfEncodingErrorCode::UnexpectedEnd: return "UnexpectedEnd";
	}
	return "?";
}

template <class TChar>
static std::string RunWriteSeq(const rapidjson::Value& d)
{
	std::ostringstream os(std::ios::out | std::ios::binary);
	Utf::CEncodedStreamWriter writer(os, UtfFromName(d["e"].GetString()), d["bom"].GetBool(),
		d["skip"].GetBool() ? UtfEncodingErrorPolicy::Skip : UtfEncodingErrorPolicy::ThrowError);
	std::string calls = "[{\"code\":\"init\",\"bytes\":" + vh::BytesJson(os.str()) + "}";
	for (auto& part : d["frags"].GetArray())
	{
		std::basic_string<TChar> s;
		for (auto& x : part.GetArray()) s.push_back(static_cast<TChar>(x.GetUint()));
		const auto rc = writer.Write(s);
		calls += std::string(",{\"code\":\"") + CodeName(rc) + "\",\"bytes\":" + vh::BytesJson(os.str()) + "}";
	}
	return calls + "]";
}

static int ModeWriteSeq(const char* path)
{
	for (const auto& lineIn : vh::ReadLines(path))
	{
		rapidjson::Document d;
		d.Parse(lineIn.c_str());
		const std::string id = d["id"].GetString();
		Arm("writeseq " + id);
		const int sw = d["sw"].GetInt();
		const std::string calls = sw == 8 ? RunWriteSeq<char>(d) : sw == 16 ? RunWriteSeq<char16_t>(d) : RunWriteSeq<char32_t>(d);
		alarm(0);
		std::string frags = "[";
		bool f = true;
		for (auto& p : d["frags"].GetArray()) { if (!f) frags += ','; f = false; frags += IntsJson(p); }
		frags += "]";
		std::string line = "{\"id\":\"" + id + "\",\"wseq\":true,\"e\":\"" + d["e"].GetString() + "\",\"bom\":" + (d["bom"].GetBool() ? "true" : "false") +
			",\"sw\":" + std::to_string(sw) + ",\"skip\":" + (d["skip"].GetBool() ? "true" : "false") + ",\"frags\":" + frags + ",\"calls\":" + calls + "}\n";
		fputs(line.c_str(), stdout);
	}
	return 0;
}

//------------------------------------------------------------------------------------------------
// DetectEncoding(std::istream&, skipBomWhenFound) behind a consumed preamble
//------------------------------------------------------------------------------------------------
static int ModeDetect(const char* path)
{
	for (const auto& lineIn : vh::ReadLines(path))
	{
		rapidjson::Document d;
		d.Parse(lineIn.c_str());
		const std::string id = d["id"].GetString();
		const std::string pre = vh::BytesFromJson(d["pre"]);
		const std::string text = vh::BytesFromJson(d["bytes"]);
		std::string runs;
		for (int skip = 0; skip <= 1; ++skip)
		{
			Arm("detect " + id);
			std::istringstream is(pre + text, std::ios::in | std::ios::binary);
			std::string consumed(pre.size(), '\0');
			is.read(consumed.data(), static_cast<std::streamsize>(consumed.size()));      // the caller has consumed the preamble
			const long before = static_cast<long>(is.tellg());
			const auto utf = Utf::DetectEncoding(is, skip != 0);
			const bool good = is.good();
			const long pos = static_cast<long>(is.tellg());
			std::string rest;
			{
				char buf[512];
				while (is.read(buf, sizeof buf) || is.gcount() > 0) rest.append(buf, static_cast<size_t>(is.gcount()));
			}
			alarm(0);
			runs += std::string(skip ? "," : "") + "{\"skip\":" + (skip ? "true" : "false") + ",\"utf\":\"" + UtfName(utf) + "\",\"before\":" + std::to_string(before) +
				",\"pos\":" + std::to_string(pos) + ",\"good\":" + (good ? "true" : "false") + ",\"rest\":" + vh::BytesJson(rest) + "}";
		}
		std::string line = "{\"id\":\"" + id + "\",\"det\":true,\"e\":\"" + d["e"].GetString() + "\",\"bom\":" + (d["bom"].GetBool() ? "true" : "false") +
			",\"cps\":" + IntsJson(d["cps"]) + ",\"p\":" + std::to_string(pre.size()) + ",\"runs\":[" + runs + "]}\n";
		fputs(line.c_str(), stdout);
	}
	return 0;
}

//------------------------------------------------------------------------------------------------
// CSV stream entry point
//------------------------------------------------------------------------------------------------
struct CsvRow
{
	std::string a, b;
	template <class TArchive> void Serialize(TArchive& archive)
	{
		archive << BitSerializer::KeyValue("a", a);
		archive << BitSerializer::KeyValue("b", b);
	}
};

static std::string NestedJson(const rapidjson::Value& v)
{
	if (!v.IsArray()) return std::to_string(v.GetInt64());
	std::string o = "[";
	bool f = true;
	for (auto& x : v.GetArray()) { if (!f) o += ','; f = false; o += NestedJson(x); }
	return o + "]";
}

static int ModeCsv(const char* path)
{
	const size_t chunk = Utf::CEncodedStreamReader<char>::chunk_size;
	for (const auto& lineIn : vh::ReadLines(path))
	{
		rapidjson::Document d;
		d.Parse(lineIn.c_str());
		const std::string id = d["id"].GetString();
		if (static_cast<size_t>(d["C"].GetInt()) != chunk) { fprintf(stderr, "scenario %s is for chunk %d, this build has %zu\n", id.c_str(), d["C"].GetInt(), chunk); return 3; }
		const std::string bytes = vh::BytesFromJson(d["bytes"]);
		const std::string kind = d.HasMember("kind") ? d["kind"].GetString() : "sstream";
		Arm("csv " + id);
		auto holder = vh::MakeStream(kind, bytes);
		std::vector<CsvRow> rows;
		std::string exc;
		try { BitSerializer::LoadObject<BitSerializer::Csv::CsvArchive>(rows, holder.get()); }
		catch (const std::exception& ex) { exc = ex.what(); }
		alarm(0);
		std::string loaded = "[";
		for (size_t i = 0; i < rows.size(); ++i) loaded += std::string(i ? "," : "") + "[" + vh::BytesJson(rows[i].a) + "," + vh::BytesJson(rows[i].b) + "]";
		loaded += "]";
		std::string line = "{\"id\":\"" + id + "\",\"csv\":true,\"e\":\"" + d["e"].GetString() + "\",\"bom\":" + (d["bom"].GetBool() ? "true" : "false") +
			",\"fb\":" + (d["fb"].GetBool() ? "true" : "false") + ",\"C\":" + std::to_string(chunk) + ",\"len\":" + std::to_string(bytes.size()) + ",\"kind\":\"" + kind +
			"\",\"rows\":" + NestedJson(d["rows"]) + ",\"loaded\":" + loaded + ",\"exc\":\"" + vh::JsonEscape(exc) + "\"}\n";
		fputs(line.c_str(), stdout);
	}
	return 0;
}

int main(int argc, char** argv)
{
	vh::InstallTerminateHandler();
	signal(SIGALRM, OnAlarm);
	const std::string mode = argc > 1 ? argv[1] : "";
	if (mode == "read" && argc >= 3) return ModeRead(argv[2]);
	if (mode == "write" && argc >= 3) return ModeWrite(argv[2]);
	if (mode == "writeseq" && argc >= 3) return ModeWriteSeq(argv[2]);
	if (mode == "detect" && argc >= 3) return ModeDetect(argv[2]);
	if (mode == "csv" && argc >= 3) return ModeCsv(argv[2]);
	fprintf(stderr, "usage: encstream_harness read|write|writeseq|detect|csv <scenarios.ndjson>\n");
	return 3;
}
