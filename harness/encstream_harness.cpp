// Conformance harness for CEncodedStreamReader / DetectEncoding / CEncodedStreamWriter (property C13).
//   encstream_harness read <scenarios.ndjson>     each row: scheme, BOM flag, text, complete byte stream (written by TLC) and the
//                                                 truncation points; executed for target char types {char, char16_t, char32_t} x
//                                                 {Skip, ThrowError} with chunk size row["C"] (32 or the default 256)
//   encstream_harness write <scenarios.ndjson>    writer scenarios (parts in all three source widths)
// Logs per run: detected encoding, (result, mStartDataPtr, mEndDataPtr offsets) after every ReadChunk, the concatenated output,
// the final result; a client loop that does not terminate is logged as "hang":true (call limit), a call that does not
// return as {"e":"Hang"} (alarm).  The harness never judges.
#include "vh_common.h"
#include "bitserializer/convert.h"
#include <csignal>

namespace Utf = BitSerializer::Convert::Utf;
using Utf::UtfEncodingErrorPolicy;
using Utf::EncodedStreamReadResult;

struct BitSerializerVerifAccess
{
	template <class TReader> static long Start(const TReader& r) { return static_cast<long>(r.mStartDataPtr - r.mEncodedBuffer); }
	template <class TReader> static long End(const TReader& r) { return static_cast<long>(r.mEndDataPtr - r.mEncodedBuffer); }
};

static const char* UtfName(Utf::UtfType t)
{
	switch (t) {
	case Utf::UtfType::Utf8: return "Utf8";
	case Utf::UtfType::Utf16le: return "Utf16le";
	case Utf::UtfType::Utf16be: return "Utf16be";
	case Utf::UtfType::Utf32le: return "Utf32le";
	case Utf::UtfType::Utf32be: return "Utf32be";
	}
	return "invalid";
}
static Utf::UtfType UtfFromName(const std::string& n)
{
	if (n == "Utf8") return Utf::UtfType::Utf8;
	if (n == "Utf16le") return Utf::UtfType::Utf16le;
	if (n == "Utf16be") return Utf::UtfType::Utf16be;
	if (n == "Utf32le") return Utf::UtfType::Utf32le;
	return Utf::UtfType::Utf32be;
}
static const char* ResName(EncodedStreamReadResult r)
{
	switch (r) {
	case EncodedStreamReadResult::Success: return "Success";
	case EncodedStreamReadResult::DecodeError: return "DecodeError";
	case EncodedStreamReadResult::EndFile: return "EndFile";
	}
	return "?";
}

template <class TStr> static std::string UnitsJson(const TStr& s)
{
	std::string o = "[";
	for (size_t i = 0; i < s.size(); ++i) {
		if (i) o += ',';
		uint32_t x;
		if constexpr (sizeof(s[i]) == 1) x = static_cast<uint8_t>(s[i]);
		else if constexpr (sizeof(s[i]) == 2) x = static_cast<uint16_t>(s[i]);
		else x = static_cast<uint32_t>(s[i]);
		if (x >= 0x80000000u) o += "-1"; else o += std::to_string(x);
	}
	return o + "]";
}

static char gHangMsg[600];
static void OnAlarm(int) { (void)!write(1, gHangMsg, strlen(gHangMsg)); _exit(43); }
static void Arm(const std::string& ctx)
{
	snprintf(gHangMsg, sizeof gHangMsg, "\n{\"e\":\"Hang\",\"ctx\":\"%s\"}\n", vh::JsonEscape(ctx).c_str());
	alarm(10);
}

// ChunkSize 0: the default template argument (256, or BITSERIALIZER_VERIF_ENC_CHUNK_SIZE when the hook is compiled in)
template <class TChar, size_t ChunkSize>
static std::string RunRead(const std::string& bytes, bool skip, const std::string& kind)
{
	using TReader = std::conditional_t<ChunkSize == 0, Utf::CEncodedStreamReader<TChar>, Utf::CEncodedStreamReader<TChar, ChunkSize == 0 ? 32 : ChunkSize>>;
	auto holder = vh::MakeStream(kind, bytes);
	TReader reader(holder.get(), skip ? UtfEncodingErrorPolicy::Skip : UtfEncodingErrorPolicy::ThrowError);
	std::string o = std::string("{\"tw\":") + std::to_string(sizeof(TChar) * 8) + ",\"skip\":" + (skip ? "true" : "false") +
		",\"utf\":\"" + (bytes.empty() ? "unset" : UtfName(reader.GetSourceUtfType())) + "\"" +
		",\"init\":[" + std::to_string(BitSerializerVerifAccess::Start(reader)) + "," + std::to_string(BitSerializerVerifAccess::End(reader)) + "],\"calls\":[";
	std::basic_string<TChar> out;
	const size_t limit = bytes.size() + 16;      // every successful call of a terminating loop consumes at least one byte
	size_t calls = 0;
	bool hang = false;
	EncodedStreamReadResult r;
	for (;;)
	{
		r = reader.ReadChunk(out);
		if (calls < 12 || r != EncodedStreamReadResult::Success) {
			if (calls) o += ',';
			o += std::string("[\"") + ResName(r) + "\"," + std::to_string(BitSerializerVerifAccess::Start(reader)) + "," + std::to_string(BitSerializerVerifAccess::End(reader)) + "]";
		}
		++calls;
		if (r != EncodedStreamReadResult::Success) break;
		if (calls > limit) { hang = true; break; }
	}
	o += std::string("],\"ncalls\":") + std::to_string(calls) + ",\"final\":\"" + (hang ? "Hang" : ResName(r)) + "\",\"isend\":" + (reader.IsEnd() ? "true" : "false") +
		",\"out\":" + UnitsJson(out) + "}";
	return o;
}

template <size_t ChunkSize>
static std::string RunAllTargets(const std::string& bytes, const std::string& kind)
{
	std::string o;
	for (int skip = 1; skip >= 0; --skip) {
		o += RunRead<char, ChunkSize>(bytes, skip != 0, kind) + ",";
		o += RunRead<char16_t, ChunkSize>(bytes, skip != 0, kind) + ",";
		o += RunRead<char32_t, ChunkSize>(bytes, skip != 0, kind);
		if (skip) o += ",";
	}
	return o;
}

static std::string IntsJson(const rapidjson::Value& v)
{
	std::string o = "[";
	bool f = true;
	for (auto& x : v.GetArray()) { if (!f) o += ','; f = false; o += std::to_string(x.GetInt()); }
	return o + "]";
}

static int ModeRead(const char* path)
{
	for (const auto& lineIn : vh::ReadLines(path))
	{
		rapidjson::Document d;
		d.Parse(lineIn.c_str());
		const std::string id = d["id"].GetString();
		const std::string full = vh::BytesFromJson(d["bytes"]);
		const int C = d["C"].GetInt();
		const std::string kind = d.HasMember("kind") ? d["kind"].GetString() : "sstream";
		for (auto& k : d["keeps"].GetArray())
		{
			const size_t keep = static_cast<size_t>(k.GetInt());
			const std::string bytes = full.substr(0, keep);
			const std::string rid = id + "/" + std::to_string(keep);
			Arm("read " + rid);
			std::string runs;
			if (static_cast<size_t>(C) == Utf::CEncodedStreamReader<char>::chunk_size) runs = RunAllTargets<0>(bytes, kind);
			else if (C == 32) runs = RunAllTargets<32>(bytes, kind);
			else { fprintf(stderr, "unsupported chunk size %d\n", C); return 3; }
			alarm(0);
			std::string line = "{\"id\":\"" + rid + "\",\"e\":\"" + d["e"].GetString() + "\",\"bom\":" + (d["bom"].GetBool() ? "true" : "false") +
				",\"cps\":" + IntsJson(d["cps"]) + ",\"keep\":" + std::to_string(keep) + ",\"C\":" + std::to_string(C) + ",\"kind\":\"" + kind + "\",\"runs\":[" + runs + "]}\n";
			fputs(line.c_str(), stdout);
		}
	}
	return 0;
}

template <class TChar>
static std::string RunWrite(const rapidjson::Value& d, const char* partsKey)
{
	std::ostringstream os(std::ios::out | std::ios::binary);
	std::string codes = "[";
	{
		Utf::CEncodedStreamWriter writer(os, UtfFromName(d["e"].GetString()), d["bom"].GetBool());
		bool first = true;
		for (auto& part : d[partsKey].GetArray())
		{
			std::basic_string<TChar> s;
			for (auto& x : part.GetArray()) s.push_back(static_cast<TChar>(x.GetUint()));
			const auto rc = writer.Write(s);
			if (!first) codes += ',';
			first = false;
			codes += std::to_string(static_cast<int>(rc));
		}
	}
	return std::string("{\"sw\":") + std::to_string(sizeof(TChar) * 8) + ",\"codes\":" + codes + "],\"bytes\":" + vh::BytesJson(os.str()) + "}";
}

static int ModeWrite(const char* path)
{
	int n = 0;
	for (const auto& lineIn : vh::ReadLines(path))
	{
		rapidjson::Document d;
		d.Parse(lineIn.c_str());
		Arm("write " + std::to_string(n));
		std::string parts = "[";
		bool f = true;
		for (auto& p : d["parts"].GetArray()) { if (!f) parts += ','; f = false; parts += IntsJson(p); }
		parts += "]";
		std::string line = "{\"id\":\"w" + std::to_string(n++) + "\",\"e\":\"" + d["e"].GetString() + "\",\"bom\":" + (d["bom"].GetBool() ? "true" : "false") +
			",\"parts\":" + parts + ",\"runs\":[" + RunWrite<char>(d, "p8") + "," + RunWrite<char16_t>(d, "p16") + "," + RunWrite<char32_t>(d, "p32") + "," + RunWrite<wchar_t>(d, "p32") + "]}\n";
		alarm(0);
		fputs(line.c_str(), stdout);
	}
	return 0;
}

int main(int argc, char** argv)
{
	vh::InstallTerminateHandler();
	signal(SIGALRM, OnAlarm);
	const std::string mode = argc > 1 ? argv[1] : "";
	if (mode == "read" && argc >= 3) return ModeRead(argv[2]);
	if (mode == "write" && argc >= 3) return ModeWrite(argv[2]);
	fprintf(stderr, "usage: encstream_harness read|write <scenarios.ndjson>\n");
	return 3;
}
