// C17 conformance harness: executes validation scenarios chosen by spec/MC_Validation.tla on the REAL code,
// on four archives (MsgPack, RapidJson, PugiXml, CSV), through the public API only.
//
//   val_harness run <scenarios.ndjson> [withdoc]
//
// Every scenario line lists the archives ("archs") and the media ("media": mem | file | sstream | short<k> - see vh::MakeStream)
// on which it is executed: one run per (scenario, archive, medium); a stream medium goes through the std::istream
// overload of LoadObject.
//
// A scenario describes a class (fields: key, type, up to 3 validators each), a document (per field: a value, absent,
// null or a value of the wrong kind), a placement (flat / nested / array / map / root array), maxValidationErrors and
// the archives on which it is meaningful.  For every (scenario, archive):
//   1. the document is produced by SAVING a writer object with the same archive,
//   2. it is loaded into the validated class (MismatchedTypesPolicy::Skip, maxValidationErrors = cap),
//   3. the observation is logged: exception kind, ValidationException::GetValidationErrors() (path -> messages, as is),
//      and the values of all fields after the load.
// Nothing is judged here.  Validators are template arguments of KeyValue, so every field carries 3 slots of the
// runtime-configured AnyValidator<T>, which calls the REAL built-in validators of validators.h (a callable
// (value, isLoaded) -> std::optional<std::string> is the public validator interface).
#include "vh_common.h"
#include "bitserializer/bit_serializer.h"
#include "bitserializer/msgpack_archive.h"
#include "bitserializer/rapidjson_archive.h"
#include "bitserializer/pugixml_archive.h"
#include "bitserializer/csv_archive.h"
#include "bitserializer/types/std/vector.h"
#include "bitserializer/types/std/map.h"
#include "bitserializer/types/std/optional.h"
#include <map>
#include <optional>

namespace {

using namespace BitSerializer;

constexpr size_t kSlots = 3;
constexpr size_t kMaxFields = 4;

struct VCfg { std::string kind; long a = 0, b = 0; std::string msg; };
struct Sub      // the nested object {x}
{
	int x = 77;
	template <class TArchive> void Serialize(TArchive& archive) { archive << KeyValue("x", x); }
};

struct FieldCfg
{
	std::string key, type;          // type: int | str | optint | vecint | vecstr | mapint | obj
	std::string docKind;            // int | str | ints | strs | imap | obj | absent | null
	int docInt = 0;
	std::string docStr;
	std::vector<int> docInts;          // also the code points of a wide string (kind "wstr")
	std::vector<std::string> docStrs;
	std::map<std::string, int> docMap;
	VCfg v[kSlots];                 // kind "" = empty slot
};
struct Scenario
{
	std::string id, place;
	size_t nel = 1;
	uint32_t cap = 0;
	bool throwOnMismatch = false;   // mismatchedTypesPolicy: ThrowError (the default) | Skip
	std::vector<FieldCfg> fields;
	std::vector<std::string> archs, media;
};

const Scenario* g_scn = nullptr;

// CSV scopes hold flat records only: container / object members exist only for the structured archives
template <class A, class = void> struct IsCsvScope : std::false_type {};
template <class A> struct IsCsvScope<A, std::void_t<decltype(A::allowed_separators)>> : std::true_type {};

[[noreturn]] void Die(const std::string& what) { fprintf(stderr, "val_harness: %s\n", what.c_str()); fflush(stderr); _exit(3); }

//-----------------------------------------------------------------------------
// The runtime-configured validator: dispatches to the real validators of validators.h
//-----------------------------------------------------------------------------
template <class T>
struct AnyValidator
{
	const VCfg* cfg;

	std::optional<std::string> operator()(const T& value, bool isLoaded) const
	{
		const std::string& k = cfg->kind;
		const char* msg = cfg->msg.empty() ? nullptr : cfg->msg.c_str();
		if (k.empty()) return std::nullopt;
		if (k == "req") return msg ? Required(msg)(value, isLoaded) : Required()(value, isLoaded);
		if (k == "custom") return CustomLambda(value, isLoaded, msg);
		if constexpr (std::is_same_v<T, int>)
		{
			if (k == "range") return Range<int>(static_cast<int>(cfg->a), static_cast<int>(cfg->b), msg)(value, isLoaded);
		}
		if constexpr (has_size_v<T>)
		{
			if (k == "minsize") return MinSize(static_cast<size_t>(cfg->a), msg)(value, isLoaded);
			if (k == "maxsize") return MaxSize(static_cast<size_t>(cfg->a), msg)(value, isLoaded);
		}
		if constexpr (std::is_same_v<T, std::string> || std::is_same_v<T, std::u16string>)
		{
			if (k == "email") return msg ? Email(msg)(value, isLoaded) : Email()(value, isLoaded);
			if (k == "phone") return PhoneNumber(static_cast<size_t>(cfg->a), static_cast<size_t>(cfg->b), true, msg)(value, isLoaded);
			if (k == "phonenp") return PhoneNumber(static_cast<size_t>(cfg->a), static_cast<size_t>(cfg->b), false, msg)(value, isLoaded);
		}
		Die("validator '" + k + "' is not applicable to this field type");
	}

	// the user's own rule (README: "Custom validation with lambda"): strings must not contain spaces, numbers must be even
	static std::optional<std::string> CustomLambda(const T& value, bool isLoaded, const char* msg)
	{
		if constexpr (std::is_same_v<T, std::string>) {
			if (!isLoaded || value.find_first_of(' ') == std::string::npos) return std::nullopt;
			return msg ? msg : "The field must not contain spaces";
		}
		else if constexpr (std::is_same_v<T, int>) {
			if (!isLoaded || value % 2 == 0) return std::nullopt;
			return msg ? msg : "The value must be even";
		}
		else if constexpr (std::is_same_v<T, std::optional<int>>) {
			if (!isLoaded || !value.has_value() || *value % 2 == 0) return std::nullopt;
			return msg ? msg : "The value must be even";
		}
		else if constexpr (std::is_same_v<T, Sub>) {
			if (!isLoaded || value.x % 2 == 0) return std::nullopt;
			return msg ? msg : "The value must be even";
		}
		else Die("the custom rule is not defined for this field type");
	}
};

//-----------------------------------------------------------------------------
// The validated class (reader) and the writer of the document
//-----------------------------------------------------------------------------
struct VObj
{
	int iv[kMaxFields];
	std::string sv[kMaxFields];
	std::optional<int> ov[kMaxFields];
	std::vector<int> vi[kMaxFields];
	std::vector<std::string> vs[kMaxFields];
	std::map<std::string, int> mi[kMaxFields];
	Sub so[kMaxFields];
	std::u16string wv[kMaxFields];

	VObj() { for (size_t k = 0; k < kMaxFields; ++k) { iv[k] = 77; sv[k] = "prior"; ov[k] = std::nullopt; wv[k] = u"prior"; } }

	template <class TArchive>
	void Serialize(TArchive& archive)
	{
		const auto& fs = g_scn->fields;
		for (size_t k = 0; k < fs.size(); ++k)
		{
			const FieldCfg& f = fs[k];
			if (g_scn->place == "attr")
			{
				// XML: the fields are attributes of the object's element
				if constexpr (can_serialize_attribute_v<TArchive>)
				{
					if (f.type == "int")
						archive << AttributeValue(std::string(f.key), iv[k], AnyValidator<int>{ &f.v[0] }, AnyValidator<int>{ &f.v[1] }, AnyValidator<int>{ &f.v[2] });
					else if (f.type == "str")
						archive << AttributeValue(std::string(f.key), sv[k], AnyValidator<std::string>{ &f.v[0] }, AnyValidator<std::string>{ &f.v[1] }, AnyValidator<std::string>{ &f.v[2] });
					else Die("attribute fields are int or str");
				}
				else Die("this archive has no attributes");
			}
			else if (f.type == "wstr")
				archive << KeyValue(std::string(f.key), wv[k], AnyValidator<std::u16string>{ &f.v[0] }, AnyValidator<std::u16string>{ &f.v[1] }, AnyValidator<std::u16string>{ &f.v[2] });
			else if (f.type == "int")
				archive << KeyValue(std::string(f.key), iv[k], AnyValidator<int>{ &f.v[0] }, AnyValidator<int>{ &f.v[1] }, AnyValidator<int>{ &f.v[2] });
			else if (f.type == "str")
				archive << KeyValue(std::string(f.key), sv[k], AnyValidator<std::string>{ &f.v[0] }, AnyValidator<std::string>{ &f.v[1] }, AnyValidator<std::string>{ &f.v[2] });
			else if (f.type == "optint")
				archive << KeyValue(std::string(f.key), ov[k], AnyValidator<std::optional<int>>{ &f.v[0] }, AnyValidator<std::optional<int>>{ &f.v[1] }, AnyValidator<std::optional<int>>{ &f.v[2] });
			else if constexpr (IsCsvScope<TArchive>::value) Die("CSV cannot hold a field of type " + f.type);
			else if (f.type == "vecint")
				archive << KeyValue(std::string(f.key), vi[k], AnyValidator<std::vector<int>>{ &f.v[0] }, AnyValidator<std::vector<int>>{ &f.v[1] }, AnyValidator<std::vector<int>>{ &f.v[2] });
			else if (f.type == "vecstr")
				archive << KeyValue(std::string(f.key), vs[k], AnyValidator<std::vector<std::string>>{ &f.v[0] }, AnyValidator<std::vector<std::string>>{ &f.v[1] }, AnyValidator<std::vector<std::string>>{ &f.v[2] });
			else if (f.type == "mapint")
				archive << KeyValue(std::string(f.key), mi[k], AnyValidator<std::map<std::string, int>>{ &f.v[0] }, AnyValidator<std::map<std::string, int>>{ &f.v[1] }, AnyValidator<std::map<std::string, int>>{ &f.v[2] });
			else if (f.type == "obj")
				archive << KeyValue(std::string(f.key), so[k], AnyValidator<Sub>{ &f.v[0] }, AnyValidator<Sub>{ &f.v[1] }, AnyValidator<Sub>{ &f.v[2] });
			else Die("unknown field type " + f.type);
		}
	}

	void AppendValues(std::string& out) const
	{
		const auto& fs = g_scn->fields;
		for (size_t k = 0; k < fs.size(); ++k)
		{
			if (!out.empty()) out += ',';
			if (fs[k].type == "int") out += "[\"int\"," + std::to_string(iv[k]) + "]";
			else if (fs[k].type == "str") out += "[\"str\",\"" + vh::JsonEscape(sv[k]) + "\"]";
			else if (fs[k].type == "wstr") { out += "[\"wstr\",["; for (size_t i = 0; i < wv[k].size(); ++i) { if (i) out += ','; out += std::to_string(static_cast<unsigned>(wv[k][i])); } out += "]]"; }
			else if (fs[k].type == "optint") out += ov[k] ? "[\"some\"," + std::to_string(*ov[k]) + "]" : std::string("[\"none\"]");
			else if (fs[k].type == "vecint") { out += "[\"ints\",["; for (size_t i = 0; i < vi[k].size(); ++i) { if (i) out += ','; out += std::to_string(vi[k][i]); } out += "]]"; }
			else if (fs[k].type == "vecstr") { out += "[\"strs\",["; for (size_t i = 0; i < vs[k].size(); ++i) { if (i) out += ','; out += "\"" + vh::JsonEscape(vs[k][i]) + "\""; } out += "]]"; }
			else if (fs[k].type == "mapint") { out += "[\"imap\",["; bool first = true; for (const auto& kv : mi[k]) { if (!first) out += ','; first = false; out += "[\"" + vh::JsonEscape(kv.first) + "\"," + std::to_string(kv.second) + "]"; } out += "]]"; }
			else out += "[\"obj\"," + std::to_string(so[k].x) + "]";
		}
	}
};

struct WObj
{
	template <class TArchive>
	void Serialize(TArchive& archive)
	{
		for (const FieldCfg& f : g_scn->fields)
		{
			if (g_scn->place == "attr")
			{
				if constexpr (can_serialize_attribute_v<TArchive>)
				{
					if (f.docKind == "int") { int x = f.docInt; archive << AttributeValue(std::string(f.key), x); }
					else if (f.docKind == "str") { std::string s = f.docStr; archive << AttributeValue(std::string(f.key), s); }
					else if (f.docKind != "absent") Die("attribute values are int, str or absent");
				}
				else Die("this archive has no attributes");
			}
			else if (f.docKind == "int") { int x = f.docInt; archive << KeyValue(std::string(f.key), x); }
			else if (f.docKind == "str") { std::string s = f.docStr; archive << KeyValue(std::string(f.key), s); }
			else if (f.docKind == "wstr") { std::u16string w; for (int c : f.docInts) w.push_back(static_cast<char16_t>(c)); archive << KeyValue(std::string(f.key), w); }
			else if (f.docKind == "null") { std::nullptr_t n = nullptr; archive << KeyValue(std::string(f.key), n); }
			else if (f.docKind == "absent") continue;
			else if constexpr (IsCsvScope<TArchive>::value) Die("CSV cannot hold a value of kind " + f.docKind);
			else if (f.docKind == "ints") { std::vector<int> v = f.docInts; archive << KeyValue(std::string(f.key), v); }
			else if (f.docKind == "strs") { std::vector<std::string> v = f.docStrs; archive << KeyValue(std::string(f.key), v); }
			else if (f.docKind == "imap") { std::map<std::string, int> m = f.docMap; archive << KeyValue(std::string(f.key), m); }
			else if (f.docKind == "obj") { Sub o; o.x = f.docInt; archive << KeyValue(std::string(f.key), o); }
			else Die("unknown doc kind " + f.docKind);
		}
	}
};

template <class TObj> struct RootNested { TObj n; template <class A> void Serialize(A& archive) { archive << KeyValue("n", n); } };
template <class TObj> struct RootArr { std::vector<TObj> arr; template <class A> void Serialize(A& archive) { archive << KeyValue("arr", arr); } };
template <class TObj> struct RootMap { std::map<std::string, TObj> m; template <class A> void Serialize(A& archive) { archive << KeyValue("m", m); } };

//-----------------------------------------------------------------------------
std::string DescribeCurrentException(std::string& errs)
{
	try { throw; }
	catch (const ValidationException& e)
	{
		errs.clear();
		for (const auto& kv : e.GetValidationErrors())
		{
			if (!errs.empty()) errs += ',';
			errs += "[\"" + vh::JsonEscape(kv.first) + "\",[";
			for (size_t i = 0; i < kv.second.size(); ++i) { if (i) errs += ','; errs += "\"" + vh::JsonEscape(kv.second[i]) + "\""; }
			errs += "]]";
		}
		return "[\"validation\"]";
	}
	catch (const SerializationException& e) { return "[\"ser\",\"" + Convert::ToString(e.GetErrorCode()) + "\"]"; }
	catch (const std::bad_alloc&) { return "[\"std\",\"bad_alloc\"]"; }
	catch (const std::exception& e) { return std::string("[\"std\",\"") + vh::JsonEscape(e.what()) + "\"]"; }
	catch (...) { return "[\"nonstd\"]"; }
}

template <class TArchive>
std::string RunScenario(const Scenario& s, const std::string& medium, bool withDoc)
{
	constexpr bool isCsv = std::is_same_v<TArchive, Csv::CsvArchive>;
	SerializationOptions options;
	options.mismatchedTypesPolicy = s.throwOnMismatch ? MismatchedTypesPolicy::ThrowError : MismatchedTypesPolicy::Skip;
	options.maxValidationErrors = s.cap;

	// 1. the document: saved by the same archive
	typename TArchive::preferred_output_format data;
	std::string saveExc;
	try
	{
		std::string dummy;
		if (s.place == "rootarr") { std::vector<WObj> w(s.nel); SaveObject<TArchive>(w, data, options); }
		else if constexpr (!isCsv)
		{
			if (s.place == "flat" || s.place == "attr") { WObj w; SaveObject<TArchive>(w, data, options); }
			else if (s.place == "nested") { RootNested<WObj> w; SaveObject<TArchive>(w, data, options); }
			else if (s.place == "arr") { RootArr<WObj> w; w.arr.resize(s.nel); SaveObject<TArchive>(w, data, options); }
			else if (s.place == "map") { RootMap<WObj> w; for (size_t e = 1; e <= s.nel; ++e) w.m.emplace("k" + std::to_string(e), WObj{}); SaveObject<TArchive>(w, data, options); }
			else Die("unknown placement " + s.place);
		}
		else Die("CSV holds only a root array");
	}
	catch (...) { std::string e; saveExc = DescribeCurrentException(e); }
	if (!saveExc.empty()) return "\"exc\":[\"savefailed\"," + saveExc + "],\"errs\":[],\"vals\":[]";

	// 2. the load into the validated class
	std::string exc = "[\"none\"]", errs, vals;
	auto load = [&](auto& target) {
		try
		{
			if (medium == "mem") LoadObject<TArchive>(target, data, options);
			else if (medium == "file")
			{
				// the file entry point: the document is written to a scratch file and loaded with LoadObjectFromFile()
				const std::string path = "/tmp/val_harness_" + std::to_string(getpid()) + ".doc";
				{ std::ofstream f(path, std::ios::binary | std::ios::trunc); f.write(data.data(), static_cast<std::streamsize>(data.size())); }
				try { LoadObjectFromFile<TArchive>(target, path, options); }
				catch (...) { unlink(path.c_str()); throw; }
				unlink(path.c_str());
			}
			else
			{
				auto holder = vh::MakeStream(medium, std::string(data.data(), data.size()));
				LoadObject<TArchive>(target, holder.get(), options);
			}
		}
		catch (...) { exc = DescribeCurrentException(errs); }
	};
	if (s.place == "rootarr") { std::vector<VObj> t; load(t); for (const auto& o : t) o.AppendValues(vals); }
	else if constexpr (!isCsv)
	{
		if (s.place == "flat" || s.place == "attr") { VObj t; load(t); t.AppendValues(vals); }
		else if (s.place == "nested") { RootNested<VObj> t; load(t); t.n.AppendValues(vals); }
		else if (s.place == "arr") { RootArr<VObj> t; load(t); for (const auto& o : t.arr) o.AppendValues(vals); }
		else if (s.place == "map") { RootMap<VObj> t; load(t); for (const auto& kv : t.m) kv.second.AppendValues(vals); }
	}
	std::string res = "\"exc\":" + exc + ",\"errs\":[" + errs + "],\"vals\":[" + vals + "]";
	if (withDoc) res += std::string(",\"doc\":\"") + (TArchive::is_binary ? vh::Hex(data) : vh::JsonEscape(data)) + "\"";
	return res;
}

Scenario ParseScenario(const std::string& line)
{
	rapidjson::Document d;
	d.Parse(line.c_str());
	if (d.HasParseError() || !d.IsObject()) Die("bad scenario line");
	Scenario s;
	s.id = d["id"].GetString();
	s.place = d["place"].GetString();
	s.nel = d["nel"].GetUint();
	s.cap = d["cap"].GetUint();
	s.throwOnMismatch = d.HasMember("pol") && std::string(d["pol"].GetString()) == "throw";
	for (const auto& a : d["archs"].GetArray()) s.archs.emplace_back(a.GetString());
	if (d.HasMember("media")) for (const auto& m : d["media"].GetArray()) s.media.emplace_back(m.GetString());
	if (s.media.empty()) s.media.emplace_back("mem");
	for (const auto& jf : d["fields"].GetArray())
	{
		FieldCfg f;
		f.key = jf["key"].GetString();
		f.type = jf["t"].GetString();
		const auto& doc = jf["doc"];
		f.docKind = doc[0].GetString();
		if (f.docKind == "int" || f.docKind == "obj") f.docInt = doc[1].GetInt();
		else if (f.docKind == "str") f.docStr = doc[1].GetString();
		else if (f.docKind == "ints" || f.docKind == "wstr") { for (const auto& x : doc[1].GetArray()) f.docInts.push_back(x.GetInt()); }
		else if (f.docKind == "strs") { for (const auto& x : doc[1].GetArray()) f.docStrs.emplace_back(x.GetString()); }
		else if (f.docKind == "imap") { for (const auto& x : doc[1].GetArray()) f.docMap.emplace(x[0].GetString(), x[1].GetInt()); }
		const auto& vs = jf["vs"].GetArray();
		if (vs.Size() > kSlots) Die("too many validators");
		for (rapidjson::SizeType j = 0; j < vs.Size(); ++j)
		{
			f.v[j].kind = vs[j]["k"].GetString();
			f.v[j].a = vs[j]["a"].GetInt();
			f.v[j].b = vs[j]["b"].GetInt();
			f.v[j].msg = vs[j]["msg"].GetString();
		}
		s.fields.push_back(std::move(f));
	}
	if (s.fields.size() > kMaxFields) Die("too many fields");
	return s;
}

}  // namespace

int main(int argc, char** argv)
{
	if (argc < 3 || std::string(argv[1]) != "run") { fprintf(stderr, "usage: val_harness run <scenarios.ndjson> [withdoc]\n"); return 3; }
	const bool withDoc = argc > 3 && std::string(argv[3]) == "withdoc";
	const auto lines = vh::ReadLines(argv[2]);
	struct Run { size_t line; std::string arch, medium; };
	std::vector<Run> runs;
	for (size_t i = 0; i < lines.size(); ++i)
	{
		const Scenario sc = ParseScenario(lines[i]);
		for (const auto& a : sc.archs) for (const auto& m : sc.media) runs.push_back({ i, a, m });
	}
	size_t cachedIndex = static_cast<size_t>(-1);
	Scenario scn;
	return vh::ForkedRunner(runs.size(), [&](size_t r) {
		if (cachedIndex != runs[r].line) { scn = ParseScenario(lines[runs[r].line]); cachedIndex = runs[r].line; }
		g_scn = &scn;
		const std::string& arch = runs[r].arch;
		const std::string& medium = runs[r].medium;
		vh::TerminateContext() = scn.id + "/" + arch + "/" + medium;
		std::string res;
		if (arch == "json") res = RunScenario<Json::RapidJson::JsonArchive>(scn, medium, withDoc);
		else if (arch == "xml") res = RunScenario<Xml::PugiXml::XmlArchive>(scn, medium, withDoc);
		else if (arch == "msgpack") res = RunScenario<MsgPack::MsgPackArchive>(scn, medium, withDoc);
		else if (arch == "csv") res = RunScenario<Csv::CsvArchive>(scn, medium, withDoc);
		else Die("unknown archive " + arch);
		fprintf(stdout, "{\"run\":%zu,\"id\":\"%s\",\"arch\":\"%s\",\"medium\":\"%s\",%s}\n", r, scn.id.c_str(), arch.c_str(), medium.c_str(), res.c_str());
	});
}
