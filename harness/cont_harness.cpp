// C18 conformance harness: loading into a POPULATED target versus a default-constructed one.
//   cont_harness <runs.ndjson>
// One run = (scenario chosen by spec/MC_Containers.tla, archive).  The document value of the scenario is SAVED with the
// archive through the public API (dynamic document tree -> KeyValue / arrays / objects), then LOADED
//   (a) into a target of the named C++ type pre-populated with the scenario's prior content,
//   (b) into a default-constructed target,
// and both final values are logged in a canonical form (or the exception).  Nothing is judged here.
// The archive is selected at compile time:  -DCONT_ARCH=1 MsgPack, 2 JSON (RapidJSON), 3 XML (pugixml), 4 CSV.
#include "vh_common.h"
#include "bitserializer/bit_serializer.h"
#include "bitserializer/types/std/array.h"
#include "bitserializer/types/std/atomic.h"
#include "bitserializer/types/std/bitset.h"
#include "bitserializer/types/std/deque.h"
#include "bitserializer/types/std/forward_list.h"
#include "bitserializer/types/std/list.h"
#include "bitserializer/types/std/map.h"
#include "bitserializer/types/std/memory.h"
#include "bitserializer/types/std/optional.h"
#include "bitserializer/types/std/pair.h"
#include "bitserializer/types/std/queue.h"
#include "bitserializer/types/std/set.h"
#include "bitserializer/types/std/stack.h"
#include "bitserializer/types/std/tuple.h"
#include "bitserializer/types/std/unordered_map.h"
#include "bitserializer/types/std/unordered_set.h"
#include "bitserializer/types/std/valarray.h"
#include "bitserializer/types/std/vector.h"
#include <algorithm>

#ifndef CONT_ARCH
#define CONT_ARCH 1
#endif
#if CONT_ARCH == 1
#include "bitserializer/msgpack_archive.h"
using TheArchive = BitSerializer::MsgPack::MsgPackArchive;
static const char* const kArchName = "msgpack";
#elif CONT_ARCH == 2
#include "bitserializer/rapidjson_archive.h"
using TheArchive = BitSerializer::Json::RapidJson::JsonArchive;
static const char* const kArchName = "json";
#elif CONT_ARCH == 3
#include "bitserializer/pugixml_archive.h"
using TheArchive = BitSerializer::Xml::PugiXml::XmlArchive;
static const char* const kArchName = "xml";
#else
#include "bitserializer/csv_archive.h"
using TheArchive = BitSerializer::Csv::CsvArchive;
static const char* const kArchName = "csv";
#endif
constexpr bool kIsCsv = CONT_ARCH == 4;

using JVal = rapidjson::Value;
using i16 = int16_t;

//------------------------------------------------------------------------------------------------------------------
// The class used as container element:  { x: int16, s: string, p: unique_ptr<string> }
//------------------------------------------------------------------------------------------------------------------
struct Rec
{
	i16 x = 0;
	std::string s;
	std::unique_ptr<std::string> p;

	template <class TArchive>
	void Serialize(TArchive& archive)
	{
		archive << BitSerializer::KeyValue("x", x);
		archive << BitSerializer::KeyValue("s", s);
		archive << BitSerializer::KeyValue("p", p);
	}
};

// Holder class: the target is the member "v"
template <class T>
struct HolderRef
{
	T& v;
	template <class TArchive> void Serialize(TArchive& archive) { archive << BitSerializer::KeyValue("v", v); }
};

// A map loaded with a non-default MapLoadMode (the mode is a parameter of SerializeObject())
template <class TMap>
struct ModeWrap
{
	TMap& map;
	BitSerializer::MapLoadMode mode;
	template <class TArchive> void Serialize(TArchive& archive) { BitSerializer::SerializeObject(archive, map, mode); }
};

//------------------------------------------------------------------------------------------------------------------
// Array scope that reports a chosen estimated size and forwards everything else to the archive's real array scope
// (realises the "zero" and "larger" estimates of the model on archives whose own estimate is exact)
//------------------------------------------------------------------------------------------------------------------
template <class S>
class EstScope : public BitSerializer::TArchiveScope<BitSerializer::SerializeMode::Load>
{
public:
	using key_type = typename S::key_type;
	using supported_key_types = typename S::supported_key_types;
	using string_view_type = typename S::string_view_type;
	static constexpr BitSerializer::ArchiveType archive_type = S::archive_type;
	static constexpr bool is_binary = S::is_binary;
	static constexpr auto path_separator = S::path_separator;

	EstScope(S& inner, size_t est) : BitSerializer::TArchiveScope<BitSerializer::SerializeMode::Load>(inner.GetContext()), mInner(&inner), mEst(est) {}

	[[nodiscard]] size_t GetEstimatedSize() const { return mEst; }
	[[nodiscard]] bool IsEnd() const { return mInner->IsEnd(); }
	[[nodiscard]] std::string GetPath() const { return mInner->GetPath(); }

	template <class T> auto SerializeValue(T& value) -> decltype(std::declval<S&>().SerializeValue(value)) { return mInner->SerializeValue(value); }
	template <class S2 = S> auto OpenObjectScope(size_t n) -> decltype(std::declval<S2&>().OpenObjectScope(n)) { return mInner->OpenObjectScope(n); }
	template <class S2 = S> auto OpenArrayScope(size_t n) -> decltype(std::declval<S2&>().OpenArrayScope(n)) { return mInner->OpenArrayScope(n); }
	template <class S2 = S> auto OpenBinaryScope(size_t n) -> decltype(std::declval<S2&>().OpenBinaryScope(n)) { return mInner->OpenBinaryScope(n); }

private:
	S* mInner;
	size_t mEst;
};

template <class T>
struct EstWrap
{
	T& target;
	size_t est;
};

namespace BitSerializer
{
	template <class TArchive, class T>
	void SerializeArray(TArchive& scope, EstWrap<T>& wrap)
	{
		if constexpr (TArchive::IsLoading())
		{
			EstScope<TArchive> forced(scope, wrap.est);
			SerializeArray(forced, wrap.target);
		}
	}
}

//------------------------------------------------------------------------------------------------------------------
// Dynamic document tree (saving only):  ["i",n] ["s",".."] ["b",x] ["null"] ["arr",[..]] ["obj",[[key,doc],..]]
//------------------------------------------------------------------------------------------------------------------
struct DynObj { const JVal* v; template <class TArchive> void Serialize(TArchive& archive); };
struct DynArr { const JVal* v; size_t size() const { return (*v)[1].Size(); } };

static std::string Kind(const JVal& d) { return d[0].GetString(); }

template <class TArchive, class TKey>
void SaveMember(TArchive& archive, const TKey& key, const JVal& d)
{
	using namespace BitSerializer;
	const std::string k = Kind(d);
	if (k == "i") { int32_t x = d[1].GetInt(); archive << KeyValue(key, x); }
	else if (k == "s") { std::string x = d[1].GetString(); archive << KeyValue(key, x); }
	else if (k == "b") { bool x = d[1].GetBool(); archive << KeyValue(key, x); }
	else if (k == "null") { std::nullptr_t x = nullptr; archive << KeyValue(key, x); }
	else if constexpr (!kIsCsv)
	{
		if (k == "arr") { DynArr x{ &d }; archive << KeyValue(key, x); }
		else if (k == "obj") { DynObj x{ &d }; archive << KeyValue(key, x); }
		else { fprintf(stderr, "bad doc kind %s\n", k.c_str()); exit(3); }
	}
	else { fprintf(stderr, "doc kind %s is not expressible in CSV\n", k.c_str()); exit(3); }
}

template <class TArchive>
void DynObj::Serialize(TArchive& archive)
{
	if constexpr (TArchive::IsSaving())
	{
		for (const auto& kv : (*v)[1].GetArray()) SaveMember(archive, std::string(kv[0].GetString()), kv[1]);
	}
}

namespace BitSerializer
{
	template <class TArchive>
	void SerializeArray(TArchive& archive, DynArr& arr)
	{
		if constexpr (TArchive::IsSaving())
		{
			for (const auto& d : (*arr.v)[1].GetArray())
			{
				const std::string k = Kind(d);
				if (k == "obj") { DynObj x{ &d }; Serialize(archive, x); }
				else if constexpr (!kIsCsv)
				{
					if (k == "i") { int32_t x = d[1].GetInt(); Serialize(archive, x); }
					else if (k == "s") { std::string x = d[1].GetString(); Serialize(archive, x); }
					else if (k == "b") { bool x = d[1].GetBool(); Serialize(archive, x); }
					else if (k == "null") { std::nullptr_t x = nullptr; Serialize(archive, x); }
					else if (k == "arr") { DynArr x{ &d }; Serialize(archive, x); }
					else { fprintf(stderr, "bad doc kind %s\n", k.c_str()); exit(3); }
				}
				else { fprintf(stderr, "doc kind %s is not expressible in CSV\n", k.c_str()); exit(3); }
			}
		}
	}
}

static std::string SaveDoc(const JVal& doc, const BitSerializer::SerializationOptions& options)
{
	std::string out;
	if (Kind(doc) == "arr") { DynArr a{ &doc }; BitSerializer::SaveObject<TheArchive>(a, out, options); }
	else
	{
		if constexpr (!kIsCsv) { DynObj o{ &doc }; BitSerializer::SaveObject<TheArchive>(o, out, options); }
	}
	return out;
}

//------------------------------------------------------------------------------------------------------------------
// Access to the base container of the adaptors (protected member `c`)
//------------------------------------------------------------------------------------------------------------------
template <class TAdaptor>
typename TAdaptor::container_type& BaseOf(TAdaptor& a)
{
	struct Access : TAdaptor { static typename TAdaptor::container_type& Get(TAdaptor& x) { return x.*(&Access::c); } };
	return Access::Get(a);
}
template <class TAdaptor>
const typename TAdaptor::container_type& BaseOf(const TAdaptor& a) { return BaseOf(const_cast<TAdaptor&>(a)); }

//------------------------------------------------------------------------------------------------------------------
// Type names shared with spec/Containers.tla (TName)
//------------------------------------------------------------------------------------------------------------------
template <class T> struct TN;
template <> struct TN<i16> { static std::string get() { return "i16"; } };
template <> struct TN<bool> { static std::string get() { return "bool"; } };
template <> struct TN<std::string> { static std::string get() { return "str"; } };
template <> struct TN<Rec> { static std::string get() { return "rec"; } };
template <> struct TN<std::atomic<i16>> { static std::string get() { return "atomic<i16>"; } };
template <class T> struct TN<std::optional<T>> { static std::string get() { return "opt<" + TN<T>::get() + ">"; } };
template <class T> struct TN<std::unique_ptr<T>> { static std::string get() { return "uptr<" + TN<T>::get() + ">"; } };
template <class T> struct TN<std::shared_ptr<T>> { static std::string get() { return "sptr<" + TN<T>::get() + ">"; } };
template <class T> struct TN<std::vector<T>> { static std::string get() { return "vector<" + TN<T>::get() + ">"; } };
template <class T> struct TN<std::deque<T>> { static std::string get() { return "deque<" + TN<T>::get() + ">"; } };
template <class T> struct TN<std::list<T>> { static std::string get() { return "list<" + TN<T>::get() + ">"; } };
template <class T> struct TN<std::forward_list<T>> { static std::string get() { return "flist<" + TN<T>::get() + ">"; } };
template <class T> struct TN<std::valarray<T>> { static std::string get() { return "valarray<" + TN<T>::get() + ">"; } };
template <class T> struct TN<std::queue<T>> { static std::string get() { return "queue<" + TN<T>::get() + ">"; } };
template <class T> struct TN<std::stack<T>> { static std::string get() { return "stack<" + TN<T>::get() + ">"; } };
template <class T> struct TN<std::priority_queue<T>> { static std::string get() { return "pqueue<" + TN<T>::get() + ">"; } };
template <class T, size_t N> struct TN<std::array<T, N>> { static std::string get() { return "array" + std::to_string(N) + "<" + TN<T>::get() + ">"; } };
template <class T, size_t N> struct TN<T[N]> { static std::string get() { return "carray" + std::to_string(N) + "<" + TN<T>::get() + ">"; } };
template <size_t N> struct TN<std::bitset<N>> { static std::string get() { return "bitset" + std::to_string(N); } };
template <class A, class B> struct TN<std::tuple<A, B>> { static std::string get() { return "tuple<" + TN<A>::get() + "," + TN<B>::get() + ">"; } };
template <class T> struct TN<std::set<T>> { static std::string get() { return "set<" + TN<T>::get() + ">"; } };
template <class T> struct TN<std::multiset<T>> { static std::string get() { return "multiset<" + TN<T>::get() + ">"; } };
template <class T> struct TN<std::unordered_set<T>> { static std::string get() { return "uset<" + TN<T>::get() + ">"; } };
template <class T> struct TN<std::unordered_multiset<T>> { static std::string get() { return "umultiset<" + TN<T>::get() + ">"; } };
template <class V> struct TN<std::map<std::string, V>> { static std::string get() { return "map<str," + TN<V>::get() + ">"; } };
template <class V> struct TN<std::unordered_map<std::string, V>> { static std::string get() { return "umap<str," + TN<V>::get() + ">"; } };
template <class V> struct TN<std::multimap<std::string, V>> { static std::string get() { return "multimap<str," + TN<V>::get() + ">"; } };
template <class V> struct TN<std::unordered_multimap<std::string, V>> { static std::string get() { return "umultimap<str," + TN<V>::get() + ">"; } };

template <class T> struct is_seq_like : std::false_type {};
template <class T> struct is_seq_like<std::vector<T>> : std::true_type {};
template <class T> struct is_seq_like<std::deque<T>> : std::true_type {};
template <class T> struct is_seq_like<std::list<T>> : std::true_type {};
template <class T> struct is_seq_like<std::forward_list<T>> : std::true_type {};
template <class T, size_t N> struct is_seq_like<std::array<T, N>> : std::true_type {};
template <class T> struct is_flist : std::false_type {};
template <class T> struct is_flist<std::forward_list<T>> : std::true_type {};
template <class T> struct is_std_array : std::false_type {};
template <class T, size_t N> struct is_std_array<std::array<T, N>> : std::true_type {};
template <class T> struct is_adaptor : std::false_type {};
template <class T> struct is_adaptor<std::queue<T>> : std::true_type {};
template <class T> struct is_adaptor<std::stack<T>> : std::true_type {};
template <class T> struct is_adaptor<std::priority_queue<T>> : std::true_type {};
template <class T> struct is_set_like : std::false_type {};
template <class T> struct is_set_like<std::set<T>> : std::true_type {};
template <class T> struct is_set_like<std::multiset<T>> : std::true_type {};
template <class T> struct is_set_like<std::unordered_set<T>> : std::true_type {};
template <class T> struct is_set_like<std::unordered_multiset<T>> : std::true_type {};
template <class T> struct is_map_like : std::false_type {};
template <class V> struct is_map_like<std::map<std::string, V>> : std::true_type {};
template <class V> struct is_map_like<std::unordered_map<std::string, V>> : std::true_type {};
template <class T> struct is_mmap_like : std::false_type {};
template <class V> struct is_mmap_like<std::multimap<std::string, V>> : std::true_type {};
template <class V> struct is_mmap_like<std::unordered_multimap<std::string, V>> : std::true_type {};
template <class T> struct is_ptr_like : std::false_type {};
template <class T> struct is_ptr_like<std::optional<T>> : std::true_type {};
template <class T> struct is_ptr_like<std::unique_ptr<T>> : std::true_type {};
template <class T> struct is_ptr_like<std::shared_ptr<T>> : std::true_type {};
template <class T> struct is_bitset : std::false_type {};
template <size_t N> struct is_bitset<std::bitset<N>> : std::true_type {};
template <class T> struct is_tuple2 : std::false_type {};
template <class A, class B> struct is_tuple2<std::tuple<A, B>> : std::true_type {};
template <class T> struct is_valarray : std::false_type {};
template <class T> struct is_valarray<std::valarray<T>> : std::true_type {};
template <class T> struct is_estimable : std::bool_constant<is_adaptor<T>::value || is_valarray<T>::value> {};
template <class T> struct is_estimable<std::vector<T>> : std::true_type {};
template <class T> struct is_estimable<std::deque<T>> : std::true_type {};
template <class T> struct is_estimable<std::list<T>> : std::true_type {};
template <class T> struct is_estimable<std::forward_list<T>> : std::true_type {};

//------------------------------------------------------------------------------------------------------------------
// Canonical rendering (the A-value vocabulary of spec/Containers.tla)
//------------------------------------------------------------------------------------------------------------------
template <class T> std::string Canon(const T& v);

template <class TIter> std::string CanonRange(const char* tag, TIter first, TIter last)
{
	std::string o = std::string("[\"") + tag + "\",[";
	bool sep = false;
	for (; first != last; ++first) { if (sep) o += ','; sep = true; o += Canon(*first); }
	return o + "]]";
}

template <class T> std::string Canon(const T& v)
{
	if constexpr (std::is_same_v<T, bool>) return v ? "[\"b\",true]" : "[\"b\",false]";
	else if constexpr (std::is_same_v<T, i16>) return "[\"i\"," + std::to_string(v) + "]";
	else if constexpr (std::is_same_v<T, std::atomic<i16>>) return "[\"i\"," + std::to_string(v.load()) + "]";
	else if constexpr (std::is_same_v<T, std::string>) return "[\"s\",\"" + vh::JsonEscape(v) + "\"]";
	else if constexpr (std::is_same_v<T, Rec>) return "[\"rec\"," + Canon(v.x) + "," + Canon(v.s) + "," + Canon(v.p) + "]";
	else if constexpr (is_ptr_like<T>::value) return v ? "[\"some\"," + Canon(*v) + "]" : std::string("[\"none\"]");
	else if constexpr (std::is_same_v<T, std::vector<bool>>)
	{
		std::vector<char> tmp(v.begin(), v.end());
		std::string o = "[\"seq\",[";
		for (size_t i = 0; i < tmp.size(); ++i) { if (i) o += ','; o += Canon(static_cast<bool>(tmp[i])); }
		return o + "]]";
	}
	else if constexpr (is_seq_like<T>::value) return CanonRange("seq", v.begin(), v.end());
	else if constexpr (is_valarray<T>::value) return CanonRange("seq", std::begin(v), std::end(v));
	else if constexpr (std::is_array_v<T>) return CanonRange("seq", std::begin(v), std::end(v));
	else if constexpr (is_adaptor<T>::value) { const auto& base = BaseOf(v); return CanonRange("seq", base.begin(), base.end()); }
	else if constexpr (is_bitset<T>::value)
	{
		std::string o = "[\"seq\",[";
		for (size_t i = 0; i < v.size(); ++i) { if (i) o += ','; o += Canon(v.test(i)); }
		return o + "]]";
	}
	else if constexpr (is_tuple2<T>::value) return "[\"seq\",[" + Canon(std::get<0>(v)) + "," + Canon(std::get<1>(v)) + "]]";
	else if constexpr (is_set_like<T>::value)
	{
		std::vector<typename T::value_type> tmp(v.begin(), v.end());
		std::sort(tmp.begin(), tmp.end());                                       // canonical order of the unordered variants
		return CanonRange("set", tmp.begin(), tmp.end());
	}
	else if constexpr (is_map_like<T>::value)
	{
		std::vector<std::pair<std::string, std::string>> tmp;
		for (const auto& kv : v) tmp.emplace_back(kv.first, Canon(kv.second));
		std::sort(tmp.begin(), tmp.end());
		std::string o = "[\"map\",[";
		for (size_t i = 0; i < tmp.size(); ++i) { if (i) o += ','; o += "[" + Canon(tmp[i].first) + "," + tmp[i].second + "]"; }
		return o + "]]";
	}
	else if constexpr (is_mmap_like<T>::value)
	{
		std::vector<std::pair<std::string, typename T::mapped_type>> tmp(v.begin(), v.end());
		std::sort(tmp.begin(), tmp.end());                                       // equal keys have no specified order
		std::string o = "[\"mmap\",[";
		for (size_t i = 0; i < tmp.size(); ++i) { if (i) o += ','; o += "[" + Canon(tmp[i].first) + "," + Canon(tmp[i].second) + "]"; }
		return o + "]]";
	}
	else { static_assert(sizeof(T) == 0, "Canon: unsupported type"); return {}; }
}

//------------------------------------------------------------------------------------------------------------------
// Construction of the prior content from the canonical value chosen by the specification
//------------------------------------------------------------------------------------------------------------------
template <class T> void FromCanon(const JVal& j, T& out)
{
	if constexpr (std::is_same_v<T, bool>) out = j[1].GetBool();
	else if constexpr (std::is_same_v<T, i16>) out = static_cast<i16>(j[1].GetInt());
	else if constexpr (std::is_same_v<T, std::atomic<i16>>) out.store(static_cast<i16>(j[1].GetInt()));
	else if constexpr (std::is_same_v<T, std::string>) out = j[1].GetString();
	else if constexpr (std::is_same_v<T, Rec>) { FromCanon(j[1], out.x); FromCanon(j[2], out.s); FromCanon(j[3], out.p); }
	else if constexpr (is_ptr_like<T>::value)
	{
		if (Kind(j) == "none") { out = T(); return; }
		using E = std::decay_t<decltype(*out)>;
		E e{};
		FromCanon(j[1], e);
		if constexpr (std::is_same_v<T, std::optional<E>>) out = std::move(e);
		else if constexpr (std::is_same_v<T, std::unique_ptr<E>>) out = std::make_unique<E>(std::move(e));
		else out = std::make_shared<E>(std::move(e));
	}
	else if constexpr (std::is_same_v<T, std::vector<bool>>) { out.clear(); for (const auto& e : j[1].GetArray()) out.push_back(e[1].GetBool()); }
	else if constexpr (is_flist<T>::value)
	{
		out.clear();
		auto last = out.before_begin();
		for (const auto& e : j[1].GetArray()) { last = out.emplace_after(last); FromCanon(e, *last); }
	}
	else if constexpr (is_seq_like<T>::value && !is_std_array<T>::value)
	{
		out.clear();
		for (const auto& e : j[1].GetArray()) { out.emplace_back(); FromCanon(e, out.back()); }
	}
	else if constexpr (is_seq_like<T>::value) { size_t i = 0; for (const auto& e : j[1].GetArray()) FromCanon(e, out[i++]); }
	else if constexpr (std::is_array_v<T>) { size_t i = 0; for (const auto& e : j[1].GetArray()) FromCanon(e, out[i++]); }
	else if constexpr (is_valarray<T>::value) { out.resize(j[1].Size()); size_t i = 0; for (const auto& e : j[1].GetArray()) FromCanon(e, out[i++]); }
	else if constexpr (is_adaptor<T>::value) { auto& base = BaseOf(out); base.clear(); for (const auto& e : j[1].GetArray()) { base.emplace_back(); FromCanon(e, base.back()); } }
	else if constexpr (is_bitset<T>::value) { size_t i = 0; for (const auto& e : j[1].GetArray()) out.set(i++, e[1].GetBool()); }
	else if constexpr (is_tuple2<T>::value) { FromCanon(j[1][0], std::get<0>(out)); FromCanon(j[1][1], std::get<1>(out)); }
	else if constexpr (is_set_like<T>::value) { out.clear(); for (const auto& e : j[1].GetArray()) { typename T::value_type x{}; FromCanon(e, x); out.insert(std::move(x)); } }
	else if constexpr (is_map_like<T>::value || is_mmap_like<T>::value)
	{
		out.clear();
		for (const auto& kv : j[1].GetArray()) { typename T::mapped_type x{}; FromCanon(kv[1], x); out.emplace(std::string(kv[0][1].GetString()), std::move(x)); }
	}
	else { static_assert(sizeof(T) == 0, "FromCanon: unsupported type"); }
}

//------------------------------------------------------------------------------------------------------------------
// Catalogue of target types
//------------------------------------------------------------------------------------------------------------------
template <class... Ts> struct TypeList {};

using VecI = std::vector<i16>;
using CatalogueCsv = TypeList<std::vector<Rec>, std::deque<Rec>, std::list<Rec>, std::forward_list<Rec>>;
using CatalogueFull = TypeList<
	std::vector<i16>, std::deque<i16>, std::list<i16>, std::forward_list<i16>, std::valarray<i16>,
	std::queue<i16>, std::stack<i16>, std::priority_queue<i16>,
	std::vector<bool>, std::vector<std::string>, std::list<std::string>,
	std::vector<Rec>, std::deque<Rec>, std::list<Rec>, std::forward_list<Rec>,
	std::vector<VecI>, std::vector<std::optional<i16>>, std::list<std::unique_ptr<i16>>,
	std::vector<std::optional<std::map<std::string, i16>>>, std::vector<std::shared_ptr<std::unordered_map<std::string, i16>>>,
	std::list<std::unique_ptr<std::map<std::string, i16>>>,
	std::array<i16, 3>, i16[3], std::bitset<3>, std::tuple<i16, std::string>,
	std::set<i16>, std::multiset<i16>, std::unordered_set<i16>, std::unordered_multiset<i16>,
	std::map<std::string, i16>, std::unordered_map<std::string, i16>, std::map<std::string, VecI>,
	std::multimap<std::string, i16>, std::unordered_multimap<std::string, i16>,
	std::string, std::atomic<i16>,
	std::optional<i16>, std::unique_ptr<i16>, std::shared_ptr<i16>,
	std::optional<std::string>, std::unique_ptr<std::string>, std::shared_ptr<std::string>,
	std::optional<VecI>, std::unique_ptr<VecI>>;
using Catalogue = std::conditional_t<kIsCsv, CatalogueCsv, CatalogueFull>;

template <class F, class... Ts>
bool WithType(const std::string& name, TypeList<Ts...>, F&& f)
{
	return ((TN<Ts>::get() == name ? (f(static_cast<std::add_pointer_t<Ts>>(nullptr)), true) : false) || ...);
}

//------------------------------------------------------------------------------------------------------------------
// One load
//------------------------------------------------------------------------------------------------------------------
struct RunSpec
{
	std::string place, mode;
	bool force = false;
	size_t estn = 0;
	BitSerializer::SerializationOptions options;
};

static std::string Describe()
{
	try { throw; }
	catch (const BitSerializer::SerializationException& e) { return "[\"err\",\"" + BitSerializer::Convert::ToString(e.GetErrorCode()) + "\"]"; }
	catch (const std::bad_alloc&) { return "[\"exc\",\"bad_alloc\"]"; }
	catch (const std::exception& e) { return "[\"exc\",\"" + vh::JsonEscape(e.what()) + "\"]"; }
	catch (...) { return "[\"exc\",\"nonstd\"]"; }
}

template <class T>
std::string LoadInto(T& target, const std::string& doc, const RunSpec& rs)
{
	using namespace BitSerializer;
	try
	{
		if (rs.place == "field")
		{
			if constexpr (!kIsCsv) { HolderRef<T> h{ target }; LoadObject<TheArchive>(h, doc, rs.options); }
		}
		else if (rs.mode == "onlyexist" || rs.mode == "update")
		{
			if constexpr (is_map_like<T>::value && !kIsCsv)
			{
				ModeWrap<T> w{ target, rs.mode == "update" ? MapLoadMode::UpdateKeys : MapLoadMode::OnlyExistKeys };
				LoadObject<TheArchive>(w, doc, rs.options);
			}
		}
		else if (rs.force)
		{
			if constexpr (is_estimable<T>::value && !kIsCsv) { EstWrap<T> w{ target, rs.estn }; LoadObject<TheArchive>(w, doc, rs.options); }
		}
		else
		{
			constexpr bool rootable = !std::is_same_v<T, std::string> && !std::is_same_v<T, std::atomic<i16>> && !is_ptr_like<T>::value;
			if constexpr (rootable) LoadObject<TheArchive>(target, doc, rs.options);
		}
	}
	catch (...) { return Describe(); }
	return "[\"ok\"," + Canon(target) + "]";
}

int main(int argc, char** argv)
{
	if (argc < 2) { fprintf(stderr, "usage: cont_harness <runs.ndjson>   (archive: %s)\n", kArchName); return 3; }
	const auto lines = vh::ReadLines(argv[1]);
	return vh::ForkedRunner(lines.size(), [&](size_t r) {
		rapidjson::Document scn;
		scn.Parse(lines[r].c_str());
		if (scn.HasParseError() || std::string(scn["arch"].GetString()) != kArchName) { fprintf(stderr, "run %zu is not for archive %s\n", r, kArchName); exit(3); }
		vh::TerminateContext() = std::string(scn["t"].GetString()) + "/" + kArchName;
		RunSpec rs;
		rs.place = scn["place"].GetString();
		rs.mode = scn["mode"].GetString();
		rs.force = scn["force"].GetBool();
		rs.estn = scn["estn"].GetUint();
		if (std::string(scn["mm"].GetString()) == "skip") rs.options.mismatchedTypesPolicy = BitSerializer::MismatchedTypesPolicy::Skip;
		if (std::string(scn["ov"].GetString()) == "skip") rs.options.overflowNumberPolicy = BitSerializer::OverflowNumberPolicy::Skip;

		std::string doc, saveExc, a, b;
		try { doc = SaveDoc(scn["doc"], rs.options); }
		catch (...) { saveExc = Describe(); }
		if (!saveExc.empty()) { a = b = "[\"saveexc\"," + saveExc + "]"; }
		else
		{
			const bool known = WithType(scn["t"].GetString(), Catalogue{}, [&](auto* tag) {
				using T = std::remove_pointer_t<decltype(tag)>;
				{
					T populated{};
					FromCanon(scn["prior"], populated);
					a = LoadInto(populated, doc, rs);
				}
				{
					T fresh{};
					b = LoadInto(fresh, doc, rs);
				}
			});
			if (!known) { fprintf(stderr, "type %s is not in the catalogue of archive %s\n", scn["t"].GetString(), kArchName); exit(3); }
		}
		const std::string shown = CONT_ARCH == 1 ? vh::Hex(doc) : vh::JsonEscape(doc);
		fprintf(stdout, "{\"run\":%zu,\"a\":%s,\"b\":%s,\"d\":\"%s\"}\n", r, a.c_str(), b.c_str(), shown.c_str());
	});
}
