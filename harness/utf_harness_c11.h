// C11 part of utf_harness.cpp (included once)
static int ModeC11Table(const char*, const char*) { return 3; }
static int ModeC11Seq(int, unsigned, int) { return 3; }
