// C11 part of utf_harness.cpp (included once).
// c11table: for every row {cp, u8, u16le, u16be, u32le, u32be} (byte sequences computed by TLC from Unicode.tla) the scalar value
//   is pushed through all 20 ordered scheme pairs (A::Decode into a native string of A's and of B's width, then B::Encode; plus
//   Utf::Transcode and Convert::To between std::string/u16string/u32string/wstring for the native-order pairs), both policies,
//   always appended to a non-empty output.  Logged per scalar value: for each target scheme the DISTINCT byte strings produced
//   (first one under the scheme's key, any further ones under "x"), and the DISTINCT (ErrorCode, Iterator at end, count) triples.
//   The comparison with TLC's table is plain equality, done outside.
// c11seq: seeded random sequences of scalar values (planes mixed, U+0000, U+FFFF, U+10FFFF, U+FEFF inside the text); source is the
//   UTF-32 sequence itself; every conversion logs its input units and output units for judgement by Trace_Unicode11.

static const char* kSchemes[5] = { "u8", "u16le", "u16be", "u32le", "u32be" };
static const int kWidth[5] = { 1, 2, 2, 4, 4 };

struct C11Acc
{
	std::vector<std::string> outs[5];       // distinct output byte strings per target scheme
	std::vector<std::string> results;       // distinct "[code,atEnd,cnt]"
	void Out(int b, const std::string& bytes) { auto& v = outs[b]; for (auto& e : v) if (e == bytes) return; v.push_back(bytes); }
	template <class TRes, class TEnd> void Res(const TRes& r, TEnd end)
	{
		std::string s = "[" + std::to_string(static_cast<int>(r.ErrorCode)) + "," + (r.Iterator == end ? "1" : "0") + "," + std::to_string(r.InvalidSequencesCount) + "]";
		for (auto& e : results) if (e == s) return;
		results.push_back(s);
	}
	void ResText(const std::string& s) { for (auto& e : results) if (e == s) return; results.push_back(s); }
};

template <class TChar> static std::basic_string<TChar> FromBytes(const std::string& b)
{
	std::basic_string<TChar> s(b.size() / sizeof(TChar), TChar());
	std::memcpy(s.data(), b.data(), s.size() * sizeof(TChar));
	return s;
}
template <class TStr> static std::string ToBytes(const TStr& s, size_t from)
{
	return std::string(reinterpret_cast<const char*>(s.data() + from), (s.size() - from) * sizeof(s[0]));
}

template <int A, class TChar, class TOut>
static auto DecodeBy(const std::basic_string<TChar>& src, std::basic_string<TOut>& out, UtfEncodingErrorPolicy pol)
{
	const TChar* b = src.data(); const TChar* e = b + src.size();
	if constexpr (A == 0) return Utf::Utf8::Decode(b, e, out, pol);
	else if constexpr (A == 1) return Utf::Utf16Le::Decode(b, e, out, pol);
	else if constexpr (A == 2) return Utf::Utf16Be::Decode(b, e, out, pol);
	else if constexpr (A == 3) return Utf::Utf32Le::Decode(b, e, out, pol);
	else return Utf::Utf32Be::Decode(b, e, out, pol);
}
template <int B, class TChar, class TOut>
static auto EncodeBy(const std::basic_string<TChar>& src, std::basic_string<TOut>& out, UtfEncodingErrorPolicy pol)
{
	const TChar* b = src.data(); const TChar* e = b + src.size();
	if constexpr (B == 0) return Utf::Utf8::Encode(b, e, out, pol);
	else if constexpr (B == 1) return Utf::Utf16Le::Encode(b, e, out, pol);
	else if constexpr (B == 2) return Utf::Utf16Be::Encode(b, e, out, pol);
	else if constexpr (B == 3) return Utf::Utf32Le::Encode(b, e, out, pol);
	else return Utf::Utf32Be::Encode(b, e, out, pol);
}
template <int S> using CharOf = std::conditional_t<S == 0, char, std::conditional_t<(S == 1 || S == 2), char16_t, char32_t>>;

// A -> (native string of width W) -> B
template <int A, int B, class TMid>
static void ViaMid(C11Acc& acc, const std::string& srcBytes, UtfEncodingErrorPolicy pol)
{
	using TA = CharOf<A>; using TB = CharOf<B>;
	const auto src = FromBytes<TA>(srcBytes);
	std::basic_string<TMid> mid(1, static_cast<TMid>('x'));
	// Utf8 has no same-width Decode (8 -> 8 is not offered by the class): an 8-bit middle string is the source itself
	if constexpr (A == 0 && sizeof(TMid) == 1) { mid.append(src.begin(), src.end()); }
	else { const auto r = DecodeBy<A>(src, mid, pol); acc.Res(r, src.data() + src.size()); }
	const std::basic_string<TMid> midText = mid.substr(1);
	std::basic_string<TB> out(1, static_cast<TB>('x'));
	if constexpr (B == 0 && sizeof(TMid) == 1) { out.append(midText.begin(), midText.end()); }
	else { const auto r = EncodeBy<B>(midText, out, pol); acc.Res(r, midText.data() + midText.size()); }
	if (out.empty() || out[0] != static_cast<TB>('x')) acc.ResText("\"prefix damaged\"");
	acc.Out(B, ToBytes(out, 1));
}

template <int A, int B>
static void Pair(C11Acc& acc, const std::string bytes[5])
{
	if constexpr (A != B)
	{
		for (auto pol : { UtfEncodingErrorPolicy::Skip, UtfEncodingErrorPolicy::ThrowError })
		{
			ViaMid<A, B, CharOf<A>>(acc, bytes[A], pol);
			if constexpr (sizeof(CharOf<A>) != sizeof(CharOf<B>)) ViaMid<A, B, CharOf<B>>(acc, bytes[A], pol);
			// native-order pairs: Utf::Transcode
			if constexpr ((A == 0 || A == 1 || A == 3) && (B == 0 || B == 1 || B == 3))
			{
				const auto src = FromBytes<CharOf<A>>(bytes[A]);
				std::basic_string<CharOf<B>> out(1, static_cast<CharOf<B>>('x'));
				const auto r = Utf::Transcode(src.data(), src.data() + src.size(), out, pol);
				acc.Res(r, src.data() + src.size());
				acc.Out(B, ToBytes(out, 1));
				std::basic_string<CharOf<B>> out2(1, static_cast<CharOf<B>>('x'));
				const std::basic_string_view<CharOf<A>> sv(src);
				const auto r2 = Utf::Transcode(sv, out2, pol);
				acc.Res(r2, sv.cend());
				acc.Out(B, ToBytes(out2, 1));
			}
		}
	}
}

template <int A, int... Bs> static void PairsFrom(C11Acc& acc, const std::string bytes[5]) { (Pair<A, Bs>(acc, bytes), ...); }

template <class TDst, class TSrc>
static void ConvertTo(C11Acc& acc, int targetScheme, const TSrc& src)
{
	try {
		TDst existing(1, static_cast<typename TDst::value_type>('x'));
		const TDst out = BitSerializer::Convert::To<TDst>(src, existing);
		if (out.empty() || out[0] != static_cast<typename TDst::value_type>('x')) acc.ResText("\"prefix damaged\"");
		acc.Out(targetScheme, ToBytes(out, 1));
		const TDst fresh = BitSerializer::Convert::To<TDst>(src);
		acc.Out(targetScheme, ToBytes(fresh, 0));
	}
	catch (const std::exception& ex) {
		acc.ResText(std::string("\"Convert::To threw: ") + vh::JsonEscape(ex.what()) + "\"");
	}
}

static std::string BytesArr(const std::string& s) { return vh::BytesJson(s); }

static int ModeC11Table(const char* tablePath, const char* outPath)
{
	FILE* out = fopen(outPath, "w");
	if (!out) { fprintf(stderr, "cannot write %s\n", outPath); return 3; }
	std::ifstream f(tablePath, std::ios::binary);
	if (!f) { fprintf(stderr, "cannot open %s\n", tablePath); return 3; }
	std::string lineIn;
	while (std::getline(f, lineIn))
	{
		if (lineIn.empty()) continue;
		rapidjson::Document d;
		d.Parse(lineIn.c_str());
		const long cp = d["cp"].GetInt();
		std::string bytes[5];
		for (int s = 0; s < 5; ++s) bytes[s] = vh::BytesFromJson(d[kSchemes[s]]);
		C11Acc acc;
		Arm("c11 cp " + std::to_string(cp));
		PairsFrom<0, 0, 1, 2, 3, 4>(acc, bytes);
		PairsFrom<1, 0, 1, 2, 3, 4>(acc, bytes);
		PairsFrom<2, 0, 1, 2, 3, 4>(acc, bytes);
		PairsFrom<3, 0, 1, 2, 3, 4>(acc, bytes);
		PairsFrom<4, 0, 1, 2, 3, 4>(acc, bytes);
		// Convert::To between the four string types (native byte order)
		const std::string s8 = bytes[0];
		const std::u16string s16 = FromBytes<char16_t>(bytes[1]);
		const std::u32string s32 = FromBytes<char32_t>(bytes[3]);
		const std::wstring sw = FromBytes<wchar_t>(bytes[3]);
		ConvertTo<std::string>(acc, 0, s16); ConvertTo<std::string>(acc, 0, s32); ConvertTo<std::string>(acc, 0, sw); ConvertTo<std::string>(acc, 0, s8);
		ConvertTo<std::u16string>(acc, 1, s8); ConvertTo<std::u16string>(acc, 1, s32); ConvertTo<std::u16string>(acc, 1, sw); ConvertTo<std::u16string>(acc, 1, s16);
		ConvertTo<std::u32string>(acc, 3, s8); ConvertTo<std::u32string>(acc, 3, s16); ConvertTo<std::u32string>(acc, 3, sw); ConvertTo<std::u32string>(acc, 3, s32);
		ConvertTo<std::wstring>(acc, 3, s8); ConvertTo<std::wstring>(acc, 3, s16); ConvertTo<std::wstring>(acc, 3, s32); ConvertTo<std::wstring>(acc, 3, sw);
		alarm(0);
		std::string line = "{\"cp\":" + std::to_string(cp);
		std::string extra;
		for (int s = 0; s < 5; ++s)
		{
			line += std::string(",\"") + kSchemes[s] + "\":" + (acc.outs[s].empty() ? "null" : BytesArr(acc.outs[s][0]));
			for (size_t k = 1; k < acc.outs[s].size(); ++k) extra += std::string(extra.empty() ? "" : ",") + "{\"" + kSchemes[s] + "\":" + BytesArr(acc.outs[s][k]) + "}";
		}
		line += ",\"x\":[" + extra + "],\"r\":[";
		for (size_t k = 0; k < acc.results.size(); ++k) line += (k ? "," : "") + acc.results[k];
		line += "]}\n";
		fputs(line.c_str(), out);
	}
	fclose(out);
	return 0;
}

//------------------------------------------------------------------------------------------------
template <class TIn, class TOut, class TCall>
static void SeqConv(const std::string& id, const char* api, const char* pol, const std::basic_string<TIn>& src, bool inSwapped, bool outSwapped, TCall&& call, std::basic_string<TOut>* keep = nullptr)
{
	std::basic_string<TOut> out(1, static_cast<TOut>('x'));
	const auto r = call(out);
	std::string line = "{\"id\":\"" + id + "\",\"api\":\"" + api + "\",\"pol\":\"" + pol + "\",\"sf\":" + std::to_string(sizeof(TIn) * 8) + ",\"tw\":" + std::to_string(sizeof(TOut) * 8) +
		",\"u\":" + UnitsJson(src, inSwapped ? 0 : static_cast<size_t>(-1)) + ",\"out\":" + UnitsJson(out, outSwapped ? 1 : static_cast<size_t>(-1)) +
		",\"code\":\"" + CodeName(std::get<0>(r)) + "\",\"it\":" + std::to_string(std::get<1>(r)) + ",\"cnt\":" + std::to_string(std::get<2>(r)) + "}\n";
	fputs(line.c_str(), stdout);
	if (keep) *keep = out.substr(1);
}

#define SEQ_CALL(EXPR, BEGIN) [&](auto& out) { auto r = EXPR; return std::make_tuple(r.ErrorCode, static_cast<long>(r.Iterator - (BEGIN)), r.InvalidSequencesCount); }

static int ModeC11Seq(int count, unsigned seed, int maxLen)
{
	std::mt19937 rng(seed);
	auto scalar = [&rng]() -> char32_t {
		switch (rng() % 12) {
		case 0: return 0;
		case 1: return 0xFFFF;
		case 2: return 0x10FFFF;
		case 3: return 0xFEFF;
		case 4: { static const char32_t b[] = { 0x7F, 0x80, 0x7FF, 0x800, 0xD7FF, 0xE000, 0xFFFD, 0x10000, 0xFFFE }; return b[rng() % 9]; }
		case 5: return rng() % 0x80;
		case 6: return 0x80 + rng() % 0x780;
		case 7: case 8: { char32_t c = 0x800 + rng() % 0xF800; if (c >= 0xD800 && c <= 0xDFFF) c = 0xE000 + (c & 0x7FF); return c; }
		default: return 0x10000 + rng() % 0x100000;
		}
	};
	for (int n = 0; n < count; ++n)
	{
		size_t len;
		switch (rng() % 5) { case 0: len = rng() % 4; break; case 1: len = static_cast<size_t>(maxLen); break; case 2: len = rng() % 64; break; default: len = rng() % (static_cast<size_t>(maxLen) + 1); break; }
		std::u32string s32;
		for (size_t i = 0; i < len; ++i) s32.push_back(scalar());
		const std::string id = "q" + std::to_string(n);
		Arm("c11seq " + id);
		const auto P = (n % 2) ? UtfEncodingErrorPolicy::ThrowError : UtfEncodingErrorPolicy::Skip;
		const char* pol = (n % 2) ? "throw" : "def";
		const char32_t* b32 = s32.data(); const char32_t* e32 = b32 + s32.size();
		std::string s8; std::u16string s16; std::u16string s16be; std::u32string s32be;
		SeqConv<char32_t, char>(id, "Utf8::Encode", pol, s32, false, false, SEQ_CALL(Utf::Utf8::Encode(b32, e32, out, P), b32), &s8);
		SeqConv<char32_t, char16_t>(id, "Utf16Le::Encode", pol, s32, false, false, SEQ_CALL(Utf::Utf16Le::Encode(b32, e32, out, P), b32), &s16);
		SeqConv<char32_t, char16_t>(id, "Utf16Be::Encode", pol, s32, false, true, SEQ_CALL(Utf::Utf16Be::Encode(b32, e32, out, P), b32), &s16be);
		SeqConv<char32_t, char>(id, "Transcode", pol, s32, false, false, SEQ_CALL(Utf::Transcode(b32, e32, out, P), b32));
		const char* b8 = s8.data(); const char* e8 = b8 + s8.size();
		const char16_t* b16 = s16.data(); const char16_t* e16 = b16 + s16.size();
		const char16_t* bb16 = s16be.data(); const char16_t* be16 = bb16 + s16be.size();
		SeqConv<char, char16_t>(id, "Utf8::Decode", pol, s8, false, false, SEQ_CALL(Utf::Utf8::Decode(b8, e8, out, P), b8));
		SeqConv<char, char32_t>(id, "Utf32Le::Encode", pol, s8, false, false, SEQ_CALL(Utf::Utf32Le::Encode(b8, e8, out, P), b8));
		SeqConv<char, char32_t>(id, "Utf32Be::Encode", pol, s8, false, true, SEQ_CALL(Utf::Utf32Be::Encode(b8, e8, out, P), b8), &s32be);
		SeqConv<char, char16_t>(id, "Transcode", pol, s8, false, false, SEQ_CALL(Utf::Transcode(b8, e8, out, P), b8));
		SeqConv<char16_t, char>(id, "Utf16Le::Decode", pol, s16, false, false, SEQ_CALL(Utf::Utf16Le::Decode(b16, e16, out, P), b16));
		SeqConv<char16_t, char32_t>(id, "Utf16::Decode", pol, s16, false, false, SEQ_CALL(Utf::Utf16::Decode(b16, e16, out, P), b16));
		SeqConv<char16_t, char>(id, "Utf16Be::Decode", pol, s16be, true, false, SEQ_CALL(Utf::Utf16Be::Decode(bb16, be16, out, P), bb16));
		SeqConv<char16_t, char32_t>(id, "Utf16Be::Decode", pol, s16be, true, false, SEQ_CALL(Utf::Utf16Be::Decode(bb16, be16, out, P), bb16));
		const char32_t* bb32 = s32be.data(); const char32_t* be32 = bb32 + s32be.size();
		SeqConv<char32_t, char16_t>(id, "Utf32Be::Decode", pol, s32be, true, false, SEQ_CALL(Utf::Utf32Be::Decode(bb32, be32, out, P), bb32));
		SeqConv<char32_t, char>(id, "Utf32Be::Decode", pol, s32be, true, false, SEQ_CALL(Utf::Utf32Be::Decode(bb32, be32, out, P), bb32));
		alarm(0);
	}
	return 0;
}
