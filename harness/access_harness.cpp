// C19 conformance harness "bsaccess": records, from the REAL code, which static storage every operation of the
// C19 catalogue touches (access summaries for spec/Threads.tla), and runs the T-thread stress leg.
//
//   bsaccess list                     names of the catalogue operations
//   bsaccess record                   one ndjson line per (operation, phase): raw access events, cold + warm call
//   bsaccess golden                   sequential golden results
//   bsaccess stress T N SEED          T threads x N seeded random catalogue operations; golden + per-thread results
//
// Nothing is judged here: the summaries become the operation constants of MC_Threads (TLC decides NoRace over all
// interleavings) and the stress results are validated by Trace_Threads (SequentialEquivalence).
//
// Recording technique (x86-64 Linux, executable linked non-PIE with full RELRO):
//   * the executable's writable segment (.data/.bss ... _end) is made PROT_NONE while an operation runs (every read
//     and write faults), the writable segment of libpugixml PROT_READ (every write faults; its one page also holds the
//     GOT that every PLT call reads); the SIGSEGV handler logs (read|write, address, rip),
//     opens the page and sets EFLAGS.TF; the SIGTRAP after that single instruction closes the page again;
//   * the tracer's own state lives in page-aligned objects that are excluded from the protection;
//   * __cxa_guard_acquire/release/abort are interposed (defined here, forwarded with dlsym(RTLD_NEXT)): guard events
//     are part of the log, accesses made by the guard runtime itself are flagged ("rt") and dropped later;
//   * every operation is recorded in a fresh child process: first call (cold) and second call (warm);
//   * while recording, `operator new` gives every block its own page(s); a block that was allocated by code of the
//     executable during a traced call and is still alive when the next traced call starts outlives an operation
//     (state reachable from static storage, e.g. `static char* buf = new char[n]`): it is protected and traced too.
// Not traced (trusted): libc / libstdc++ / libgcc internals (their own writable segments and their own allocations),
// the dynamic loader, thread-local storage, the stack, malloc'ed memory and heap blocks that die with their operation.
#include "vh_common.h"
#include "bitserializer/bit_serializer.h"
#include "bitserializer/msgpack_archive.h"
#include "bitserializer/rapidjson_archive.h"
#include "bitserializer/pugixml_archive.h"
#include "bitserializer/csv_archive.h"
#include "bitserializer/convert.h"
#include "bitserializer/types/std/vector.h"
#include "bitserializer/types/std/map.h"
#include "bitserializer/types/std/pair.h"
#include "bitserializer/types/std/chrono.h"
#include <atomic>
#include <new>
#include <chrono>
#include <dlfcn.h>
#include <map>
#include <random>
#include <sys/mman.h>
#include <sys/syscall.h>
#include <thread>
#include <ucontext.h>

using namespace BitSerializer;
using MsgPackArchive = BitSerializer::MsgPack::MsgPackArchive;
using JsonArchive = BitSerializer::Json::RapidJson::JsonArchive;
using XmlArchive = BitSerializer::Xml::PugiXml::XmlArchive;
using CsvArchive = BitSerializer::Csv::CsvArchive;

//=====================================================================================================================
// Tracer
//=====================================================================================================================
// the guard word as the compiler itself declares the __cxa_guard_* functions (64-bit integer)
using GuardWord = long long;

namespace tracer {

constexpr uintptr_t kPage = 4096;
struct Event { uint8_t kind; uint8_t rt; uint16_t pad; uint32_t count; uintptr_t addr; uintptr_t rip; };
enum : uint8_t { kRead = 'r', kWrite = 'w', kGuardAcquire = 'a', kGuardTaken = 'A', kGuardRelease = 'g', kGuardAbort = 'x' };
struct Range { uintptr_t lo, hi; int prot; };   // prot: protection while tracing (PROT_NONE: reads and writes fault, PROT_READ: writes only)
// one `operator new` block of the recording arena
struct Block { uintptr_t addr; uint32_t pages; uint32_t window; uintptr_t site; uint8_t live, traced, eligible, pad; uint32_t size; };

// Everything the signal handlers and the guard interposers touch.  Page aligned and a whole number of pages, so that
// its pages can be left out of the protection.
struct alignas(4096) State
{
	volatile int active;
	volatile int inRuntime;           // inside the real __cxa_guard_* (accesses flagged)
	int nRanges;
	int nOpen;
	Range ranges[16];                 // protected address ranges (page aligned)
	uintptr_t open[8];                // pages opened for the instruction being single-stepped
	int openProt[8];
	Event* events;                    // mmap'ed
	size_t nEvents, capEvents;
	size_t dropped;
	int (*realAcquire)(GuardWord*);
	void (*realRelease)(GuardWord*);
	void (*realAbort)(GuardWord*);
	struct sigaction oldSegv;
	// page-per-block arena for `operator new` while recording (heap blocks that survive an operation are traced too)
	int arenaOn;                      // operator new allocates from the arena
	int window;                       // number of the current / last traced window (1, 2, ..)
	uintptr_t arenaLo, arenaHi, arenaNext;
	struct Block* blocks;             // mmap'ed table, one entry per allocation
	uint32_t* pageBlock;              // mmap'ed: arena page -> block index + 1
	size_t nBlocks, capBlocks;
	uintptr_t textLo, textHi;         // text of the executable (allocation call sites of library / harness code)
	char pad[4096];
};
static State S;
static_assert(sizeof(State) % kPage == 0, "tracer state must cover whole pages");

static inline long RawMprotect(uintptr_t addr, size_t len, int prot)
{
	long ret;
	register long r10 __asm__("r10") = 0;
	__asm__ volatile("syscall" : "=a"(ret) : "a"(SYS_mprotect), "D"(addr), "S"(len), "d"((long)prot), "r"(r10) : "rcx", "r11", "memory");
	return ret;
}

static inline bool InRanges(uintptr_t a)
{
	for (int i = 0; i < S.nRanges; ++i) if (a >= S.ranges[i].lo && a < S.ranges[i].hi) return true;
	if (a >= S.arenaLo && a < S.arenaNext) {
		const uint32_t b = S.pageBlock[(a - S.arenaLo) / kPage];
		return b != 0 && S.blocks[b - 1].traced;
	}
	return false;
}

static inline int ProtOf(uintptr_t a)
{
	for (int i = 0; i < S.nRanges; ++i) if (a >= S.ranges[i].lo && a < S.ranges[i].hi) return S.ranges[i].prot;
	return PROT_NONE;
}

static inline void Log(uint8_t kind, uintptr_t addr, uintptr_t rip)
{
	if (S.nEvents) {
		Event& l = S.events[S.nEvents - 1];
		if (l.kind == kind && l.addr == addr && l.rip == rip && l.rt == (S.inRuntime ? 1 : 0)) { ++l.count; return; }
	}
	if (S.nEvents >= S.capEvents) { ++S.dropped; return; }
	Event& e = S.events[S.nEvents++];
	e.kind = kind; e.rt = S.inRuntime ? 1 : 0; e.pad = 0; e.count = 1; e.addr = addr; e.rip = rip;
}

static void OnSegv(int sig, siginfo_t* si, void* ctx)
{
	ucontext_t* uc = static_cast<ucontext_t*>(ctx);
	const uintptr_t a = reinterpret_cast<uintptr_t>(si->si_addr);
	if (!S.active || !InRanges(a) || S.nOpen >= 8) {
		// a genuine crash: restore the default action and let the instruction fault again
		for (int i = 0; i < S.nRanges; ++i) RawMprotect(S.ranges[i].lo, S.ranges[i].hi - S.ranges[i].lo, PROT_READ | PROT_WRITE);
		S.active = 0;
		signal(SIGSEGV, SIG_DFL);
		return;
	}
	const bool isWrite = (uc->uc_mcontext.gregs[REG_ERR] & 2) != 0;
	Log(isWrite ? kWrite : kRead, a, static_cast<uintptr_t>(uc->uc_mcontext.gregs[REG_RIP]));
	const uintptr_t page = a & ~(kPage - 1);
	RawMprotect(page, kPage, PROT_READ | PROT_WRITE);
	S.openProt[S.nOpen] = ProtOf(a);
	S.open[S.nOpen++] = page;
	uc->uc_mcontext.gregs[REG_EFL] |= 0x100;          // trap flag: SIGTRAP after this one instruction
}

static void OnTrap(int, siginfo_t*, void* ctx)
{
	ucontext_t* uc = static_cast<ucontext_t*>(ctx);
	for (int i = 0; i < S.nOpen; ++i) RawMprotect(S.open[i], kPage, S.active ? S.openProt[i] : (PROT_READ | PROT_WRITE));
	S.nOpen = 0;
	uc->uc_mcontext.gregs[REG_EFL] &= ~0x100L;
}

static void AddRange(uintptr_t lo, uintptr_t hi, int prot)
{
	// leave out the pages of the tracer state
	const uintptr_t slo = reinterpret_cast<uintptr_t>(&S), shi = slo + sizeof(State);
	if (lo < slo && hi > slo) { AddRange(lo, slo, prot); if (hi > shi) AddRange(shi, hi, prot); return; }
	if (lo >= slo && lo < shi) { if (hi > shi) AddRange(shi, hi, prot); return; }
	if (lo >= hi) return;
	if (S.nRanges < 16) { S.ranges[S.nRanges].lo = lo; S.ranges[S.nRanges].hi = hi; S.ranges[S.nRanges].prot = prot; ++S.nRanges; }
}

struct Segment { std::string module, path; uintptr_t lo, hi, base; };
static std::vector<Segment>* g_segments;   // reporting only (heap)

extern "C" char _end;

// Finds the writable segments: of the executable (file-backed rw-p mappings plus the anonymous .bss tail up to _end) and
// of libpugixml (rw-p mappings plus the directly following anonymous rw-p mapping = its .bss).
static void Setup()
{
	g_segments = new std::vector<Segment>();
	char exe[512] = {0};
	if (readlink("/proc/self/exe", exe, sizeof exe - 1) <= 0) { fprintf(stderr, "bsaccess: readlink failed\n"); exit(3); }
	std::ifstream maps("/proc/self/maps");
	std::string line;
	struct M { uintptr_t lo, hi; std::string perms, path; };
	std::vector<M> ms;
	while (std::getline(maps, line)) {
		unsigned long lo = 0, hi = 0, off = 0; char perms[8] = {0}; char path[512] = {0};
		unsigned dmaj, dmin; unsigned long ino;
		const int n = sscanf(line.c_str(), "%lx-%lx %7s %lx %x:%x %lu %511[^\n]", &lo, &hi, perms, &off, &dmaj, &dmin, &ino, path);
		if (n < 7) continue;
		const char* p = path; while (*p == ' ') ++p;
		ms.push_back({lo, hi, perms, p});
	}
	const uintptr_t endAddr = (reinterpret_cast<uintptr_t>(&_end) + kPage - 1) & ~(kPage - 1);
	std::map<std::string, uintptr_t> bases;
	for (auto& m : ms) if (!m.path.empty() && m.path[0] == '/' && !bases.count(m.path)) bases[m.path] = m.lo;
	for (size_t i = 0; i < ms.size(); ++i) {
		const M& m = ms[i];
		if (m.perms.rfind("rw", 0) != 0) continue;
		const bool isExe = m.path == exe;
		const bool isPugi = m.path.find("libpugixml") != std::string::npos;
		if (!isExe && !isPugi) continue;
		uintptr_t lo = m.lo, hi = m.hi;
		// anonymous continuation (.bss)
		if (i + 1 < ms.size() && ms[i + 1].path.empty() && ms[i + 1].lo == hi && ms[i + 1].perms.rfind("rw", 0) == 0) hi = ms[i + 1].hi;
		if (isExe) { if (endAddr > hi) hi = endAddr; if (hi > endAddr && endAddr > lo) hi = endAddr; }
		const std::string mod = isExe ? "exe" : m.path.substr(m.path.rfind('/') + 1);
		g_segments->push_back({mod, m.path, lo, hi, isExe ? 0 : bases[m.path]});
		// libpugixml: its single writable page also holds the GOT, which every PLT call reads: traced for WRITES only
		AddRange(lo, hi, isExe ? PROT_NONE : PROT_READ);
	}
	bool haveExe = false;
	for (auto& s : *g_segments) if (s.module == "exe") haveExe = true;
	if (!haveExe) { fprintf(stderr, "bsaccess: writable segment of the executable not found\n"); exit(3); }
	S.capEvents = 1 << 20;
	S.events = static_cast<Event*>(mmap(nullptr, S.capEvents * sizeof(Event), PROT_READ | PROT_WRITE, MAP_PRIVATE | MAP_ANONYMOUS, -1, 0));
	if (S.events == MAP_FAILED) { fprintf(stderr, "bsaccess: mmap failed\n"); exit(3); }
	struct sigaction sa;
	memset(&sa, 0, sizeof sa);
	sa.sa_sigaction = OnSegv;
	sa.sa_flags = SA_SIGINFO | SA_NODEFER;
	sigemptyset(&sa.sa_mask);
	sigaction(SIGSEGV, &sa, &S.oldSegv);
	sa.sa_sigaction = OnTrap;
	sigaction(SIGTRAP, &sa, nullptr);
}

static inline void Begin()
{
	S.nEvents = 0; S.dropped = 0; S.nOpen = 0;
	++S.window;
	// heap blocks that were allocated by code of the executable during an EARLIER traced window and are still alive
	// belong to state that outlives an operation (reachable from static storage): trace them from now on
	for (size_t i = 0; i < S.nBlocks; ++i) {
		Block& b = S.blocks[i];
		b.traced = (b.live && b.eligible && b.window != 0 && b.window < static_cast<uint32_t>(S.window)) ? 1 : 0;
	}
	S.active = 1;
	for (size_t i = 0; i < S.nBlocks; ++i) if (S.blocks[i].traced) RawMprotect(S.blocks[i].addr, S.blocks[i].pages * kPage, PROT_NONE);
	for (int i = 0; i < S.nRanges; ++i) RawMprotect(S.ranges[i].lo, S.ranges[i].hi - S.ranges[i].lo, S.ranges[i].prot);
}

static inline void End()
{
	for (int i = 0; i < S.nRanges; ++i) RawMprotect(S.ranges[i].lo, S.ranges[i].hi - S.ranges[i].lo, PROT_READ | PROT_WRITE);
	for (size_t i = 0; i < S.nBlocks; ++i) if (S.blocks[i].traced) RawMprotect(S.blocks[i].addr, S.blocks[i].pages * kPage, PROT_READ | PROT_WRITE);
	S.active = 0;
}

extern "C" char __executable_start;
extern "C" char etext;

static void ArenaSetup()
{
	const size_t arenaBytes = static_cast<size_t>(2) << 30;
	void* a = mmap(nullptr, arenaBytes, PROT_READ | PROT_WRITE, MAP_PRIVATE | MAP_ANONYMOUS | MAP_NORESERVE, -1, 0);
	S.capBlocks = 1 << 20;
	void* t = mmap(nullptr, S.capBlocks * sizeof(Block), PROT_READ | PROT_WRITE, MAP_PRIVATE | MAP_ANONYMOUS | MAP_NORESERVE, -1, 0);
	void* pb = mmap(nullptr, (arenaBytes / kPage) * sizeof(uint32_t), PROT_READ | PROT_WRITE, MAP_PRIVATE | MAP_ANONYMOUS | MAP_NORESERVE, -1, 0);
	if (a == MAP_FAILED || t == MAP_FAILED || pb == MAP_FAILED) { fprintf(stderr, "bsaccess: arena mmap failed\n"); exit(3); }
	S.arenaLo = S.arenaNext = reinterpret_cast<uintptr_t>(a);
	S.arenaHi = S.arenaLo + arenaBytes;
	S.blocks = static_cast<Block*>(t);
	S.pageBlock = static_cast<uint32_t*>(pb);
	S.textLo = reinterpret_cast<uintptr_t>(&__executable_start);
	S.textHi = reinterpret_cast<uintptr_t>(&etext);
	S.arenaOn = 1;
}

// operator new while recording: every block on its own page(s), never reused
static inline void* ArenaAlloc(size_t size, uintptr_t site)
{
	const size_t pages = (size + kPage - 1) / kPage + (size == 0 ? 1 : 0);
	if (S.arenaNext + pages * kPage > S.arenaHi || S.nBlocks >= S.capBlocks) return nullptr;
	const uintptr_t addr = S.arenaNext;
	S.arenaNext += pages * kPage;
	Block& b = S.blocks[S.nBlocks++];
	b.addr = addr; b.pages = static_cast<uint32_t>(pages); b.size = static_cast<uint32_t>(size);
	b.window = S.active ? static_cast<uint32_t>(S.window) : 0;
	b.site = site; b.live = 1; b.traced = 0;
	b.eligible = (site >= S.textLo && site < S.textHi) ? 1 : 0;
	for (size_t i = 0; i < pages; ++i) S.pageBlock[(addr - S.arenaLo) / kPage + i] = static_cast<uint32_t>(S.nBlocks);
	return reinterpret_cast<void*>(addr);
}
static inline bool ArenaFree(void* p)
{
	const uintptr_t a = reinterpret_cast<uintptr_t>(p);
	if (a < S.arenaLo || a >= S.arenaHi) return false;
	const uint32_t b = S.pageBlock[(a - S.arenaLo) / kPage];
	if (b) {
		Block& blk = S.blocks[b - 1];
		blk.live = 0;
		if (!blk.traced) madvise(reinterpret_cast<void*>(blk.addr), blk.pages * kPage, MADV_DONTNEED);
	}
	return true;
}

static void ResolveGuards()
{
	if (!S.realAcquire) {
		S.realAcquire = reinterpret_cast<int (*)(GuardWord*)>(dlsym(RTLD_NEXT, "__cxa_guard_acquire"));
		S.realRelease = reinterpret_cast<void (*)(GuardWord*)>(dlsym(RTLD_NEXT, "__cxa_guard_release"));
		S.realAbort = reinterpret_cast<void (*)(GuardWord*)>(dlsym(RTLD_NEXT, "__cxa_guard_abort"));
		if (!S.realAcquire || !S.realRelease || !S.realAbort) { static const char m[] = "bsaccess: cannot resolve __cxa_guard_*\n"; (void)!write(2, m, sizeof m - 1); _exit(3); }
	}
}

}  // namespace tracer

// Replaceable global allocation functions: plain malloc/free, except while recording, where every block gets its own
// page(s) so that blocks which survive an operation can be protected and traced like static storage.
static inline void* NewImpl(size_t n, uintptr_t site)
{
	if (tracer::S.arenaOn) { if (void* p = tracer::ArenaAlloc(n, site)) return p; }
	if (void* p = malloc(n ? n : 1)) return p;
	throw std::bad_alloc();
}
static inline void DeleteImpl(void* p) noexcept
{
	if (!p) return;
	if (tracer::S.arenaLo && tracer::ArenaFree(p)) return;
	free(p);
}
void* operator new(size_t n) { return NewImpl(n, reinterpret_cast<uintptr_t>(__builtin_return_address(0))); }
void* operator new[](size_t n) { return NewImpl(n, reinterpret_cast<uintptr_t>(__builtin_return_address(0))); }
void* operator new(size_t n, const std::nothrow_t&) noexcept { try { return NewImpl(n, reinterpret_cast<uintptr_t>(__builtin_return_address(0))); } catch (...) { return nullptr; } }
void* operator new[](size_t n, const std::nothrow_t&) noexcept { try { return NewImpl(n, reinterpret_cast<uintptr_t>(__builtin_return_address(0))); } catch (...) { return nullptr; } }
void operator delete(void* p) noexcept { DeleteImpl(p); }
void operator delete[](void* p) noexcept { DeleteImpl(p); }
void operator delete(void* p, size_t) noexcept { DeleteImpl(p); }
void operator delete[](void* p, size_t) noexcept { DeleteImpl(p); }
void operator delete(void* p, const std::nothrow_t&) noexcept { DeleteImpl(p); }
void operator delete[](void* p, const std::nothrow_t&) noexcept { DeleteImpl(p); }

// Interposed C++11 "magic static" guard functions (the definitions of the executable win over libstdc++'s).
extern "C" int __cxa_guard_acquire(GuardWord* g)
{
	using namespace tracer;
	ResolveGuards();
	if (S.active) Log(kGuardAcquire, reinterpret_cast<uintptr_t>(g), reinterpret_cast<uintptr_t>(__builtin_return_address(0)));
	++S.inRuntime;
	const int r = S.realAcquire(g);
	--S.inRuntime;
	if (S.active && r) Log(kGuardTaken, reinterpret_cast<uintptr_t>(g), 0);
	return r;
}
extern "C" void __cxa_guard_release(GuardWord* g)
{
	using namespace tracer;
	ResolveGuards();
	++S.inRuntime;
	S.realRelease(g);
	--S.inRuntime;
	if (S.active) Log(kGuardRelease, reinterpret_cast<uintptr_t>(g), 0);
}
extern "C" void __cxa_guard_abort(GuardWord* g)
{
	using namespace tracer;
	ResolveGuards();
	++S.inRuntime;
	S.realAbort(g);
	--S.inRuntime;
	if (S.active) Log(kGuardAbort, reinterpret_cast<uintptr_t>(g), 0);
}

//=====================================================================================================================
// The C19 catalogue
//=====================================================================================================================
enum class Color { Red, Green, Blue };
REGISTER_ENUM(Color, {
	{ Color::Red, "Red" },
	{ Color::Green, "Green" },
	{ Color::Blue, "Blue" }
})

// a registered enum with 12 values (more than any small-table threshold); converted in both directions
enum class Planet { Mercury, Venus, Earth, Mars, Jupiter, Saturn, Uranus, Neptune, Pluto, Ceres, Eris, Haumea };
REGISTER_ENUM(Planet, {
	{ Planet::Mercury, "Mercury" }, { Planet::Venus, "Venus" }, { Planet::Earth, "Earth" }, { Planet::Mars, "Mars" },
	{ Planet::Jupiter, "Jupiter" }, { Planet::Saturn, "Saturn" }, { Planet::Uranus, "Uranus" }, { Planet::Neptune, "Neptune" },
	{ Planet::Pluto, "Pluto" }, { Planet::Ceres, "Ceres" }, { Planet::Eris, "Eris" }, { Planet::Haumea, "Haumea" }
})

namespace cat {

using Seconds = std::chrono::seconds;
using TimeSec = std::chrono::time_point<std::chrono::system_clock, std::chrono::seconds>;

// int, UTF-8 and UTF-16 string, registered enum, std::map, std::pair, std::multimap (pair.h statics), chrono members
// four levels of nesting
struct Level4 { std::string name; int v = 0; Planet planet = Planet::Earth;
	template <class A> void Serialize(A& a) { a << KeyValue("name", name); a << KeyValue("v", v); a << KeyValue("planet", planet); } };
struct Level3 { Level4 inner; std::vector<Level4> items;
	template <class A> void Serialize(A& a) { a << KeyValue("inner", inner); a << KeyValue("items", items); } };
struct Level2 { Level3 inner; std::u16string label;
	template <class A> void Serialize(A& a) { a << KeyValue("inner", inner); a << KeyValue("label", label); } };
struct Level1 { Level2 inner; int depth = 1;
	template <class A> void Serialize(A& a) { a << KeyValue("inner", inner); a << KeyValue("depth", depth); } };

struct Doc
{
	int id = 0;
	std::string u8;
	std::u16string u16;
	Color color = Color::Red;
	Planet planet = Planet::Mercury;
	std::map<std::string, int> scores;
	std::pair<std::string, int> best;
	std::multimap<std::string, int> tags;
	Seconds dur{};
	TimeSec at{};
	// size-dependent paths: strings longer than the SSO buffer (15), one stream chunk (256), 2048 and 4096 bytes
	std::string s17, s300, s2100, s4200;
	std::u16string w300, w2100;
	std::vector<std::string> texts;          // 20 strings of growing length
	std::vector<int> numbers;                // 400 elements (> 16, > 255)
	std::vector<uint8_t> blob;               // 5000 bytes
	std::vector<Planet> planets;             // 40 enum values (big enum, both directions)
	std::map<std::string, Planet> byName;    // 300 entries, one key longer than a stream chunk
	Level1 nested;

	template <class TArchive>
	void Serialize(TArchive& archive)
	{
		archive << KeyValue("id", id);
		archive << KeyValue("u8", u8);
		archive << KeyValue("u16", u16);
		archive << KeyValue("color", color);
		archive << KeyValue("planet", planet);
		archive << KeyValue("scores", scores);
		archive << KeyValue("best", best);
		archive << KeyValue("tags", tags);
		archive << KeyValue("dur", dur);
		archive << KeyValue("at", at);
		archive << KeyValue("s17", s17);
		archive << KeyValue("s300", s300);
		archive << KeyValue("s2100", s2100);
		archive << KeyValue("s4200", s4200);
		archive << KeyValue("w300", w300);
		archive << KeyValue("w2100", w2100);
		archive << KeyValue("texts", texts);
		archive << KeyValue("numbers", numbers);
		archive << KeyValue("blob", blob);
		archive << KeyValue("planets", planets);
		archive << KeyValue("byName", byName);
		archive << KeyValue("nested", nested);
	}
};

// document of the UTF stream operations: text longer than the encoded-stream chunk in every string width
struct UtfDoc
{
	int id = 0;
	std::string u8;
	std::u16string u16;
	std::u32string u32;
	Planet planet = Planet::Mercury;
	Color color = Color::Red;
	std::vector<std::string> texts;
	template <class A> void Serialize(A& a)
	{
		a << KeyValue("id", id); a << KeyValue("u8", u8); a << KeyValue("u16", u16); a << KeyValue("u32", u32);
		a << KeyValue("planet", planet); a << KeyValue("color", color); a << KeyValue("texts", texts);
	}
};

// MsgPack only: the 32-bit length forms (bin32 / str32 / array32: more than 65535 bytes / elements)
struct Large
{
	std::vector<uint8_t> blob;
	std::string text;
	std::vector<uint16_t> numbers;
	template <class A> void Serialize(A& a) { a << KeyValue("blob", blob); a << KeyValue("text", text); a << KeyValue("numbers", numbers); }
};

// CSV is flat: one row per object
struct Row
{
	int id = 0;
	std::string u8;
	std::u16string u16;
	Color color = Color::Red;
	Planet planet = Planet::Mercury;
	Seconds dur{};
	TimeSec at{};
	std::string longText;            // 20 .. 4200 bytes, with quotes and separators
	std::u16string wide;

	template <class TArchive>
	void Serialize(TArchive& archive)
	{
		archive << KeyValue("id", id);
		archive << KeyValue("u8", u8);
		archive << KeyValue("u16", u16);
		archive << KeyValue("color", color);
		archive << KeyValue("planet", planet);
		archive << KeyValue("dur", dur);
		archive << KeyValue("at", at);
		archive << KeyValue("longText", longText);
		archive << KeyValue("wide", wide);
	}
};

// Validated class (validation-failing loads)
struct User
{
	int age = 0;
	std::string name;
	std::string email;
	std::string missing;

	template <class TArchive>
	void Serialize(TArchive& archive)
	{
		archive << KeyValue("age", age, Required("age is required"), Range(0, 150, "age out of range"));
		archive << KeyValue("name", name, Required(), MaxSize(8));
		archive << KeyValue("email", email, Required(), Email());
		archive << KeyValue("missing", missing, Required());
	}
};

// hex without any static storage of its own (vh::Hex keeps a function-local static pointer)
inline std::string HexOf(const std::string& s)
{
	std::string o;
	for (unsigned char c : s) { const unsigned hi = c >> 4, lo = c & 15; o += static_cast<char>(hi < 10 ? '0' + hi : 'a' + hi - 10); o += static_cast<char>(lo < 10 ? '0' + lo : 'a' + lo - 10); }
	return o;
}

inline std::string Digest64(const std::string& s)
{
	uint64_t h = 1469598103934665603ull;
	for (unsigned char c : s) { h ^= c; h *= 1099511628211ull; }
	return std::to_string(h) + ":" + std::to_string(s.size());
}

// ---- canonical text of loaded values (own code: no library conversion inside the dump) ----------------------------
inline std::string Dump(const std::u16string& s)
{
	std::string o;
	for (char16_t c : s) { char b[8]; snprintf(b, sizeof b, "%04x", static_cast<unsigned>(c)); o += b; }
	return o;
}
inline std::string Dump(const Level4& l) { return l.name + "/" + std::to_string(l.v) + "/" + std::to_string(static_cast<int>(l.planet)); }
inline std::string Dump(const Doc& d)
{
	std::string o = "id=" + std::to_string(d.id) + ";u8=" + HexOf(d.u8) + ";u16=" + Dump(d.u16) + ";color=" + std::to_string(static_cast<int>(d.color)) +
		";planet=" + std::to_string(static_cast<int>(d.planet)) + ";scores=";
	for (auto& kv : d.scores) o += kv.first + ":" + std::to_string(kv.second) + ",";
	o += ";best=" + d.best.first + ":" + std::to_string(d.best.second) + ";tags=";
	for (auto& kv : d.tags) o += kv.first + ":" + std::to_string(kv.second) + ",";
	o += ";dur=" + std::to_string(static_cast<long long>(d.dur.count())) + ";at=" + std::to_string(static_cast<long long>(d.at.time_since_epoch().count()));
	o += ";s17=" + d.s17 + ";s300=" + d.s300 + ";s2100=" + d.s2100 + ";s4200=" + d.s4200 + ";w300=" + Dump(d.w300) + ";w2100=" + Dump(d.w2100) + ";texts=";
	for (auto& t : d.texts) o += t + ",";
	o += ";numbers=";
	for (int n : d.numbers) o += std::to_string(n) + ",";
	o += ";blob=" + HexOf(std::string(reinterpret_cast<const char*>(d.blob.data()), d.blob.size())) + ";planets=";
	for (Planet pl : d.planets) o += std::to_string(static_cast<int>(pl)) + ",";
	o += ";byName=";
	for (auto& kv : d.byName) o += kv.first + ":" + std::to_string(static_cast<int>(kv.second)) + ",";
	o += ";nested=" + std::to_string(d.nested.depth) + "/" + Dump(d.nested.inner.label) + "/" + Dump(d.nested.inner.inner.inner) + "/";
	for (auto& l : d.nested.inner.inner.items) o += Dump(l) + ",";
	return o;
}
inline std::string Dump(const UtfDoc& d)
{
	std::string o = "id=" + std::to_string(d.id) + ";u8=" + HexOf(d.u8) + ";u16=" + Dump(d.u16) + ";u32=";
	for (char32_t c : d.u32) o += std::to_string(static_cast<unsigned long>(c)) + ".";
	o += ";planet=" + std::to_string(static_cast<int>(d.planet)) + ";color=" + std::to_string(static_cast<int>(d.color)) + ";texts=";
	for (auto& t : d.texts) o += HexOf(t) + ",";
	return o;
}
inline std::string Dump(const Large& l)
{
	std::string o = "blob=" + HexOf(std::string(reinterpret_cast<const char*>(l.blob.data()), l.blob.size())) + ";text=" + l.text + ";numbers=";
	for (auto n : l.numbers) o += std::to_string(n) + ",";
	return o;
}
inline std::string Dump(const std::vector<Row>& rows)
{
	std::string o;
	for (auto& r : rows)
		o += "id=" + std::to_string(r.id) + ";u8=" + HexOf(r.u8) + ";u16=" + Dump(r.u16) + ";color=" + std::to_string(static_cast<int>(r.color)) +
			";planet=" + std::to_string(static_cast<int>(r.planet)) +
			";dur=" + std::to_string(static_cast<long long>(r.dur.count())) + ";at=" + std::to_string(static_cast<long long>(r.at.time_since_epoch().count())) +
			";long=" + HexOf(r.longText) + ";wide=" + Dump(r.wide) + "|";
	return o;
}
inline std::string Dump(const User& u) { return "age=" + std::to_string(u.age) + ";name=" + u.name + ";email=" + u.email + ";missing=" + u.missing; }

inline std::string DumpValidation(const ValidationException& ex)
{
	std::string o = "ValidationException:";
	for (auto& kv : ex.GetValidationErrors()) { o += "{" + kv.first + ":"; for (auto& m : kv.second) o += "[" + m + "]"; o += "}"; }
	return o;
}

// ---- shared read-only inputs (static storage of the harness; built once before any operation runs) -----------------
struct Inputs
{
	Doc doc;                       // const source object of all saves
	std::vector<Row> rows;
	SerializationOptions streamOptions;     // explicit options object shared by all threads (no BOM)
	std::string msgpackDoc, jsonDoc, xmlDoc, csvDoc;          // documents produced once from `doc` / `rows`
	std::string msgpackUser, jsonUser, xmlUser, csvUser;      // documents that fail validation
	std::string jsonBroken;
	std::u16string utf16Text;
	std::string utf8Text;
	Large large;                              // MsgPack 32-bit length forms
	std::string msgpackLarge;
	UtfDoc utfDoc;
	std::vector<Row> utfRows;
	SerializationOptions utfOptions[5];       // text streams in UTF-8 / UTF-16 LE / BE / UTF-32 LE / BE, with BOM
};
static Inputs g_in;

template <class TArchive, class T> std::string SaveMem(const T& obj)
{
	typename TArchive::preferred_output_format out;
	if constexpr (std::is_same_v<TArchive, XmlArchive>) SaveObject<TArchive>(KeyValue("Doc", obj), out);
	else SaveObject<TArchive>(obj, out);
	return std::string(reinterpret_cast<const char*>(out.data()), out.size() * sizeof(out[0]));
}
template <class TArchive, class T> std::string SaveStream(const T& obj, const SerializationOptions& opt)
{
	std::ostringstream os(std::ios::out | std::ios::binary);
	if constexpr (std::is_same_v<TArchive, XmlArchive>) SaveObject<TArchive>(KeyValue("Doc", obj), os, opt);
	else SaveObject<TArchive>(obj, os, opt);
	return os.str();
}
template <class TArchive, class T> void LoadMem(T& obj, const std::string& doc)
{
	if constexpr (std::is_same_v<TArchive, XmlArchive>) LoadObject<TArchive>(KeyValue("Doc", obj), doc);
	else LoadObject<TArchive>(obj, doc);
}
template <class TArchive, class T> void LoadStream(T& obj, const std::string& doc)
{
	std::istringstream is(doc, std::ios::in | std::ios::binary);
	if constexpr (std::is_same_v<TArchive, XmlArchive>) LoadObject<TArchive>(KeyValue("Doc", obj), is);
	else LoadObject<TArchive>(obj, is);
}

// An operation: runs on the shared read-only inputs and its own local objects, returns its observable result
// (bytes produced / values loaded / exception text)
using OpFn = std::string (*)();
struct Op { const char* name; OpFn fn; };

template <class F> std::string Guarded(F&& f)
{
	try { return f(); }
	catch (const ValidationException& ex) { return DumpValidation(ex); }
	catch (const SerializationException& ex) { return std::string("SerializationException:") + std::to_string(static_cast<int>(ex.GetErrorCode())) + ":" + ex.what(); }
	catch (const std::exception& ex) { return std::string("std::exception:") + ex.what(); }
}

template <class TArchive> std::string OpSaveDocMem() { return Guarded([] { return SaveMem<TArchive>(g_in.doc); }); }
template <class TArchive> std::string OpSaveDocStream() { return Guarded([] { return SaveStream<TArchive>(g_in.doc, g_in.streamOptions); }); }
template <class TArchive> std::string OpSaveRowsMem() { return Guarded([] { return SaveMem<TArchive>(g_in.rows); }); }
template <class TArchive> std::string OpSaveRowsStream() { return Guarded([] { return SaveStream<TArchive>(g_in.rows, g_in.streamOptions); }); }

template <class TArchive> const std::string& DocOf()
{
	if constexpr (std::is_same_v<TArchive, MsgPackArchive>) return g_in.msgpackDoc;
	else if constexpr (std::is_same_v<TArchive, JsonArchive>) return g_in.jsonDoc;
	else if constexpr (std::is_same_v<TArchive, XmlArchive>) return g_in.xmlDoc;
	else return g_in.csvDoc;
}
template <class TArchive> const std::string& UserDocOf()
{
	if constexpr (std::is_same_v<TArchive, MsgPackArchive>) return g_in.msgpackUser;
	else if constexpr (std::is_same_v<TArchive, JsonArchive>) return g_in.jsonUser;
	else if constexpr (std::is_same_v<TArchive, XmlArchive>) return g_in.xmlUser;
	else return g_in.csvUser;
}
template <class TArchive> std::string OpLoadDocMem() { return Guarded([] { Doc d; LoadMem<TArchive>(d, DocOf<TArchive>()); return Dump(d); }); }
template <class TArchive> std::string OpLoadDocStream() { return Guarded([] { Doc d; LoadStream<TArchive>(d, DocOf<TArchive>()); return Dump(d); }); }
template <class TArchive> std::string OpLoadRowsMem() { return Guarded([] { std::vector<Row> r; LoadMem<TArchive>(r, DocOf<TArchive>()); return Dump(r); }); }
template <class TArchive> std::string OpLoadRowsStream() { return Guarded([] { std::vector<Row> r; LoadStream<TArchive>(r, DocOf<TArchive>()); return Dump(r); }); }

// validation-failing loads (ValidationException)
template <class TArchive> std::string OpValidate()
{
	return Guarded([] {
		if constexpr (std::is_same_v<TArchive, CsvArchive>) { std::vector<User> u; LoadMem<TArchive>(u, UserDocOf<TArchive>()); return "loaded:" + std::to_string(u.size()); }
		else { User u; LoadMem<TArchive>(u, UserDocOf<TArchive>()); return "loaded:" + Dump(u); }
	});
}
std::string OpLoadJsonBroken() { return Guarded([] { Doc d; LoadMem<JsonArchive>(d, g_in.jsonBroken); return Dump(d); }); }

// Convert::To / ToString
std::string OpConvNumbers()
{
	return Guarded([] {
		std::string o = Convert::ToString(-12345) + "|" + Convert::ToString(18446744073709551615ull) + "|" + Convert::ToString(1.5f) + "|" + Convert::ToString(-2.25);
		o += "|" + std::to_string(Convert::To<int>("  42")) + "|" + std::to_string(Convert::To<uint64_t>(u"18446744073709551615")) + "|" + std::to_string(Convert::To<double>("3.25"));
		o += "|" + Dump(Convert::To<std::u16string>(-77)) + "|" + std::to_string(Convert::To<bool>("true"));
		const auto bad = Convert::TryTo<int8_t>("300");
		o += bad.has_value() ? "|fits" : "|nofit";
		try { (void)Convert::To<uint8_t>("-1"); o += "|noexc"; } catch (const std::exception& ex) { o += std::string("|exc:") + ex.what(); }
		return o;
	});
}
std::string OpConvEnum()
{
	return Guarded([] {
		std::string o = Convert::ToString(Color::Green) + "|" + std::to_string(static_cast<int>(Convert::To<Color>("blue"))) + "|" + Dump(Convert::To<std::u16string>(Color::Red));
		o += "|" + std::to_string(static_cast<int>(Convert::To<Color>(u"GREEN")));
		try { (void)Convert::To<Color>("Magenta"); o += "|noexc"; } catch (const std::exception& ex) { o += std::string("|exc:") + ex.what(); }
		// the 12-value enum, every value in both directions, narrow and wide names
		for (int i = 0; i < 12; ++i) {
			const std::string name = Convert::ToString(static_cast<Planet>(i));
			o += "|" + name + "=" + std::to_string(static_cast<int>(Convert::To<Planet>(name)));
			o += "," + std::to_string(static_cast<int>(Convert::To<Planet>(Convert::To<std::u16string>(static_cast<Planet>(11 - i)))));
		}
		o += Convert::TryTo<Planet>("Vulcan").has_value() ? "|found" : "|notfound";
		return o;
	});
}
std::string OpConvChrono()
{
	return Guarded([] {
		std::string o = Convert::ToString(Seconds(3725)) + "|" + Convert::ToString(TimeSec(Seconds(1672531200)));
		o += "|" + std::to_string(static_cast<long long>(Convert::To<Seconds>("PT1H2M5S").count()));
		o += "|" + std::to_string(static_cast<long long>(Convert::To<TimeSec>("2023-01-01T00:00:00Z").time_since_epoch().count()));
		o += "|" + Dump(Convert::To<std::u16string>(std::chrono::milliseconds(1500)));
		try { (void)Convert::To<TimeSec>("2023-13-01T00:00:00Z"); o += "|noexc"; } catch (const std::exception& ex) { o += std::string("|exc:") + ex.what(); }
		return o;
	});
}
std::string OpConvUtf()
{
	return Guarded([] {
		std::string o = Dump(Convert::To<std::u16string>(g_in.utf8Text)) + "|" + HexOf(Convert::To<std::string>(g_in.utf16Text));
		const auto u32 = Convert::To<std::u32string>(g_in.utf16Text);
		o += "|" + std::to_string(u32.size()) + "|" + HexOf(Convert::To<std::string>(u32));
		const auto w = Convert::To<std::wstring>(g_in.utf8Text);
		o += "|" + std::to_string(w.size());
		std::string bad = "ab\xC3";   // truncated sequence: error policy of Convert
		try { o += "|" + Dump(Convert::To<std::u16string>(bad)); } catch (const std::exception& ex) { o += std::string("|exc:") + ex.what(); }
		return o;
	});
}

// MsgPack 32-bit length forms, memory and stream
std::string OpLargeMem() { return Guarded([] { const std::string bytes = SaveMem<MsgPackArchive>(g_in.large); Large l; LoadMem<MsgPackArchive>(l, g_in.msgpackLarge); return Digest64(bytes) + "|" + Digest64(Dump(l)); }); }
std::string OpLargeStream() { return Guarded([] { const std::string bytes = SaveStream<MsgPackArchive>(g_in.large, g_in.streamOptions); Large l; LoadStream<MsgPackArchive>(l, g_in.msgpackLarge); return Digest64(bytes) + "|" + Digest64(Dump(l)); }); }

// Text archives through streams in all five UTF encodings (with BOM): save, then load the produced bytes back
template <class TArchive> std::string OpUtfStreams()
{
	return Guarded([] {
		std::string o;
		for (int e = 0; e < 5; ++e) {
			if constexpr (std::is_same_v<TArchive, CsvArchive>) {
				const std::string bytes = SaveStream<TArchive>(g_in.utfRows, g_in.utfOptions[e]);
				std::vector<Row> r; LoadStream<TArchive>(r, bytes);
				o += Digest64(bytes) + "/" + Digest64(Dump(r)) + "|";
			}
			else {
				const std::string bytes = SaveStream<TArchive>(g_in.utfDoc, g_in.utfOptions[e]);
				UtfDoc d; LoadStream<TArchive>(d, bytes);
				o += Digest64(bytes) + "/" + Digest64(Dump(d)) + "|";
			}
		}
		return o;
	});
}

static const Op kOps[] = {
	{"save_msgpack_mem", &OpSaveDocMem<MsgPackArchive>}, {"save_msgpack_stream", &OpSaveDocStream<MsgPackArchive>},
	{"load_msgpack_mem", &OpLoadDocMem<MsgPackArchive>}, {"load_msgpack_stream", &OpLoadDocStream<MsgPackArchive>},
	{"save_json_mem", &OpSaveDocMem<JsonArchive>}, {"save_json_stream", &OpSaveDocStream<JsonArchive>},
	{"load_json_mem", &OpLoadDocMem<JsonArchive>}, {"load_json_stream", &OpLoadDocStream<JsonArchive>},
	{"save_xml_mem", &OpSaveDocMem<XmlArchive>}, {"save_xml_stream", &OpSaveDocStream<XmlArchive>},
	{"load_xml_mem", &OpLoadDocMem<XmlArchive>}, {"load_xml_stream", &OpLoadDocStream<XmlArchive>},
	{"save_csv_mem", &OpSaveRowsMem<CsvArchive>}, {"save_csv_stream", &OpSaveRowsStream<CsvArchive>},
	{"load_csv_mem", &OpLoadRowsMem<CsvArchive>}, {"load_csv_stream", &OpLoadRowsStream<CsvArchive>},
	{"validate_msgpack", &OpValidate<MsgPackArchive>}, {"validate_json", &OpValidate<JsonArchive>},
	{"validate_xml", &OpValidate<XmlArchive>}, {"validate_csv", &OpValidate<CsvArchive>},
	{"load_json_broken", &OpLoadJsonBroken},
	{"large_msgpack_mem", &OpLargeMem}, {"large_msgpack_stream", &OpLargeStream},
	{"utf_streams_json", &OpUtfStreams<JsonArchive>}, {"utf_streams_xml", &OpUtfStreams<XmlArchive>}, {"utf_streams_csv", &OpUtfStreams<CsvArchive>},
	{"conv_numbers", &OpConvNumbers}, {"conv_enum", &OpConvEnum}, {"conv_chrono", &OpConvChrono}, {"conv_utf", &OpConvUtf},
};
constexpr size_t kNumOps = sizeof(kOps) / sizeof(kOps[0]);

// Builds the shared inputs (no library call here); done before recording children are forked / before threads are
// started: happens-before every operation.
static void BuildInputs()
{
	Doc& d = g_in.doc;
	d.id = 4711;
	d.u8 = "UTF-8 \xD0\xA2\xD0\xB5\xD1\x81\xD1\x82 \xE2\x82\xAC and a tail long enough to leave the small string buffer";
	d.u16 = u"UTF-16 Тест \U0001F600 tail tail tail tail";
	d.color = Color::Blue;
	d.scores = {{"alpha", 1}, {"beta", -2}, {"gamma", 300000}};
	d.best = {"winner", 99};
	d.tags = {{"k", 1}, {"k", 2}, {"z", 3}};
	d.dur = Seconds(3725);
	d.at = TimeSec(Seconds(1672531200));
	d.planet = Planet::Saturn;
	// text of a given byte length (ASCII with a two-byte character now and then, never ending inside a sequence)
	auto text = [](size_t n, char seed) {
		std::string t;
		while (t.size() < n) { t += static_cast<char>('a' + (t.size() * 7 + static_cast<size_t>(seed)) % 26); if (t.size() % 50 == 49 && t.size() + 2 <= n) t += "\xC3\xA4"; }
		return t;
	};
	auto wide = [](size_t n) { std::u16string t; while (t.size() < n) t += static_cast<char16_t>(t.size() % 40 == 39 ? 0x0416 : u'A' + t.size() % 26); return t; };
	d.s17 = text(17, 1); d.s300 = text(300, 2); d.s2100 = text(2100, 3); d.s4200 = text(4200, 4);
	d.w300 = wide(300); d.w2100 = wide(2100);
	for (size_t i = 0; i < 20; ++i) d.texts.push_back(text(i * i * 13 + 1, static_cast<char>(i)));   // 1 .. 4694 bytes
	for (int i = 0; i < 400; ++i) d.numbers.push_back(i * 167 - 30000);
	for (int i = 0; i < 5000; ++i) d.blob.push_back(static_cast<uint8_t>(i * 31 + 7));
	for (int i = 0; i < 40; ++i) d.planets.push_back(static_cast<Planet>((i * 5) % 12));
	for (int i = 0; i < 299; ++i) d.byName["key" + std::to_string(1000 + i)] = static_cast<Planet>(i % 12);
	d.byName["k" + text(299, 5).substr(0, 299)] = Planet::Haumea;     // a key longer than one stream chunk (ASCII only)
	d.nested.depth = 4; d.nested.inner.label = wide(70);
	d.nested.inner.inner.inner = Level4{text(310, 6), 7, Planet::Eris};
	for (int i = 0; i < 20; ++i) d.nested.inner.inner.items.push_back(Level4{text(static_cast<size_t>(10 + i * 20), static_cast<char>(i)), i, static_cast<Planet>(i % 12)});
	for (int i = 0; i < 320; ++i) {
		Row r;
		r.id = 100 + i; r.u8 = "row \xC3\xA4,\"quoted\" " + std::to_string(i); r.u16 = u"üб 16";
		r.color = static_cast<Color>(i % 3); r.planet = static_cast<Planet>(i % 12); r.dur = Seconds(60 * i + 5); r.at = TimeSec(Seconds(1600000000 + 86400 * i));
		r.longText = (i % 40 == 0) ? text(static_cast<size_t>(20 + (i / 40) * 600), static_cast<char>(i)) + ",\"q\"\r\n" : std::string("t") + std::to_string(i);
		r.wide = (i % 64 == 0) ? wide(static_cast<size_t>(300 + i)) : std::u16string(u"w");
		g_in.rows.push_back(r);
	}
	for (int i = 0; i < 320; ++i) if (i < 10 || i % 40 == 0 || i % 64 == 0) g_in.utfRows.push_back(g_in.rows[static_cast<size_t>(i)]);
	g_in.utfDoc.id = 42; g_in.utfDoc.u8 = d.u8 + d.s300 + d.s2100; g_in.utfDoc.u16 = d.u16 + d.w300;
	for (char16_t c : wide(600)) g_in.utfDoc.u32.push_back(static_cast<char32_t>(c));
	g_in.utfDoc.u32 += U"\U0001F600\U00010348";
	g_in.utfDoc.planet = Planet::Neptune; g_in.utfDoc.color = Color::Green;
	g_in.utfDoc.texts = {d.s17, d.s300, d.s4200, "\xE2\x82\xAC \xF0\x9F\x98\x80"};
	for (int i = 0; i < 70000; ++i) { g_in.large.blob.push_back(static_cast<uint8_t>(i * 13)); g_in.large.numbers.push_back(static_cast<uint16_t>(i * 3)); }
	g_in.large.text = text(70001, 9);
	const Convert::Utf::UtfType encodings[5] = {Convert::Utf::UtfType::Utf8, Convert::Utf::UtfType::Utf16le, Convert::Utf::UtfType::Utf16be, Convert::Utf::UtfType::Utf32le, Convert::Utf::UtfType::Utf32be};
	for (int e = 0; e < 5; ++e) { g_in.utfOptions[e].streamOptions.writeBom = true; g_in.utfOptions[e].streamOptions.encoding = encodings[e]; }
	g_in.streamOptions.streamOptions.writeBom = false;
	g_in.utf8Text = d.u8 + d.s2100;
	g_in.utf16Text = d.u16 + d.w2100;
	// documents that fail validation: age out of range, name too long, invalid email, one member absent
	g_in.jsonUser = R"({"age":500,"name":"John Smith-Cotatonovich","email":"smith 2000@mail.com"})";
	g_in.xmlUser = "<?xml version=\"1.0\"?><Doc><age>500</age><name>John Smith-Cotatonovich</name><email>smith 2000@mail.com</email></Doc>";
	g_in.csvUser = "age,name,email\r\n500,John Smith-Cotatonovich,smith 2000@mail.com\r\n";
	g_in.jsonBroken = R"({"id":1,"u8":"x",)";
}

struct UserSrc
{
	int age = 500; std::string name = "John Smith-Cotatonovich"; std::string email = "smith 2000@mail.com";
	template <class A> void Serialize(A& a) { a << KeyValue("age", age); a << KeyValue("name", name); a << KeyValue("email", email); }
};

// The documents the load operations read are produced by the library itself from the shared source objects.
static std::vector<std::string> ProduceDocs()
{
	UserSrc src;
	return { SaveMem<MsgPackArchive>(g_in.doc), SaveMem<JsonArchive>(g_in.doc), SaveMem<XmlArchive>(g_in.doc), SaveMem<CsvArchive>(g_in.rows), SaveMem<MsgPackArchive>(src),
		SaveMem<MsgPackArchive>(g_in.large) };
}
static void InstallDocs(const std::vector<std::string>& docs)
{
	g_in.msgpackDoc = docs.at(0); g_in.jsonDoc = docs.at(1); g_in.xmlDoc = docs.at(2); g_in.csvDoc = docs.at(3); g_in.msgpackUser = docs.at(4);
	g_in.msgpackLarge = docs.at(5);
}
// For the recorder: the producing calls run in a helper child process, so that the recording processes have never
// executed any library code before the cold call of their operation.
static void ProduceDocsInChild()
{
	int fds[2];
	if (pipe(fds) != 0) exit(3);
	const pid_t pid = fork();
	if (pid == 0) {
		close(fds[0]);
		std::string blob;
		for (auto& d : ProduceDocs()) { const uint64_t n = d.size(); blob.append(reinterpret_cast<const char*>(&n), sizeof n); blob += d; }
		size_t off = 0;
		while (off < blob.size()) { const ssize_t w = write(fds[1], blob.data() + off, blob.size() - off); if (w <= 0) _exit(3); off += static_cast<size_t>(w); }
		_exit(0);
	}
	close(fds[1]);
	std::string blob; char buf[4096]; ssize_t r;
	while ((r = read(fds[0], buf, sizeof buf)) > 0) blob.append(buf, static_cast<size_t>(r));
	close(fds[0]);
	int status = 0; waitpid(pid, &status, 0);
	std::vector<std::string> docs;
	size_t off = 0;
	while (off + 8 <= blob.size()) { uint64_t n; memcpy(&n, blob.data() + off, 8); off += 8; docs.push_back(blob.substr(off, n)); off += n; }
	if (docs.size() != 6) { fprintf(stderr, "bsaccess: producing the input documents failed\n"); exit(3); }
	InstallDocs(docs);
}

}  // namespace cat

//=====================================================================================================================
// Modes
//=====================================================================================================================
static std::string ModuleRelative(uintptr_t a)
{
	if (a >= tracer::S.arenaLo && a < tracer::S.arenaHi) {
		const uint32_t b = tracer::S.pageBlock[(a - tracer::S.arenaLo) / tracer::kPage];
		char buf[64];
		snprintf(buf, sizeof buf, "heap:%u+0x%lx", b ? b - 1 : 0, static_cast<unsigned long>(b ? a - tracer::S.blocks[b - 1].addr : 0));
		return buf;
	}
	// executable addresses are absolute (non-PIE); other modules as  name+0xoffset
	Dl_info info;
	if (dladdr(reinterpret_cast<void*>(a), &info) && info.dli_fname) {
		std::string f = info.dli_fname;
		const auto base = reinterpret_cast<uintptr_t>(info.dli_fbase);
		char b[64];
		if (base <= 0x400000) { snprintf(b, sizeof b, "0x%lx", static_cast<unsigned long>(a)); return std::string("exe:") + b; }
		snprintf(b, sizeof b, "+0x%lx", static_cast<unsigned long>(a - base));
		return f.substr(f.rfind('/') + 1) + b;
	}
	for (auto& s : *tracer::g_segments) if (a >= s.lo && a < s.hi) {
		char b[64];
		if (s.module == "exe") { snprintf(b, sizeof b, "0x%lx", static_cast<unsigned long>(a)); return std::string("exe:") + b; }
		snprintf(b, sizeof b, "+0x%lx", static_cast<unsigned long>(a - s.base));
		return s.module + b;
	}
	char b[64]; snprintf(b, sizeof b, "?:0x%lx", static_cast<unsigned long>(a));
	return b;
}

static void EmitEvents(const char* op, const char* phase, const std::string& result)
{
	using namespace tracer;
	std::string o = "{\"op\":\"" + std::string(op) + "\",\"phase\":\"" + phase + "\",\"dropped\":" + std::to_string(S.dropped) + ",\"res\":\"" + cat::HexOf(result) + "\",\"ev\":[";
	for (size_t i = 0; i < S.nEvents; ++i) {
		const Event& e = S.events[i];
		if (i) o += ',';
		const char k[2] = {static_cast<char>(e.kind), 0};
		o += "{\"k\":\"" + std::string(k) + "\",\"rt\":" + std::to_string(e.rt) + ",\"n\":" + std::to_string(e.count) + ",\"a\":\"" + ModuleRelative(e.addr) + "\",\"ip\":\"" + (e.rip ? ModuleRelative(e.rip) : std::string()) + "\"}";
	}
	o += "],\"heap\":[";
	bool first = true;
	for (size_t i = 0; i < S.nBlocks; ++i) {
		if (!S.blocks[i].traced) continue;
		if (!first) o += ',';
		first = false;
		o += "{\"id\":" + std::to_string(i) + ",\"size\":" + std::to_string(S.blocks[i].size) + ",\"site\":\"" + ModuleRelative(S.blocks[i].site) + "\"}";
	}
	o += "]}\n";
	fputs(o.c_str(), stdout);
}

static int ModeRecord(const char* only)
{
	tracer::Setup();
	tracer::ArenaSetup();
	// segments (for the evidence and for symbolisation)
	{
		std::string o = "{\"segments\":[";
		bool first = true;
		for (auto& s : *tracer::g_segments) {
			char b[256];
			snprintf(b, sizeof b, "%s{\"module\":\"%s\",\"path\":\"%s\",\"lo\":\"0x%lx\",\"hi\":\"0x%lx\",\"base\":\"0x%lx\"}", first ? "" : ",", s.module.c_str(), s.path.c_str(),
				static_cast<unsigned long>(s.lo), static_cast<unsigned long>(s.hi), static_cast<unsigned long>(s.base));
			o += b; first = false;
		}
		char t[128];
		snprintf(t, sizeof t, "],\"tracer_lo\":\"0x%lx\",\"tracer_hi\":\"0x%lx\"}\n", reinterpret_cast<unsigned long>(&tracer::S), reinterpret_cast<unsigned long>(&tracer::S) + sizeof(tracer::State));
		o += t;
		fputs(o.c_str(), stdout);
	}
	fflush(stdout);
	for (size_t i = 0; i < cat::kNumOps; ++i)
	{
		if (only && strcmp(only, cat::kOps[i].name) != 0) continue;
		fflush(stdout);
		const pid_t pid = fork();
		if (pid == 0)
		{
			const cat::OpFn fn = cat::kOps[i].fn;
			for (int phase = 0; phase < 2; ++phase)
			{
				std::string res;
				tracer::Begin();
				res = fn();
				tracer::End();
				EmitEvents(cat::kOps[i].name, phase == 0 ? "cold" : "warm", res);
			}
			fflush(stdout);
			_exit(0);
		}
		int status = 0;
		waitpid(pid, &status, 0);
		if (!(WIFEXITED(status) && WEXITSTATUS(status) == 0)) {
			fprintf(stdout, "{\"op\":\"%s\",\"crash\":%d}\n", cat::kOps[i].name, status);
		}
	}
	return 0;
}

static uint64_t Fnv(const std::string& s)
{
	uint64_t h = 1469598103934665603ull;
	for (unsigned char c : s) { h ^= c; h *= 1099511628211ull; }
	return h;
}
static std::string Digest(const std::string& s)
{
	char b[48];
	snprintf(b, sizeof b, "%016llx:%zu", static_cast<unsigned long long>(Fnv(s)), s.size());
	return b;
}

static int ModeGolden()
{
	for (size_t i = 0; i < cat::kNumOps; ++i) {
		const std::string r = cat::kOps[i].fn();
		printf("{\"kind\":\"golden\",\"op\":\"%s\",\"res\":\"%s\",\"text\":\"%s\"}\n", cat::kOps[i].name, Digest(r).c_str(), vh::JsonEscape(r.substr(0, 160)).c_str());
	}
	return 0;
}

static int ModeStress(int T, int N, unsigned long seed)
{
	// sequential golden results, produced by the same binary before any thread exists
	std::vector<std::string> golden(cat::kNumOps);
	for (size_t i = 0; i < cat::kNumOps; ++i) {
		golden[i] = cat::kOps[i].fn();
		printf("{\"kind\":\"golden\",\"op\":\"%s\",\"res\":\"%s\",\"text\":\"%s\"}\n", cat::kOps[i].name, Digest(golden[i]).c_str(), vh::JsonEscape(golden[i].substr(0, 160)).c_str());
	}
	struct Rec { uint16_t op; std::string res; };
	std::vector<std::vector<Rec>> out(static_cast<size_t>(T));
	std::atomic<int> ready{0};
	std::atomic<bool> go{false};
	std::vector<std::thread> threads;
	for (int t = 0; t < T; ++t)
	{
		threads.emplace_back([&, t] {
			std::mt19937_64 rng(seed * 1000003ull + static_cast<unsigned long>(t));
			auto& mine = out[static_cast<size_t>(t)];
			mine.reserve(static_cast<size_t>(N));
			++ready;
			while (!go.load(std::memory_order_acquire)) { }
			for (int i = 0; i < N; ++i) {
				const auto op = static_cast<uint16_t>(rng() % cat::kNumOps);
				mine.push_back({op, Digest(cat::kOps[op].fn())});
			}
		});
	}
	while (ready.load() < T) std::this_thread::yield();
	go.store(true, std::memory_order_release);
	for (auto& th : threads) th.join();
	for (int t = 0; t < T; ++t)
		for (size_t i = 0; i < out[static_cast<size_t>(t)].size(); ++i) {
			const Rec& r = out[static_cast<size_t>(t)][i];
			printf("{\"kind\":\"run\",\"id\":\"t%d-%zu\",\"t\":%d,\"i\":%zu,\"op\":\"%s\",\"res\":\"%s\"}\n", t, i, t, i, cat::kOps[r.op].name, r.res.c_str());
		}
	return 0;
}

int main(int argc, char** argv)
{
	if (argc < 2) { fprintf(stderr, "usage: bsaccess list|record [op]|golden|stress T N SEED\n"); return 3; }
	const std::string mode = argv[1];
	if (mode == "list") { for (size_t i = 0; i < cat::kNumOps; ++i) printf("%s\n", cat::kOps[i].name); return 0; }
	cat::BuildInputs();
	if (mode == "record") { cat::ProduceDocsInChild(); return ModeRecord(argc > 2 ? argv[2] : nullptr); }
	cat::InstallDocs(cat::ProduceDocs());
	if (mode == "golden") return ModeGolden();
	if (mode == "stress" && argc >= 5) return ModeStress(atoi(argv[2]), atoi(argv[3]), strtoul(argv[4], nullptr, 10));
	fprintf(stderr, "bsaccess: bad arguments\n");
	return 3;
}
