// Common helpers of the conformance harnesses: scenario input (ndjson via RapidJSON), trace output,
// stream test doubles (short-read / non-seekable / failing stream buffers), terminate handler.
// The harness never judges: it executes scenarios chosen by the TLA+ specification and logs observations.
#pragma once
#include <cstdio>
#include <cstdlib>
#include <cstring>
#include <exception>
#include <fstream>
#include <iostream>
#include <memory>
#include <sstream>
#include <streambuf>
#include <string>
#include <vector>
#include <unistd.h>
#include <sys/wait.h>
#include <sys/resource.h>
#include <csignal>
#include <functional>
#include <rapidjson/document.h>

namespace vh {

inline std::string JsonEscape(const std::string& s)
{
	std::string o;
	o.reserve(s.size() + 2);
	for (unsigned char c : s) {
		if (c == '"') o += "\\\"";
		else if (c == '\\') o += "\\\\";
		else if (c < 0x20 || c >= 0x7f) { char b[8]; snprintf(b, sizeof b, "\\u%04x", c); o += b; }
		else o += static_cast<char>(c);
	}
	return o;
}

// Bytes as JSON array of ints (the format TLC's Json module reads back as a sequence of naturals)
inline std::string BytesJson(const std::string& s)
{
	std::string o = "[";
	for (size_t i = 0; i < s.size(); ++i) {
		if (i) o += ',';
		o += std::to_string(static_cast<unsigned char>(s[i]));
	}
	o += ']';
	return o;
}

template <class TArr>
inline std::string BytesFromJson(const TArr& arr)
{
	std::string s;
	for (auto& v : arr.GetArray()) s.push_back(static_cast<char>(v.GetInt()));
	return s;
}

inline std::string Hex(const std::string& s)
{
	static const char* d = "0123456789abcdef";
	std::string o;
	for (unsigned char c : s) { o += d[c >> 4]; o += d[c & 15]; }
	return o;
}

inline std::string FromHex(const std::string& h)
{
	std::string o;
	auto v = [](char c) { return c <= '9' ? c - '0' : (c | 32) - 'a' + 10; };
	for (size_t i = 0; i + 1 < h.size(); i += 2) o.push_back(static_cast<char>(v(h[i]) * 16 + v(h[i + 1])));
	return o;
}

// Reads all lines of an ndjson file
inline std::vector<std::string> ReadLines(const char* path)
{
	std::vector<std::string> lines;
	std::ifstream f(path, std::ios::binary);
	if (!f) { fprintf(stderr, "cannot open %s\n", path); exit(3); }
	std::string line;
	while (std::getline(f, line)) if (!line.empty()) lines.push_back(line);
	return lines;
}

inline FILE*& TraceOut() { static FILE* f = stdout; return f; }
inline std::string& TerminateContext() { static std::string s; return s; }
inline size_t& RunIndex() { static size_t i = 0; return i; }
inline size_t& SeekRefusedGlobal() { static size_t i = 0; return i; }


//-----------------------------------------------------------------------------
// Stream test doubles
//-----------------------------------------------------------------------------
// Delivers at most `mStep` bytes per underflow(); optionally refuses to seek; optionally starts failing
// (returns EOF / throws) when the byte at offset `mFailAt` is requested.
class ScriptedBuf : public std::streambuf
{
public:
	enum FailMode { NoFail, FailEof, FailThrow };
	ScriptedBuf(std::string data, size_t step, bool seekable, FailMode failMode = NoFail, size_t failAt = 0)
		: mData(std::move(data)), mStep(step ? step : 1), mSeekable(seekable), mFailMode(failMode), mFailAt(failAt)
	{
		setg(mBuf, mBuf, mBuf);
	}
	size_t seekRefused = 0;
	size_t seeks = 0;
	size_t failHits = 0;

protected:
	int_type underflow() override
	{
		if (gptr() < egptr()) return traits_type::to_int_type(*gptr());
		size_t n = std::min(mStep, mData.size() - mPos);
		if (mFailMode != NoFail && mPos + n > mFailAt) {
			n = mFailAt > mPos ? mFailAt - mPos : 0;
			if (n == 0) {
				++failHits;
				if (mFailMode == FailThrow) throw std::ios_base::failure("scripted stream failure");
				return traits_type::eof();
			}
		}
		if (n == 0) return traits_type::eof();
		n = std::min(n, sizeof mBuf);
		std::memcpy(mBuf, mData.data() + mPos, n);
		mBase = mPos;
		mPos += n;
		setg(mBuf, mBuf, mBuf + n);
		return traits_type::to_int_type(*gptr());
	}
	// putback beyond the small get area (RapidJSON's IStreamWrapper::Peek4 puts back up to 4 characters): step the window back
	int_type pbackfail(int_type ch) override
	{
		const size_t cur = (gptr() == egptr() && egptr() == eback()) ? mPos : mBase + static_cast<size_t>(gptr() - eback());
		if (cur == 0) return traits_type::eof();
		if (ch != traits_type::eof() && traits_type::to_char_type(ch) != mData[cur - 1]) return traits_type::eof();
		mBuf[0] = mData[cur - 1];
		mBase = cur - 1;
		mPos = cur;
		setg(mBuf, mBuf, mBuf + 1);
		return traits_type::not_eof(ch);
	}
	pos_type seekoff(off_type off, std::ios_base::seekdir dir, std::ios_base::openmode which) override
	{
		off_type cur = static_cast<off_type>(mBase + (gptr() - eback()));
		if (gptr() == egptr() && egptr() == eback()) cur = static_cast<off_type>(mPos);
		// a buffer that cannot seek cannot tell its position either (like a pipe): libraries probe with tellg() to choose a no-seek path
		if (!mSeekable && dir == std::ios_base::cur && off == 0) return pos_type(off_type(-1));
		if (dir == std::ios_base::cur && off == 0) return pos_type(cur);   // tellg()
		++seeks;
		if (!mSeekable) { ++seekRefused; ++SeekRefusedGlobal(); return pos_type(off_type(-1)); }
		off_type target = dir == std::ios_base::beg ? off : dir == std::ios_base::cur ? cur + off : static_cast<off_type>(mData.size()) + off;
		if (target < 0 || static_cast<size_t>(target) > mData.size()) return pos_type(off_type(-1));
		mPos = static_cast<size_t>(target);
		mBase = mPos;
		setg(mBuf, mBuf, mBuf);
		return pos_type(target);
	}
	pos_type seekpos(pos_type pos, std::ios_base::openmode which) override
	{
		return seekoff(off_type(pos), std::ios_base::beg, which);
	}

private:
	std::string mData;
	size_t mPos = 0;
	size_t mBase = 0;
	size_t mStep;
	bool mSeekable;
	FailMode mFailMode;
	size_t mFailAt;
	char mBuf[64];
};

// Output stream buffer that starts to fail (overflow returns EOF) or throw when byte number `failAt` is written
class FailingOutBuf : public std::streambuf
{
public:
	FailingOutBuf(size_t failAt, bool doThrow) : mFailAt(failAt), mThrow(doThrow) { data.reserve(1 << 20); }
	std::string data;
	size_t failHits = 0;
protected:
	int_type overflow(int_type ch) override
	{
		if (data.size() >= mFailAt) { ++failHits; if (mThrow) throw std::ios_base::failure("scripted output failure"); return traits_type::eof(); }
		data.push_back(static_cast<char>(ch));
		return ch;
	}
	std::streamsize xsputn(const char* s, std::streamsize n) override
	{
		std::streamsize i = 0;
		for (; i < n; ++i) if (overflow(traits_type::to_int_type(s[i])) == traits_type::eof()) break;
		return i;
	}
private:
	size_t mFailAt;
	bool mThrow;
};

struct StreamHolder
{
	std::unique_ptr<std::streambuf> buf;
	std::unique_ptr<std::istream> stream;
	ScriptedBuf* scripted = nullptr;
	std::string tmpPath;		// kind "file": a real file stream over a temporary file
	std::istream& get() { return *stream; }
	StreamHolder() = default;
	StreamHolder(StreamHolder&& o) noexcept : buf(std::move(o.buf)), stream(std::move(o.stream)), scripted(o.scripted), tmpPath(std::move(o.tmpPath)) { o.tmpPath.clear(); o.scripted = nullptr; }
	StreamHolder& operator=(StreamHolder&& o) noexcept
	{
		Close();
		buf = std::move(o.buf); stream = std::move(o.stream); scripted = o.scripted; tmpPath = std::move(o.tmpPath);
		o.tmpPath.clear(); o.scripted = nullptr;
		return *this;
	}
	~StreamHolder() { Close(); }
private:
	void Close() { stream.reset(); if (!tmpPath.empty()) { unlink(tmpPath.c_str()); tmpPath.clear(); } }
};

// kind: "sstream" | "short<k>" (k bytes per underflow) | "nonseek" | "failat"/"throwat" (with failAt)
inline StreamHolder MakeStream(const std::string& kind, const std::string& data, size_t failAt = 0)
{
	StreamHolder h;
	if (kind == "sstream") {
		h.stream = std::make_unique<std::istringstream>(data, std::ios::in | std::ios::binary);
		return h;
	}
	if (kind == "file" || kind == "filecut") {
		// std::ifstream over a real (temporary) file; "filecut": the file holds only the first failAt bytes
		const char* dir = getenv("TMPDIR");
		std::string path = std::string(dir && *dir ? dir : "/tmp") + "/vhfileXXXXXX";
		const int fd = mkstemp(path.data());
		if (fd < 0) { perror("mkstemp"); exit(3); }
		const size_t n = kind == "filecut" ? std::min(failAt, data.size()) : data.size();
		size_t done = 0;
		while (done < n) { const ssize_t w = write(fd, data.data() + done, n - done); if (w <= 0) { perror("write"); exit(3); } done += static_cast<size_t>(w); }
		close(fd);
		h.tmpPath = path;
		h.stream = std::make_unique<std::ifstream>(path, std::ios::in | std::ios::binary);
		return h;
	}
	ScriptedBuf* sb = nullptr;
	if (kind.rfind("short", 0) == 0) sb = new ScriptedBuf(data, static_cast<size_t>(atoi(kind.c_str() + 5)), true);
	else if (kind == "nonseek") sb = new ScriptedBuf(data, 7, false);
	else if (kind == "failat") sb = new ScriptedBuf(data, 5, true, ScriptedBuf::FailEof, failAt);
	else if (kind == "throwat") sb = new ScriptedBuf(data, 5, true, ScriptedBuf::FailThrow, failAt);
	else { fprintf(stderr, "unknown stream kind %s\n", kind.c_str()); exit(3); }
	h.buf.reset(sb);
	h.scripted = sb;
	h.stream = std::make_unique<std::istream>(sb);
	return h;
}

//-----------------------------------------------------------------------------
// std::terminate must be an observation, not the end of the trace
//-----------------------------------------------------------------------------
inline void InstallTerminateHandler()
{
	std::set_terminate([] {
		fprintf(TraceOut(), "{\"e\":\"Terminate\",\"run\":%zu,\"refused\":%s,\"ctx\":\"%s\"}\n", RunIndex(), SeekRefusedGlobal() ? "true" : "false", JsonEscape(TerminateContext()).c_str());
		fflush(TraceOut());
		_exit(42);
	});
}


//-----------------------------------------------------------------------------
// Crash-contained execution: runs fn(0..total) in forked children; a child that dies (terminate -> 42, watchdog
// -> 43, signal) is replaced by a new one that continues after the offending run.  The offending run is logged as
// an observation line {"e":"Terminate"|"Hang"|"Crash","run":k}.
//-----------------------------------------------------------------------------
inline int ForkedRunner(size_t total, const std::function<void(size_t)>& fn, unsigned watchdogSeconds = 20)
{
	size_t next = 0;
	while (next < total)
	{
		int fds[2];
		if (pipe(fds) != 0) return 3;
		fflush(stdout);
		const pid_t pid = fork();
		if (pid == 0)
		{
			close(fds[0]);
			// an input must never be able to take the sandbox down: address space of the child is capped (-> std::bad_alloc)
			{ struct rlimit rl; rl.rlim_cur = rl.rlim_max = static_cast<rlim_t>(3) << 30; setrlimit(RLIMIT_AS, &rl); }
			InstallTerminateHandler();
			signal(SIGALRM, [](int) {
				fprintf(stdout, "{\"e\":\"Hang\",\"run\":%zu,\"refused\":%s,\"ctx\":\"%s\"}\n", RunIndex(), SeekRefusedGlobal() ? "true" : "false", JsonEscape(TerminateContext()).c_str());
				fflush(stdout);
				_exit(43);
			});
			for (size_t r = next; r < total; ++r)
			{
				RunIndex() = r;
				SeekRefusedGlobal() = 0;
				// tell the parent which run is in flight (so that a crash by signal can be attributed)
				const uint64_t cur = r;
				if (write(fds[1], &cur, sizeof cur) != sizeof cur) _exit(3);
				alarm(watchdogSeconds);
				fn(r);
				alarm(0);
				fflush(stdout);
			}
			fflush(stdout);
			_exit(0);
		}
		close(fds[1]);
		uint64_t last = next, cur = 0;
		bool any = false;
		while (read(fds[0], &cur, sizeof cur) == sizeof cur) { last = cur; any = true; }
		close(fds[0]);
		int status = 0;
		waitpid(pid, &status, 0);
		if (WIFEXITED(status) && WEXITSTATUS(status) == 0) return 0;
		if (!any) last = next;
		if (!(WIFEXITED(status) && (WEXITSTATUS(status) == 42 || WEXITSTATUS(status) == 43)))
		{
			fprintf(stdout, "{\"e\":\"Crash\",\"run\":%zu,\"status\":%d}\n", static_cast<size_t>(last), status);
			fflush(stdout);
		}
		next = static_cast<size_t>(last) + 1;
	}
	return 0;
}

}  // namespace vh
