// Conformance harness for the UTF transcoders (properties C11, C12).
//   utf_harness c12 <inputs.ndjson>            executes TLC-generated code-unit strings on every decoder/encoder/Transcode
//                                              entry point, every policy/mark, logs the observations
//   utf_harness c11table <table.ndjson> <out>  pushes every scalar value of a TLC-written encoding table through all ordered
//                                              encoding pairs, both policies, Convert::To; writes the implementation's table
//   utf_harness c11seq <count> <seed> <maxlen> seeded random sequences of scalar values; every conversion is logged with its input
//                                              units, so that TLC can evaluate the specification on the logged input
// The harness never judges.  It logs what the code returned; identical observations of different entry points are merged
// (the list of entry points is kept) to keep the logs small.
#include "vh_common.h"
#include "bitserializer/convert.h"
#include <csignal>
#include <map>
#include <random>
#include <set>

namespace Utf = BitSerializer::Convert::Utf;
using Utf::UtfEncodingErrorPolicy;
using Utf::UtfEncodingErrorCode;

static const char* CodeName(UtfEncodingErrorCode c)
{
	switch (c) {
	case UtfEncodingErrorCode::Success: return "Success";
	case UtfEncodingErrorCode::InvalidSequence: return "InvalidSequence";
	case UtfEncodingErrorCode::UnexpectedEnd: return "UnexpectedEnd";
	}
	return "?";
}

template <class T> static T Swap(T v)
{
	if constexpr (sizeof(T) == 2) return static_cast<T>(__builtin_bswap16(static_cast<uint16_t>(v)));
	else if constexpr (sizeof(T) == 4) return static_cast<T>(__builtin_bswap32(static_cast<uint32_t>(v)));
	else return v;
}

// code units as JSON array; 32-bit units >= 2^31 cannot be represented for TLC and are logged as -1 (never a legal unit)
template <class TStr> static std::string UnitsJson(const TStr& s, size_t swapFrom = static_cast<size_t>(-1))
{
	std::string o = "[";
	for (size_t i = 0; i < s.size(); ++i) {
		if (i) o += ',';
		auto v = s[i];
		if (i >= swapFrom) v = Swap(v);
		uint32_t x;
		if constexpr (sizeof(v) == 1) x = static_cast<uint8_t>(v);
		else if constexpr (sizeof(v) == 2) x = static_cast<uint16_t>(v);
		else x = static_cast<uint32_t>(v);
		if (x >= 0x80000000u) o += "-1"; else o += std::to_string(x);
	}
	return o + "]";
}

static volatile sig_atomic_t gAlarmArmed = 0;
static char gHangMsg[512];
static void OnAlarm(int)
{
	// a call did not return: the observation is "Hang"; the process cannot continue
	(void)!write(1, gHangMsg, strlen(gHangMsg));
	_exit(43);
}
static void Arm(const std::string& ctx, unsigned sec = 20)
{
	snprintf(gHangMsg, sizeof gHangMsg, "{\"e\":\"Hang\",\"ctx\":\"%s\"}\n", vh::JsonEscape(ctx).c_str());
	alarm(sec);
}

//------------------------------------------------------------------------------------------------
// C12
//------------------------------------------------------------------------------------------------
struct Pol { const char* name; UtfEncodingErrorPolicy policy; int markKind; };   // markKind 0 default argument, 1 custom, 2 empty, 3 nullptr
static const Pol kPols[] = {
	{ "def", UtfEncodingErrorPolicy::Skip, 0 }, { "cust", UtfEncodingErrorPolicy::Skip, 1 }, { "empty", UtfEncodingErrorPolicy::Skip, 2 },
	{ "null", UtfEncodingErrorPolicy::Skip, 3 }, { "throw", UtfEncodingErrorPolicy::ThrowError, 0 }, { "throwcust", UtfEncodingErrorPolicy::ThrowError, 1 },
};

template <class TOut> static const TOut* CustomMark()
{
	if constexpr (sizeof(TOut) == 1) { static const TOut m[] = { TOut('<'), TOut('\xC2'), TOut('\xBF'), TOut('>'), 0 }; return m; }
	else { static const TOut m[] = { TOut('<'), TOut(0xBF), TOut('>'), 0 }; return m; }
}
template <class TOut> static const TOut* EmptyMark() { static const TOut m[] = { 0 }; return m; }

struct Obs { std::string out; const char* code; long it; size_t cnt; };
struct RunSet
{
	// pol -> observation -> entry points
	std::map<std::string, std::vector<std::pair<Obs, std::string>>> byPol;
	void Add(const char* pol, const Obs& o, const char* api)
	{
		auto& v = byPol[pol];
		for (auto& e : v) {
			if (e.first.out == o.out && e.first.code == o.code && e.first.it == o.it && e.first.cnt == o.cnt) { e.second += std::string("|") + api; return; }
		}
		v.push_back({ o, api });
	}
};

// call(out, policy, markKind) -> result with iterator; `begin` is the raw begin iterator for the offset
template <class TOut, class TCall>
static void RunApi(RunSet& rs, const char* api, bool outIsSwapped, TCall&& call)
{
	for (const auto& p : kPols)
	{
		std::basic_string<TOut> out(1, static_cast<TOut>('x'));
		const TOut* mark = p.markKind == 1 ? CustomMark<TOut>() : p.markKind == 2 ? EmptyMark<TOut>() : nullptr;
		auto r = call(out, p.policy, p.markKind == 0, mark);
		Obs o{ UnitsJson(out, outIsSwapped ? 1 : static_cast<size_t>(-1)), CodeName(std::get<0>(r)), std::get<1>(r), std::get<2>(r) };
		rs.Add(p.name, o, api);
	}
}

#define API_CALL(EXPR_DEFAULT, EXPR_MARK, BEGIN) \
	[&](auto& out, UtfEncodingErrorPolicy policy, bool useDefault, auto mark) { \
		if (useDefault) { auto r = EXPR_DEFAULT; return std::make_tuple(r.ErrorCode, static_cast<long>(r.Iterator - (BEGIN)), r.InvalidSequencesCount); } \
		auto r = EXPR_MARK; return std::make_tuple(r.ErrorCode, static_cast<long>(r.Iterator - (BEGIN)), r.InvalidSequencesCount); }

template <class TIn, class TOut>
static void RunAll(RunSet& rs, const std::basic_string<TIn>& src)
{
	const TIn* b = src.data();
	const TIn* e = src.data() + src.size();
	std::basic_string<TIn> swapped = src;
	for (auto& c : swapped) c = Swap(c);
	const TIn* sb = swapped.data();
	const TIn* se = swapped.data() + swapped.size();
	constexpr size_t wi = sizeof(TIn), wo = sizeof(TOut);

	RunApi<TOut>(rs, "Transcode", false, API_CALL(Utf::Transcode(b, e, out, policy), Utf::Transcode(b, e, out, policy, mark), b));
	{
		std::basic_string_view<TIn> sv(src.data(), src.size());
		RunApi<TOut>(rs, "Transcode(sv)", false, API_CALL(Utf::Transcode(sv, out, policy), Utf::Transcode(sv, out, policy, mark), sv.cbegin()));
	}
	// source-side classes (Decode)
	if constexpr (wi == 1) {
		RunApi<TOut>(rs, "Utf8::Decode", false, API_CALL(Utf::Utf8::Decode(b, e, out, policy), Utf::Utf8::Decode(b, e, out, policy, mark), b));
	}
	else if constexpr (wi == 2) {
		RunApi<TOut>(rs, "Utf16::Decode", false, API_CALL(Utf::Utf16::Decode(b, e, out, policy), Utf::Utf16::Decode(b, e, out, policy, mark), b));
		RunApi<TOut>(rs, "Utf16Le::Decode", false, API_CALL(Utf::Utf16Le::Decode(b, e, out, policy), Utf::Utf16Le::Decode(b, e, out, policy, mark), b));
		RunApi<TOut>(rs, "Utf16Be::Decode", false, API_CALL(Utf::Utf16Be::Decode(sb, se, out, policy), Utf::Utf16Be::Decode(sb, se, out, policy, mark), sb));
	}
	else {
		RunApi<TOut>(rs, "Utf32::Decode", false, API_CALL(Utf::Utf32::Decode(b, e, out, policy), Utf::Utf32::Decode(b, e, out, policy, mark), b));
		RunApi<TOut>(rs, "Utf32Le::Decode", false, API_CALL(Utf::Utf32Le::Decode(b, e, out, policy), Utf::Utf32Le::Decode(b, e, out, policy, mark), b));
		RunApi<TOut>(rs, "Utf32Be::Decode", false, API_CALL(Utf::Utf32Be::Decode(sb, se, out, policy), Utf::Utf32Be::Decode(sb, se, out, policy, mark), sb));
	}
	// target-side classes (Encode)
	if constexpr (wo == 1) {
		RunApi<TOut>(rs, "Utf8::Encode", false, API_CALL(Utf::Utf8::Encode(b, e, out, policy), Utf::Utf8::Encode(b, e, out, policy, mark), b));
	}
	else if constexpr (wo == 2) {
		RunApi<TOut>(rs, "Utf16::Encode", false, API_CALL(Utf::Utf16::Encode(b, e, out, policy), Utf::Utf16::Encode(b, e, out, policy, mark), b));
		RunApi<TOut>(rs, "Utf16Le::Encode", false, API_CALL(Utf::Utf16Le::Encode(b, e, out, policy), Utf::Utf16Le::Encode(b, e, out, policy, mark), b));
		RunApi<TOut>(rs, "Utf16Be::Encode", true, API_CALL(Utf::Utf16Be::Encode(b, e, out, policy), Utf::Utf16Be::Encode(b, e, out, policy, mark), b));
	}
	else {
		RunApi<TOut>(rs, "Utf32::Encode", false, API_CALL(Utf::Utf32::Encode(b, e, out, policy), Utf::Utf32::Encode(b, e, out, policy, mark), b));
		RunApi<TOut>(rs, "Utf32Le::Encode", false, API_CALL(Utf::Utf32Le::Encode(b, e, out, policy), Utf::Utf32Le::Encode(b, e, out, policy, mark), b));
		RunApi<TOut>(rs, "Utf32Be::Encode", true, API_CALL(Utf::Utf32Be::Encode(b, e, out, policy), Utf::Utf32Be::Encode(b, e, out, policy, mark), b));
	}
}

template <class TIn, class TOut>
static void EmitC12(const std::string& id, int sf, const std::string& uJson, const std::basic_string<TIn>& src)
{
	RunSet rs;
	Arm("c12 " + id + " " + uJson);
	RunAll<TIn, TOut>(rs, src);
	alarm(0);
	std::string line = "{\"id\":\"" + id + "/" + std::to_string(sizeof(TOut) * 8) + "\",\"sf\":" + std::to_string(sf) + ",\"tw\":" + std::to_string(sizeof(TOut) * 8) + ",\"u\":" + uJson + ",\"runs\":[";
	// group the policies that produced the same observation through the same entry points
	std::vector<std::pair<std::string, std::string>> groups;   // observation text -> policy list
	for (const auto& p : kPols)
	{
		for (const auto& e : rs.byPol[p.name])
		{
			const std::string obs = "\"api\":\"" + e.second + "\",\"out\":" + e.first.out + ",\"code\":\"" + e.first.code +
				"\",\"it\":" + std::to_string(e.first.it) + ",\"cnt\":" + std::to_string(e.first.cnt);
			bool found = false;
			for (auto& g : groups) if (g.first == obs) { g.second += std::string(",\"") + p.name + "\""; found = true; break; }
			if (!found) groups.push_back({ obs, std::string("\"") + p.name + "\"" });
		}
	}
	for (size_t i = 0; i < groups.size(); ++i)
		line += std::string(i ? "," : "") + "{\"pols\":[" + groups[i].second + "]," + groups[i].first + "}";
	line += "]}\n";
	fputs(line.c_str(), stdout);
}

static std::string JsonOf(const rapidjson::Value& v)
{
	std::string o;
	if (v.IsArray()) {
		o = "[";
		bool f = true;
		for (auto& x : v.GetArray()) { if (!f) o += ','; f = false; o += JsonOf(x); }
		return o + "]";
	}
	return std::to_string(v.GetInt64());
}

static int ModeC12(const char* path)
{
	for (const auto& lineIn : vh::ReadLines(path))
	{
		rapidjson::Document d;
		d.Parse(lineIn.c_str());
		const std::string id = d["id"].GetString();
		const int sf = d["sf"].GetInt();
		const std::string uJson = JsonOf(d["u"]);
		if (sf == 8) {
			std::string s;
			for (auto& x : d["u"].GetArray()) s.push_back(static_cast<char>(x.GetInt()));
			EmitC12<char, char16_t>(id, sf, uJson, s);
			EmitC12<char, char32_t>(id, sf, uJson, s);
		}
		else if (sf == 16) {
			std::u16string s;
			for (auto& x : d["u"].GetArray()) s.push_back(static_cast<char16_t>(x.GetInt()));
			EmitC12<char16_t, char>(id, sf, uJson, s);
			EmitC12<char16_t, char32_t>(id, sf, uJson, s);
		}
		else {
			std::u32string s;
			for (auto& x : d["u"].GetArray()) s.push_back(static_cast<char32_t>((static_cast<uint32_t>(x[0].GetInt()) << 16) | static_cast<uint32_t>(x[1].GetInt())));
			EmitC12<char32_t, char>(id, sf, uJson, s);
			EmitC12<char32_t, char16_t>(id, sf, uJson, s);
		}
	}
	return 0;
}

#include "utf_harness_c11.h"

int main(int argc, char** argv)
{
	vh::InstallTerminateHandler();
	signal(SIGALRM, OnAlarm);
	const std::string mode = argc > 1 ? argv[1] : "";
	if (mode == "c12" && argc >= 3) return ModeC12(argv[2]);
	if (mode == "c11table" && argc >= 4) return ModeC11Table(argv[2], argv[3]);
	if (mode == "c11seq" && argc >= 5) return ModeC11Seq(atoi(argv[2]), static_cast<unsigned>(atoll(argv[3])), atoi(argv[4]));
	fprintf(stderr, "usage: utf_harness c12 <inputs> | c11table <table> <out> | c11seq <count> <seed> <maxlen>\n");
	return 3;
}
