// Scenario interpreter for the MsgPack archive:  scn_msgpack load <scenarios.ndjson>
// One output line per (scenario, medium) run; std::terminate / hang / crash are logged as observations of the run
// (crash-contained execution in forked children, see vh::ForkedRunner).
#include "vh_alloc.h"
#define VH_WITH_ALLOC 1
#include <string>
#include "bitserializer/msgpack_archive.h"

// Friend projection of the private cursor of CMsgPackReadObjectScope (BITSERIALIZER_VERIF hook): mStartPos, mSize, mIndex,
// whether mCurrentKey is set, and the position of the reader - validated against spec/MsgPackScope.tla after every public call.
struct BitSerializerVerifAccess
{
	template <class TReader>
	static std::string State(const BitSerializer::MsgPack::Detail::CMsgPackReadObjectScope<TReader>& s)
	{
		return "\"s\":" + std::to_string(s.mStartPos) + ",\"n\":" + std::to_string(s.mSize) + ",\"i\":" + std::to_string(s.mIndex) +
			",\"ck\":" + (s.mCurrentKey ? "true" : "false") + ",\"p\":" + std::to_string(s.mMsgPackReader->GetPosition());
	}
};
namespace vh {
	template <class TReader>
	std::string ScopeStateJson(const BitSerializer::MsgPack::Detail::CMsgPackReadObjectScope<TReader>& s) { return BitSerializerVerifAccess::State(s); }
}
#define VH_ARRAY_KEYS 1
#include "vh_script.h"

int main(int argc, char** argv)
{
	if (argc < 3 || (std::string(argv[1]) != "load" && std::string(argv[1]) != "save" && std::string(argv[1]) != "fault" && std::string(argv[1]) != "roundtrip" && std::string(argv[1]) != "fixedpoint")) { fprintf(stderr, "usage: scn_msgpack load|save <file>\n"); return 3; }
	if (std::string(argv[1]) == "fault")
	{
		// each line: scenario + "fault":{"kind":..,"k":..}
		const auto flines = vh::ReadLines(argv[2]);
		return vh::ForkedRunner(flines.size(), [&](size_t r) {
			rapidjson::Document scn;
			scn.Parse(flines[r].c_str());
			const std::string doc = scn.HasMember("doc") ? vh::BytesFromJson(scn["doc"]) : std::string();
			const std::string res = vh::RunFault<BitSerializer::MsgPack::MsgPackArchive>(scn, doc, scn["fault"]["kind"].GetString(), scn["fault"]["k"].GetInt64());
			fprintf(stdout, "{\"run\":%zu,\"id\":\"%s\",%s\n", r, scn["id"].GetString(), res.c_str() + 1);
		});
	}
	if (std::string(argv[1]) == "fixedpoint")
	{
		const auto rlines = vh::ReadLines(argv[2]);
		return vh::ForkedRunner(rlines.size(), [&](size_t r) {
			rapidjson::Document scn;
			scn.Parse(rlines[r].c_str());
			const std::string res = vh::RunFixedPoint<BitSerializer::MsgPack::MsgPackArchive>(scn, vh::BytesFromJson(scn["doc"]));
			fprintf(stdout, "{\"run\":%zu,\"id\":\"%s\",%s\n", r, scn["id"].GetString(), res.c_str() + 1);
		});
	}
	if (std::string(argv[1]) == "roundtrip")
	{
		const auto rlines = vh::ReadLines(argv[2]);
		return vh::ForkedRunner(rlines.size(), [&](size_t r) {
			rapidjson::Document scn;
			scn.Parse(rlines[r].c_str());
			const std::string res = vh::RunRoundTrip<BitSerializer::MsgPack::MsgPackArchive>(scn);
			fprintf(stdout, "{\"run\":%zu,\"id\":\"%s\",%s\n", r, scn["id"].GetString(), res.c_str() + 1);
		});
	}
	if (std::string(argv[1]) == "save")
	{
		const auto slines = vh::ReadLines(argv[2]);
		return vh::ForkedRunner(slines.size(), [&](size_t r) {
			rapidjson::Document scn;
			scn.Parse(slines[r].c_str());
			const std::string res = vh::RunSave<BitSerializer::MsgPack::MsgPackArchive>(scn);
			fprintf(stdout, "{\"run\":%zu,\"id\":\"%s\",%s\n", r, scn["id"].GetString(), res.c_str() + 1);
		});
	}
	const auto lines = vh::ReadLines(argv[2]);
	std::vector<std::pair<size_t, std::string>> runs;
	for (size_t i = 0; i < lines.size(); ++i)
	{
		rapidjson::Document d;
		d.Parse(lines[i].c_str());
		for (const auto& m : d["media"].GetArray()) runs.emplace_back(i, m.GetString());
	}
	size_t cachedIndex = static_cast<size_t>(-1);
	rapidjson::Document scn;
	return vh::ForkedRunner(runs.size(), [&](size_t r) {
		if (cachedIndex != runs[r].first) { scn.Parse(lines[runs[r].first].c_str()); cachedIndex = runs[r].first; }
		const std::string doc = vh::BytesFromJson(scn["doc"]);
		const std::string res = vh::RunLoad<BitSerializer::MsgPack::MsgPackArchive>(scn, doc, runs[r].second);
		fprintf(stdout, "{\"run\":%zu,\"id\":\"%s\",%s\n", r, scn["id"].GetString(), res.c_str() + 1);
	});
}
