-------------------------------- MODULE Faults --------------------------------
(***************************************************************************)
(* C20: every failure surfaces as a catchable exception.                    *)
(* A scenario is a fault-free run with its counted fault points (measured   *)
(* from the implementation by a probe run):                                 *)
(*   alloc   : number of operator new calls during the call                 *)
(*   failat / throwat  : bytes of the input document (stream load); failat  *)
(*             ends the data like a short file, throwat is an I/O error     *)
(*             (the stream buffer throws, the stream gets badbit)           *)
(*   ofailat / othrowat: bytes produced (stream save)                       *)
(* Outcome alphabet of one run with the fault injected at point k:          *)
(*   "none" (returned normally) | "exception" | "terminate" | "hang" | "crash"; *)
(* plus the number of blocks still allocated after everything was destroyed *)
(* and `hits`, how often the injected stream fault was actually reached.    *)
(***************************************************************************)
EXTENDS Naturals, Sequences, SequencesExt, TLC

Kinds == {"alloc", "failat", "throwat", "ofailat", "othrowat"}
Archives == {"msgpack", "json", "xml", "csv"}

\* does the fault point k exist in a run that has n points of that kind?
Hits(k, n) == k < n

\* Text documents may end in insignificant white space: cutting only that leaves a complete document.  The document is a
\* sequence of code units of `unit` bytes (1, 2 or 4; big or little endian).
Whitespace == {32, 9, 10, 13}
UnitIsWs(d, i, unit, be) ==
  LET base == (i - 1) * unit
      low  == IF be THEN base + unit ELSE base + 1
  IN /\ d[low] \in Whitespace
     /\ \A j \in (base + 1)..(base + unit) : j = low \/ d[j] = 0
RECURSIVE SigUnitsFrom(_, _, _, _)
SigUnitsFrom(d, n, unit, be) == IF n = 0 THEN 0 ELSE IF UnitIsWs(d, n, unit, be) THEN SigUnitsFrom(d, n - 1, unit, be) ELSE n
SigUnits(d, unit, be) == SigUnitsFrom(d, Len(d) \div unit, unit, be)

\* MessagePack is prefix-free; so are JSON and XML documents whose root is an object/array/element (every strict prefix that
\* cuts a significant code unit is malformed).  CSV is not: a prefix that ends at a row boundary is a shorter document.
PrefixFree(arch) == arch \in {"msgpack", "json", "xml"}

\* Number of input positions at which ending the data must be rejected: the cut removes at least one whole significant code
\* unit.  (A cut inside the last significant code unit of a UTF-16/32 document leaves every character recognisable: unspecified.)
MustRejectBelow(arch, doc, unit, be) ==
  IF arch = "msgpack" THEN Len(doc)
  ELSE IF PrefixFree(arch) THEN (IF SigUnits(doc, unit, be) = 0 THEN 0 ELSE (SigUnits(doc, unit, be) - 1) * unit + 1)
  ELSE 0

\* A: what the property allows for one run
\*   n      = number of fault points of this kind in the fault-free run (allocations / input bytes / output bytes)
\*   reject = MustRejectBelow for input faults
\*   ev / pev = what the load delivered to the caller (one item per public call: request results with the values, scopes
\*   opened / closed) in this run / in the fault-free run
OutcomeAllowed(kind, k, n, reject, outcome, leak, hits, probeOutcome, ev, pev) ==
  /\ outcome \in {"none", "exception"}            \* never terminate / hang / crash
  /\ leak = 0                                      \* nothing is leaked, everything stayed destructible
  /\ IF outcome = "none" /\ probeOutcome = "none" /\ kind # "failat"
     THEN ev = pev                                 \* a run that completes delivered exactly what the fault-free run delivers
     ELSE kind \in {"failat", "throwat"} \/ IsPrefix(ev, pev)
          \* what was delivered before the failure is what the fault-free run delivers (when the INPUT ends or fails, the item at
          \* the cut may be decoded from incomplete data - e.g. a cropped character replaced by the error mark - before the
          \* failure is reported: left open)
  /\ CASE kind = "alloc" -> IF Hits(k, n) THEN outcome = "exception" ELSE outcome = probeOutcome
       [] kind \in {"ofailat", "othrowat"} -> IF Hits(k, n) THEN outcome = "exception"          \* a failed write is an error
                                              ELSE outcome = probeOutcome
       [] kind = "throwat" -> IF hits > 0 \/ k < reject THEN outcome = "exception"               \* an I/O error reaches the caller
                              ELSE outcome = probeOutcome
       [] kind = "failat" -> IF k < reject THEN outcome = "exception"                            \* truncated input is rejected
                             ELSE IF hits = 0 THEN outcome = probeOutcome                        \* the loader never got that far
                             ELSE TRUE                                                           \* a shorter, complete document

Why(kind, k, n, reject, outcome, leak, hits, probeOutcome, ev, pev) ==
  IF outcome \notin {"none", "exception"} THEN outcome
  ELSE IF leak # 0 THEN "leak"
  ELSE IF kind \notin {"failat", "throwat"} /\ ~IsPrefix(ev, pev) THEN "the run delivered something the fault-free run does not deliver"
  ELSE IF kind # "failat" /\ outcome = "none" /\ probeOutcome = "none" /\ ev # pev THEN "the run completed but delivered less than the fault-free run"
  ELSE IF outcome = "none" THEN "fault did not reach the caller as an exception"
  ELSE "unreached fault point changed the outcome"
=============================================================================
