-------------------------------- MODULE Faults --------------------------------
(***************************************************************************)
(* C20: every failure surfaces as a catchable exception.                    *)
(* A scenario is a fault-free run with its counted fault points (measured   *)
(* from the implementation by a probe run):                                 *)
(*   alloc   : number of operator new calls during the call                 *)
(*   failat / throwat  : bytes of the input document (stream load)          *)
(*   ofailat / othrowat: bytes produced (stream save)                       *)
(* Outcome alphabet of one run with the fault injected at point k:          *)
(*   "none" (returned normally) | "exception" | "terminate" | "hang" | "crash"; *)
(* plus the number of blocks still allocated after everything was destroyed. *)
(***************************************************************************)
EXTENDS Naturals, Sequences, TLC

Kinds == {"alloc", "failat", "throwat", "ofailat", "othrowat"}

\* does the fault point k exist in a run that has n points of that kind?
Hits(k, n) == k < n

\* A: what the property allows
OutcomeAllowed(kind, k, n, outcome, leak, probeOutcome) ==
  /\ outcome \in {"none", "exception"}            \* never terminate / hang / crash
  /\ leak = 0                                      \* nothing is leaked, everything stayed destructible
  /\ IF Hits(k, n) THEN outcome = "exception"     \* the failure reaches the caller (MessagePack is prefix-free; a short write is an error)
     ELSE outcome = probeOutcome                   \* a fault point that is never reached changes nothing
=============================================================================
