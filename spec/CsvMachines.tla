----------------------------- MODULE CsvMachines -----------------------------
(***************************************************************************)
(* Layer 2, M: the CSV writer and the two CSV readers as implementation-     *)
(* shaped step functions (src/csv/csv_writers.cpp, src/csv/csv_readers.cpp,  *)
(* CEncodedStreamReader of convert_utf.h for the UTF-8 pass-through case).   *)
(* A is CsvFormat: the table denoted by a text.                              *)
(*                                                                           *)
(* Every public call is a pure function  state -> [m |-> state', exc |-> ""  *)
(* or error code, ...]; the same text is used by MC_Csv (exhaustive M => A), *)
(* for generation, and by Trace_Csv (M must reproduce what the real classes  *)
(* did; A decides whether that is what the property demands).                *)
(*                                                                           *)
(* `devs` is the set of NAMED DEVIATIONS the modelled tree has.  {} is the   *)
(* repaired code; the pinned tree has all three:                             *)
(*   Dev_CsvWriterLoneCrUnquoted   WriteEscapedValue does not look for CR     *)
(*   Dev_CsvMemTrailingEmptyField  CCsvStringReader::ParseNextLine leaves the *)
(*                                 value loop when a separator is the last    *)
(*                                 character of the input                     *)
(*   Dev_CsvStreamKeyReadCutsQuoted CCsvStreamReader::ReadValue(key) passes   *)
(*                                 data()+Size (not data()+Offset+Size) as    *)
(*                                 the end of a quoted value                  *)
(* Positions are 0-based as in the code; s[p + 1] is the character at p.     *)
(***************************************************************************)
EXTENDS CsvFormat, TLC

DevCr     == "Dev_CsvWriterLoneCrUnquoted"
DevTrail  == "Dev_CsvMemTrailingEmptyField"
DevKeyCut == "Dev_CsvStreamKeyReadCutsQuoted"
AllDevs   == {DevCr, DevTrail, DevKeyCut}

MinI(a, b) == IF a < b THEN a ELSE b

-----------------------------------------------------------------------------
(* Writer: WriteEscapedValue, CCsvStringWriter / CCsvStreamWriter            *)

WSpecial(c, sep, devs) == c = QUOTE \/ c = sep \/ c = LF \/ (c = CR /\ DevCr \notin devs)

\* index (1-based) of the first character that forces quoting, 0 if none  (the first `for` loop)
WFirstSpecial(v, sep, devs) ==
  LET S == {i \in 1..Len(v) : WSpecial(v[i], sep, devs)} IN
  IF S = {} THEN 0 ELSE CHOOSE i \in S : \A j \in S : i <= j

WEscaped(v, sep, devs) ==
  LET k == WFirstSpecial(v, sep, devs) IN
  IF k = 0 THEN v
  ELSE <<QUOTE>> \o SubSeq(v, 1, k - 1)
       \o FlattenSeq([i \in 1..(Len(v) - k + 1) |-> IF v[k + i - 1] = QUOTE THEN <<QUOTE, QUOTE>> ELSE <<v[k + i - 1]>>])
       \o <<QUOTE>>

\* w.out = what has reached the output string / the encoded stream (as characters)
WInit(kind, sep) ==
  [kind |-> kind, sep |-> sep, out |-> <<>>, hdr |-> <<>>, row |-> <<>>, rowIndex |-> 0, valueIndex |-> 0, prevCount |-> 0]

WWriteValue(w, key, value, devs) ==
  LET lead == IF w.valueIndex # 0 THEN <<w.sep>> ELSE <<>>
      w1 == IF w.rowIndex # 0 THEN w
            ELSE IF w.kind = "string" THEN [w EXCEPT !.out = @ \o lead \o WEscaped(key, w.sep, devs)]
            ELSE [w EXCEPT !.hdr = @ \o lead \o WEscaped(key, w.sep, devs)]
  IN [w1 EXCEPT !.row = @ \o lead \o WEscaped(value, w.sep, devs), !.valueIndex = @ + 1]

WNextLine(w) ==
  IF w.rowIndex # 0 /\ w.valueIndex # w.prevCount THEN [m |-> w, exc |-> "OutOfRange"]
  ELSE LET w1 == IF w.rowIndex # 0 THEN w
                 ELSE [w EXCEPT !.out = @ \o w.hdr \o <<CR, LF>>, !.hdr = <<>>, !.prevCount = w.valueIndex]
       IN [m |-> [w1 EXCEPT !.out = @ \o w.row \o <<CR, LF>>, !.rowIndex = @ + 1, !.valueIndex = 0, !.row = <<>>],
           exc |-> ""]

\* SaveObject of a sequence of objects; an object is a sequence of <<key, value>> pairs written in that order.
\* Returns [out, exc, row]: the text, and the 0-based index of the object whose NextLine threw.
RECURSIVE WObjects(_, _, _, _)
WObjects(w, objs, i, devs) ==
  IF i > Len(objs) THEN [out |-> w.out, exc |-> "", row |-> -1]
  ELSE LET wv == FoldLeft(LAMBDA x, kv : WWriteValue(x, kv[1], kv[2], devs), w, objs[i])
           r  == WNextLine(wv)
       IN IF r.exc # "" THEN [out |-> w.out, exc |-> r.exc, row |-> i - 1]
          ELSE WObjects(r.m, objs, i + 1, devs)

WSave(kind, sep, objs, devs) == WObjects(WInit(kind, sep), objs, 1, devs)

TableObjects(t) == [i \in 1..Len(t.rows) |-> [j \in 1..Len(t.hdr) |-> <<t.hdr[j], t.rows[i][j]>>]]

-----------------------------------------------------------------------------
(* CEncodedStreamReader<char>, UTF-8 source: bytes are passed through in      *)
(* chunks of C.  e = [rest (not yet read from the istream), pend (encoded     *)
(* buffer), eof (eofbit of the istream), C].  `skip` = size of the BOM that   *)
(* the constructor found at the start of the first chunk.                     *)

EInit(src, C, skip) ==
  LET k == MinI(C, Len(src) + skip) - skip IN      \* characters of src in the first chunk
  [rest |-> SubSeq(src, k + 1, Len(src)), pend |-> SubSeq(src, 1, k), eof |-> (Len(src) + skip) < C, C |-> C]

EIsEnd(e) == e.pend = <<>> /\ e.eof

\* ReadChunk: [e, res \in {"Success","EndFile"}, add = characters appended to the caller's buffer]
EReadChunk(e) ==
  IF EIsEnd(e) THEN [e |-> e, res |-> "EndFile", add |-> <<>>]
  ELSE LET room == e.C - Len(e.pend)
           n    == IF e.eof THEN 0 ELSE MinI(room, Len(e.rest))
           e1   == [e EXCEPT !.rest = SubSeq(e.rest, n + 1, Len(e.rest)), !.eof = e.eof \/ n < room]
           data == e.pend \o SubSeq(e.rest, 1, n)
       IN IF data = <<>> THEN [e |-> e1, res |-> "EndFile", add |-> <<>>]
          ELSE [e |-> [e1 EXCEPT !.pend = <<>>], res |-> "Success", add |-> data]

NoEnc == [rest |-> <<>>, pend |-> <<>>, eof |-> TRUE, C |-> 0]

-----------------------------------------------------------------------------
(* Readers.  r = [kind "mem"|"stream", sep, wh (withHeader), src (mem: the    *)
(* input), e, buf (stream: mDecodedBuffer), pos (mCurrentPos), line, rowIndex,*)
(* valueIndex, prevCount, hdrs, metas (CValueMeta: off, size, esc)]           *)

Meta(off, size, esc) == [off |-> off, size |-> size, esc |-> esc]

RIsEnd(r) == IF r.kind = "mem" THEN r.pos >= Len(r.src) ELSE r.pos >= Len(r.buf) /\ EIsEnd(r.e)

\* end of a value at a line feed: the value stops before a CR that immediately precedes the LF
LfEnd(pos, lastCR) == IF lastCR # -1 /\ lastCR = pos - 1 THEN lastCR ELSE pos

\* ---- CCsvStringReader::ParseNextLine: the inner `while` (one value) ----
\* returns endv (endValuePos), pos, eol (isEndLine), dq (doubleQuotesCount), bysep (left the loop at a separator)
RECURSIVE SScan(_, _, _, _, _)
SScan(src, sep, pos, dq, lastCR) ==
  IF pos >= Len(src) THEN [endv |-> Len(src), pos |-> pos, eol |-> FALSE, dq |-> dq, bysep |-> FALSE]
  ELSE LET c == src[pos + 1] IN
       IF c = QUOTE THEN SScan(src, sep, pos + 1, dq + 1, lastCR)
       ELSE IF c = sep /\ (dq % 2) = 0 THEN [endv |-> pos, pos |-> pos + 1, eol |-> FALSE, dq |-> dq, bysep |-> TRUE]
       ELSE IF c = CR THEN SScan(src, sep, pos + 1, dq, pos)
       ELSE IF c = LF /\ (dq % 2) = 0
            THEN [endv |-> LfEnd(pos, lastCR), pos |-> pos + 1, eol |-> TRUE, dq |-> dq, bysep |-> FALSE]
       ELSE SScan(src, sep, pos + 1, dq, lastCR)

\* the outer `for` (values of one line); returns [metas, pos]
RECURSIVE SLine(_, _, _, _, _)
SLine(src, sep, pos, metas, devs) ==
  LET v  == SScan(src, sep, pos, 0, -1)
      m1 == Append(metas, Meta(pos, v.endv - pos, v.dq # 0))
  IN IF v.eol THEN [metas |-> m1, pos |-> v.pos]
     ELSE IF v.pos = Len(src)                      \* "Handle end of file": break
          THEN IF v.bysep /\ DevTrail \notin devs  \* repaired: the separator opened one more (empty) value
               THEN [metas |-> Append(m1, Meta(Len(src), 0, FALSE)), pos |-> v.pos]
               ELSE [metas |-> m1, pos |-> v.pos]
     ELSE SLine(src, sep, v.pos, m1, devs)

\* ---- CCsvStreamReader::ParseNextLine: the inner `while(true)` (one value) ----
RECURSIVE TScan(_, _, _, _, _, _)
TScan(e, buf, sep, pos, dq, lastCR) ==
  IF pos = Len(buf)
  THEN LET rc == EReadChunk(e) IN
       IF rc.res = "Success" THEN TScan(rc.e, buf \o rc.add, sep, pos, dq, lastCR)
       ELSE [e |-> rc.e, buf |-> buf, endv |-> Len(buf), pos |-> pos, eol |-> TRUE, dq |-> dq]     \* EndFile
  ELSE LET c == buf[pos + 1] IN
       IF c = QUOTE THEN TScan(e, buf, sep, pos + 1, dq + 1, lastCR)
       ELSE IF c = sep /\ (dq % 2) = 0 THEN [e |-> e, buf |-> buf, endv |-> pos, pos |-> pos + 1, eol |-> FALSE, dq |-> dq]
       ELSE IF c = CR THEN TScan(e, buf, sep, pos + 1, dq, pos)
       ELSE IF c = LF /\ (dq % 2) = 0
            THEN [e |-> e, buf |-> buf, endv |-> LfEnd(pos, lastCR), pos |-> pos + 1, eol |-> TRUE, dq |-> dq]
       ELSE IF pos + 1 = Len(buf) /\ EIsEnd(e)            \* last character of the file
            THEN [e |-> e, buf |-> buf, endv |-> Len(buf), pos |-> Len(buf), eol |-> TRUE, dq |-> dq]
       ELSE TScan(e, buf, sep, pos + 1, dq, lastCR)

RECURSIVE TLine(_, _, _, _, _)
TLine(e, buf, sep, pos, metas) ==
  LET v  == TScan(e, buf, sep, pos, 0, -1)
      m1 == Append(metas, Meta(pos, v.endv - pos, v.dq # 0))
  IN IF v.eol THEN [e |-> v.e, buf |-> v.buf, metas |-> m1, pos |-> v.pos]
     ELSE TLine(v.e, v.buf, sep, v.pos, m1)

\* ---- ParseNextLine of either reader: [m, res] ----
RParseNextLine(r, devs) ==
  IF RIsEnd(r) THEN [m |-> r, res |-> FALSE]
  ELSE IF r.kind = "mem" THEN
         LET l == SLine(r.src, r.sep, r.pos, <<>>, devs) IN
         [m |-> [r EXCEPT !.line = @ + 1, !.prevCount = Len(r.metas), !.metas = l.metas, !.pos = l.pos], res |-> TRUE]
  ELSE LET buf0 == SubSeq(r.buf, r.pos + 1, Len(r.buf))          \* erase(0, mCurrentPos)
           l    == TLine(r.e, buf0, r.sep, 0, <<>>)
           rc   == EReadChunk(l.e)                                \* "read next chunk for detect end of file"
           fin  == IF l.pos = Len(l.buf) THEN [e |-> rc.e, buf |-> l.buf \o rc.add] ELSE [e |-> l.e, buf |-> l.buf]
       IN [m |-> [r EXCEPT !.line = @ + 1, !.prevCount = Len(r.metas), !.metas = l.metas, !.pos = l.pos,
                           !.e = fin.e, !.buf = fin.buf], res |-> TRUE]

\* ---- UnescapeValue ----
\* copy the interior, dropping every second double quote
DropSecondQuotes(s) ==
  FoldLeft(LAMBDA a, c : IF c = QUOTE THEN (IF (a.n % 2) = 1 THEN [a EXCEPT !.n = @ + 1]
                                            ELSE [n |-> a.n + 1, out |-> Append(a.out, c)])
                         ELSE [a EXCEPT !.out = Append(a.out, c)],
           [n |-> 0, out |-> <<>>], s).out

\* memory reader: value = the whole field
SUnescape(v) ==
  IF v = <<>> \/ v[1] # QUOTE THEN [exc |-> "ParsingError", val |-> <<>>]
  ELSE IF Len(v) < 2 \/ v[Len(v)] # QUOTE THEN [exc |-> "ParsingError", val |-> <<>>]
  ELSE [exc |-> "", val |-> DropSecondQuotes(SubSeq(v, 2, Len(v) - 1))]

\* stream reader: [b, e) are buffer positions, decoding happens in place
TUnescape(buf, b, e) ==
  IF buf[b + 1] # QUOTE THEN [exc |-> "ParsingError", val |-> <<>>, buf |-> buf]
  ELSE LET e1 == e - 1 IN
       IF e1 - b < 1 \/ buf[e1 + 1] # QUOTE THEN [exc |-> "ParsingError", val |-> <<>>, buf |-> buf]
       ELSE LET val == DropSecondQuotes(SubSeq(buf, b + 2, e1)) IN
            [exc |-> "", val |-> val, buf |-> SubSeq(buf, 1, b) \o val \o SubSeq(buf, b + Len(val) + 1, Len(buf))]

\* value of meta number i (0-based);  bykey distinguishes the two call sites of the stream reader
RValueAt(r, i, bykey, devs) ==
  LET mt == r.metas[i + 1] IN
  IF r.kind = "mem" THEN
       IF mt.esc THEN LET u == SUnescape(SubSeq(r.src, mt.off + 1, mt.off + mt.size)) IN [m |-> r, exc |-> u.exc, val |-> u.val]
       ELSE [m |-> r, exc |-> "", val |-> SubSeq(r.src, mt.off + 1, mt.off + mt.size)]
  ELSE IF mt.esc THEN
            LET endp == IF bykey /\ DevKeyCut \in devs THEN mt.size ELSE mt.off + mt.size
                u == TUnescape(r.buf, mt.off, endp)
            IN [m |-> [r EXCEPT !.buf = u.buf], exc |-> u.exc, val |-> u.val]
       ELSE [m |-> r, exc |-> "", val |-> SubSeq(r.buf, mt.off + 1, mt.off + mt.size)]

\* ---- ReadValue(out)  positional ----
RReadPos(r, devs) ==
  IF r.valueIndex < Len(r.metas)
  THEN LET v == RValueAt(r, r.valueIndex, FALSE, devs) IN
       [m |-> [v.m EXCEPT !.valueIndex = @ + 1], exc |-> v.exc, val |-> v.val]
  ELSE [m |-> r, exc |-> "OutOfRange", val |-> <<>>]

\* ---- ReadValue(key, out)  by name: [m, exc, found, val] ----
RReadKey(r, key, devs) ==
  IF ~r.wh THEN [m |-> r, exc |-> "", found |-> FALSE, val |-> <<>>]
  ELSE LET vi  == r.valueIndex + 1
           hit == vi < Len(r.hdrs) /\ r.hdrs[vi + 1] = key
           F   == {i \in 1..Len(r.hdrs) : r.hdrs[i] = key}
       IN IF ~hit /\ F = {} THEN [m |-> [r EXCEPT !.valueIndex = vi], exc |-> "", found |-> FALSE, val |-> <<>>]
          ELSE LET idx == IF hit THEN vi ELSE (CHOOSE i \in F : \A j \in F : i <= j) - 1
                   r1  == [r EXCEPT !.valueIndex = idx]
               IN IF idx >= Len(r.metas) THEN [m |-> r1, exc |-> "std::out_of_range", found |-> FALSE, val |-> <<>>]
                  ELSE LET v == RValueAt(r1, idx, TRUE, devs) IN
                       [m |-> v.m, exc |-> v.exc, found |-> v.exc = "", val |-> v.val]

\* ---- ParseNextRow: [m, exc, res] ----
RParseNextRow(r, devs) ==
  LET p == RParseNextLine(r, devs) IN
  IF ~p.res THEN [m |-> p.m, exc |-> "", res |-> FALSE]
  ELSE IF p.m.wh /\ Len(p.m.hdrs) # Len(p.m.metas) THEN [m |-> p.m, exc |-> "ParsingError", res |-> FALSE]
  ELSE IF ~p.m.wh /\ p.m.line >= 2 /\ p.m.prevCount # Len(p.m.metas) THEN [m |-> p.m, exc |-> "ParsingError", res |-> FALSE]
  ELSE LET first == p.m.line = (IF p.m.wh THEN 2 ELSE 1) IN
       [m |-> [p.m EXCEPT !.valueIndex = 0, !.rowIndex = IF first THEN @ ELSE @ + 1], exc |-> "", res |-> TRUE]

\* ---- constructors: [m, exc] ----
RECURSIVE RReadHeaders(_, _, _)
RReadHeaders(r, n, devs) ==
  IF n = 0 THEN [m |-> r, exc |-> ""]
  ELSE LET v == RReadPos(r, devs) IN
       IF v.exc # "" THEN [m |-> v.m, exc |-> v.exc]
       ELSE RReadHeaders([v.m EXCEPT !.hdrs = Append(@, v.val)], n - 1, devs)

RNew(kind, src, wh, sep, C, skip) ==
  [kind |-> kind, sep |-> sep, wh |-> wh,
   src |-> IF kind = "mem" THEN src ELSE <<>>,
   e |-> IF kind = "mem" THEN NoEnc ELSE EInit(src, C, skip),
   buf |-> <<>>, pos |-> 0, line |-> 0, rowIndex |-> 0, valueIndex |-> 0, prevCount |-> 0, hdrs |-> <<>>, metas |-> <<>>]

RInit(kind, src, wh, sep, C, skip, devs) ==
  LET r0 == RNew(kind, src, wh, sep, C, skip) IN
  IF ~wh THEN [m |-> r0, exc |-> ""]
  ELSE LET p == RParseNextLine(r0, devs) IN
       IF ~p.res THEN [m |-> p.m, exc |-> "ParsingError"]          \* "Input string is empty"
       ELSE RReadHeaders(p.m, Len(p.m.metas), devs)

-----------------------------------------------------------------------------
(* Drivers: what LoadObject<CsvArchive>(std::vector<Class>) does with a reader: *)
(* while (!IsEnd()) { ParseNextRow(); for each requested key ReadValue(key) }   *)
(* Result [exc, rows]; a row is a sequence of [loaded, val] in request order.   *)

Cell(loaded, val) == [loaded |-> loaded, val |-> val]

RECURSIVE RRowByKeys(_, _, _, _, _)
RRowByKeys(r, keys, i, acc, devs) ==
  IF i > Len(keys) THEN [m |-> r, exc |-> "", row |-> acc]
  ELSE LET v == RReadKey(r, keys[i], devs) IN
       IF v.exc # "" THEN [m |-> v.m, exc |-> v.exc, row |-> acc]
       ELSE RRowByKeys(v.m, keys, i + 1, Append(acc, Cell(v.found, IF v.found THEN v.val ELSE <<>>)), devs)

RECURSIVE RLoadByKeys(_, _, _, _)
RLoadByKeys(r, keys, rows, devs) ==
  IF RIsEnd(r) THEN [exc |-> "", rows |-> rows]
  ELSE LET p == RParseNextRow(r, devs) IN
       IF p.exc # "" THEN [exc |-> p.exc, rows |-> rows]
       ELSE IF ~p.res THEN RLoadByKeys(p.m, keys, Append(rows, [i \in 1..Len(keys) |-> Cell(FALSE, <<>>)]), devs)
       ELSE LET w == RRowByKeys(p.m, keys, 1, <<>>, devs) IN
            IF w.exc # "" THEN [exc |-> w.exc, rows |-> rows]
            ELSE RLoadByKeys(w.m, keys, Append(rows, w.row), devs)

LoadByKeys(kind, src, sep, C, skip, keys, devs) ==
  LET i == RInit(kind, src, TRUE, sep, C, skip, devs) IN
  IF i.exc # "" THEN [exc |-> i.exc, rows |-> <<>>] ELSE RLoadByKeys(i.m, keys, <<>>, devs)

\* Positional use of the reader classes: while (ParseNextRow()) { ReadValue(out) until OutOfRange }
RECURSIVE RRowPos(_, _, _)
RRowPos(r, acc, devs) ==
  LET v == RReadPos(r, devs) IN
  IF v.exc = "OutOfRange" THEN [m |-> v.m, exc |-> "", row |-> acc]
  ELSE IF v.exc # "" THEN [m |-> v.m, exc |-> v.exc, row |-> acc]
  ELSE RRowPos(v.m, Append(acc, Cell(TRUE, v.val)), devs)

RECURSIVE RLoadPos(_, _, _)
RLoadPos(r, rows, devs) ==
  LET p == RParseNextRow(r, devs) IN
  IF p.exc # "" THEN [exc |-> p.exc, rows |-> rows]
  ELSE IF ~p.res THEN [exc |-> "", rows |-> rows]
  ELSE LET w == RRowPos(p.m, <<>>, devs) IN
       IF w.exc # "" THEN [exc |-> w.exc, rows |-> rows] ELSE RLoadPos(w.m, Append(rows, w.row), devs)

LoadPositional(kind, src, wh, sep, C, skip, devs) ==
  LET i == RInit(kind, src, wh, sep, C, skip, devs) IN
  IF i.exc # "" THEN [exc |-> i.exc, rows |-> <<>>] ELSE RLoadPos(i.m, <<>>, devs)

-----------------------------------------------------------------------------
(* A: what a load must deliver, from the table the text denotes (CsvFormat).   *)
(* outcome "rows": exactly these rows;  "reject": an exception;  "any": the     *)
(* property does not say (text is not a rendering of a table with a header).    *)

ExpectByKeys(text, sep, keys) ==
  LET p == Parse(text, sep) IN
  IF ~p.ok \/ p.recs = <<>> THEN [outcome |-> "any", rows |-> <<>>]
  ELSE IF ~RectOK(p.recs) THEN [outcome |-> "reject", rows |-> <<>>]
  ELSE LET hdr == p.recs[1]
           Col(k) == {j \in 1..Len(hdr) : hdr[j] = k}
       IN IF \E a, b \in 1..Len(hdr) : a # b /\ hdr[a] = hdr[b] THEN [outcome |-> "any", rows |-> <<>>]
          ELSE [outcome |-> "rows",
                rows |-> [i \in 1..(Len(p.recs) - 1) |->
                            [n \in 1..Len(keys) |->
                               IF Col(keys[n]) = {} THEN Cell(FALSE, <<>>)
                               ELSE Cell(TRUE, p.recs[i + 1][CHOOSE j \in Col(keys[n]) : TRUE])]]]

ExpectPositional(text, wh, sep) ==
  LET p == Parse(text, sep) IN
  IF ~p.ok \/ p.recs = <<>> THEN [outcome |-> "any", rows |-> <<>>]
  ELSE IF ~RectOK(p.recs) THEN [outcome |-> "reject", rows |-> <<>>]
  ELSE LET first == IF wh THEN 2 ELSE 1 IN
       [outcome |-> "rows",
        rows |-> [i \in 1..(Len(p.recs) - first + 1) |->
                    [j \in 1..Len(p.recs[1]) |-> Cell(TRUE, p.recs[i + first - 1][j])]]]

\* does an observed/modelled result [exc, rows] satisfy an expectation?
Satisfies(res, exp) ==
  CASE exp.outcome = "any"    -> TRUE
    [] exp.outcome = "reject" -> res.exc # ""
    [] exp.outcome = "rows"   -> res.exc = "" /\ res.rows = exp.rows
=============================================================================
