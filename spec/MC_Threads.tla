----------------------------- MODULE MC_Threads -----------------------------
(* Model checking of spec/Threads.tla on the access summaries RECORDED FROM THE  *)
(* IMPLEMENTATION.  The summaries file (IOEnv.SUMMARIES, ndjson written by       *)
(* tools/checks/c19.py from the output of harness/access_harness.cpp) has lines  *)
(*   {"kind":"op",    "name":n, "acc":[{"k":..,"l":..},..]}   an operation        *)
(*   {"kind":"guard", "name":g, "acc":[..]}                   an initialiser      *)
(*   {"kind":"plan",  "slots":[[n,..],[n,..],..]}             bounded choice:     *)
(*        every thread runs Len(slots) operations, the k-th one from slots[k]     *)
(* TLC explores ALL interleavings of ALL program assignments of all plans        *)
(* (threads are interchangeable: assignments are taken up to permutation).       *)
EXTENDS Naturals, Sequences, FiniteSets, TLC, Json, IOUtils

CONSTANTS T,        \* number of threads
          Fuse      \* FuseSilentReads of Threads.tla

Lines == ndJsonDeserialize(IOEnv.SUMMARIES)
OfKind(k) == SelectSeq(Lines, LAMBDA r : r.kind = k)
OpRecs == OfKind("op")
GuardRecs == OfKind("guard")
PlanRecs == OfKind("plan")

OpNames == {OpRecs[i].name : i \in DOMAIN OpRecs}
OpsFromFile == [n \in OpNames |-> (CHOOSE r \in {OpRecs[i] : i \in DOMAIN OpRecs} : r.name = n).acc]
BlocksFromFile == [g \in {GuardRecs[i].name : i \in DOMAIN GuardRecs} |->
                     (CHOOSE r \in {GuardRecs[i] : i \in DOMAIN GuardRecs} : r.name = g).acc]
ThreadIds == 1..T

VARIABLE m

WLocsFromFile ==
  LET recs == {OpRecs[i] : i \in DOMAIN OpRecs} \cup {GuardRecs[i] : i \in DOMAIN GuardRecs} IN
  UNION {{r.acc[j].l : j \in {k \in DOMAIN r.acc : r.acc[k].k \in {"w", "u"}}} : r \in recs}

INSTANCE Threads WITH Thr <- ThreadIds, Ops <- OpsFromFile, Blocks <- BlocksFromFile, WLocs <- WLocsFromFile,
                      FuseSilentReads <- Fuse
ASSUME WLocsFromFile = WrittenLocs

OpIndex == [n \in OpNames |-> CHOOSE i \in DOMAIN OpRecs : OpRecs[i].name = n]
Base == Len(OpRecs) + 1
RECURSIVE CodeFrom(_, _)
CodeFrom(p, k) == IF k > Len(p) THEN 0 ELSE OpIndex[p[k]] + Base * CodeFrom(p, k + 1)
Code(p) == CodeFrom(p, 1)

ProgramsOf(plan) ==
  LET K == Len(plan.slots) IN
  {p \in [1..K -> OpNames] : \A k \in 1..K : p[k] \in Range(plan.slots[k])}

ASSUME \A i \in DOMAIN PlanRecs : \A k \in DOMAIN PlanRecs[i].slots : Range(PlanRecs[i].slots[k]) \subseteq OpNames
ASSUME Len(PlanRecs) > 0 /\ Len(OpRecs) > 0

Init ==
  \E i \in DOMAIN PlanRecs :
    \E prog \in [ThreadIds -> ProgramsOf(PlanRecs[i])] :
       /\ \A t \in 1..(T - 1) : Code(prog[t]) <= Code(prog[t + 1])
       /\ m = MInit(prog)

\* one named action per kind of step (TLC's per-action coverage is the vacuity guard of the check);
\* a behaviour ends at the first race: the counterexample is the racing interleaving
DoSilentRead(t) ==
  LET kind == Kind(m, t) IN m.race = NoRaceRec /\ kind \in {"silent"} /\ m' = Step(m, t, kind)
DoRead(t) ==
  LET kind == Kind(m, t) IN m.race = NoRaceRec /\ kind \in {"r"} /\ m' = Step(m, t, kind)
DoWrite(t) ==
  LET kind == Kind(m, t) IN m.race = NoRaceRec /\ kind \in {"w", "u"} /\ Top(m, t).g = "" /\ m' = Step(m, t, kind)
DoInitWrite(t) ==
  LET kind == Kind(m, t) IN m.race = NoRaceRec /\ kind \in {"w", "u"} /\ Top(m, t).g # "" /\ m' = Step(m, t, kind)
DoGuardPass(t) ==
  LET kind == Kind(m, t) IN m.race = NoRaceRec /\ kind \in {"pass"} /\ m' = Step(m, t, kind)
DoGuardAcquire(t) ==
  LET kind == Kind(m, t) IN m.race = NoRaceRec /\ kind \in {"enter"} /\ m' = Step(m, t, kind)
DoGuardRelease(t) ==
  LET kind == Kind(m, t) IN m.race = NoRaceRec /\ kind \in {"release"} /\ m' = Step(m, t, kind)
DoEndOp(t) ==
  LET kind == Kind(m, t) IN m.race = NoRaceRec /\ kind \in {"endop"} /\ m' = Step(m, t, kind)

Next == \E t \in ThreadIds : DoSilentRead(t) \/ DoRead(t) \/ DoWrite(t) \/ DoInitWrite(t) \/ DoGuardPass(t)
                              \/ DoGuardAcquire(t) \/ DoGuardRelease(t) \/ DoEndOp(t)

Spec == Init /\ [][Next]_m

InvNoRace == NoRace(m)
InvSequentialEquivalence == SequentialEquivalence(m)
InvGuardDiscipline == GuardDiscipline(m)
\* no thread can be stuck: a thread waits only for a guard whose owner can still move
InvProgress == Finished(m) \/ m.race # NoRaceRec \/ \E t \in ThreadIds : CanStep(Kind(m, t))
=============================================================================
