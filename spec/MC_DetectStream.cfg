SPECIFICATION Spec
CONSTANTS
  Cps = {65, 233, 128512, 0}
  MaxText = 2
  Preambles = {0, 1, 3, 16}
  PreByte = 35
  FixDetect = TRUE
  SeekFromOrig = TRUE
  TolerateNul = TRUE
INVARIANTS PositionCorrect RestIsText DetectionCorrect
