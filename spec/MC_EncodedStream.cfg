SPECIFICATION FairSpec
CONSTANTS
  Cps = {65, 233, 8364, 128512, 0}
  MaxText = 2
  ChunkSizes = {8}
  TWs = {8, 16, 32}
  FixTail = TRUE
  FixDetect = TRUE
  TolerateNul = TRUE
INVARIANTS WellFormed DetectionCorrect ContentCorrect ResultsConsistent WholeTextExact
PROPERTY Terminates
