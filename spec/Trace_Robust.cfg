INIT Init
NEXT Next
