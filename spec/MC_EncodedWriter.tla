-------------------------- MODULE MC_EncodedWriter --------------------------
(* CEncodedStreamWriter as a state machine: M (emitted bytes + scratch string, EncodedStream!MWriterWrite)   *)
(* against A (emitted bytes only: an accepted Write appends its encoding, a rejected Write appends nothing).  *)
(* TLC explores every sequence of MaxWrites writes over fragments that are accepted (valid text, ill-formed   *)
(* text under Skip) or rejected (fragment ending inside a sequence; ill-formed text under ThrowError), for   *)
(* 5 schemes x BOM x 3 source widths x both policies, and - in path mode - exports each sequence for replay   *)
(* on ONE real writer object.                                                                                 *)
EXTENDS EncodedStream, Json

CONSTANTS MaxWrites,
          ClearBefore,     \* TRUE: the code (scratch cleared before Encode); FALSE: cleared only after a successful write
          KeepHist

VARIABLES cfgw, m, a, hist, lastOK
vars == <<cfgw, m, a, hist, lastOK>>

Frags(sw) ==
  IF sw = 8 THEN << <<72, 105>>, <<195, 169, 240, 159, 152, 128>>, <<119, 111, 240, 159, 152>>, <<97, 255, 98>> >>
  ELSE IF sw = 16 THEN << <<72, 105>>, <<233, 55357, 56832>>, <<119, 111, 55357>>, <<97, 56320, 98>> >>
  ELSE << <<72, 105>>, <<233, 128512>>, <<119, 1114112>>, <<97, 55296, 98>> >>

Init ==
  /\ \E e \in Schemes, bom \in BOOLEAN, sw \in {8, 16, 32}, skip \in BOOLEAN :
       /\ cfgw = [e |-> e, bom |-> bom, sw |-> sw, skip |-> skip]
       /\ m = MWriterInit(e, bom)
       /\ a = (IF bom THEN Bom(e) ELSE <<>>)
  /\ hist = <<>>
  /\ lastOK = TRUE

Do(k) ==
  LET u == Frags(cfgw.sw)[k]
      r == MWriterWrite(m, cfgw.e, cfgw.sw, u, cfgw.skip, ClearBefore)
      \* A: what an accepted Write of this fragment contributes
      enc == IF cfgw.sw = 8 /\ cfgw.e = "Utf8" THEN [code |-> "Success", bytes |-> u]
             ELSE LET x == WEncode(cfgw.e, cfgw.sw, u, cfgw.skip) IN [code |-> x.code, bytes |-> UnitsToBytes(cfgw.e, x.out)]
      a2 == IF enc.code = "Success" THEN a \o enc.bytes ELSE a
  IN /\ m' = r.m
     /\ a' = a2
     /\ lastOK' = (r.code = enc.code /\ WriteAccepts(cfgw.e, cfgw.sw, u, cfgw.skip, r.code, SubSeq(a2, Len(a) + 1, Len(a2))))
     /\ hist' = IF KeepHist THEN Append(hist, u) ELSE hist
     /\ UNCHANGED cfgw

Live == ~KeepHist \/ Len(hist) < MaxWrites
WriteAccepted == Live /\ \E k \in 1..4 : Do(k) /\ m'.emitted # m.emitted
WriteRejected == Live /\ \E k \in 1..4 : Do(k) /\ m'.emitted = m.emitted
Next == WriteAccepted \/ WriteRejected
Spec == Init /\ [][Next]_vars

\* M refines A: the stream holds exactly BOM + the encodings of the accepted fragments
EmittedAgree == m.emitted = a
StepAccepted == lastOK
Export == (KeepHist /\ Len(hist) = MaxWrites) =>
            PrintT(<<"GEN", ToJson([e |-> cfgw.e, bom |-> cfgw.bom, sw |-> cfgw.sw, skip |-> cfgw.skip, frags |-> hist])>>)
=============================================================================
