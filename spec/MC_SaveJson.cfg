SPECIFICATION Spec
CONSTANT MaxMembers = 2
INVARIANTS SpecRoundTrip Export
