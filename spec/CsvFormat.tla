------------------------------ MODULE CsvFormat ------------------------------
(***************************************************************************)
(* Layer 1: RFC 4180 as mathematics.                                       *)
(*                                                                         *)
(* A text is a sequence of characters; a character is an integer (a code   *)
(* point, or a UTF-8 code unit - the four characters that carry structure  *)
(* are ASCII, so both readings denote the same table).  The separator is a *)
(* parameter (RFC 4180 fixes COMMA; the archive allows ',' ';' TAB ' ' '|')*)
(*                                                                         *)
(*   file        = record *(BREAK record) [BREAK]          BREAK = CRLF / LF *)
(*   record      = field *(SEP field)                                      *)
(*   field       = escaped / non-escaped                                   *)
(*   escaped     = DQUOTE *(TEXTDATA / SEP / CR / LF / 2DQUOTE) DQUOTE     *)
(*   non-escaped = *TEXTDATA                                               *)
(*   TEXTDATA    = any character except DQUOTE, SEP, CR, LF                *)
(*                                                                         *)
(* (TEXTDATA is widened from printable ASCII to every other character,     *)
(* which is what "Unicode content" and a TAB inside a ','-separated file   *)
(* need; LF alone is admitted as a line break as the property states.)     *)
(*                                                                         *)
(*  Parse(text, sep)       the reader automaton: records or Malformed      *)
(*  Renderings(recs, sep)  the set of ALL conformant texts denoting recs   *)
(***************************************************************************)
EXTENDS Naturals, Integers, Sequences, FiniteSets, SequencesExt

QUOTE == 34
CR    == 13
LF    == 10
Separators == {44, 59, 9, 32, 124}            \* ','  ';'  TAB  ' '  '|'

-----------------------------------------------------------------------------
(* Reader automaton.                                                        *)
(*  RS  record start (start of text or just after a line break)             *)
(*  FS  field start (just after a separator)                                *)
(*  UQ  inside an unquoted field                                            *)
(*  QT  inside a quoted field                                               *)
(*  QQ  a quote seen inside a quoted field (closing quote or first of 2DQUOTE) *)
(*  CX  CR seen outside quotes: only LF may follow                          *)
(*  BAD malformed                                                           *)
(* a = [st, fld, rec, recs]: state, characters of the current field, fields  *)
(* of the current record, completed records.                                 *)

PInit == [st |-> "RS", fld |-> <<>>, rec |-> <<>>, recs |-> <<>>]

EndField(a, st)  == [a EXCEPT !.st = st, !.rec = Append(a.rec, a.fld), !.fld = <<>>]
EndRecord(a)     == [a EXCEPT !.st = "RS", !.recs = Append(a.recs, Append(a.rec, a.fld)), !.rec = <<>>, !.fld = <<>>]
Bad(a)           == [a EXCEPT !.st = "BAD"]
Take(a, c, st)   == [a EXCEPT !.st = st, !.fld = Append(a.fld, c)]

PStep(a, c, sep) ==
  CASE a.st = "BAD" -> a
    [] a.st \in {"RS", "FS"} ->
         IF c = QUOTE THEN [a EXCEPT !.st = "QT"]
         ELSE IF c = sep THEN EndField(a, "FS")
         ELSE IF c = CR THEN [a EXCEPT !.st = "CX"]
         ELSE IF c = LF THEN EndRecord(a)
         ELSE Take(a, c, "UQ")
    [] a.st = "UQ" ->
         IF c = QUOTE THEN Bad(a)
         ELSE IF c = sep THEN EndField(a, "FS")
         ELSE IF c = CR THEN [a EXCEPT !.st = "CX"]
         ELSE IF c = LF THEN EndRecord(a)
         ELSE Take(a, c, "UQ")
    [] a.st = "QT" ->
         IF c = QUOTE THEN [a EXCEPT !.st = "QQ"] ELSE Take(a, c, "QT")
    [] a.st = "QQ" ->
         IF c = QUOTE THEN Take(a, c, "QT")
         ELSE IF c = sep THEN EndField(a, "FS")
         ELSE IF c = CR THEN [a EXCEPT !.st = "CX"]
         ELSE IF c = LF THEN EndRecord(a)
         ELSE Bad(a)
    [] a.st = "CX" ->
         IF c = LF THEN EndRecord(a) ELSE Bad(a)

\* End of text: "the last record in the file may or may not have an ending line break"
PFinish(a) ==
  CASE a.st = "RS"  -> [ok |-> TRUE, recs |-> a.recs]
    [] a.st \in {"FS", "UQ", "QQ"} -> [ok |-> TRUE, recs |-> EndRecord(a).recs]
    [] OTHER -> [ok |-> FALSE, recs |-> <<>>]          \* open quote, bare CR, BAD

Parse(text, sep) == PFinish(FoldLeft(LAMBDA a, c : PStep(a, c, sep), PInit, text))

Malformed(text, sep) == ~Parse(text, sep).ok

\* Every record has the field count of the first one (the header)
RectOK(recs) == \A i \in 1..Len(recs) : Len(recs[i]) = Len(recs[1])

\* A table is a header and rows;  records <-> table
TableRecs(t)  == <<t.hdr>> \o t.rows
RecsTable(rs) == [hdr |-> rs[1], rows |-> SubSeq(rs, 2, Len(rs))]

-----------------------------------------------------------------------------
(* Renderer (nondeterministic): every conformant text that denotes `recs`.  *)

MustQuote(f, sep) == \E i \in 1..Len(f) : f[i] \in {QUOTE, sep, CR, LF}

Quoted(f) == <<QUOTE>> \o FlattenSeq([i \in 1..Len(f) |-> IF f[i] = QUOTE THEN <<QUOTE, QUOTE>> ELSE <<f[i]>>]) \o <<QUOTE>>

\* q: set of slots <<i,j>> rendered quoted;  b: line break after record i: 0 none (last record only), 1 LF, 2 CRLF
RenderWith(recs, sep, q, b) ==
  LET Fld(i, j) == IF <<i, j>> \in q THEN Quoted(recs[i][j]) ELSE recs[i][j]
      Brk(i)    == IF b[i] = 0 THEN <<>> ELSE IF b[i] = 1 THEN <<LF>> ELSE <<CR, LF>>
      Rec(i)    == FlattenSeq([j \in 1..Len(recs[i]) |-> IF j = 1 THEN Fld(i, j) ELSE <<sep>> \o Fld(i, j)])
  IN FlattenSeq([i \in 1..Len(recs) |-> Rec(i) \o Brk(i)])

Slots(recs)          == UNION {{<<i, j>> : j \in 1..Len(recs[i])} : i \in 1..Len(recs)}
ForcedSlots(recs, sep) == {s \in Slots(recs) : MustQuote(recs[s[1]][s[2]], sep)}

\* A last record that is a single empty unquoted field needs its line break (an empty tail denotes no record)
BreakChoices(recs, q) ==
  LET n == Len(recs) IN
  {b \in [1..n -> 0..2] :
      /\ \A i \in 1..(n - 1) : b[i] # 0
      /\ (recs[n] = <<(<<>>)>> /\ <<n, 1>> \notin q) => b[n] # 0}

QuoteChoices(recs, sep) ==
  {ForcedSlots(recs, sep) \cup o : o \in SUBSET (Slots(recs) \ ForcedSlots(recs, sep))}

Renderings(recs, sep) ==
  IF recs = <<>> THEN {<<>>}
  ELSE UNION {{RenderWith(recs, sep, q, b) : b \in BreakChoices(recs, q)} : q \in QuoteChoices(recs, sep)}

\* The "uniform" sub-family used where the full set is too large: all/minimal quoting x LF/CRLF x final break
UniformRenderings(recs, sep) ==
  LET n == Len(recs)
      Opts == {o \in {ForcedSlots(recs, sep), Slots(recs)} \X (1..2) \X BOOLEAN :
                  o[3] \/ ~(recs[n] = <<(<<>>)>> /\ <<n, 1>> \notin o[1])}
  IN IF recs = <<>> THEN {<<>>}
     ELSE {RenderWith(recs, sep, o[1], [i \in 1..n |-> IF i = n /\ ~o[3] THEN 0 ELSE o[2]]) : o \in Opts}
=============================================================================
