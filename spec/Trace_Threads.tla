---------------------------- MODULE Trace_Threads ----------------------------
(* Result level of C19: the results logged by the REAL T-thread stress run      *)
(* (harness/access_harness.cpp, mode "stress": every thread executes a seeded    *)
(* random mix of the catalogue operations on its own objects plus the shared     *)
(* read-only inputs) must satisfy SequentialEquivalence: the result of every     *)
(* operation (bytes produced / values loaded / exception text, logged as digest) *)
(* equals the golden result of the same operation executed sequentially by the   *)
(* same binary before the threads were started.                                  *)
(*   IOEnv.TRACE   ndjson, one record per executed operation {id, t, i, op, res} *)
(*   IOEnv.GOLDEN  ndjson, one record per catalogue operation {op, res}          *)
EXTENDS Naturals, Sequences, TLC, Json, IOUtils

VARIABLE dummy

Traces == ndJsonDeserialize(IOEnv.TRACE)
GoldenRecs == ndJsonDeserialize(IOEnv.GOLDEN)
GoldenSet == {GoldenRecs[i] : i \in DOMAIN GoldenRecs}
Golden == [o \in {r.op : r \in GoldenSet} |-> (CHOOSE r \in GoldenSet : r.op = o).res]

Th == INSTANCE Threads WITH Thr <- {1}, Ops <- <<>>, Blocks <- <<>>, WLocs <- {}, FuseSilentReads <- FALSE

\* the golden table itself must be a function (one result per operation)
ASSUME \A r1, r2 \in GoldenSet : r1.op = r2.op => r1.res = r2.res

ASSUME \A i \in DOMAIN Traces :
          LET v == Th!ResultVerdict(Golden, Traces[i]) IN
          v = "" \/ PrintT(<<"BAD", ToJson([id |-> Traces[i].id, why |-> v, dev |-> "", op |-> Traces[i].op,
                                             res |-> Traces[i].res,
                                             expected |-> IF Traces[i].op \in DOMAIN Golden THEN Golden[Traces[i].op] ELSE ""])>>)
ASSUME PrintT(<<"CHECKED", ToJson([n |-> Len(Traces)])>>)

Init == dummy = 0
Next == UNCHANGED dummy
=============================================================================
