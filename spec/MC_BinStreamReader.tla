------------------------- MODULE MC_BinStreamReader -------------------------
(* Exhaustive check of M => A for CBinaryStreamReader, and generation of     *)
(* operation sequences (with the results A prescribes) for replay.           *)
EXTENDS BinStreamReader, Json

CONSTANTS CHUNK,        \* window size C of the model
          MAXLEN,       \* stream lengths 0..MAXLEN
          MAXOPS,       \* number of public calls per behaviour
          SolidSizes, ChunkSizes,
          Fix,          \* "orig" | "clear"  (which variant of SetPosition the model mirrors)
          SeekKinds,    \* subset of BOOLEAN: seekable / non-seekable stream buffers
          PastEndKinds, \* subset of BOOLEAN: buffers that accept a position beyond their end (files) / refuse it (strings)
          KeepHist,     \* TRUE: carry the history (path mode, for generation)
          TolerateNonSeekable  \* TRUE: Dev_NonSeekableStream is a tolerated, named deviation

VARIABLES m, a, last, hist, n

vars == <<m, a, last, hist, n>>

NoOp == [op |-> "init", arg |-> 0, ok |-> TRUE, dev |-> "", res |-> 0]

Init ==
  /\ \E len \in 0..MAXLEN, sk \in SeekKinds, pe \in PastEndKinds :
        /\ (pe => sk)
        /\ m = MInit(len, sk, pe, CHUNK)
        /\ a = [len |-> len, pos |-> 0, C |-> CHUNK]
  /\ last = NoOp
  /\ hist = <<>>
  /\ n = 0

\* Dev_NonSeekableStream: the stream buffer refuses to seek and the request lies outside the cached window
NonSeekableCase(p) == ~m.st.seekable /\ ~(p >= m.spos - m.bend /\ p < m.spos) /\ p # m.spos

Step(op, arg, rm, ra, ok, dev) ==
  /\ m' = rm.m
  /\ a' = ra.a
  /\ last' = [op |-> op, arg |-> arg, ok |-> ok, dev |-> dev, res |-> ra.res]
  /\ hist' = IF KeepHist THEN Append(hist, [op |-> op, arg |-> arg, res |-> ra.res, pos |-> ra.a.pos]) ELSE hist
  /\ n' = n + 1

Live == n < MAXOPS /\ last.dev = "" /\ ~(last.op = "setpos" /\ last.res = FALSE)

DoPeek     == Live /\ LET rm == MPeekByte(m) ra == APeekByte(a) IN Step("peek", 0, rm, ra, rm.res = ra.res, "")
DoGoto     == Live /\ LET rm == MGotoNextByte(m) ra == AGotoNextByte(a) IN Step("goto", 0, rm, ra, TRUE, "")
DoReadByte == Live /\ LET rm == MReadByte(m) ra == AReadByte(a) IN Step("readbyte", 0, rm, ra, rm.res = ra.res, "")
DoSolid    == Live /\ \E k \in SolidSizes : LET rm == MReadSolidBlock(m, k) ra == AReadSolidBlock(a, k) IN
                 Step("solid", k, rm, ra, ViewEq(rm.res, ra.res), "")
DoChunks   == Live /\ \E k \in ChunkSizes : LET rm == MReadByChunks(m, k) IN
                 LET ra == [a |-> [a EXCEPT !.pos = @ + rm.res.n], res |-> rm.res] IN
                 Step("chunks", k, rm, ra, AReadByChunksOK(a, k, rm.res), "")
DoSetPos   == Live /\ \E p \in 0..(a.len + 2) : LET rm == MSetPosition(m, p, Fix) ra == ASetPosition(a, p) IN
                 Step("setpos", p, rm, ra, rm.res = ra.res,
                      IF rm.res # ra.res /\ NonSeekableCase(p) THEN "Dev_NonSeekableStream" ELSE "")

Next == DoPeek \/ DoGoto \/ DoReadByte \/ DoSolid \/ DoChunks \/ DoSetPos

Spec == Init /\ [][Next]_vars

-----------------------------------------------------------------------------
\* A-level invariants (what a caller observes)
ResultsAgree   == last.ok \/ (TolerateNonSeekable /\ last.dev = "Dev_NonSeekableStream")
PositionAgrees == last.dev = "" /\ ~(last.op = "setpos" /\ last.res = FALSE) => MPos(m) = a.pos
IsEndAgrees    == last.dev = "" /\ ~(last.op = "setpos" /\ last.res = FALSE) => (MIsEnd(m) <=> a.pos = a.len)
\* M-level invariant
WellFormed     == MWellFormed(m)

\* Path-mode export: one JSON object per complete behaviour
Export == (KeepHist /\ n = MAXOPS) =>
            PrintT(<<"GEN", ToJson([len |-> a.len, seekable |-> m.st.seekable, pastend |-> m.st.pastend, chunk |-> CHUNK, ops |-> hist])>>)
=============================================================================
