----------------------------- MODULE MC_Robust -----------------------------
(***************************************************************************)
(* C02: the input space, explored by TLC.  Every reachable state is one     *)
(* input (a byte string in run-length form) for one of the four archives:   *)
(*   valid   a well-formed document rendered by the Layer-1 format specs    *)
(*           (MsgPackFormat!Enc, JsonFormat!Render, XmlFormat!XRender,      *)
(*           CsvFormat!UniformRenderings) from a small value corpus         *)
(*   cut     every proper prefix of a valid document          (Truncate)    *)
(*   flip    every single-byte replacement of a valid document by a byte of *)
(*           the format's damage alphabet                     (Corrupt)     *)
(*   adv     MsgPack headers declaring up to 2^32-1 elements / bytes with   *)
(*           (almost) nothing behind them, bare, nested, as members         *)
(*   nest    Nest(d): d nested arrays / objects / elements    (Nest)        *)
(*   nestcut the same without (half of) the closing part      (NestCut)     *)
(*   wide    a well-formed flat document of n elements        (Wide)        *)
(*   empty   the empty input                                                *)
(* Invariants concern the model's own bookkeeping: every valid document is  *)
(* accepted by the specification's parser; the damage operators change      *)
(* exactly one byte / yield a proper prefix; small Nest / Wide documents    *)
(* are well-formed and have the stated depth; adversarial headers really    *)
(* declare more than is present; the abstract (non-presizing) loader stays  *)
(* within the resource bound on every generated MsgPack input while the     *)
(* presizing one does not.  `Export` prints every input for the replay.     *)
(***************************************************************************)
EXTENDS Robust, XmlFormat, Json, TLC

Csv == INSTANCE CsvFormat

CONSTANTS Formats,        \* subset of {"msgpack", "json", "xml", "csv"}
          CorpusLevel,    \* 1 = reduced corpus (quick), 2 = full corpus
          FlipMsgPack, FlipJson, FlipXml, FlipCsv,     \* damage alphabets (byte values)
          NestDepths,     \* e.g. {10, 100, 1000, 10000, 100000}
          WideSizes,      \* e.g. {1000, 100000}
          AdvLevel        \* 0 none, 1 reduced, 2 full set of adversarial MsgPack headers

VARIABLES fmt, cls, base, meta, rle, info
vars == <<fmt, cls, base, meta, rle, info>>

-----------------------------------------------------------------------------
(* Value corpus (the ADT of MsgPackFormat) *)
MU(n) == IntSmall(n)
MS(x) == <<"str", x>>
MK(x) == <<"str", x>>
RunOf(byte, n) == [i \in 1..n |-> byte]
F15  == <<"f64", <<63, 248, 0, 0, 0, 0, 0, 0>>>>

\* the fields of the harness class `Cls` (a b c d o f g) plus a member it does not know (zz)
ClsVal ==
  <<"map", << <<MK(<<97>>), MU(5)>>, <<MK(<<98>>), MS(<<120, 121>>)>>, <<MK(<<99>>), <<"arr", <<MU(1), MU(2), MU(300)>>>>>>,
              <<MK(<<100>>), <<"map", << <<MK(<<107>>), MU(3)>> >>>>>>,
              <<MK(<<111>>), <<"map", << <<MK(<<120>>), MU(-7)>>, <<MK(<<121>>), MS(<<122>>)>> >>>>>>,
              <<MK(<<102>>), F15>>, <<MK(<<103>>), MU(200)>>,
              <<MK(<<122, 122>>), <<"arr", << <<"arr", <<MU(1)>>>>, <<"map", << <<MK(<<113>>), <<"nil">>>> >>>> >>>>>> >>>>
ClsSmall(a, b) == <<"map", << <<MK(<<97>>), MU(a)>>, <<MK(<<98>>), MS(b)>> >>>>
RowsVal == <<"arr", <<ClsSmall(1, <<120>>), ClsSmall(2, <<121>>)>>>>
\* the shape of the harness tree `ObjTree` (c = child, k = list of children, v = value)
TreeVal ==
  <<"map", << <<MK(<<99>>), <<"map", << <<MK(<<99>>), <<"map", << <<MK(<<118>>), MU(1)>> >>>>>> >>>>>>,
              <<MK(<<107>>), <<"arr", << <<"map", << <<MK(<<118>>), MU(2)>> >>>>, <<"map", << <<MK(<<107>>), <<"arr", <<>>>>>> >>>> >>>>>>,
              <<MK(<<118>>), MU(3)>> >>>>
MapVal == <<"map", << <<MK(<<107, 49>>), MU(1)>>, <<MK(<<107, 50>>), MU(2)>> >>>>
Arr3   == <<"arr", <<MU(1), MU(2), MU(3)>>>>
ArrS   == <<"arr", <<MS(<<97>>), MS(<<98, 99>>)>>>>
ArrArr == <<"arr", << <<"arr", <<MU(1), MU(2)>>>>, <<"arr", <<MU(3)>>>> >>>>
Hello  == MS(<<104, 195, 169, 108, 108, 111>>)                        \* "héllo"
U64Max == <<"int", FALSE, <<255, 255, 255, 255, 255, 255, 255, 255>>>>
I64Min == <<"int", TRUE, <<128, 0, 0, 0, 0, 0, 0, 0>>>>

CommonVals == IF CorpusLevel = 1 THEN { ClsVal, TreeVal, Arr3, Hello, MU(70000) }
              ELSE { ClsVal, TreeVal, RowsVal, MapVal, Arr3, ArrS, ArrArr, Hello, MU(70000), MU(-3), F15, <<"bool", TRUE>>, <<"nil">>,
                     U64Max, I64Min, <<"arr", RunOf(MU(7), 16)>>, MS(RunOf(97, 40)) }
MsgPackOnly == IF CorpusLevel = 1 THEN { <<"map", << <<MU(1), MS(<<120>>)>>, <<MU(2), MS(<<121>>)>> >>>>, <<"ts", TRUE, <<0, 0, 0, 0, 0, 0, 0, 2>>, 500000000>> }
               ELSE { <<"map", << <<MU(1), MS(<<120>>)>>, <<MU(2), MS(<<121>>)>> >>>>, <<"bin", <<0, 255, 128>>>>,
                      <<"ts", FALSE, Pad8(<<5>>), 0>>, <<"ts", FALSE, <<0, 0, 0, 1, 0, 0, 0, 0>>, 7>>, <<"ts", TRUE, <<0, 0, 0, 0, 0, 0, 0, 2>>, 500000000>>,
                      <<"f32", <<63, 192, 0, 0>>>>, <<"ext", 5, <<1, 2, 3>>>>, <<"arr", << <<"bin", <<1, 2>>>>, <<"bin", <<>>>> >>>> }
\* values encoded a second time with the widest headers (str 32 / array 32 / map 32 / bin 32 / uint 64): their corruptions declare huge counts
WideEncoded == IF CorpusLevel = 1 THEN { Arr3 } ELSE { Arr3, ClsVal, MapVal, MS(<<120, 121>>), <<"bin", <<0, 255, 128>>>>, ArrS }

Doc(b, enc, bom) == [b |-> b, enc |-> enc, bom |-> bom]

MsgPackDocs == { Doc(Enc(v, 0), "bin", FALSE) : v \in CommonVals \cup MsgPackOnly } \cup { Doc(Enc(v, 4), "bin", FALSE) : v \in WideEncoded }

JCompact == [ws |-> 0, esc |-> 0, order |-> 0]
JPretty  == [ws |-> 2, esc |-> 1, order |-> 0]
JsonDocs ==
  { Doc(EncodeText(Render(v, JCompact, 0), "utf8", FALSE), "utf8", FALSE) : v \in CommonVals }
  \cup { Doc(EncodeText(Render(ClsVal, JPretty, 0), "utf8", FALSE), "utf8", FALSE) }
  \cup (IF CorpusLevel = 1 THEN {} ELSE { Doc(EncodeText(Render(TreeVal, JCompact, 0), "utf16le", TRUE), "utf16le", TRUE),
                                          Doc(EncodeText(Render(Arr3, JCompact, 0), "utf8", TRUE), "utf8", TRUE) })

XCompact == [indent |-> 0, ref |-> 0, quote |-> 34, empty |-> 0, decl |-> 1]
XPretty  == [indent |-> 2, ref |-> 1, quote |-> 39, empty |-> 1, decl |-> 2]
XSpecial == <<"map", << <<MK(<<115>>), MS(<<97, 60, 38, 62, 34, 39, 98>>)>>, <<MK(<<110>>), MU(-1)>> >>>>           \* {"s": "a<&>\"'b", "n": -1}
XmlVals  == IF CorpusLevel = 1 THEN { ClsVal, Arr3 } ELSE { ClsVal, TreeVal, RowsVal, MapVal, Arr3, ArrS, ArrArr, XSpecial }
XmlDocs ==
  { Doc(EncodeText(XRender(XmlDoc(v), XCompact, "utf8"), "utf8", FALSE), "utf8", FALSE) : v \in XmlVals }
  \cup { Doc(EncodeText(XRender(XmlDoc(TreeVal), XPretty, "utf8"), "utf8", FALSE), "utf8", FALSE) }
  \cup (IF CorpusLevel = 1 THEN {} ELSE { Doc(EncodeText(XRender(XmlDoc(RowsVal), XCompact, "utf16le"), "utf16le", TRUE), "utf16le", TRUE) })

\* CSV tables: header a,b,f,g (the members of the harness row class) and awkward field contents
T1 == << <<(<<97>>), <<98>>, <<102>>, <<103>>>>, <<(<<49>>), <<120>>, <<49, 46, 53>>, <<55>>>>, <<(<<50>>), <<121, 44, 34, 113, 34>>, <<>>, <<50, 48, 48>>>> >>
T2 == << <<(<<97>>), <<98>>>>, <<(<<45, 51>>), <<108, 10, 109>>>>, <<(<<57, 57, 57, 57, 57, 57, 57, 57, 57, 57, 57>>), <<233, 8364>>>> >>     \* line break in a field; overflow; non-ASCII
T3 == << <<(<<97>>)>>, <<(<<49>>)>>, <<(<<50>>)>> >>
CsvTables == IF CorpusLevel = 1 THEN {T1} ELSE {T1, T2, T3}
CsvDocs ==
  UNION { { Doc(EncodeText(t, "utf8", FALSE), "utf8", FALSE) : t \in Csv!UniformRenderings(tab, 44) } : tab \in CsvTables }
  \cup (IF CorpusLevel = 1 THEN {} ELSE { Doc(EncodeText(CHOOSE t \in Csv!UniformRenderings(T1, 44) : TRUE, "utf16le", TRUE), "utf16le", TRUE) })

ValidDocs(f) == IF f = "msgpack" THEN MsgPackDocs ELSE IF f = "json" THEN JsonDocs ELSE IF f = "xml" THEN XmlDocs ELSE CsvDocs
FlipBytes(f) == IF f = "msgpack" THEN FlipMsgPack ELSE IF f = "json" THEN FlipJson ELSE IF f = "xml" THEN FlipXml ELSE FlipCsv

-----------------------------------------------------------------------------
(* What the specification's own parsers say *)
Text(d) == DecodeText(d.b, d.enc, d.bom)
SpecAccepts(f, d) ==
  IF f = "msgpack" THEN LET r == Decode(d.b, 1) IN r.ok /\ r.p = Len(d.b) + 1
  ELSE LET t == Text(d) IN
       /\ t[1]
       /\ IF f = "json" THEN ParseJson(t[2]).ok
          ELSE IF f = "xml" THEN ParseXml(t[2]).ok
          ELSE LET r == Csv!Parse(t[2], 44) IN r.ok /\ Csv!RectOK(r.recs)

MaxOver(seq, Op(_)) == FoldLeft(LAMBDA acc, x : LET dx == Op(x) IN IF dx > acc THEN dx ELSE acc, 0, seq)
RECURSIVE VDepth(_)
VDepth(v) ==
  IF v[1] = "arr" THEN 1 + MaxOver(v[2], LAMBDA x : VDepth(x))
  ELSE IF v[1] = "map" THEN 1 + MaxOver(v[2], LAMBDA x : VDepth(x[2]))
  ELSE 0
RECURSIVE ElDepth(_)
ElDepth(el) == 1 + MaxOver(el[3], LAMBDA x : ElDepth(x))

\* nesting depth of a well-formed document according to the format specification
SpecDepth(f, b) ==
  IF f = "msgpack" THEN VDepth(Decode(b, 1).v)
  ELSE IF f = "json" THEN VDepth(ParseJson(Utf8Dec(b, 1, <<>>)[2]).v)
  ELSE ElDepth(ParseXml(Utf8Dec(b, 1, <<>>)[2]).el)

-----------------------------------------------------------------------------
(* Nest(d) and Wide(n) in run-length form *)
NestKinds(f) == IF f = "csv" THEN {} ELSE {"arr", "obj", "kobj", "member"}

\* <<prefix, open token, core, close token, suffix, levels per token>>
NestParts(f, kind) ==
  IF f = "msgpack" THEN
       (IF kind = "arr" THEN << <<>>, <<145>>, <<144>>, <<>>, <<>>, 1 >>
        ELSE IF kind = "obj" THEN << <<>>, <<129, 161, 99>>, <<128>>, <<>>, <<>>, 1 >>
        ELSE IF kind = "kobj" THEN << <<>>, <<129, 161, 107, 145>>, <<128>>, <<>>, <<>>, 2 >>
        ELSE << <<129, 162, 122, 122>>, <<145>>, <<1>>, <<>>, <<>>, 1 >>)                       \* {"zz": [[[...1...]]]}
  ELSE IF f = "json" THEN
       (IF kind = "arr" THEN << <<>>, <<91>>, <<>>, <<93>>, <<>>, 1 >>                         \* [[[ ]]]
        ELSE IF kind = "obj" THEN << <<>>, <<123, 34, 99, 34, 58>>, <<123, 125>>, <<125>>, <<>>, 1 >>
        ELSE IF kind = "kobj" THEN << <<>>, <<123, 34, 107, 34, 58, 91>>, <<123, 125>>, <<93, 125>>, <<>>, 2 >>
        ELSE << <<123, 34, 122, 122, 34, 58>>, <<91>>, <<49>>, <<93>>, <<125>>, 1 >>)           \* {"zz":[[[1]]]}
  ELSE \* xml
       (IF kind = "arr" THEN << <<60, 97, 114, 114, 97, 121, 62>>, <<60, 99, 62>>, <<>>, <<60, 47, 99, 62>>, <<60, 47, 97, 114, 114, 97, 121, 62>>, 1 >>
        ELSE IF kind = "obj" THEN << <<60, 114, 111, 111, 116, 62>>, <<60, 99, 62>>, <<>>, <<60, 47, 99, 62>>, <<60, 47, 114, 111, 111, 116, 62>>, 1 >>
        ELSE IF kind = "kobj" THEN << <<60, 114, 111, 111, 116, 62>>, <<60, 107, 62, 60, 111, 62>>, <<>>, <<60, 47, 111, 62, 60, 47, 107, 62>>, <<60, 47, 114, 111, 111, 116, 62>>, 2 >>
        ELSE << <<60, 114, 111, 111, 116, 62, 60, 122, 122, 62>>, <<60, 99, 62>>, <<49>>, <<60, 47, 99, 62>>, <<60, 47, 122, 122, 62, 60, 47, 114, 111, 111, 116, 62>>, 1 >>)

NonEmpty(segs) == SelectSeq(segs, LAMBDA s : s[1] > 0 /\ Len(s[2]) > 0)
\* closed = number of closing tokens present (d = complete)
NestRle(f, kind, d, closed, withCore) ==
  LET p == NestParts(f, kind) IN
  NonEmpty(<< <<1, p[1]>>, <<d, p[2]>>, <<IF withCore THEN 1 ELSE 0, p[3]>>, <<closed, p[4]>>, <<IF closed = d THEN 1 ELSE 0, p[5]>> >>)

\* a flat well-formed document of n elements
WideRle(f, n) ==
  IF f = "msgpack" THEN << <<1, <<221>> \o BEbytes(n, 4)>>, <<n, <<1>>>> >>
  ELSE IF f = "json" THEN << <<1, <<91>>>>, <<n - 1, <<49, 44>>>>, <<1, <<49, 93>>>> >>
  ELSE IF f = "xml" THEN << <<1, <<60, 97, 62>>>>, <<n, <<60, 118, 62, 49, 60, 47, 118, 62>>>>, <<1, <<60, 47, 97, 62>>>> >>
  ELSE << <<1, <<97, 44, 98, 13, 10>>>>, <<n, <<49, 44, 120, 13, 10>>>> >>

-----------------------------------------------------------------------------
(* Adversarial MsgPack headers *)
Counts32 == IF AdvLevel = 1 THEN { <<255, 255, 255, 255>>, <<1, 0, 0, 0>> }
            ELSE { <<255, 255, 255, 255>>, <<128, 0, 0, 0>>, <<127, 255, 255, 255>>, <<1, 0, 0, 0>>, <<0, 16, 0, 0>>, <<0, 1, 0, 0>> }
Counts16 == IF AdvLevel = 1 THEN { <<255, 255>> } ELSE { <<255, 255>>, <<128, 0>> }
Tails    == IF AdvLevel = 1 THEN { <<>>, <<1, 2, 3>> } ELSE { <<>>, <<1>>, <<1, 2, 3>>, <<161, 97, 1>> }
AdvCores ==
  { <<h>> \o c \o t : h \in {221, 223, 219, 198}, c \in Counts32, t \in Tails }
  \cup { <<201>> \o c \o <<x>> \o t : c \in Counts32, x \in {255, 5}, t \in Tails }                 \* ext 32 (timestamp type / other)
  \cup { <<h>> \o c \o t : h \in {220, 222, 218, 197}, c \in Counts16, t \in Tails }
  \cup { <<200>> \o c \o <<255>> \o t : c \in Counts16, t \in Tails }
  \cup { <<h, 255>> \o t : h \in {217, 196, 199}, t \in Tails }                                      \* str 8 / bin 8 / ext 8 of 255 bytes
  \cup { <<h>> \o t : h \in {191, 159, 143}, t \in Tails }                                           \* fixstr 31 / fixarray 15 / fixmap 15
  \cup { <<221, 255, 255, 255, 255, 221, 255, 255, 255, 255>>, <<223, 255, 255, 255, 255, 161, 97, 221, 255, 255, 255, 255>> }
AdvForms(core) ==
  { core, <<145>> \o core, <<145, 145, 145>> \o core, <<146>> \o core \o core,
    <<129, 161, 99>> \o core,           \* {"c": core}    member of the class (vector<int>)
    <<129, 161, 100>> \o core,          \* {"d": core}    member of the class (map<string,int>)
    <<129, 161, 98>> \o core,           \* {"b": core}    member of the class (string)
    <<129, 162, 122, 122>> \o core }    \* {"zz": core}   unknown member: skipped when the scope closes
AdvDocs == IF AdvLevel = 0 THEN {} ELSE UNION { AdvForms(c) : c \in AdvCores }

\* declared payload / element count exceeds what is present: the reference decoder cannot complete
AdvIsShort(b) == LET r == Decode(b, 1) IN ~r.ok /\ r.err \in {"count", "trunc"}

-----------------------------------------------------------------------------
NoInfo == [k |-> "none", i |-> 0, b |-> 0, d |-> 0]
NoDoc  == Doc(<<>>, "bin", FALSE)

Init == /\ fmt \in Formats
        /\ \/ /\ cls = "valid"
              /\ \E d \in ValidDocs(fmt) : base = d.b /\ meta = d /\ rle = << <<1, d.b>> >>
              /\ info = NoInfo
           \/ /\ cls = "empty" /\ base = <<>> /\ meta = NoDoc /\ rle = <<>> /\ info = NoInfo

Truncate == /\ cls = "valid"
            /\ \E k \in 1..(Len(base) - 1) :
                  /\ rle' = << <<1, SubSeq(base, 1, k)>> >>
                  /\ info' = [k |-> "cut", i |-> k, b |-> 0, d |-> 0]
            /\ cls' = "cut"
            /\ UNCHANGED <<fmt, base, meta>>

Corrupt == /\ cls = "valid"
           /\ \E i \in 1..Len(base), b \in FlipBytes(fmt) :
                 /\ base[i] # b
                 /\ rle' = << <<1, [base EXCEPT ![i] = b]>> >>
                 /\ info' = [k |-> "flip", i |-> i, b |-> b, d |-> 0]
           /\ cls' = "flip"
           /\ UNCHANGED <<fmt, base, meta>>

AdvHeader == /\ cls = "empty" /\ fmt = "msgpack"
             /\ \E a \in AdvDocs : rle' = << <<1, a>> >>
             /\ cls' = "adv" /\ info' = [NoInfo EXCEPT !.k = "adv"]
             /\ UNCHANGED <<fmt, base, meta>>

Nest == /\ cls = "empty"
        /\ \E kind \in NestKinds(fmt), d \in NestDepths :
              /\ rle' = NestRle(fmt, kind, d, d, TRUE)
              /\ info' = [k |-> kind, i |-> 0, b |-> 0, d |-> d * NestParts(fmt, kind)[6]]
        /\ cls' = "nest"
        /\ UNCHANGED <<fmt, base, meta>>

\* the same nest without its closing part, or with half of it (text formats; MsgPack has no closing tokens: the core is dropped)
NestCut == /\ cls = "empty"
           /\ \E kind \in NestKinds(fmt), d \in NestDepths, c \in {0, 1} :
                 /\ rle' = NestRle(fmt, kind, d, IF fmt = "msgpack" THEN 0 ELSE c * (d \div 2), fmt # "msgpack" /\ c = 1)
                 /\ info' = [k |-> kind, i |-> c, b |-> 0, d |-> d * NestParts(fmt, kind)[6]]
           /\ cls' = "nestcut"
           /\ UNCHANGED <<fmt, base, meta>>

Wide == /\ cls = "empty"
        /\ \E n \in WideSizes : rle' = WideRle(fmt, n) /\ info' = [k |-> "wide", i |-> 0, b |-> 0, d |-> n]
        /\ cls' = "wide"
        /\ UNCHANGED <<fmt, base, meta>>

Next == Truncate \/ Corrupt \/ AdvHeader \/ Nest \/ NestCut \/ Wide
Spec == Init /\ [][Next]_vars

-----------------------------------------------------------------------------
(* Invariants: the model's own bookkeeping *)
Classes == {"valid", "empty", "cut", "flip", "adv", "nest", "nestcut", "wide"}
TypeOK == /\ fmt \in Formats /\ cls \in Classes
          /\ \A i \in 1..Len(rle) : rle[i][1] >= 1 /\ \A j \in 1..Len(rle[i][2]) : rle[i][2][j] \in 0..255

ValidAccepted == cls = "valid" => SpecAccepts(fmt, meta)

Small == RleLen(rle) <= 1200
DocBytes == Expand(rle)

DamageExact ==
  /\ cls = "flip" => LET d == DocBytes IN Len(d) = Len(base) /\ Cardinality({i \in 1..Len(d) : d[i] # base[i]}) = 1
  /\ cls = "cut"  => LET d == DocBytes IN Len(d) >= 1 /\ Len(d) < Len(base) /\ d = SubSeq(base, 1, Len(d))

\* small Nest / Wide documents are well-formed, have the stated depth; the run of opening tokens is the stated one for every d
NestShape ==
  /\ cls \in {"nest", "nestcut"} => NestRun(fmt, rle) * NestParts(fmt, info.k)[6] = info.d
  /\ (cls = "nest" /\ Small) =>
        /\ SpecAccepts(fmt, Doc(DocBytes, "utf8", FALSE))
        /\ SpecDepth(fmt, DocBytes) >= info.d /\ SpecDepth(fmt, DocBytes) <= info.d + 2        \* + wrapper element / innermost empty container
  /\ (cls = "nestcut" /\ Small) => ~SpecAccepts(fmt, Doc(DocBytes, "utf8", FALSE))
  /\ (cls = "wide" /\ Small) => SpecAccepts(fmt, Doc(DocBytes, "utf8", FALSE))

AdvDeclared == cls = "adv" => AdvIsShort(DocBytes)

\* Lemma on the two allocation models over every generated MsgPack input with an oversized count / length header: reserving only for
\* elements that can be present stays inside the bound for every catalogue element size, reserving for the declared count does not.
ElemSizes == {4, 24, 32, 176}
PresizeLemma ==
  (fmt = "msgpack" /\ Small /\ DeclaredExceeds(DocBytes)) =>
     LET n == Len(DocBytes) IN
     /\ \A s \in ElemSizes : AbstractPresize(65535, n, s) <= PeakBound(n)
     /\ DevPresize(65535, 176) > PeakBound(n)

Export ==
  PrintT(<<"GEN", ToJson([fmt |-> fmt, cls |-> cls, rle |-> rle, n |-> RleLen(rle), enc |-> meta.enc, bom |-> meta.bom, info |-> info])>>)
=============================================================================
