--------------------------- MODULE Trace_SaveScript ---------------------------
(* TLC as the independent MessagePack decoder of documents produced by the real writer (C06). *)
EXTENDS SaveScript, Json, IOUtils
VARIABLE dummy
Traces == ndJsonDeserialize(IOEnv.TRACE)
ASSUME \A i \in 1..Len(Traces) :
          LET t == Traces[i]
              v == IF t.excmem # <<"none">> \/ t.excstream # <<"none">> THEN "bad:save raised an exception" ELSE SaveVerdict(t.root, t.mem, t.stream) IN
          v = "ok" \/ PrintT(<<"BAD", ToJson([id |-> t.id, why |-> v])>>)
ASSUME PrintT(<<"CHECKED", ToJson([n |-> Len(Traces)])>>)
Init == dummy = 0
Next == UNCHANGED dummy
=============================================================================
