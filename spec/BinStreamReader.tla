--------------------------- MODULE BinStreamReader ---------------------------
(***************************************************************************)
(* Layer 2, component `CBinaryStreamReader` (src/common/binary_stream_reader.cpp). *)
(*                                                                         *)
(*  A  = ByteCursor: a byte sequence and a position (what a caller may     *)
(*       observe; this is what the in-memory readers implement trivially). *)
(*  M  = the code's own variables: a window [bstart,bend) inside a buffer  *)
(*       of C bytes, mStreamPos, and the std::istream with its get         *)
(*       position and eof/fail bits.                                       *)
(*                                                                         *)
(* All M operations are pure step functions  state -> [m, res]  so that    *)
(* the same text is used (1) as TLC actions for exhaustive checking of     *)
(* M => A, (2) to generate operation sequences with the results A          *)
(* prescribes, (3) to validate traces recorded from the real class.        *)
(***************************************************************************)
EXTENDS Naturals, Integers, Sequences, TLC

Min(a, b) == IF a < b THEN a ELSE b

\* The stream content is a fixed pattern so that returned views are checkable:
\* the byte at offset i (0-based) of a stream with pattern parameters (mul, add).
PatByte(mul, add, i) == ((i * mul) + add) % 256

-----------------------------------------------------------------------------
(* std::istream over a streambuf of `len` bytes (libstdc++ semantics).      *)
(*  read(n) : sentry fails when !good() -> failbit, gcount 0;               *)
(*            a short read sets eofbit|failbit                              *)
(*  peek()  : sentry as above; at end of data sets eofbit only              *)
(*  seekg(p): clears eofbit first; if fail() is (still) set nothing moves;  *)
(*            non-seekable buffer -> failbit; p > len -> failbit for a      *)
(*            string buffer, but a file buffer (st.pastend) accepts any     *)
(*            position and simply has nothing to read there                 *)
(* fixClear = TRUE models a reader that calls clear() before seekg.         *)

StGood(st) == ~st.eofb /\ ~st.failb

StRead(st, n) ==
  IF ~StGood(st) THEN [st |-> [st EXCEPT !.failb = TRUE], k |-> 0]
  ELSE LET k == Min(n, IF st.gpos >= st.len THEN 0 ELSE st.len - st.gpos) IN
       [st |-> [st EXCEPT !.gpos = @ + k, !.eofb = (k < n), !.failb = (k < n)], k |-> k]

StPeek(st) ==
  IF ~StGood(st) THEN [st EXCEPT !.failb = TRUE]
  ELSE IF st.gpos >= st.len THEN [st EXCEPT !.eofb = TRUE] ELSE st

StSeek(st, p) ==
  LET s1 == [st EXCEPT !.eofb = FALSE] IN
  IF s1.failb THEN s1
  ELSE IF ~s1.seekable \/ (p > s1.len /\ ~s1.pastend) THEN [s1 EXCEPT !.failb = TRUE]
  ELSE [s1 EXCEPT !.gpos = p]

StClear(st) == [st EXCEPT !.eofb = FALSE, !.failb = FALSE]

-----------------------------------------------------------------------------
(* M: the reader.  m = [st, bstart, bend, spos, C]                           *)

MPos(m)   == m.spos - (m.bend - m.bstart)                \* GetPosition()
MIsEnd(m) == m.bstart = m.bend /\ m.st.eofb             \* IsEnd()

\* ReadNextChunk(): squeeze, refill
RNC(m) ==
  IF MIsEnd(m) THEN [m |-> m, ret |-> FALSE]
  ELSE LET m1 == IF m.bstart = m.C THEN [m EXCEPT !.bstart = 0, !.bend = 0]
                 ELSE IF m.bstart # 0 THEN [m EXCEPT !.bend = @ - m.bstart, !.bstart = 0]
                 ELSE m
           rd == StRead(m1.st, m1.C - m1.bend)
       IN [m |-> [m1 EXCEPT !.st = rd.st, !.bend = @ + rd.k, !.spos = @ + rd.k], ret |-> rd.k # 0]

MInit(len, seekable, pastend, C) ==
  RNC([st |-> [len |-> len, gpos |-> 0, eofb |-> FALSE, failb |-> FALSE, seekable |-> seekable, pastend |-> pastend],
       bstart |-> 0, bend |-> 0, spos |-> 0, C |-> C]).m

\* Each public call returns [m |-> new state, res |-> result].  Results:
\*   SetPosition -> BOOLEAN;  Peek/ReadByte -> -1 (nullopt) or the *offset* of the returned byte;
\*   ReadSolidBlock/ReadByChunks -> [off, n] view of the stream (n = 0: empty view)
\* Views are reported as offsets: buffer content == stream[spos-bend, spos) is an M invariant that the
\* trace validation checks against the real bytes.

\* ++mStartDataPtr; if it hits the end of data, ReadNextChunk()
MAdvance1(m) ==
  LET m1 == [m EXCEPT !.bstart = @ + 1] IN IF m1.bstart = m1.bend THEN RNC(m1).m ELSE m1

\* fix: variant of the code.  "orig" = pinned tree, "clear" = clear() the stream state before seekg,
\*      "probe" = additionally locate and read the byte in front of the target, because a file buffer accepts positions
\*                beyond its end (the current tree).
MSetPosition(m, p, fix) ==
  LET cached == m.bend IN
  IF p >= m.spos - cached /\ p < m.spos
  THEN [m |-> [m EXCEPT !.bstart = p - (m.spos - cached)], res |-> TRUE]
  ELSE IF p = m.spos
       THEN [m |-> RNC([m EXCEPT !.bstart = 0, !.bend = 0]).m, res |-> TRUE]
       ELSE IF fix = "probe"
       THEN LET q   == IF p = 0 THEN 0 ELSE p - 1
                st1 == StSeek(StClear(m.st), q)
            IN IF st1.failb THEN [m |-> [m EXCEPT !.st = st1], res |-> FALSE]
               ELSE IF p = 0 THEN [m |-> RNC([m EXCEPT !.st = st1, !.spos = 0, !.bstart = 0, !.bend = 0]).m, res |-> TRUE]
               ELSE LET g == StRead(st1, 1) IN          \* mStream.get()
                    IF g.k = 0
                    THEN [m |-> [m EXCEPT !.st = [StSeek(StClear(g.st), m.spos) EXCEPT !.failb = TRUE]], res |-> FALSE]   \* back to the end of the cached data, failbit
                    ELSE [m |-> RNC([m EXCEPT !.st = g.st, !.spos = p, !.bstart = 0, !.bend = 0]).m, res |-> TRUE]
       ELSE LET st0 == IF fix = "orig" THEN m.st ELSE StClear(m.st)
                st1 == StSeek(st0, p)
            IN IF ~st1.failb
               THEN [m |-> RNC([m EXCEPT !.st = st1, !.spos = p, !.bstart = 0, !.bend = 0]).m, res |-> TRUE]
               ELSE [m |-> [m EXCEPT !.st = st1], res |-> FALSE]

MPeekByte(m) ==
  IF m.bstart # m.bend THEN [m |-> m, res |-> MPos(m)]
  ELSE LET r == RNC(m) IN IF r.ret THEN [m |-> r.m, res |-> MPos(r.m)] ELSE [m |-> r.m, res |-> -1]

MGotoNextByte(m) ==
  IF m.bstart # m.bend THEN [m |-> MAdvance1(m), res |-> TRUE]
  ELSE LET r == RNC(m) IN IF r.ret THEN [m |-> MAdvance1(r.m), res |-> TRUE] ELSE [m |-> r.m, res |-> TRUE]

MReadByte(m) ==
  IF m.bstart # m.bend THEN [m |-> MAdvance1(m), res |-> MPos(m)]
  ELSE LET r == RNC(m) IN IF r.ret THEN [m |-> MAdvance1(r.m), res |-> MPos(r.m)] ELSE [m |-> r.m, res |-> -1]

MTake(m, k) ==  \* consume k bytes of the window; "peek() for correctly work IsEnd()"
  LET m1 == [m EXCEPT !.bstart = @ + k] IN
  IF m1.bstart = m1.bend THEN [m1 EXCEPT !.st = StPeek(m1.st)] ELSE m1

MReadSolidBlock(m, n) ==
  IF n > m.C THEN [m |-> m, res |-> [off |-> 0, n |-> 0]]
  ELSE IF m.bstart + n > m.bend
       THEN LET r == RNC(m) IN
            IF ~r.ret \/ r.m.bstart + n > r.m.bend THEN [m |-> r.m, res |-> [off |-> 0, n |-> 0]]
            ELSE [m |-> MTake(r.m, n), res |-> [off |-> MPos(r.m), n |-> n]]
       ELSE [m |-> MTake(m, n), res |-> [off |-> MPos(m), n |-> n]]

MReadByChunks(m, n) ==
  LET r == IF m.bstart # m.bend THEN [m |-> m, ret |-> TRUE] ELSE RNC(m) IN
  IF r.ret THEN LET k == Min(r.m.bend - r.m.bstart, n) IN
                [m |-> MTake(r.m, k), res |-> [off |-> MPos(r.m), n |-> k]]
  ELSE [m |-> r.m, res |-> [off |-> 0, n |-> 0]]

ViewEq(x, y) == x.n = y.n /\ (x.n = 0 \/ x.off = y.off)

\* M-level structural invariant
MWellFormed(m) ==
  /\ 0 <= m.bstart /\ m.bstart <= m.bend /\ m.bend <= m.C
  /\ m.bend <= m.spos
  /\ m.spos <= m.st.len

-----------------------------------------------------------------------------
(* A: the abstract cursor.  a = [len, pos, C]   (C only bounds ReadSolidBlock) *)

ASetPosition(a, p)   == IF p <= a.len THEN [a |-> [a EXCEPT !.pos = p], res |-> TRUE] ELSE [a |-> a, res |-> FALSE]
APeekByte(a)         == [a |-> a, res |-> IF a.pos < a.len THEN a.pos ELSE -1]
AGotoNextByte(a)     == [a |-> IF a.pos < a.len THEN [a EXCEPT !.pos = @ + 1] ELSE a, res |-> TRUE]
AReadByte(a)         == IF a.pos < a.len THEN [a |-> [a EXCEPT !.pos = @ + 1], res |-> a.pos] ELSE [a |-> a, res |-> -1]
AReadSolidBlock(a,n) == IF n <= a.C /\ a.pos + n <= a.len /\ n > 0
                        THEN [a |-> [a EXCEPT !.pos = @ + n], res |-> [off |-> a.pos, n |-> n]]
                        ELSE [a |-> a, res |-> [off |-> 0, n |-> 0]]
\* ReadByChunks may return any non-empty prefix of what remains (at most n bytes): a relation, not a function
AReadByChunksOK(a, n, res) ==
  IF a.pos = a.len \/ n = 0 THEN res.n = 0
  ELSE res.off = a.pos /\ res.n >= 1 /\ res.n <= Min(n, a.len - a.pos)

=============================================================================
