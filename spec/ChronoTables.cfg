INIT Init
NEXT Next
