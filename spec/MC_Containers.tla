---------------------------- MODULE MC_Containers ----------------------------
(* Scenario space of C18, explored by TLC.  Every reachable state is one scenario:                                  *)
(*   target type (container variant x element kind), placement (document root / member "v" of a holder class),     *)
(*   MapLoadMode, estimated-size behaviour of the array scope (zero / exact / larger), MismatchedTypesPolicy,       *)
(*   prior content of the target (size 0..MaxPrior, grows by one element per step),                                 *)
(*   document (size 0..MaxDoc, grows by one item per step; items: values, null, values skipped by policy, ...).     *)
(* In every state the implementation-shaped load M (Containers!MLoad, deviations off) is compared with the          *)
(* abstract semantics A (Containers!ALoad) and the property-level statements of C18 are checked; the state is       *)
(* exported as a replay scenario with the observation A prescribes and, per archive, the observation that M         *)
(* prescribes under the named deviations of the pinned tree.                                                        *)
EXTENDS Containers, Json

CONSTANTS MaxPrior, MaxDoc,
          MaxDocNoEstimate,   \* sequences loaded through an array scope that reports NO size (CSV; forced): documents up to this size,
                              \* the items beyond MaxDoc being plain values (the emplace_back / emplace_after leg: prior size < data size)
          Shard, Shards,      \* this TLC process explores the classes with (index % Shards) = Shard
          CheckDevs           \* {} : M refines A must hold.  {Dev_x,..}: the refinement is checked WITH these deviations (TLC must refute it)

VARIABLES T, place, mode, est, mm, prior, doc
vars == <<T, place, mode, est, mm, prior, doc>>

I16 == <<"i16">>   Bool == <<"bool">>   Str == <<"str">>   Rec == <<"rec">>
VecI == <<"seq", "vector", I16>>
I(n) == <<"i", n>>
S(x) == <<"s", x>>
Null == <<"null">>
Arr(x) == <<"arr", x>>
Stale(v) == Mark(v, "stale")

SeqKinds == <<"vector", "deque", "list", "flist", "valarray", "queue", "stack", "pqueue">>
SetKinds == <<"set", "multiset", "uset", "umultiset">>
Names == <<"a", "b", "c", "d", "e">>
OldNames == <<"old1", "old2", "old3", "old4">>

-----------------------------------------------------------------------------
(* Scenario classes.  grow = TRUE: prior and document grow element-wise; FALSE: both are picked from finite sets.    *)
Cls(t, places, modes, mmr) == [T |-> t, places |-> places, modes |-> modes, mmr |-> mmr]
Plain == {"-"}
MapModes == {"clean", "onlyexist", "update"}

ClassSeq ==
     [i \in 1..Len(SeqKinds) |-> Cls(<<"seq", SeqKinds[i], I16>>, IF SeqKinds[i] = "vector" THEN {"root", "field"} ELSE {"root"}, Plain, SeqKinds[i] = "vector")]
  \o << Cls(<<"seq", "vector", Bool>>, {"root"}, Plain, FALSE),
        Cls(<<"seq", "vector", Str>>, {"root"}, Plain, TRUE),
        Cls(<<"seq", "list", Str>>, {"root"}, Plain, TRUE),
        Cls(<<"seq", "vector", Rec>>, {"root"}, Plain, TRUE),
        Cls(<<"seq", "deque", Rec>>, {"root"}, Plain, TRUE),
        Cls(<<"seq", "list", Rec>>, {"root"}, Plain, TRUE),
        Cls(<<"seq", "flist", Rec>>, {"root"}, Plain, TRUE),
        Cls(<<"seq", "vector", VecI>>, {"root"}, Plain, TRUE),
        Cls(<<"seq", "vector", <<"opt", I16>>>>, {"root"}, Plain, FALSE),
        Cls(<<"seq", "list", <<"uptr", I16>>>>, {"root"}, Plain, FALSE),
        Cls(<<"seq", "vector", <<"opt", <<"map", "map", I16>>>>>>, {"root"}, Plain, TRUE),
        Cls(<<"seq", "vector", <<"sptr", <<"map", "umap", I16>>>>>>, {"root"}, Plain, TRUE),
        Cls(<<"seq", "list", <<"uptr", <<"map", "map", I16>>>>>>, {"root"}, Plain, TRUE),
        Cls(<<"fix", "array", 3, I16>>, {"root"}, Plain, FALSE),
        Cls(<<"fix", "carray", 3, I16>>, {"root"}, Plain, FALSE),
        Cls(<<"fix", "bitset", 3, Bool>>, {"root"}, Plain, FALSE),
        Cls(<<"tuple", <<I16, Str>>>>, {"root"}, Plain, FALSE) >>
  \o [i \in 1..Len(SetKinds) |-> Cls(<<"set", SetKinds[i], I16>>, IF SetKinds[i] = "set" THEN {"root", "field"} ELSE {"root"}, Plain, SetKinds[i] = "set")]
  \o << Cls(<<"map", "map", I16>>, {"root"}, MapModes, FALSE),
        Cls(<<"map", "umap", I16>>, {"root"}, MapModes, FALSE),
        Cls(<<"map", "map", I16>>, {"field"}, {"clean"}, TRUE),
        Cls(<<"map", "map", VecI>>, {"root"}, MapModes, TRUE),
        Cls(<<"mmap", "multimap", I16>>, {"root"}, Plain, FALSE),
        Cls(<<"mmap", "umultimap", I16>>, {"root"}, Plain, FALSE),
        \* single values: member "v" of a holder class
        Cls(Str, {"field"}, Plain, FALSE),
        Cls(<<"atomic">>, {"field"}, Plain, FALSE),
        Cls(<<"opt", I16>>, {"field"}, Plain, FALSE),
        Cls(<<"uptr", I16>>, {"field"}, Plain, FALSE),
        Cls(<<"sptr", I16>>, {"field"}, Plain, FALSE),
        Cls(<<"opt", Str>>, {"field"}, Plain, TRUE),
        Cls(<<"uptr", Str>>, {"field"}, Plain, TRUE),
        Cls(<<"sptr", Str>>, {"field"}, Plain, TRUE),
        Cls(<<"opt", VecI>>, {"field"}, Plain, TRUE),
        Cls(<<"uptr", VecI>>, {"field"}, Plain, TRUE) >>

MyClasses == {ClassSeq[i] : i \in {j \in 1..Len(ClassSeq) : (j % Shards) = Shard}}

Grows(t) == t[1] \in {"seq", "fix", "tuple", "set", "map", "mmap"}
ElemT(t) == IF t[1] = "fix" THEN t[4] ELSE t[3]

-----------------------------------------------------------------------------
(* Prior content: recognisable stale values, by position *)
RECURSIVE PriorElem(_, _)
PriorElem(Te, j) ==
  IF Te[1] \in {"i16", "atomic"} THEN <<"i", 70 + j, "stale">>
  ELSE IF Te[1] = "bool" THEN <<"b", TRUE, "stale">>
  ELSE IF Te[1] = "str" THEN <<"s", OldNames[j], "stale">>
  ELSE IF Te[1] \in {"opt", "uptr", "sptr"} /\ Te[2][1] = "map" THEN <<"some", PriorElem(Te[2], j)>>      \* always engaged
  ELSE IF Te[1] \in {"opt", "uptr", "sptr"} THEN (IF (j % 2) = 1 THEN <<"some", PriorElem(Te[2], j)>> ELSE <<"none">>)
  ELSE IF Te[1] = "map" THEN <<"map", << <<3, PriorElem(Te[3], j)>> >> >>                                       \* { "c": stale }
  ELSE IF Te[1] = "seq" THEN <<"seq", <<PriorElem(Te[3], j), PriorElem(Te[3], j + 1)>>>>
  ELSE <<"rec", <<"i", 70 + j, "stale">>, <<"s", "old", "stale">>, IF (j % 2) = 1 THEN <<"some", <<"s", "oldp", "stale">>>> ELSE <<"none">>>>

PriorSize(p) == Len(p[2])

\* the target before any growth step
Prior0(t) ==
  IF t[1] = "fix" THEN <<"seq", [j \in 1..t[3] |-> PriorElem(t[4], j)]>>          \* fixed size: always populated
  ELSE IF t[1] = "tuple" THEN <<"seq", [j \in 1..Len(t[2]) |-> PriorElem(t[2][j], j)]>>
  ELSE Fresh(t)

CanGrowPrior(t, p) == t[1] \in {"seq", "set", "map", "mmap"} /\ PriorSize(p) < MaxPrior

GrowPriorSet(t, p) ==
  LET j == PriorSize(p) + 1 IN
  IF t[1] = "seq" THEN {<<"seq", Append(p[2], PriorElem(t[3], j))>>}
  ELSE IF t[1] = "set" THEN {<<"set", Append(p[2], PriorElem(t[3], j))>>}                         \* 71 < 72 < 73: stays ordered
  ELSE IF t[1] = "mmap" THEN {<<"mmap", Append(p[2], <<IF j = 3 THEN 2 ELSE j, PriorElem(t[3], j)>>)>>}   \* keys a, b, b
  ELSE \* map: any larger key index of {1,2,3}
       {<<"map", Append(p[2], <<k, PriorElem(t[3], k)>>)>> : k \in {x \in 1..3 : \A i \in 1..Len(p[2]) : p[2][i][1] < x}}

\* single values
PriorsOf(t) ==
  IF t[1] \in {"str", "atomic"} THEN {PriorElem(t, 1)}
  ELSE IF t[2] = VecI THEN {<<"none">>, <<"some", <<"seq", <<>>>>>>, <<"some", <<"seq", <<PriorElem(I16, 1)>>>>>>,
                           <<"some", <<"seq", <<PriorElem(I16, 1), PriorElem(I16, 2), PriorElem(I16, 3)>>>>>>}
  ELSE {<<"none">>, <<"some", PriorElem(t[2], 1)>>}

-----------------------------------------------------------------------------
(* Documents *)
RecDoc(x, s, p) == <<"obj", << <<"x", x>>, <<"s", s>>, <<"p", p>> >> >>

\* items that may be appended at position j of the document of a container of type t
ItemDocs(t, j) ==
  LET Te == IF t[1] = "tuple" THEN (IF j <= Len(t[2]) THEN t[2][j] ELSE I16) ELSE ElemT(t) IN
  IF t[1] = "set" THEN {I(1), I(2), I(3)}
  ELSE IF t[1] = "mmap" THEN {<<"obj", << <<"key", S(Names[k])>>, <<"value", v>> >> >> : k \in {1, 2}, v \in {I(j), Null}}
  ELSE IF t[1] = "tuple" THEN (IF Te = I16 THEN {I(j), Null} ELSE {S(Names[j]), S("")})
  ELSE IF t[1] = "fix" THEN (IF Te = Bool THEN {<<"b", TRUE>>, <<"b", FALSE>>} ELSE {I(j), Null})
  ELSE IF Te = I16 THEN {I(j), Null, <<"big">>}
  ELSE IF Te = Bool THEN {<<"b", TRUE>>, <<"b", FALSE>>}
  ELSE IF Te = Str THEN {S(Names[j]), S(""), Null}
  ELSE IF Te[1] \in {"opt", "uptr", "sptr"} /\ Te[2][1] = "map" THEN      \* wrapper around a type with a global SerializeObject(), loaded without key
       {<<"obj", << <<"a", I(j)>> >> >>, <<"obj", << <<"a", I(j)>>, <<"b", I(j + 10)>> >> >>, <<"obj", <<>>>>, Null}
  ELSE IF Te[1] \in {"opt", "uptr"} THEN {I(j), Null}
  ELSE IF Te = VecI THEN {Arr(<<>>), Arr(<<I(j)>>), Arr(<<I(j), I(j + 10)>>), Arr(<<I(j), Null>>), Null}
  ELSE \* Rec
       {RecDoc(I(j), S("a"), S("p")), RecDoc(I(j), S(""), Null), RecDoc(Null, S("b"), S("")), RecDoc(I(j), Null, S("q"))}

MapValueDocs(V, k) == IF V = I16 THEN {I(k), Null} ELSE {Arr(<<>>), Arr(<<I(k)>>), Arr(<<I(k), I(k + 10)>>), Null}

Doc0(t) == IF t[1] = "map" THEN <<"obj", <<>>>> ELSE Arr(<<>>)
DocSize(d) == Len(d[2])
MaxDocOf(t) == IF t[1] = "fix" THEN t[3] + (IF t[2] = "bitset" THEN 0 ELSE 1) ELSE IF t[1] = "tuple" THEN Len(t[2]) + 1 ELSE MaxDoc

GrowDocSet(t, d) ==
  IF t[1] = "map" THEN      \* saved from a std::map: keys ascending; key indices {1,2,4} = "a","b","d"
       {<<"obj", Append(d[2], <<Names[k], v>>)>> : k \in {x \in {1, 2, 4} : \A i \in 1..Len(d[2]) : KeyIndex(d[2][i][1]) < x}, v \in MapValueDocs(t[3], 1)}
  ELSE {Arr(Append(d[2], x)) : x \in ItemDocs(t, DocSize(d) + 1) \cup
            \* bool elements (vector<bool>, bitset): a null item where the shared temporary holds FALSE, i.e. where what
            \* the code stores for it equals the value A prescribes (a value-initialised element)
            (IF t[1] \in {"seq", "fix"} /\ ElemT(t) = Bool /\ ~BoolCarry(d[2], 1, FALSE) THEN {Null} ELSE {})}

\* map value documents carry the key index so that values are distinct:  rewritten after the choice
MapDocFix(t, d) ==
  IF t[1] # "map" THEN d
  ELSE <<"obj", [i \in 1..Len(d[2]) |->
         LET k == KeyIndex(d[2][i][1]) v == d[2][i][2] IN
         <<d[2][i][1], IF v[1] = "i" THEN I(k) ELSE IF v[1] = "arr" THEN Arr([q \in 1..Len(v[2]) |-> I(k + 10 * (q - 1))]) ELSE v>>]>>

DocsOf(t) ==
  IF t = Str THEN {S("a"), S("")}
  ELSE IF t[1] = "atomic" THEN {I(1)}
  ELSE IF t[2] = I16 THEN {I(1), Null, <<"absent">>, <<"big">>}
  ELSE IF t[2] = Str THEN {S("a"), S(""), Null, <<"absent">>}
  ELSE {Null, <<"absent">>, Arr(<<>>), Arr(<<I(1)>>), Arr(<<I(1), I(2)>>), Arr(<<I(1), Null>>)}

-----------------------------------------------------------------------------
EstsOf(c, pl) == IF c.T[1] = "seq" /\ pl = "root" THEN {"zero", "exact", "larger"} ELSE {"exact"}

Init == \E c \in MyClasses :
          /\ T = c.T
          /\ place \in c.places
          /\ mode \in c.modes
          /\ est \in EstsOf(c, place)
          /\ mm \in (IF c.mmr THEN {"throw", "skip"} ELSE {"throw"})
          /\ IF Grows(c.T) THEN prior = Prior0(c.T) /\ doc = Doc0(c.T)
             ELSE prior \in PriorsOf(c.T) /\ doc \in DocsOf(c.T)

GrowPrior == /\ Grows(T) /\ CanGrowPrior(T, prior)
             /\ prior' \in GrowPriorSet(T, prior)
             /\ UNCHANGED <<T, place, mode, est, mm, doc>>

GrowDoc == /\ Grows(T) /\ DocSize(doc) < MaxDocOf(T)
           /\ \E d \in GrowDocSet(T, doc) : doc' = MapDocFix(T, d)
           /\ UNCHANGED <<T, place, mode, est, mm, prior>>

\* no size estimate: everything beyond the prior length goes through the "load all left items" loop
PlainItem(Te, j) ==
  IF Te = Bool THEN <<"b", TRUE>>
  ELSE IF Te[1] \in {"opt", "uptr", "sptr"} /\ Te[2][1] = "map" THEN <<"obj", << <<"a", I(j)>> >> >>
  ELSE IF Te = Str THEN S(Names[j])
  ELSE IF Te = VecI THEN Arr(<<I(j)>>)
  ELSE IF Te = Rec THEN RecDoc(I(j), S("a"), S("p"))
  ELSE I(j)
GrowDocNoEstimate ==
           /\ T[1] = "seq" /\ est = "zero" /\ DocSize(doc) >= MaxDoc /\ DocSize(doc) < MaxDocNoEstimate
           /\ doc' = Arr(Append(doc[2], PlainItem(T[3], DocSize(doc) + 1)))
           /\ UNCHANGED <<T, place, mode, est, mm, prior>>

Next == GrowPrior \/ GrowDoc \/ GrowDocNoEstimate
Spec == Init /\ [][Next]_vars

-----------------------------------------------------------------------------
(* M and A in the current state *)
Env(arch, devs) == [arch |-> arch, mm |-> mm, devs |-> devs, est |-> est, root |-> place = "root"]

MPop(arch, devs)   == MLoadMode(T, mode, prior, doc, Env(arch, devs))
MFresh(arch, devs) == MLoadMode(T, mode, Fresh(T), doc, Env(arch, devs))
APop   == ALoadMode(T, mode, Strip(prior), doc, mm)
AFreshR == ALoadMode(T, mode, AFresh(T), doc, mm)

PlainMode == mode \in {"-", "clean"}
CheckArchs == IF CheckDevs = {} THEN {"any"} ELSE {"json", "xml", "msgpack"}

\* M refines A: same error or same final value
RefinesA == \A a \in CheckArchs :
  LET m == MPop(a, CheckDevs) IN m.err = APop.err /\ (m.err = "" => Strip(m.v) = APop.v)

\* loading into the populated target = loading into a default-constructed one (all targets except the two merging map modes)
PopulatedEqualsFresh == \A a \in CheckArchs :
  LET m == MPop(a, CheckDevs) f == MFresh(a, CheckDevs) IN
  PlainMode => (m.err = f.err /\ (m.err = "" => Strip(m.v) = Strip(f.v)))

\* no stale element survives
NoStaleSurvives == \A a \in CheckArchs :
  LET m == MPop(a, CheckDevs) IN (PlainMode /\ m.err = "" /\ (m.ok \/ T[1] \in {"opt", "uptr", "sptr"})) => ~HasStale(m.v)

\* nothing loaded is lost: every loadable leaf of the document is in the result, marked "loaded"
\* (onlyexist: the leaves under keys the map already had)
KeptDoc == IF mode = "onlyexist" /\ doc[1] = "obj"
           THEN <<"obj", SelectSeq(doc[2], LAMBDA kv : KeyIndex(kv[1]) \in MapKeys(prior[2]))>> ELSE doc
NothingLoadedIsLost == \A a \in CheckArchs :
  LET m == MPop(a, CheckDevs) IN
  (m.err = "" /\ m.ok) => \A l \in DocLeaves(KeptDoc) : <<l[1], l[2], "loaded">> \in Leaves(m.v)

\* documented laws of the non-default map modes
OnlyExistNeverAddsAKey ==
  (mode = "onlyexist" /\ MPop("any", {}).err = "") => MapKeys(MPop("any", {}).v[2]) = MapKeys(prior[2])
UpdateNeverRemovesAKey ==
  (mode = "update" /\ MPop("any", {}).err = "") =>
      /\ MapKeys(prior[2]) \subseteq MapKeys(MPop("any", {}).v[2])
      /\ doc[1] = "obj" => MapKeys(MPop("any", {}).v[2]) = MapKeys(prior[2]) \cup {KeyIndex(doc[2][i][1]) : i \in 1..Len(doc[2])}
\* the same laws on A itself
MapLawsOfA ==
  /\ (mode = "onlyexist" /\ APop.err = "") => MapKeys(APop.v[2]) = MapKeys(prior[2])
  /\ (mode = "update" /\ APop.err = "") => MapKeys(prior[2]) \subseteq MapKeys(APop.v[2])
  /\ PlainMode => APop = AFreshR

-----------------------------------------------------------------------------
(* Export *)
Obs(r) == IF r.err # "" THEN <<"err", r.err>> ELSE <<"ok", Canon(r.v)>>
MObs(r) == IF r.err = Crash THEN <<"crash">> ELSE IF r.err # "" THEN <<"err", r.err>> ELSE <<"ok", Canon(Strip(r.v))>>

DevOrder == <<DevReused, DevXmlStr, DevXmlCont, DevJsonNull, DevXmlOver>>
RECURSIVE JoinDevs(_, _, _)
JoinDevs(dv, i, acc) ==
  IF i > Len(DevOrder) THEN acc
  ELSE IF DevOrder[i] \in dv THEN JoinDevs(dv, i + 1, IF acc = "" THEN DevOrder[i] ELSE acc \o "+" \o DevOrder[i])
  ELSE JoinDevs(dv, i + 1, acc)

\* CSV: a flat table.  Expressible: root sequence of Rec whose string members are not null (CSV has no null for
\* strings: an empty field is the empty string; no empty table: an empty array is saved as an empty text, which
\* the CSV reader rejects), array scope reports no size.
RECURSIVE NoNullStrings(_, _)
NoNullStrings(items, i) ==
  i > Len(items) \/ (Member(items[i][2], "s", 1)[1] = "s" /\ Member(items[i][2], "p", 1)[1] = "s" /\ NoNullStrings(items, i + 1))
CsvOk == T[1] = "seq" /\ T[3] = Rec /\ place = "root" /\ est = "zero" /\ doc[2] # <<>> /\ NoNullStrings(doc[2], 1)

Archs == <<"msgpack", "json", "xml">> \o (IF CsvOk THEN <<"csv">> ELSE <<>>)

ExpA == Obs(APop)
ExpB == Obs(AFreshR)

\* deviations that can apply on an archive
ArchDevs(a) == IF a = "json" THEN {DevReused, DevJsonNull}
               ELSE IF a = "xml" THEN {DevReused, DevXmlStr, DevXmlCont, DevXmlOver}
               ELSE {DevReused}

\* The observation depends on WHICH deviations the tree under test still has (a repaired tree has fewer).  Starting
\* from all deviations of the archive, a deviation is switched off only if its guard was true somewhere (fv): with
\* the others the execution is the same.  Result: every subset of deviations that yields a distinct execution.
RECURSIVE DevSubsets(_, _)
DevSubsets(a, ds) ==
  LET F == (MPop(a, ds).fv \cup MFresh(a, ds).fv) \cap ds IN
  {ds} \cup UNION {DevSubsets(a, ds \ {d}) : d \in F}

DevEntry(a, ds) ==
  LET ma == MPop(a, ds) mb == MFresh(a, ds) IN
  [arch |-> a, dev |-> JoinDevs(ma.dv \cup mb.dv, 1, ""), a |-> MObs(ma), b |-> MObs(mb)]

DevEntrySet == UNION {{DevEntry(Archs[i], ds) : ds \in DevSubsets(Archs[i], ArchDevs(Archs[i]))} : i \in 1..Len(Archs)}
DevEntries == {e \in DevEntrySet : e.a # ExpA \/ e.b # ExpB}

\* a difference between M-with-deviations and A must be attributed to at least one named deviation
DeviationsExplainEveryDifference == \A e \in DevEntries : e.dev # ""

Scenario ==
  [t |-> TName(T), place |-> place, mode |-> mode, est |-> est, estn |-> IF doc[1] \in {"arr", "obj"} THEN EstOf(est, Len(doc[2])) ELSE 0,
   mm |-> mm, ov |-> IF DocHas(doc, "big") THEN "skip" ELSE "throw",
   prior |-> Canon(Strip(prior)),
   doc |-> DocOut(IF place = "field" THEN (IF doc = <<"absent">> THEN <<"obj", <<>>>> ELSE <<"obj", << <<"v", doc>> >> >>) ELSE doc),
   archs |-> Archs,
   exp |-> [a |-> ExpA, b |-> ExpB], expdev |-> DevEntries]

Export == PrintT(<<"GEN", ToJson(Scenario)>>)
=============================================================================
