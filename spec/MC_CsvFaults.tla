----------------------------- MODULE MC_CsvFaults -----------------------------
(***************************************************************************)
(* C20, CSV archive: the save / load sessions whose fault points are        *)
(* enumerated by MC_Faults.  A behaviour appends rows to a table; every     *)
(* state is exported as one save scenario (the rows, each with its own set  *)
(* of fields) and one load scenario (the table rendered as CSV text by the  *)
(* specification, and the fields the target class requests).  The module    *)
(* prescribes the outcome of the fault-free run, in particular for the      *)
(* errors the library detects midway through a save or a load:             *)
(*   - a row whose number of values differs from the first row             *)
(*     (detected when the row is finished: ~CCsvWriteObjectScope/NextLine), *)
(*   - text that cannot be encoded for the output stream (ThrowError),      *)
(*   - a cell that does not convert to the requested target type.           *)
(***************************************************************************)
EXTENDS Naturals, Sequences, FiniteSets, TLC, Json

CONSTANTS MaxRows

Keys == << <<97>>, <<98>>, <<99>> >>                 \* "a" "b" "c"
\* cell values: "1", "x,y" (needs quoting), q"r (needs escaping), invalid UTF-8, empty
Values == { <<49>>, <<120, 44, 121>>, <<113, 34, 114>>, <<255>>, <<>> }
Numeric(v) == v = <<49>>

VARIABLES rows,      \* sequence of rows; a row is a sequence of cell values (row i has the fields Keys[1..Len(row)])
          enc, bom, stream, utfpol, mm, atype
vars == <<rows, enc, bom, stream, utfpol, mm, atype>>

Init == /\ rows = <<>>
        /\ enc \in {"utf8", "utf16le"} /\ bom \in BOOLEAN /\ stream \in BOOLEAN
        /\ utfpol \in {"throw", "skip"} /\ mm \in {"throw", "skip"} /\ atype \in {"s", "i"}
        /\ (~stream => enc = "utf8" /\ ~bom)            \* saving to std::string is UTF-8 without BOM

\* a row: its first cell takes any value, further cells are "1"
AddRow == /\ Len(rows) < MaxRows
          /\ \E w \in 1..3, v \in Values :
                rows' = Append(rows, [i \in 1..w |-> IF i = 1 THEN v ELSE <<49>>])
          /\ UNCHANGED <<enc, bom, stream, utfpol, mm, atype>>
Next == AddRow
Spec == Init /\ [][Next]_vars

SameWidth == \A i \in 1..Len(rows) : Len(rows[i]) = Len(rows[1])
HasInvalidUtf == \E i \in 1..Len(rows) : \E j \in 1..Len(rows[i]) : 255 \in {rows[i][j][x] : x \in 1..Len(rows[i][j])}

\* fault-free save
ExpSave == IF ~SameWidth THEN "exception"
           ELSE IF stream /\ enc # "utf8" /\ HasInvalidUtf /\ utfpol = "throw" THEN "exception"
           ELSE "none"

\* ---- the table as CSV text (RFC 4180 style: header line, CRLF, values with separator / quote / line break are quoted) ----
NeedsQuote(v) == \E x \in 1..Len(v) : v[x] \in {44, 34, 13, 10}
RECURSIVE EscQ(_)
EscQ(v) == IF v = <<>> THEN <<>> ELSE (IF Head(v) = 34 THEN <<34, 34>> ELSE <<Head(v)>>) \o EscQ(Tail(v))
Cell(v) == IF NeedsQuote(v) THEN <<34>> \o EscQ(v) \o <<34>> ELSE v
RECURSIVE Join(_)
Join(cs) == IF cs = <<>> THEN <<>> ELSE IF Len(cs) = 1 THEN Cell(cs[1]) ELSE Cell(cs[1]) \o <<44>> \o Join(Tail(cs))
Line(cs) == Join(cs) \o <<13, 10>>
RECURSIVE Lines(_)
Lines(rs) == IF rs = <<>> THEN <<>> ELSE Line(rs[1]) \o Lines(Tail(rs))
Doc == Line(SubSeq(Keys, 1, Len(rows[1]))) \o Lines(rows)

\* fault-free load of Doc: the target requests "b" as text and "a" as text or int32
ExpLoad == IF ~SameWidth THEN "exception"                                        \* row shorter/longer than the header
           ELSE IF atype = "i" /\ mm = "throw" /\ (\E i \in 1..Len(rows) : ~Numeric(rows[i][1]) /\ rows[i][1] # <<>>) THEN "exception"   \* an empty cell is null
           ELSE "none"

SaveRows == [i \in 1..Len(rows) |-> [j \in 1..Len(rows[i]) |-> [k |-> Keys[j], v |-> rows[i][j], t |-> "s"]]]

Export == rows = <<>> \/ PrintT(<<"GEN", ToJson([
            save |-> [rows |-> SaveRows, stream |-> stream, opt |-> [enc |-> enc, bom |-> bom], pol |-> [utf |-> utfpol], exp |-> ExpSave],
            load |-> [doc |-> Doc, stream |-> stream, keys |-> << [k |-> Keys[2], t |-> "s"], [k |-> Keys[1], t |-> atype] >>,
                      pol |-> [mm |-> mm], exp |-> ExpLoad,
                      skip |-> (enc # "utf8" \/ bom \/ utfpol # "throw")]])>>)       \* load scenarios do not depend on these: exported once
\* ---- UTF-16 documents whose supplementary character (a surrogate pair) falls on every alignment against the reader's chunk:
\*      BOM, header "a", one row  x..x U+1F600 y  (pad = number of x)
Wide(c) == <<c, 0>>
RECURSIVE WideAll(_)
WideAll(cs) == IF cs = <<>> THEN <<>> ELSE Wide(Head(cs)) \o WideAll(Tail(cs))
WideDoc(pad) == <<255, 254>> \o WideAll(<<97, 13, 10>>) \o WideAll([i \in 1..pad |-> 120]) \o <<61, 216, 0, 222>> \o WideAll(<<121, 13, 10>>)
ExportWide == (rows = <<>> /\ enc = "utf8" /\ ~bom /\ stream /\ utfpol = "throw" /\ mm = "throw" /\ atype = "s") =>
                \A pad \in 9..14 :
                   PrintT(<<"GEN", ToJson([wload |-> [doc |-> WideDoc(pad), stream |-> TRUE, keys |-> << [k |-> Keys[1], t |-> "s"] >>,
                                                      pol |-> [mm |-> "throw"], exp |-> "none"]])>>)
=============================================================================
