SPECIFICATION Spec
CONSTANTS
  MaxWrites = 3
  ClearBefore = TRUE
  KeepHist = TRUE
INVARIANTS EmittedAgree StepAccepted Export
