INIT Init
NEXT Next
CONSTANT Fix = "clear"
