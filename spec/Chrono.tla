------------------------------- MODULE Chrono -------------------------------
(***************************************************************************)
(* Layer 1: calendar and ISO-8601 text forms of std::chrono values as      *)
(* documented in docs/bitserializer_convert.md ("Date and time conversion")*)
(* and by the comments of conversion_detail/convert_chrono.h.              *)
(*                                                                         *)
(*   - proleptic Gregorian calendar: DaysFromCivil / CivilFromDays (a      *)
(*     400/100/4/1-year decomposition counted from 0000-01-01; deliberately *)
(*     NOT the March-based era algorithm the library uses), IsLeap,        *)
(*     DaysInMonth, NextDay (the defining successor rule used by MC_Chrono) *)
(*   - IsoPrint : tick count x unit -> [+-]Y..Y-MM-DDThh:mm:ss[.f]Z         *)
(*   - DtParse / DtAllowed : text x target -> set of allowed outcomes       *)
(*   - DurPrint, DurParse / DurAllowed : [+-]PnWnDTnHnMnS                   *)
(*   - TsSplit / TsJoin : the CBinTimestamp form (seconds, 0..999999999 ns) *)
(*                                                                         *)
(* Texts are sequences of code points (TLC cannot index strings); wide     *)
(* numbers are BSBigInt values; outcomes are strings  "V:<decimal>" |      *)
(* "I" (std::invalid_argument) | "O" (std::out_of_range).                  *)
(*                                                                         *)
(* DECISIONS (where the documentation leaves room; chosen so that nothing  *)
(* is demanded beyond the property text):                                  *)
(*  D1 strict grammar = what must be accepted:                             *)
(*       YYYY | -Y{4,} | +Y{5,}   (no redundant leading zeros beyond 4     *)
(*       digits), two-digit MM DD hh mm ss, optional [.,]f{1,9}, 'Z', end. *)
(*     lenient superset = same structure with any number of digits per     *)
(*       field, any sign use, more than 9 fraction digits, trailing text   *)
(*       after 'Z'; durations: components repeated or out of order,        *)
(*       trailing text after white space (pinned by the unit tests).       *)
(*       A lenient text has an unambiguous denotation; the library may     *)
(*       either reject it (InvalidArgument) or return exactly the outcome  *)
(*       of that denotation.  Everything else must be InvalidArgument.     *)
(*  D2 rounding of the sub-second fraction: to nearest target tick; an     *)
(*     exact tie may go either way (the documentation says "rounded", the  *)
(*     tests pin .450->0, .501->1).  Nothing but the fraction is rounded:  *)
(*     whole seconds that are not a multiple of the target unit are        *)
(*     OutOfRange ("Allowed rounding only fractions of seconds").          *)
(*  D3 a text that is outside the grammar AND contains a digit run whose   *)
(*     value exceeds 2^31-1 may be reported as OutOfRange instead of       *)
(*     InvalidArgument (two errors apply; the property does not order      *)
(*     them, and a number that cannot even be read is a range error).      *)
(*  D4 seconds 60 (leap second), hour 24 are outside the grammar (tests).  *)
(*  D5 durations: the denotation is the sum of all components; fraction    *)
(*     only on seconds; Y and M(onth) designators are InvalidArgument.     *)
(*  D6 fraction digits printed for a time point: exactly 3/6/9 for ms/us/  *)
(*     ns, none for seconds and coarser (property text: "fraction digits   *)
(*     per precision"); the code comment "only when non-zero" describes    *)
(*     the duration printer.  Duration texts are judged by grammar and     *)
(*     denotation, not by spelling ("PT5.0S" is a correct text of 5000 ms).*)
(***************************************************************************)
EXTENDS BSBigInt

-----------------------------------------------------------------------------
(* Calendar on native integers (|year| below ~ 5 000 000)                   *)

IsLeap(y) == (y % 4 = 0) /\ ((y % 100 # 0) \/ (y % 400 = 0))

DaysInMonth(y, m) ==
  CASE m \in {1, 3, 5, 7, 8, 10, 12} -> 31
    [] m \in {4, 6, 9, 11} -> 30
    [] OTHER -> IF IsLeap(y) THEN 29 ELSE 28

\* days before the first of month m
CumDays(m, leap) ==
  LET c == <<0, 31, 59, 90, 120, 151, 181, 212, 243, 273, 304, 334>>[m] IN
  IF leap /\ m > 2 THEN c + 1 ELSE c

CeilDiv(a, k) == 0 - ((0 - a) \div k)          \* \div is floor division in TLA+

\* days from 0000-01-01 to y-01-01 (negative for y < 0): 365 y + number of leap years in [0, y)
DaysBeforeYear(y) == (365 * y) + CeilDiv(y, 4) - CeilDiv(y, 100) + CeilDiv(y, 400)

EpochShift == 719528                           \* days from 0000-01-01 to 1970-01-01

DaysFromCivil(y, m, d) == DaysBeforeYear(y) + CumDays(m, IsLeap(y)) + (d - 1) - EpochShift

\* position inside a 400-year cycle that starts with a year divisible by 400: r in 0..146096 -> [y(0..399), doy(0..365), leap]
CycleYear(r) ==
  LET c  == IF r < 36525 THEN 0 ELSE 1 + ((r - 36525) \div 36524)          \* century: the first has 36525 days
      rc == IF r < 36525 THEN r ELSE (r - 36525) % 36524
      firstLeap == (c = 0)                                                    \* does the century start with a leap year
      q  == IF firstLeap THEN rc \div 1461 ELSE IF rc < 1460 THEN 0 ELSE 1 + ((rc - 1460) \div 1461)
      r4 == IF firstLeap THEN rc % 1461 ELSE IF rc < 1460 THEN rc ELSE (rc - 1460) % 1461
      grpLeap == firstLeap \/ q > 0                                          \* does the 4-year group start with a leap year
      yi == IF grpLeap THEN (IF r4 < 366 THEN 0 ELSE 1 + ((r4 - 366) \div 365)) ELSE r4 \div 365
      doy == IF grpLeap THEN (IF r4 < 366 THEN r4 ELSE (r4 - 366) % 365) ELSE r4 % 365
  IN [y |-> (100 * c) + (4 * q) + yi, doy |-> doy, leap |-> (grpLeap /\ yi = 0)]

MonthOfDoy(doy, leap) ==
  LET m == SelectLastInSeq([i \in 1..12 |-> i], LAMBDA i : CumDays(i, leap) <= doy) IN
  [m |-> m, d |-> doy - CumDays(m, leap) + 1]

CivilFromDays(dn) ==
  LET z  == dn + EpochShift
      cy == CycleYear(z % 146097)
      md == MonthOfDoy(cy.doy, cy.leap)
  IN [y |-> (400 * (z \div 146097)) + cy.y, m |-> md.m, d |-> md.d]

\* the defining successor rule of the calendar
NextDay(c) ==
  IF c.d < DaysInMonth(c.y, c.m) THEN [c EXCEPT !.d = @ + 1]
  ELSE IF c.m < 12 THEN [y |-> c.y, m |-> c.m + 1, d |-> 1]
  ELSE [y |-> c.y + 1, m |-> 1, d |-> 1]

-----------------------------------------------------------------------------
(* Calendar on wide integers: years and day numbers as BSBigInt             *)

YearMod400(y) == DivModSmall(y, 400).r
IsLeapBig(y) == IsLeap(YearMod400(y))
DaysInMonthBig(y, m) == DaysInMonth(YearMod400(y), m)

CeilDivBig(a, k) == Neg(DivModSmall(Neg(a), k).q)

DaysBeforeYearBig(y) ==
  Add(Sub(Add(MulSmall(y, 365), CeilDivBig(y, 4)), CeilDivBig(y, 100)), CeilDivBig(y, 400))

DaysFromCivilBig(y, m, d) ==
  AddSmall(DaysBeforeYearBig(y), CumDays(m, IsLeapBig(y)) + (d - 1) - EpochShift)

CivilFromDaysBig(dn) ==
  LET z  == AddSmall(dn, EpochShift)
      dm == DivModSmall(z, 146097)
      cy == CycleYear(dm.r)
      md == MonthOfDoy(cy.doy, cy.leap)
  IN [y |-> AddSmall(MulSmall(dm.q, 400), cy.y), m |-> md.m, d |-> md.d]

-----------------------------------------------------------------------------
(* Units and representations                                                *)

Units == <<"ns", "us", "ms", "s", "min", "h", "d">>
Reps  == <<"i64", "i32", "u64", "i8">>

SubSecond(u) == u \in {"ns", "us", "ms"}
FracDigits(u) == CASE u = "ns" -> 9 [] u = "us" -> 6 [] u = "ms" -> 3 [] OTHER -> 0
UnitSeconds(u) == CASE u = "min" -> 60 [] u = "h" -> 3600 [] u = "d" -> 86400 [] OTHER -> 1

\* nanoseconds per tick as a chain of small factors
NsChain(u) ==
  CASE u = "ns" -> <<>> [] u = "us" -> <<1000>> [] u = "ms" -> <<1000, 1000>> [] u = "s" -> <<1000, 1000, 1000>>
    [] u = "min" -> <<1000, 1000, 1000, 60>> [] u = "h" -> <<1000, 1000, 1000, 3600>>
    [] OTHER -> <<1000, 1000, 1000, 86400>>

RepMin(r) == CASE r = "i64" -> I64Min [] r = "i32" -> I32Min [] r = "i16" -> I16Min [] r = "i8" -> I8Min [] OTHER -> Zero
RepMax(r) == CASE r = "i64" -> I64Max [] r = "i32" -> I32Max [] r = "i16" -> I16Max [] r = "i8" -> I8Max
               [] r = "u64" -> U64Max [] r = "u32" -> U32Max [] r = "u16" -> U16Max [] OTHER -> U8Max
RepSigned(r) == r \in {"i64", "i32", "i16", "i8"}
Fits(c, r) == Le(RepMin(r), c) /\ Le(c, RepMax(r))

\* tick count -> [secs (BigInt, floor), ns (0..999999999 as BigInt)]
SplitSeconds(count, u) == DivModChain(MulChain(count, NsChain(u)), <<1000, 1000, 1000>>)

-----------------------------------------------------------------------------
(* Characters                                                               *)

C0 == 48
IsDigit(c) == c >= 48 /\ c <= 57
IsSpace(c) == c = 32 \/ (c >= 9 /\ c <= 13)                \* std::isspace in the "C" locale
ChPlus == 43  ChMinus == 45  ChDot == 46  ChComma == 44  ChColon == 58
ChT == 84  ChZ == 90  ChP == 80  ChW == 87  ChD == 68  ChH == 72  ChM == 77  ChS == 83  ChY == 89

DigitCodes(ds) == [i \in 1..Len(ds) |-> ds[i] + 48]
DigitVals(cs)  == [i \in 1..Len(cs) |-> cs[i] - 48]

\* digits of a natural n, padded with zeros to at least w digits
PadDigits(ds, w) == IF Len(ds) >= w THEN ds ELSE [i \in 1..(w - Len(ds)) |-> 0] \o ds
NatDigits(n, w) == PadDigits(MToDigits(MFromNat(n)), w)

ChrSlow(c) ==
  CASE c = 48 -> "0" [] c = 49 -> "1" [] c = 50 -> "2" [] c = 51 -> "3" [] c = 52 -> "4" [] c = 53 -> "5"
    [] c = 54 -> "6" [] c = 55 -> "7" [] c = 56 -> "8" [] c = 57 -> "9" [] c = 43 -> "+" [] c = 45 -> "-"
    [] c = 46 -> "." [] c = 44 -> "," [] c = 58 -> ":" [] c = 84 -> "T" [] c = 90 -> "Z" [] c = 80 -> "P"
    [] c = 87 -> "W" [] c = 68 -> "D" [] c = 72 -> "H" [] c = 77 -> "M" [] c = 83 -> "S" [] c = 89 -> "Y"
    [] c = 32 -> " " [] OTHER -> "?"
ChrTab == [c \in 0..127 |-> ChrSlow(c)]
Chr(c) == IF c \in 0..127 THEN ChrTab[c] ELSE "?"
CodesToStr(cs) == FoldLeft(LAMBDA acc, c : acc \o Chr(c), "", cs)

-----------------------------------------------------------------------------
(* Printer of time points                                                   *)

\* year field: 0000..9999 plain, '+' above, '-' below zero, at least four digits
YearCodes(y) ==
  LET ds == PadDigits(MToDigits(y.mag), 4) IN
  IF y.neg THEN <<ChMinus>> \o DigitCodes(ds)
  ELSE IF Len(ds) > 4 THEN <<ChPlus>> \o DigitCodes(ds)
  ELSE DigitCodes(ds)

D2(n) == DigitCodes(NatDigits(n, 2))

\* civil [y (BigInt), m, d], second of day, ns of second (BigInt), number of fraction digits
DateTimeCodes(civ, sod, ns, fd) ==
  YearCodes(civ.y) \o <<ChMinus>> \o D2(civ.m) \o <<ChMinus>> \o D2(civ.d) \o <<ChT>> \o
  D2(sod \div 3600) \o <<ChColon>> \o D2((sod % 3600) \div 60) \o <<ChColon>> \o D2(sod % 60) \o
  (IF fd = 0 THEN <<>> ELSE <<ChDot>> \o DigitCodes(SubSeq(PadDigits(MToDigits(ns.mag), 9), 1, fd))) \o <<ChZ>>

\* the same text built directly as a string (hot path of the table generators; MC_Chrono checks both agree)
P2Tab == [n \in 0..99 |-> IF n < 10 THEN "0" \o ToString(n) ELSE ToString(n)]
DigitStr == [d \in 0..9 |-> ToString(d)]
DigitsToStr(ds) == FoldLeft(LAMBDA acc, d : acc \o DigitStr[d], "", ds)
YearStr(y) ==
  LET a == IF Len(y.mag) <= 1 THEN Pad4(MToNat(y.mag)) ELSE MToDec(y.mag) IN
  IF y.neg THEN "-" \o a ELSE IF Len(y.mag) > 1 THEN "+" \o a ELSE a
FracStr(ns, fd) == IF fd = 0 THEN "" ELSE "." \o DigitsToStr(SubSeq(PadDigits(MToDigits(ns.mag), 9), 1, fd))
DateTimeStr(civ, sod, ns, fd) ==
  YearStr(civ.y) \o "-" \o P2Tab[civ.m] \o "-" \o P2Tab[civ.d] \o "T" \o P2Tab[sod \div 3600] \o ":" \o
  P2Tab[(sod % 3600) \div 60] \o ":" \o P2Tab[sod % 60] \o FracStr(ns, fd) \o "Z"

IsoPrintCodes(count, u) ==
  LET sp == SplitSeconds(count, u)
      dd == DivModSmall(sp.q, 86400)
  IN DateTimeCodes(CivilFromDaysBig(dd.q), dd.r, sp.r, FracDigits(u))

IsoPrint(count, u) ==
  LET sp == SplitSeconds(count, u)
      dd == DivModSmall(sp.q, 86400)
  IN DateTimeStr(CivilFromDaysBig(dd.q), dd.r, sp.r, FracDigits(u))

\* year of the printed form (for deviation guards)
IsoYear(count, u) == CivilFromDaysBig(DivModSmall(SplitSeconds(count, u).q, 86400).q).y

-----------------------------------------------------------------------------
(* Scanner helpers (index based; i may be Len(t)+1)                         *)

At(t, i, c) == i <= Len(t) /\ t[i] = c
\* index just after the maximal digit run starting at i
RunEnd(t, i) ==
  IF i > Len(t) THEN i
  ELSE LET k == SelectInSubSeq(t, i, Len(t), LAMBDA c : ~IsDigit(c)) IN IF k = 0 THEN Len(t) + 1 ELSE k
\* digits (values) of t[i..j-1]
RunDigits(t, i, j) == DigitVals(SubSeq(t, i, j - 1))

StripZeros(ds) == LET f == SelectInSeq(ds, LAMBDA d : d # 0) IN IF f = 0 THEN <<>> ELSE SubSeq(ds, f, Len(ds))
\* value of a digit run when it is at most 9 significant digits, else -1 ("huge")
SmallVal(ds) == LET s == StripZeros(ds) IN IF Len(s) > 9 THEN -1 ELSE MToNat(MFromDigits(s))
\* D3: does the text contain a digit run above 2^31-1 ?
HasHugeRun(t) ==
  \E i \in 1..Len(t) :
     /\ IsDigit(t[i]) /\ (i = 1 \/ ~IsDigit(t[i - 1]))
     /\ LET s == StripZeros(RunDigits(t, i, RunEnd(t, i))) IN
        Len(s) > 10 \/ (Len(s) = 10 /\ MCmp(MFromDigits(s), IntMax(32).mag) > 0)

\* compare a fraction tail (digits after the kept ones) with one half: -1 below, 0 tie, 1 above; empty/zero tail = exact (-2)
TailClass(ds) ==
  IF StripZeros(ds) = <<>> THEN -2
  ELSE IF ds[1] < 5 THEN -1
  ELSE IF ds[1] > 5 THEN 1
  ELSE IF StripZeros(SubSeq(ds, 2, Len(ds))) = <<>> THEN 0 ELSE 1

\* fraction digits fr rounded to k digits: set of allowed integer values (0 .. 10^k)
RoundFrac(fr, k) ==
  LET kept == MToNat(MFromDigits(SubSeq(fr \o [i \in 1..k |-> 0], 1, k)))        \* k <= 9
      tc   == IF Len(fr) <= k THEN -2 ELSE TailClass(SubSeq(fr, k + 1, Len(fr)))
  IN CASE tc = -2 -> {kept} [] tc = -1 -> {kept} [] tc = 0 -> {kept, kept + 1} [] OTHER -> {kept + 1}

Outcome(c, r) == IF Fits(c, r) THEN "V:" \o ToDec(c) ELSE "O"

-----------------------------------------------------------------------------
(* Date-time parser.  DtParse returns the syntactic decomposition:          *)
(*   [ok, strict, neg, plus, yd, mo, dd, hh, mi, ss, fr, hasFr]             *)
(* ok = FALSE: not even in the lenient superset.                            *)

DtBad == [ok |-> FALSE, strict |-> FALSE, neg |-> FALSE, yd |-> <<>>, mo |-> <<>>, dd |-> <<>>, hh |-> <<>>,
          mi |-> <<>>, ss |-> <<>>, fr |-> <<>>]

DtParse(t) ==
  LET n    == Len(t)
      sgn  == IF At(t, 1, ChPlus) THEN 1 ELSE IF At(t, 1, ChMinus) THEN -1 ELSE 0
      y1   == IF sgn = 0 THEN 1 ELSE 2
      y2   == RunEnd(t, y1)
      m2   == RunEnd(t, y2 + 1)
      d2   == RunEnd(t, m2 + 1)
      h2   == RunEnd(t, d2 + 1)
      i2   == RunEnd(t, h2 + 1)
      s2   == RunEnd(t, i2 + 1)
      hasF == At(t, s2, ChDot) \/ At(t, s2, ChComma)
      f2   == IF hasF THEN RunEnd(t, s2 + 1) ELSE s2
      shape == /\ y2 > y1 /\ At(t, y2, ChMinus)
               /\ m2 > y2 + 1 /\ At(t, m2, ChMinus)
               /\ d2 > m2 + 1 /\ At(t, d2, ChT)
               /\ h2 > d2 + 1 /\ At(t, h2, ChColon)
               /\ i2 > h2 + 1 /\ At(t, i2, ChColon)
               /\ s2 > i2 + 1
               /\ (hasF => f2 > s2 + 1)
               /\ At(t, f2, ChZ)
  IN IF ~shape THEN DtBad
     ELSE LET yd == RunDigits(t, y1, y2)
              fr == IF hasF THEN RunDigits(t, s2 + 1, f2) ELSE <<>>
              yearStrict == CASE sgn = 0  -> Len(yd) = 4
                              [] sgn = 1  -> Len(yd) >= 5 /\ yd[1] # 0
                              [] OTHER    -> Len(yd) >= 4 /\ (Len(yd) = 4 \/ yd[1] # 0) /\ StripZeros(yd) # <<>>
          IN [ok |-> TRUE,
              strict |-> /\ yearStrict /\ m2 - y2 = 3 /\ d2 - m2 = 3 /\ h2 - d2 = 3 /\ i2 - h2 = 3 /\ s2 - i2 = 3
                         /\ Len(fr) <= 9 /\ f2 = n,
              neg |-> (sgn = -1), yd |-> yd,
              mo |-> RunDigits(t, y2 + 1, m2), dd |-> RunDigits(t, m2 + 1, d2), hh |-> RunDigits(t, d2 + 1, h2),
              mi |-> RunDigits(t, h2 + 1, i2), ss |-> RunDigits(t, i2 + 1, s2), fr |-> fr]

\* field values in range?  (year as BigInt; the day check needs the year's leapness)
DtYear(p) == Mk(p.neg, MFromDigits(p.yd))
DtFieldsOK(p) ==
  LET mo == SmallVal(p.mo) dd == SmallVal(p.dd) hh == SmallVal(p.hh) mi == SmallVal(p.mi) ss == SmallVal(p.ss) IN
  /\ mo >= 1 /\ mo <= 12
  /\ dd >= 1 /\ dd <= DaysInMonthBig(DtYear(p), mo)
  /\ hh >= 0 /\ hh <= 23 /\ mi >= 0 /\ mi <= 59 /\ ss >= 0 /\ ss <= 59

\* whole seconds since the epoch (BigInt) of a parsed text with valid fields
DtSeconds(p) ==
  AddSmall(MulSmall(DaysFromCivilBig(DtYear(p), SmallVal(p.mo), SmallVal(p.dd)), 86400),
           (3600 * SmallVal(p.hh)) + (60 * SmallVal(p.mi)) + SmallVal(p.ss))

\* tick candidates of the denotation (whole seconds secs, fraction digits fr) in unit u: a set of BigInts (two on an exact tie,
\* D2); the empty set when the whole seconds are not a multiple of the unit (nothing but the fraction may be rounded).
\* negFr: the fraction counts downwards (negative durations); time points always count upwards.
UnitCands(secs, fr, negFr, u) ==
  IF SubSecond(u) THEN
     LET k == FracDigits(u)
         base == ShiftDec(secs, k)
     IN {IF negFr THEN Sub(base, FromInt(f)) ELSE Add(base, FromInt(f)) : f \in RoundFrac(fr, k)}
  ELSE LET dm == DivModSmall(secs, UnitSeconds(u)) IN
       IF dm.r # 0 THEN {}
       ELSE IF u = "s" THEN {IF negFr THEN Sub(secs, FromInt(f)) ELSE Add(secs, FromInt(f)) : f \in RoundFrac(fr, 0)}
       ELSE {dm.q}            \* less than half a minute never reaches the next tick
OutcomesOf(cands, r) == IF cands = {} THEN {"O"} ELSE {Outcome(c, r) : c \in cands}
TickOutcomes(secs, fr, negFr, u, r) == OutcomesOf(UnitCands(secs, fr, negFr, u), r)

\* set of allowed outcomes of Convert::To<time_point<system_clock, duration<r, u>>>(t)
DtAllowedP(t, p, u, r) ==
  IF ~p.ok \/ ~DtFieldsOK(p) THEN (IF HasHugeRun(t) THEN {"I", "O"} ELSE {"I"})
  ELSE LET den == TickOutcomes(DtSeconds(p), p.fr, FALSE, u, r) IN
       IF p.strict THEN den ELSE den \cup {"I"}
DtAllowed(t, u, r) == DtAllowedP(t, DtParse(t), u, r)

\* tm target: the fields as written (tm_year = year, tm_mon = month 1..12 -- pinned by the unit tests); the fraction is dropped
TmOutcome(p) ==
  LET y == DtYear(p) IN
  IF ~Fits(y, "i32") THEN "O"
  ELSE "V:" \o ToDec(y) \o "/" \o ToString(SmallVal(p.mo)) \o "/" \o ToString(SmallVal(p.dd)) \o "/" \o
       ToString(SmallVal(p.hh)) \o "/" \o ToString(SmallVal(p.mi)) \o "/" \o ToString(SmallVal(p.ss))
TmAllowedP(t, p) ==
  IF ~p.ok \/ ~DtFieldsOK(p) THEN (IF HasHugeRun(t) THEN {"I", "O"} ELSE {"I"})
  ELSE IF p.strict THEN {TmOutcome(p)} ELSE {TmOutcome(p), "I"}

-----------------------------------------------------------------------------
(* Duration printer (canonical spelling used for generation and for the     *)
(* model-level round-trip invariant; the library's spelling is judged by    *)
(* grammar + denotation, see D6)                                            *)

NatCodes(m) == DigitCodes(MToDigits(m))
TrimTrailingZeros(ds) == LET l == SelectLastInSeq(ds, LAMBDA d : d # 0) IN SubSeq(ds, 1, l)

DurPrintCodes(count, u) ==
  IF IsZero(count) THEN <<ChP, ChT, C0, ChS>>
  ELSE LET sp == DivModChain(MulChain(Abs(count), NsChain(u)), <<1000, 1000, 1000>>)
           dd == DivModSmall(sp.q, 86400)
           h  == dd.r \div 3600
           mi == (dd.r % 3600) \div 60
           s  == dd.r % 60
           fr == TrimTrailingZeros(PadDigits(MToDigits(sp.r.mag), 9))
           timePart == (IF h # 0 THEN NatCodes(MFromNat(h)) \o <<ChH>> ELSE <<>>) \o
                       (IF mi # 0 THEN NatCodes(MFromNat(mi)) \o <<ChM>> ELSE <<>>) \o
                       (IF s # 0 \/ fr # <<>> THEN NatCodes(MFromNat(s)) \o (IF fr # <<>> THEN <<ChDot>> \o DigitCodes(fr) ELSE <<>>) \o <<ChS>> ELSE <<>>)
       IN (IF count.neg THEN <<ChMinus>> ELSE <<>>) \o <<ChP>> \o
          (IF ~IsZero(dd.q) THEN NatCodes(dd.q.mag) \o <<ChD>> ELSE <<>>) \o
          (IF timePart # <<>> THEN <<ChT>> \o timePart ELSE <<>>)

-----------------------------------------------------------------------------
(* Duration parser.  Components are scanned left to right:                  *)
(*   DurScan -> [ok, strict, neg, secs (BigInt >= 0), fr (digits), nfr]      *)
(* ok = FALSE: outside the lenient superset.  yearmonth = TRUE when the     *)
(* failure is a Y or M designator in the date section (still "I").          *)

DesignatorSeconds(c, datePart) ==
  IF datePart THEN (CASE c = ChW -> 604800 [] c = ChD -> 86400 [] OTHER -> 0)
  ELSE (CASE c = ChH -> 3600 [] c = ChM -> 60 [] c = ChS -> 1 [] OTHER -> 0)

\* rank for the canonical order W < D < H < M < S
DesignatorRank(c, datePart) ==
  IF datePart THEN (IF c = ChW THEN 1 ELSE 2) ELSE (CASE c = ChH -> 3 [] c = ChM -> 4 [] OTHER -> 5)

CompSeconds(ds, us) ==
  IF us = 604800 THEN MulChain(Mk(FALSE, MFromDigits(ds)), <<86400, 7>>) ELSE MulSmall(Mk(FALSE, MFromDigits(ds)), us)

\* state: [i, date (in the date section), ok, comps (well-formed components so far: [secs, fr, hasF]), rank, ordered, pend]
RECURSIVE DurLoop(_, _)
DurLoop(t, st) ==
  LET n == Len(t) i == st.i IN
  IF i > n \/ IsSpace(t[i]) THEN st
  ELSE IF st.date /\ t[i] = ChT THEN
       \* the time section must start with a component
       LET j == i + 1 IN
       IF j > n \/ ~IsDigit(t[j]) THEN [st EXCEPT !.ok = FALSE]
       ELSE DurLoop(t, [st EXCEPT !.i = j, !.date = FALSE])
  ELSE IF ~IsDigit(t[i]) THEN [st EXCEPT !.ok = FALSE]
  ELSE LET e   == RunEnd(t, i)
           ds  == RunDigits(t, i, e)
           hasF == At(t, e, ChDot) \/ At(t, e, ChComma)
           f2  == IF hasF THEN RunEnd(t, e + 1) ELSE e
           fr  == IF hasF THEN RunDigits(t, e + 1, f2) ELSE <<>>
       \* pend: the fraction of the failing component when the library has already added it to the sum before it
       \* notices the error (fraction at the very end of the text, or a fractional S in the date section)
       IN IF f2 > n \/ (hasF /\ f2 = e + 1) THEN [st EXCEPT !.ok = FALSE, !.pend = IF hasF /\ f2 > e + 1 THEN fr ELSE <<>>]
          ELSE LET c  == t[f2]
                   us == DesignatorSeconds(c, st.date)
               IN IF us = 0 \/ (hasF /\ c # ChS) THEN [st EXCEPT !.ok = FALSE, !.pend = IF hasF /\ c = ChS THEN fr ELSE <<>>]
                  ELSE LET rk == DesignatorRank(c, st.date) IN
                       DurLoop(t, [st EXCEPT !.i = f2 + 1,
                                             !.comps = Append(@, [secs |-> CompSeconds(ds, us), fr |-> fr, hasF |-> hasF]),
                                             !.ordered = @ /\ rk > st.rank,
                                             !.rank = rk])

\* [ok, hasP, neg, comps, strict, pend]; when ok = FALSE comps are the well-formed components before the error
DurScan(t) ==
  LET n   == Len(t)
      sgn == IF At(t, 1, ChPlus) THEN 1 ELSE IF At(t, 1, ChMinus) THEN -1 ELSE 0
      p1  == IF sgn = 0 THEN 1 ELSE 2
  IN IF ~At(t, p1, ChP) THEN [ok |-> FALSE, hasP |-> FALSE, neg |-> (sgn = -1), comps |-> <<>>, strict |-> FALSE, pend |-> <<>>]
     ELSE LET st == DurLoop(t, [i |-> p1 + 1, date |-> TRUE, ok |-> TRUE, comps |-> <<>>, rank |-> 0, ordered |-> TRUE, pend |-> <<>>])
              ok == st.ok /\ Len(st.comps) > 0
          IN [ok |-> ok, hasP |-> TRUE, neg |-> (sgn = -1), comps |-> st.comps, pend |-> st.pend,
              strict |-> ok /\ st.ordered /\ st.i > n /\ (\A j \in 1..Len(st.comps) : Len(st.comps[j].fr) <= 9)]

\* total whole seconds and the fraction of the first j components
CompsSecs(comps, j) == FoldLeft(LAMBDA acc, i : Add(acc, comps[i].secs), Zero, [i \in 1..j |-> i])
CompsFracs(comps, j) == SelectSeq(SubSeq(comps, 1, j), LAMBDA c : c.hasF)

DurParse(t) ==
  LET sc == DurScan(t) IN
  IF ~sc.ok THEN [ok |-> FALSE, strict |-> FALSE, neg |-> sc.neg, secs |-> Zero, fr |-> <<>>, nfr |-> 0]
  ELSE LET fs == CompsFracs(sc.comps, Len(sc.comps)) IN
       [ok |-> TRUE, strict |-> sc.strict, neg |-> sc.neg, secs |-> CompsSecs(sc.comps, Len(sc.comps)),
        fr |-> IF fs = <<>> THEN <<>> ELSE fs[1].fr, nfr |-> Len(fs)]

\* allowed outcomes of Convert::To<duration<r, u>>(t)
DurAllowedP(t, p, u, r) ==
  IF ~p.ok THEN (IF HasHugeRun(t) THEN {"I", "O"} ELSE {"I"})
  ELSE IF p.nfr > 1 THEN {"unsupported"}      \* two fractional components: never generated; reported as a machinery error
  ELSE LET den == TickOutcomes(IF p.neg THEN Neg(p.secs) ELSE p.secs, p.fr, p.neg, u, r) IN
       IF p.strict THEN den ELSE den \cup {"I"}
DurAllowed(t, u, r) == DurAllowedP(t, DurParse(t), u, r)

\* exact denotation in nanoseconds when the fraction has at most 9 digits (used to judge printed duration texts)
DurNanos(p) ==
  LET ns == Add(MulChain(p.secs, <<1000, 1000, 1000>>), Mk(FALSE, MFromDigits(SubSeq(p.fr \o <<0, 0, 0, 0, 0, 0, 0, 0, 0>>, 1, 9))))
  IN IF p.neg THEN Neg(ns) ELSE ns

\* a printed duration text is correct when it is in the strict grammar and denotes exactly count ticks
DurTextDenotes(t, count, u) ==
  LET p == DurParse(t) IN p.ok /\ p.strict /\ p.nfr <= 1 /\ DurNanos(p) = MulChain(count, NsChain(u))

-----------------------------------------------------------------------------
(* CBinTimestamp: seconds (int64) + nanoseconds 0..999999999                 *)

TsSplit(count, u) ==
  LET sp == SplitSeconds(count, u) IN [sec |-> sp.q, ns |-> sp.r]
\* value of a (sec, ns) pair in ticks of u when exactly representable, else "inexact"
TsJoinNanos(sec, ns) == Add(MulChain(sec, <<1000, 1000, 1000>>), ns)
TsWellFormed(ts) == Ge(ts.ns, Zero) /\ Lt(ts.ns, Pow10(9)) /\ Fits(ts.sec, "i64")
=============================================================================
