INIT Init
NEXT Next
