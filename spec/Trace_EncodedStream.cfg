INIT Init
NEXT Next
