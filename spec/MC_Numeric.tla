----------------------------- MODULE MC_Numeric -----------------------------
(* Exhaustive model-level check of the Numeric specification: the state is a text over the 12-symbol alphabet,  *)
(* grown one symbol per step up to MaxLen.  Invariants (properties the literal grammar must have for            *)
(* "the value of its leading numeric literal" to be well defined):                                              *)
(*   Total        every target has at least one allowed outcome                                                 *)
(*   PrefixStable once two characters follow the integer literal, appending more text changes no verdict       *)
(*   IntVsFloat   a text with an integer literal has a float literal; where the float literal is just that      *)
(*                integer its exact value is the same                                                           *)
(*   Canonical    the canonical decimal text of the literal's value parses to exactly that value (i64/u64),     *)
(*                and with leading blanks as well                                                               *)
(*   BoolDigits   "0"/"1" are false/true, any other single digit is out of range                                *)
EXTENDS Numeric

CONSTANTS MaxLen
VARIABLES t
Alphabet == {32, 9, 45, 48, 49, 57, 46, 101, 120, 233, 0, 97}

Init == t = <<>>
Grow == Len(t) < MaxLen /\ \E c \in Alphabet : t' = Append(t, c)
Next == Grow
Spec == Init /\ [][Next]_t

LitEnd(s) == LET i == SkipBlanks(s) j == IF At(s, i, ChMinus) THEN i + 1 ELSE i IN RunEnd(s, j)

Total == /\ \A i \in 1..8 : IntAllowed(t, IntTypes[i]) # {}
         /\ BoolAllowed(t) # {}
PrefixStable ==
  Len(t) >= 1 =>
     LET s == Front(t) IN
     (IntLit(s).ok /\ LitEnd(s) + 1 <= Len(s)) => \A i \in 1..8 : IntAllowed(t, IntTypes[i]) = IntAllowed(s, IntTypes[i])
IntVsFloat ==
  LET li == IntLit(t) lf == FloatLit(t) IN
  li.ok => /\ lf.ok /\ lf.neg = li.neg
           /\ (lf.end = LitEnd(t) => (lf.x = 0 /\ lf.dig = li.v.mag))
           /\ lf.end >= LitEnd(t)
DecCodes(v) == (IF v.neg THEN <<ChMinus>> ELSE <<>>) \o [k \in 1..Len(ToDigits(v)) |-> ToDigits(v)[k] + 48]
Canonical ==
  LET li == IntLit(t) IN
  li.ok => /\ IntAllowed(DecCodes(li.v), "i64") = {IntOutcome(li.v, "i64")}
           /\ IntAllowed(<<32, 9>> \o DecCodes(li.v) \o <<32>>, "i16") = {IntOutcome(li.v, "i16")}
           /\ (~li.neg => IntAllowed(DecCodes(li.v), "u8") = {IntOutcome(li.v, "u8")})
BoolDigits ==
  (Len(t) = 1 /\ IsDigit(t[1])) => BoolAllowed(t) = (IF t[1] = 48 THEN {"V:0"} ELSE IF t[1] = 49 THEN {"V:1"} ELSE {"O"})
=============================================================================
