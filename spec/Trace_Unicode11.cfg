INIT Init
NEXT Next
