---------------------------- MODULE Trace_Robust ----------------------------
(***************************************************************************)
(* C02: judges the observations of the robustness driver.                   *)
(* One record per (input, build):                                           *)
(*   [id, fmt, cls, rle, u, build, groups]                                  *)
(*   rle    the document in run-length form (archive inputs), u the code    *)
(*          units (converter inputs)                                        *)
(*   build  "gcc" (normal build, every allocation request counted) or       *)
(*          "san" (ASan + UBSan build)                                      *)
(*   groups the runs of the input (target x policy x medium), runs with the *)
(*          same observation merged: [o, x, kind, file, sig, stack, acc,    *)
(*          stream, pk, tb, cnt, ex] with pk / tb the maxima of the merged  *)
(*          runs (the bounds are monotone) and ex one example "t/p/m"       *)
(* Every run must satisfy Robust!RunAllowed; a rejected group is printed    *)
(* with the named deviation that explains it (or "").                       *)
(***************************************************************************)
EXTENDS Robust, Json, IOUtils, TLC
VARIABLE dummy

Traces == ndJsonDeserialize(IOEnv.TRACE)

InputLen(t) == RleLen(t.rle) + (4 * Len(t.u))
\* the bytes themselves are only needed for the count-header guard (MsgPack, documents up to 4 KiB)
DocOf(t) == IF t.fmt = "msgpack" /\ RleLen(t.rle) <= 4096 THEN Expand(t.rle) ELSE <<>>

Judge(t) ==
  LET n == InputLen(t)
      doc == DocOf(t)
  IN \A g \in 1..Len(t.groups) :
        LET r == t.groups[g] IN
        \/ RunAllowed(n, r)
        \/ PrintT(<<"BAD", ToJson([id |-> t.id, build |-> t.build, g |-> g, ex |-> r.ex, cnt |-> r.cnt,
                                   why |-> WhyNot(n, r), dev |-> Classify(t.fmt, t.rle, doc, n, t.build, r),
                                   n |-> n, pk |-> r.pk, tb |-> r.tb, nest |-> NestRun(t.fmt, t.rle)])>>)

ASSUME \A i \in 1..Len(Traces) : Judge(Traces[i])
ASSUME PrintT(<<"CHECKED", ToJson([n |-> Len(Traces)])>>)
Init == dummy = 0
Next == UNCHANGED dummy
=============================================================================
