SPECIFICATION Spec
CONSTANTS
  Centers = {0, 127, 128, 2047, 2048, 55295, 55296, 56319, 56320, 57343, 57344, 65279, 65535, 65536, 131071, 131072, 1048575, 1048576, 1114111, 1114112}
  Radius = 3
  SliceLo = 8192
  SliceHi = 12287
  Slice2Lo = 128000
  Slice2Hi = 130047
INVARIANTS RoundTrip ShortestForm SurrogatesOnlyForSupplementary ByteOrdersMirror BomIsFeff NonScalarRejected
