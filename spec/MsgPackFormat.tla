---------------------------- MODULE MsgPackFormat ----------------------------
(***************************************************************************)
(* Layer 1: the MessagePack specification as mathematics.                   *)
(*                                                                          *)
(* Values (tagged tuples):                                                  *)
(*   <<"nil">>  <<"bool", b>>  <<"int", neg, mag8>>  <<"f32", b4>>           *)
(*   <<"f64", b8>>  <<"str", bytes>>  <<"bin", bytes>>  <<"arr", items>>     *)
(*   <<"map", pairs>> (pairs = sequence of <<key, value>>)                   *)
(*   <<"ext", type, data>>   <<"ts", neg, mag8, nsec>> (Timestamp extension) *)
(* Integers are sign + 8-byte big-endian magnitude because TLC integers are  *)
(* 32-bit.  nsec < 2^30 is a TLC integer, or -1 when the encoded field is    *)
(* larger than 2^31-1 (certainly > 999999999).                               *)
(***************************************************************************)
EXTENDS Naturals, Integers, Sequences, TLC

Huge == 2000000000     \* stands for any length >= 2^31 (always beyond the end of our documents)

Zeros(n) == [i \in 1..n |-> 0]
Pad8(b) == Zeros(8 - Len(b)) \o b

\* big-endian value of <=4 bytes; Huge when it does not fit a TLC integer
BEval(b) ==
  IF Len(b) = 1 THEN b[1]
  ELSE IF Len(b) = 2 THEN b[1] * 256 + b[2]
  ELSE IF b[1] >= 128 THEN Huge
  ELSE ((b[1] * 256 + b[2]) * 256 + b[3]) * 256 + b[4]

BEbytes(n, w) == [i \in 1..w |-> (n \div (256 ^ (w - i))) % 256]   \* n < 2^31

RECURSIVE IsZeroFrom(_, _)
IsZeroFrom(b, i) == IF i > Len(b) THEN TRUE ELSE b[i] = 0 /\ IsZeroFrom(b, i + 1)
IsZero(b) == IsZeroFrom(b, 1)

\* two's complement negation of a byte sequence (same width)
RECURSIVE NegFrom(_, _, _)
NegFrom(b, i, carry) ==   \* processes index i down to 1; returns the new sequence
  IF i = 0 THEN <<>>
  ELSE LET x == (255 - b[i]) + carry IN NegFrom(b, i - 1, x \div 256) \o <<x % 256>>
Negate(b) == NegFrom(b, Len(b), 1)

\* unsigned lexicographic comparison of equally long byte sequences: -1, 0, 1
RECURSIVE CmpFrom(_, _, _)
CmpFrom(a, b, i) == IF i > Len(a) THEN 0 ELSE IF a[i] < b[i] THEN -1 ELSE IF a[i] > b[i] THEN 1 ELSE CmpFrom(a, b, i + 1)
CmpMag(a, b) == CmpFrom(a, b, 1)

IntU(bytes) == <<"int", FALSE, Pad8(bytes)>>                       \* unsigned big-endian
IntS(bytes) == IF bytes[1] >= 128 THEN <<"int", TRUE, Pad8(Negate(bytes))>> ELSE <<"int", FALSE, Pad8(bytes)>>
IntSmall(n) == IF n >= 0 THEN <<"int", FALSE, Pad8(BEbytes(n, 4))>> ELSE <<"int", TRUE, Pad8(BEbytes(-n, 4))>>

Slice(b, p, n) == SubSeq(b, p, p + n - 1)     \* 1-based position p

-----------------------------------------------------------------------------
(* Reference decoder.  Decode(b, p) reads one object starting at 1-based      *)
(* position p.  Result: [ok, err, v, p]  err \in {"", "trunc", "count", "illformed"}   *)

Fail(e, p) == [ok |-> FALSE, err |-> e, v |-> <<"nil">>, p |-> p]
Good(v, p) == [ok |-> TRUE, err |-> "", v |-> v, p |-> p]

Avail(b, p, n) == n < Huge /\ p + n - 1 <= Len(b)

TsFromData(d) ==
  IF Len(d) = 4 THEN <<"ts", FALSE, Pad8(d), 0>>
  ELSE IF Len(d) = 8 THEN
       <<"ts", FALSE, <<0, 0, 0, d[4] % 4, d[5], d[6], d[7], d[8]>>,
         ((d[1] * 256 + d[2]) * 256 + d[3]) * 64 + (d[4] \div 4)>>
  ELSE \* 12 bytes: nanoseconds (uint32) then seconds (int64)
       LET s == IntS(Slice(d, 5, 8)) IN <<"ts", s[2], s[3], BEval(Slice(d, 1, 4))>>

\* dv = TRUE: the named deviation Dev_Timestamp96FieldOrder (timestamp 96 read as seconds(8) then nanoseconds(4))
Signed32(b) == IF b[1] >= 128 THEN 0 - BEval(Negate(b)) ELSE BEval(b)
TsFromDataDev(d) == LET s == IntS(Slice(d, 1, 8)) IN <<"ts", s[2], s[3], Signed32(Slice(d, 9, 4))>>
ExtValue(type, d, dv) ==
  IF type = 255 /\ Len(d) \in {4, 8, 12} THEN (IF dv /\ Len(d) = 12 THEN TsFromDataDev(d) ELSE TsFromData(d)) ELSE <<"ext", type, d>>

RECURSIVE DecodeX(_, _, _), DecodeSeq(_, _, _, _, _), DecodePairs(_, _, _, _, _)

\* reads n consecutive objects; acc = sequence read so far
DecodeSeq(b, p, n, acc, dv) ==
  IF n = 0 THEN Good(acc, p)
  ELSE LET r == DecodeX(b, p, dv) IN IF ~r.ok THEN r ELSE DecodeSeq(b, r.p, n - 1, Append(acc, r.v), dv)

DecodePairs(b, p, n, acc, dv) ==
  IF n = 0 THEN Good(acc, p)
  ELSE LET k == DecodeX(b, p, dv) IN
       IF ~k.ok THEN k
       ELSE LET v == DecodeX(b, k.p, dv) IN
            IF ~v.ok THEN v ELSE DecodePairs(b, v.p, n - 1, Append(acc, <<k.v, v.v>>), dv)

Payload(b, p, hdr, tag) ==      \* hdr = number of length bytes after the format byte
  IF ~Avail(b, p + 1, hdr) THEN Fail("trunc", p)
  ELSE LET n == IF hdr = 0 THEN 0 ELSE BEval(Slice(b, p + 1, hdr)) IN
       IF ~Avail(b, p + 1 + hdr, n) THEN Fail(IF n > Len(b) THEN "count" ELSE "trunc", p)     \* "count": declared length exceeds the whole document
       ELSE Good(<<tag, Slice(b, p + 1 + hdr, n)>>, p + 1 + hdr + n)

Container(b, p, hdr, isMap, dv) ==
  IF ~Avail(b, p + 1, hdr) THEN Fail("trunc", p)
  ELSE LET n == BEval(Slice(b, p + 1, hdr)) IN
       IF n >= Huge \/ n > Len(b) THEN Fail("count", p)      \* more elements declared than bytes present: necessarily truncated
       ELSE IF isMap THEN LET r == DecodePairs(b, p + 1 + hdr, n, <<>>, dv) IN IF r.ok THEN Good(<<"map", r.v>>, r.p) ELSE r
            ELSE LET r == DecodeSeq(b, p + 1 + hdr, n, <<>>, dv) IN IF r.ok THEN Good(<<"arr", r.v>>, r.p) ELSE r

Fixed(b, p, n, kind) ==       \* n data bytes after the format byte
  IF ~Avail(b, p + 1, n) THEN Fail("trunc", p)
  ELSE LET d == Slice(b, p + 1, n) IN
       Good(IF kind = "u" THEN IntU(d) ELSE IF kind = "s" THEN IntS(d) ELSE IF kind = "f32" THEN <<"f32", d>> ELSE <<"f64", d>>,
            p + 1 + n)

ExtFixed(b, p, n, dv) ==
  IF ~Avail(b, p + 1, 1 + n) THEN Fail("trunc", p)
  ELSE Good(ExtValue(b[p + 1], Slice(b, p + 2, n), dv), p + 2 + n)

ExtVar(b, p, hdr, dv) ==
  IF ~Avail(b, p + 1, hdr) THEN Fail("trunc", p)
  ELSE LET n == BEval(Slice(b, p + 1, hdr)) IN
       IF ~Avail(b, p + 1 + hdr, 1) \/ ~Avail(b, p + 2 + hdr, n) THEN Fail(IF n > Len(b) THEN "count" ELSE "trunc", p)
       ELSE Good(ExtValue(b[p + 1 + hdr], Slice(b, p + 2 + hdr, n), dv), p + 2 + hdr + n)

DecodeX(b, p, dv) ==
  IF p > Len(b) THEN Fail("trunc", p)
  ELSE LET c == b[p] IN
    IF c <= 127 THEN Good(IntSmall(c), p + 1)
    ELSE IF c <= 143 THEN
         LET r == DecodePairs(b, p + 1, c - 128, <<>>, dv) IN IF r.ok THEN Good(<<"map", r.v>>, r.p) ELSE r
    ELSE IF c <= 159 THEN
         LET r == DecodeSeq(b, p + 1, c - 144, <<>>, dv) IN IF r.ok THEN Good(<<"arr", r.v>>, r.p) ELSE r
    ELSE IF c <= 191 THEN
         IF Avail(b, p + 1, c - 160) THEN Good(<<"str", Slice(b, p + 1, c - 160)>>, p + 1 + (c - 160)) ELSE Fail("trunc", p)
    ELSE IF c = 192 THEN Good(<<"nil">>, p + 1)
    ELSE IF c = 193 THEN Fail("illformed", p)
    ELSE IF c = 194 THEN Good(<<"bool", FALSE>>, p + 1)
    ELSE IF c = 195 THEN Good(<<"bool", TRUE>>, p + 1)
    ELSE IF c = 196 THEN Payload(b, p, 1, "bin")
    ELSE IF c = 197 THEN Payload(b, p, 2, "bin")
    ELSE IF c = 198 THEN Payload(b, p, 4, "bin")
    ELSE IF c = 199 THEN ExtVar(b, p, 1, dv)
    ELSE IF c = 200 THEN ExtVar(b, p, 2, dv)
    ELSE IF c = 201 THEN ExtVar(b, p, 4, dv)
    ELSE IF c = 202 THEN Fixed(b, p, 4, "f32")
    ELSE IF c = 203 THEN Fixed(b, p, 8, "f64")
    ELSE IF c = 204 THEN Fixed(b, p, 1, "u")
    ELSE IF c = 205 THEN Fixed(b, p, 2, "u")
    ELSE IF c = 206 THEN Fixed(b, p, 4, "u")
    ELSE IF c = 207 THEN Fixed(b, p, 8, "u")
    ELSE IF c = 208 THEN Fixed(b, p, 1, "s")
    ELSE IF c = 209 THEN Fixed(b, p, 2, "s")
    ELSE IF c = 210 THEN Fixed(b, p, 4, "s")
    ELSE IF c = 211 THEN Fixed(b, p, 8, "s")
    ELSE IF c = 212 THEN ExtFixed(b, p, 1, dv)
    ELSE IF c = 213 THEN ExtFixed(b, p, 2, dv)
    ELSE IF c = 214 THEN ExtFixed(b, p, 4, dv)
    ELSE IF c = 215 THEN ExtFixed(b, p, 8, dv)
    ELSE IF c = 216 THEN ExtFixed(b, p, 16, dv)
    ELSE IF c = 217 THEN Payload(b, p, 1, "str")
    ELSE IF c = 218 THEN Payload(b, p, 2, "str")
    ELSE IF c = 219 THEN Payload(b, p, 4, "str")
    ELSE IF c = 220 THEN Container(b, p, 2, FALSE, dv)
    ELSE IF c = 221 THEN Container(b, p, 4, FALSE, dv)
    ELSE IF c = 222 THEN Container(b, p, 2, TRUE, dv)
    ELSE IF c = 223 THEN Container(b, p, 4, TRUE, dv)
    ELSE Good(IntSmall(c - 256), p + 1)

Decode(b, p) == DecodeX(b, p, FALSE)

\* Position just after the object at p, or 0 when there is no complete well-formed object (the format's skip function)
ValueEnd(b, p) == LET r == Decode(b, p) IN IF r.ok THEN r.p ELSE 0

-----------------------------------------------------------------------------
(* Encoder.  `w` is the width policy: 0 = most compact legal format, k > 0 =   *)
(* k formats wider than the most compact one (capped at the widest); 5 = like *)
(* 4 for headers, and non-negative integers in the int8..int64 family.  All   *)
(* encodings produced are legal MessagePack; Enc(v, 0) is the unique shortest.*)

\* number of significant bytes of a magnitude (0 for zero)
RECURSIVE SigFrom(_, _)
SigFrom(m, i) == IF i > 8 THEN 0 ELSE IF m[i] # 0 THEN 9 - i ELSE SigFrom(m, i + 1)
SigBytes(m) == SigFrom(m, 1)
Low(m, n) == SubSeq(m, 9 - n, 8)

\* rank of the smallest format: for non-negative: 0 fixint, 1 uint8, 2 uint16, 3 uint32, 4 uint64
UIntRank(m) == LET s == SigBytes(m) IN
  IF s = 0 \/ (s = 1 /\ m[8] <= 127) THEN 0 ELSE IF s = 1 THEN 1 ELSE IF s = 2 THEN 2 ELSE IF s <= 4 THEN 3 ELSE 4
UIntEnc(m, rank) ==
  IF rank = 0 THEN <<m[8]>> ELSE IF rank = 1 THEN <<204>> \o Low(m, 1) ELSE IF rank = 2 THEN <<205>> \o Low(m, 2)
  ELSE IF rank = 3 THEN <<206>> \o Low(m, 4) ELSE <<207>> \o m

\* negative value -mag: fits n-byte two's complement iff mag <= 2^(8n-1)
NegFits(m, n) == LET s == SigBytes(m) IN s < n \/ (s = n /\ (m[9 - n] < 128 \/ (m[9 - n] = 128 /\ IsZeroFrom(m, 10 - n))))
SIntRank(m) ==   \* 0 negative fixint (-32..-1), 1 int8, 2 int16, 3 int32, 4 int64
  IF SigBytes(m) = 1 /\ m[8] <= 32 THEN 0 ELSE IF NegFits(m, 1) THEN 1 ELSE IF NegFits(m, 2) THEN 2 ELSE IF NegFits(m, 4) THEN 3 ELSE 4
SIntEnc(m, rank) ==
  LET tc == Negate(m) IN
  IF rank = 0 THEN <<tc[8]>> ELSE IF rank = 1 THEN <<208>> \o Low(tc, 1) ELSE IF rank = 2 THEN <<209>> \o Low(tc, 2)
  ELSE IF rank = 3 THEN <<210>> \o Low(tc, 4) ELSE <<211>> \o tc

\* a non-negative integer may also legally travel in a signed format when it fits
PosFitsSigned(m, n) == LET s == SigBytes(m) IN s < n \/ (s = n /\ m[9 - n] < 128)

Min2(a, b) == IF a < b THEN a ELSE b

\* Header of a str/bin/arr/map of n (< 2^31) elements.  fixMax/fixBase describe the one-byte form (fixMax = -1: none),
\* c8 = 0 when the family has no 8-bit length form.  w = how many steps wider than the most compact form.
LenHdrR(n, r, c8, c16, c32) ==
  IF r = 1 THEN <<c8>> \o BEbytes(n, 1) ELSE IF r = 2 THEN <<c16>> \o BEbytes(n, 2) ELSE <<c32>> \o BEbytes(n, 4)
VarHdr(n, w, fixMax, fixBase, c8, c16, c32) ==
  LET has8 == c8 # 0
      base == IF n <= fixMax THEN 0 ELSE IF has8 /\ n <= 255 THEN 1 ELSE IF n <= 65535 THEN 2 ELSE 3
      r0 == Min2(base + w, 3)
      r == IF r0 = 1 /\ ~has8 THEN 2 ELSE r0
  IN IF r = 0 THEN <<fixBase + n>> ELSE LenHdrR(n, r, c8, c16, c32)

RECURSIVE Enc(_, _), EncSeq(_, _, _), EncPairs(_, _, _)
EncSeq(items, w, i) == IF i > Len(items) THEN <<>> ELSE Enc(items[i], w) \o EncSeq(items, w, i + 1)
EncPairs(pairs, w, i) == IF i > Len(pairs) THEN <<>> ELSE Enc(pairs[i][1], w) \o Enc(pairs[i][2], w) \o EncPairs(pairs, w, i + 1)

TsEnc(v, w) ==   \* <<"ts", neg, mag, nsec>> with 0 <= nsec <= 999999999
  LET neg == v[2] m == v[3] ns == v[4]
      fits32 == ~neg /\ ns = 0 /\ SigBytes(m) <= 4
      fits64 == ~neg /\ (SigBytes(m) <= 4 \/ (SigBytes(m) = 5 /\ m[4] <= 3))
      base == IF fits32 THEN 0 ELSE IF fits64 THEN 1 ELSE 2
      r == Min2(base + w, 2)
      sec8 == IF neg THEN Negate(m) ELSE m
  IN IF r = 0 THEN <<214, 255>> \o Low(m, 4)
     ELSE IF r = 1 THEN
          LET b1 == ns \div 4194304        \* ns >> 22
              b2 == (ns \div 16384) % 256
              b3 == (ns \div 64) % 256
              b4 == ((ns % 64) * 4) + (m[4] % 4)
          IN <<215, 255, b1, b2, b3, b4>> \o Low(m, 4)
     ELSE <<199, 12, 255>> \o BEbytes(ns, 4) \o sec8

Enc(v, w) ==
  LET t == v[1] IN
  IF t = "nil" THEN <<192>>
  ELSE IF t = "bool" THEN IF v[2] THEN <<195>> ELSE <<194>>
  ELSE IF t = "int" THEN
       IF v[2] THEN SIntEnc(v[3], Min2(SIntRank(v[3]) + w, 4))
       ELSE IF w = 5 /\ PosFitsSigned(v[3], 8) THEN       \* width policy 5: non-negative integers travel in the signed family
            (IF PosFitsSigned(v[3], 1) THEN <<208>> \o Low(v[3], 1) ELSE IF PosFitsSigned(v[3], 2) THEN <<209>> \o Low(v[3], 2)
             ELSE IF PosFitsSigned(v[3], 4) THEN <<210>> \o Low(v[3], 4) ELSE <<211>> \o v[3])
       ELSE UIntEnc(v[3], Min2(UIntRank(v[3]) + w, 4))
  ELSE IF t = "f32" THEN <<202>> \o v[2]
  ELSE IF t = "f64" THEN <<203>> \o v[2]
  ELSE IF t = "str" THEN
       VarHdr(Len(v[2]), w, 31, 160, 217, 218, 219) \o v[2]
  ELSE IF t = "bin" THEN VarHdr(Len(v[2]), w, -1, 0, 196, 197, 198) \o v[2]
  ELSE IF t = "arr" THEN
       VarHdr(Len(v[2]), w, 15, 144, 0, 220, 221) \o EncSeq(v[2], w, 1)
  ELSE IF t = "map" THEN
       VarHdr(Len(v[2]), w, 15, 128, 0, 222, 223) \o EncPairs(v[2], w, 1)
  ELSE IF t = "ts" THEN TsEnc(v, w)
  ELSE \* ext
       LET n == Len(v[3]) IN
       IF w = 0 /\ n \in {1, 2, 4, 8, 16}
       THEN <<IF n = 1 THEN 212 ELSE IF n = 2 THEN 213 ELSE IF n = 4 THEN 214 ELSE IF n = 8 THEN 215 ELSE 216, v[2]>> \o v[3]
       ELSE LET r == Min2((IF n <= 255 THEN 0 ELSE IF n <= 65535 THEN 1 ELSE 2) + (IF n \in {1, 2, 4, 8, 16} THEN w - 1 ELSE w), 2) IN
            (IF r = 0 THEN <<199>> \o BEbytes(n, 1) ELSE IF r = 1 THEN <<200>> \o BEbytes(n, 2) ELSE <<201>> \o BEbytes(n, 4))
            \o <<v[2]>> \o v[3]

Compact(v) == Enc(v, 0)

-----------------------------------------------------------------------------
(* Named deviation Dev_Timestamp96FieldOrder: the implementation reads and    *)
(* writes timestamp 96 as seconds (8 bytes) followed by nanoseconds (4 bytes); *)
(* the specification puts nanoseconds first.  DevTs96View(v, w) is the value   *)
(* such a reader delivers for the spec-conformant encoding Enc(v, w).          *)
IsTs96(v, w) == v[1] = "ts" /\ Enc(v, w)[1] = 199
Ts96Swapped(v) ==
  LET d == BEbytes(v[4], 4) \o (IF v[2] THEN Negate(v[3]) ELSE v[3])
      s == IntS(SubSeq(d, 1, 8))
  IN <<"ts", s[2], s[3], Signed32(SubSeq(d, 9, 12))>>
RECURSIVE DevTs96View(_, _)
DevTs96View(v, w) ==
  IF v[1] = "ts" THEN (IF IsTs96(v, w) THEN Ts96Swapped(v) ELSE v)
  ELSE IF v[1] = "arr" THEN <<"arr", [i \in 1..Len(v[2]) |-> DevTs96View(v[2][i], w)]>>
  ELSE IF v[1] = "map" THEN <<"map", [i \in 1..Len(v[2]) |-> <<DevTs96View(v[2][i][1], w), DevTs96View(v[2][i][2], w)>>]>>
  ELSE v

\* alternative legal encoding of a non-negative integer in the signed family (int8..int64), k = 1,2,4,8 bytes
EncPosAsSigned(m, k) ==
  IF k = 1 THEN <<208>> \o Low(m, 1) ELSE IF k = 2 THEN <<209>> \o Low(m, 2) ELSE IF k = 4 THEN <<210>> \o Low(m, 4) ELSE <<211>> \o m

=============================================================================
