INIT Init
NEXT Next
