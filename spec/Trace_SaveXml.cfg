INIT Init
NEXT Next
