----------------------------- MODULE MC_SaveLong -----------------------------
(* C08 / C01: documents longer than the output buffers of the writers (pugixml   *)
(* flushes every 2 KiB, stream wrappers and string builders grow in steps): an   *)
(* object with one string member of Lens characters (every 7th one needs         *)
(* escaping) in a compact UTF-8 and a pretty-printed UTF-16 configuration.  The  *)
(* scenarios are exported for the real writers; the produced bytes are parsed    *)
(* by Trace_SaveJson / Trace_SaveXml like every other save scenario.             *)
EXTENDS SaveScript, Json
CONSTANTS Lens, EscChar
VARIABLES root, opt
vars == <<root, opt>>
Text(len) == [i \in 1..len |-> IF (i % 7) = 0 THEN EscChar ELSE 120]
Opts == { [fmt |-> FALSE, padChar |-> 32, padNum |-> 0, enc |-> "utf8", bom |-> FALSE],
          [fmt |-> TRUE, padChar |-> 32, padNum |-> 2, enc |-> "utf16le", bom |-> TRUE] }
Init == /\ \E len \in Lens : root = [k |-> "obj", ops |-> <<[op |-> "req", ks |-> <<97>>, t |-> "str", v |-> <<"str", Text(len)>>],
                                                          [op |-> "req", ks |-> <<98>>, t |-> "i32", v |-> IntSmall(7)]>>]
        /\ opt \in Opts
Next == UNCHANGED vars
Spec == Init /\ [][Next]_vars
Export == PrintT(<<"GEN", ToJson([root |-> root, opt |-> opt])>>)
=============================================================================
