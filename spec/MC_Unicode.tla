----------------------------- MODULE MC_Unicode -----------------------------
(* Internal consistency of the encoding forms of Unicode.tla, explored by TLC as a state machine over a      *)
(* bounded domain of scalar values (every range boundary +-2 of all length classes and planes, plus slices): *)
(*   cp --Encode(e)--> bytes of scheme e --Decode--> code point                                              *)
(* Invariants: Dec(Enc(cp)) = cp in every scheme; shortest form (UTF-8 length class); surrogate code units    *)
(* only for supplementary code points; byte orders mirror each other; the BOM is the encoding of U+FEFF;      *)
(* non-scalar values (surrogates, > U+10FFFF) are never well-formed input in any form.                        *)
EXTENDS Unicode

CONSTANTS Centers, Radius,        \* candidate values c-Radius .. c+Radius around every centre (scalar or not)
          SliceLo, SliceHi, Slice2Lo, Slice2Hi      \* two contiguous slices

VARIABLES cp, stage, e, bytes, back
vars == <<cp, stage, e, bytes, back>>

Candidates == {c \in UNION {(k - Radius)..(k + Radius) : k \in Centers} : c >= 0} \cup (SliceLo..SliceHi) \cup (Slice2Lo..Slice2Hi)

Init == cp \in Candidates /\ stage = "cp" /\ e = "none" /\ bytes = <<>> /\ back = -1

Encode ==
  /\ stage = "cp" /\ IsScalar(cp)
  /\ \E s \in Schemes : e' = s /\ bytes' = EncBytesCp(s, cp)
  /\ stage' = "enc" /\ UNCHANGED <<cp, back>>

Decode ==
  /\ stage = "enc"
  /\ LET d == BytesToUnits(e, bytes)  it == Canon(WidthOf(e), d.units) IN
     back' = IF d.rest = 0 /\ Len(it) = 1 /\ it[1].ok THEN it[1].cp ELSE -2
  /\ stage' = "dec" /\ UNCHANGED <<cp, e, bytes>>

\* a non-scalar candidate: written arithmetically in UTF-16/UTF-32 it must not be well-formed
RejectNonScalar ==
  /\ stage = "cp" /\ ~IsScalar(cp)
  /\ stage' = "rej" /\ UNCHANGED <<cp, e, bytes, back>>

Next == Encode \/ Decode \/ RejectNonScalar
Spec == Init /\ [][Next]_vars

RoundTrip == stage = "dec" => back = cp
ShortestForm ==
  (stage = "enc" /\ e = "Utf8") =>
     /\ Len(bytes) = (IF cp < 128 THEN 1 ELSE IF cp < 2048 THEN 2 ELSE IF cp < 65536 THEN 3 ELSE 4)
     \* no shorter byte string decodes to the same code point: every proper prefix is ill-formed or another code point
     /\ \A n \in 1..(Len(bytes) - 1) : ~(Utf8WfLenAt(SubSeq(bytes, 1, n), 1) = n)
SurrogatesOnlyForSupplementary ==
  (stage = "enc" /\ WidthOf(e) = 16) =>
     LET u == BytesToUnits(e, bytes).units IN
     IF cp < 65536 THEN Len(u) = 1 /\ ~IsSurrogate(u[1]) ELSE Len(u) = 2 /\ IsHigh(u[1]) /\ IsLow(u[2])
ByteOrdersMirror ==
  stage = "enc" =>
     /\ (e = "Utf16le" => bytes = UnitsToBytes("Utf16le", BytesToUnits("Utf16be", EncBytesCp("Utf16be", cp)).units))
     /\ (e = "Utf32be" => \A k \in 1..4 : bytes[k] = EncBytesCp("Utf32le", cp)[5 - k])
BomIsFeff == \A s \in Schemes : Bom(s) = EncBytesCp(s, \hFEFF)
NonScalarRejected ==
  stage = "rej" =>
     /\ WfLenAt(32, <<cp>>, 1) = 0
     /\ (cp <= 65535 => WfLenAt(16, <<cp>>, 1) = 0)
     /\ (IsSurrogate(cp) => Utf8WfLenAt(<<224 + (cp \div 4096), 128 + ((cp \div 64) % 64), 128 + (cp % 64)>>, 1) = 0)
=============================================================================
