------------------------------- MODULE Threads -------------------------------
(* C19 - independent serializations on different threads do not interfere.      *)
(*                                                                              *)
(* T threads, each executing a program = a sequence of operations.  An operation*)
(* is the sequence of accesses to SHARED LOCATIONS (objects in static storage)  *)
(* that was RECORDED FROM THE IMPLEMENTATION (harness/access_harness.cpp):      *)
(*    [k |-> "r",  l |-> loc]    Read(l)                                         *)
(*    [k |-> "w",  l |-> loc]    Write(l)                                        *)
(*    [k |-> "u",  l |-> loc]    Read(l) and Write(l) in one synchronisation-free*)
(*                               segment (an update, e.g. a cache or a counter)  *)
(*    [k |-> "gc", l |-> g]      check of the guard g of a function-local static *)
(*                               (C++11 "magic static"): acquire-load of the     *)
(*                               guard; when the static is not yet initialised   *)
(*                               GuardAcquire(g), the initialiser Blocks[g]      *)
(*                               (its writes are the InitWrite(g,l)),            *)
(*                               GuardRelease(g)                                 *)
(* The guard protocol is the one of [stmt.dcl]/4: one thread runs the           *)
(* initialiser, every other thread that reaches the declaration meanwhile waits,*)
(* completion of the initialisation happens-before every later pass.            *)
(* Static-initialisation writes (before main) and everything main did before    *)
(* starting the threads happen-before all thread steps: clock 0.                *)
(*                                                                              *)
(* Happens-before = program order + guard release -> acquire + thread start,    *)
(* kept with vector clocks (DJIT+): a thread's own component advances at every  *)
(* release.  NoRace: no two conflicting accesses (same location, at least one a *)
(* write, different threads) unordered by happens-before.  Because the relation *)
(* is computed and not sampled, a racy pair is flagged in EVERY interleaving in *)
(* which both accesses occur, whatever order the scheduler chose.               *)
(*                                                                              *)
(* SequentialEquivalence: every read returns the value it returns when the      *)
(* thread's program runs alone (values are tagged by their writer; the value of *)
(* an initialiser write does not depend on which thread ran the initialiser).   *)
(* For recorded results of real runs the same property is the pure operator     *)
(* ResultsEquivalent (used by Trace_Threads).                                   *)
EXTENDS Naturals, Sequences, FiniteSets

CONSTANTS Thr,      \* set of thread ids 1..T
          Ops,      \* [operation name -> sequence of accesses]
          Blocks,   \* [guard name -> sequence of accesses of the initialiser]
          WLocs,    \* the locations written by some summary; must equal WrittenLocs below (a parameter only so that
                    \* TLC evaluates it once: definitions of an instantiated module are not cached)
          FuseSilentReads   \* TRUE: a run of consecutive reads of locations that NO summary writes is one step

-----------------------------------------------------------------------------
Range(s) == {s[i] : i \in DOMAIN s}
Max(a, b) == IF a > b THEN a ELSE b
Join(a, b) == [u \in Thr |-> Max(a[u], b[u])]

BlockOf(g) == IF g \in DOMAIN Blocks THEN Blocks[g] ELSE <<>>

AllSeqs == {Ops[o] : o \in DOMAIN Ops} \cup {Blocks[g] : g \in DOMAIN Blocks}
AllAccesses == UNION {Range(s) : s \in AllSeqs}
\* Only locations that some summary writes can take part in a race or change value.  Reads of all other locations
\* are steps of the interleaving without bookkeeping (they are ordered after the static initialisation, clock 0).
WrittenLocs == {a.l : a \in {x \in AllAccesses : x.k \in {"w", "u"}}}

\* guards reachable from a sequence of accesses (initialisers may contain guard checks themselves; depth bounded)
RECURSIVE GuardsIn(_, _)
GuardsIn(seq, depth) ==
  LET gs == {seq[i].l : i \in {j \in DOMAIN seq : seq[j].k = "gc"}} IN
  gs \cup (IF depth = 0 THEN {} ELSE UNION {GuardsIn(BlockOf(g), depth - 1) : g \in gs})
GuardsOfProgs(progs) == UNION {GuardsIn(Ops[o], 3) : o \in UNION {Range(p) : p \in progs}}
\* written locations that the operations of the given programs can touch
LocsOfProgs(progs) ==
  LET seqs == {Ops[o] : o \in UNION {Range(p) : p \in progs}} \cup {BlockOf(g) : g \in GuardsOfProgs(progs)} IN
  {a.l : a \in {x \in UNION {Range(q) : q \in seqs} : x.k # "gc"}} \cap WLocs

\* locations initialised under guard g (with the guards nested in its initialiser), as <<location, guard>> pairs
RECURSIVE InitPairs(_, _)
InitPairs(g, depth) ==
  LET b == BlockOf(g) IN
  {<<b[i].l, g>> : i \in {j \in DOMAIN b : b[j].k \in {"w", "u"}}}
  \cup (IF depth = 0 THEN {} ELSE UNION {InitPairs(b[i].l, depth - 1) : i \in {j \in DOMAIN b : b[j].k = "gc"}})

-----------------------------------------------------------------------------
\* identification of an access in a behaviour (for the counterexample)
NoAt == [slot |-> 0, op |-> "", in |-> "", i |-> 0, k |-> ""]
\* a race: the access `at` of thread t is not ordered with the last write (firstk = "w") or read (firstk = "r")
\* of loc by thread u
NoRaceRec == [loc |-> "", t |-> 0, at |-> NoAt, u |-> 0, firstk |-> ""]
NoDivergence == [t |-> 0, at |-> NoAt, loc |-> "", saw |-> <<"static">>, expected |-> <<"static">>]

StaticTag == <<"static">>

MInit(prog) ==
  LET progs == Range(prog)
      locs == LocsOfProgs(progs)
      guards == GuardsOfProgs(progs) IN
  [prog     |-> prog,
   slot     |-> [t \in Thr |-> 1],
   stack    |-> [t \in Thr |-> <<[g |-> "", i |-> 1]>>],
   vc       |-> [t \in Thr |-> [u \in Thr |-> IF u = t THEN 1 ELSE 0]],
   wr       |-> [l \in locs |-> [u \in Thr |-> 0]],     \* clock of the last write of l by u (0: none since thread start)
   rd       |-> [l \in locs |-> [u \in Thr |-> 0]],
   val      |-> [l \in locs |-> StaticTag],
   exp      |-> [t \in Thr |-> [l \in locs |-> StaticTag]],
   guard    |-> [g \in guards |-> [st |-> "none", owner |-> 0, vc |-> [u \in Thr |-> 0]]],
   race     |-> NoRaceRec,
   diverged |-> NoDivergence]

Top(m, t) == m.stack[t][Len(m.stack[t])]
Running(m, t) == m.slot[t] <= Len(m.prog[t])
CurOp(m, t) == m.prog[t][m.slot[t]]
CurSeq(m, t) == IF Top(m, t).g = "" THEN Ops[CurOp(m, t)] ELSE BlockOf(Top(m, t).g)
CurAcc(m, t) == CurSeq(m, t)[Top(m, t).i]

Silent(a) == a.k = "r" /\ a.l \notin WLocs

\* what thread t does next:
\*  "idle" | "endop" | "release" | "silent" | "r" | "w" | "u" | "pass" (guard done) | "enter" (guard free)
\*  | "blocked" (guard busy)
Kind(m, t) ==
  IF ~Running(m, t) THEN "idle"
  ELSE IF Top(m, t).i > Len(CurSeq(m, t)) THEN (IF Top(m, t).g = "" THEN "endop" ELSE "release")
  ELSE LET a == CurAcc(m, t) IN
       IF Silent(a) THEN "silent"
       ELSE IF a.k # "gc" THEN a.k
       ELSE IF m.guard[a.l].st = "done" THEN "pass"
       ELSE IF m.guard[a.l].st = "none" THEN "enter"
       ELSE "blocked"

CanStep(kind) == kind \notin {"idle", "blocked"}

SetTopIndex(m, t, j) ==
  LET n == Len(m.stack[t]) IN [m.stack[t] EXCEPT ![n] = [@ EXCEPT !.i = j]]
Advance(m, t) == SetTopIndex(m, t, Top(m, t).i + 1)
\* index after the run of silent reads that starts at the current access
AfterSilentRun(m, t) ==
  LET seq == CurSeq(m, t)
      i == Top(m, t).i IN
  IF ~FuseSilentReads THEN i + 1
  ELSE CHOOSE j \in (i + 1)..(Len(seq) + 1) :
         /\ \A k \in (i + 1)..(j - 1) : Silent(seq[k])
         /\ (j = Len(seq) + 1 \/ ~Silent(seq[j]))

Here(m, t) == [slot |-> m.slot[t], op |-> CurOp(m, t), in |-> Top(m, t).g, i |-> Top(m, t).i, k |-> CurAcc(m, t).k]

\* threads whose last write (or, for a writer, last read) of l is not ordered before the current access of t
UnorderedWriters(m, t, l) == {u \in Thr \ {t} : m.wr[l][u] > m.vc[t][u]}
UnorderedReaders(m, t, l) == {u \in Thr \ {t} : m.rd[l][u] > m.vc[t][u]}

RaceOf(m, t, l, isWrite) ==
  LET ws == UnorderedWriters(m, t, l)
      rs == IF isWrite THEN UnorderedReaders(m, t, l) ELSE {}
  IN IF ws # {} THEN [loc |-> l, t |-> t, at |-> Here(m, t), u |-> CHOOSE x \in ws : TRUE, firstk |-> "w"]
     ELSE IF rs # {} THEN [loc |-> l, t |-> t, at |-> Here(m, t), u |-> CHOOSE x \in rs : TRUE, firstk |-> "r"]
     ELSE NoRaceRec

DivergenceOf(m, t, l) ==
  IF m.diverged = NoDivergence /\ m.val[l] # m.exp[t][l]
  THEN [t |-> t, at |-> Here(m, t), loc |-> l, saw |-> m.val[l], expected |-> m.exp[t][l]]
  ELSE m.diverged

\* one step of thread t whose next step is of the given kind (= Kind(m, t), CanStep(kind))
Step(m, t, kind) ==
  IF kind = "endop" THEN
      [m EXCEPT !.slot[t] = @ + 1, !.stack[t] = <<[g |-> "", i |-> 1]>>]
  ELSE IF kind = "silent" THEN
      [m EXCEPT !.stack[t] = SetTopIndex(m, t, AfterSilentRun(m, t))]
  ELSE IF kind = "release" THEN
      \* GuardRelease(g): initialisation complete; everything this thread did so far happens-before later passes
      LET g == Top(m, t).g IN
      [m EXCEPT !.guard[g] = [st |-> "done", owner |-> 0, vc |-> m.vc[t]],
                !.vc[t][t] = @ + 1,
                !.stack[t] = SubSeq(@, 1, Len(@) - 1)]
  ELSE IF kind = "pass" THEN
      \* the acquire-load of the guard sees the completed initialisation
      LET g == CurAcc(m, t).l
          pairs == InitPairs(g, 3) IN
      [m EXCEPT !.vc[t] = Join(@, m.guard[g].vc),
                !.exp[t] = [l \in DOMAIN @ |-> IF \E p \in pairs : p[1] = l
                                                THEN <<"init", (CHOOSE p \in pairs : p[1] = l)[2]>> ELSE @[l]],
                !.stack[t] = Advance(m, t)]
  ELSE IF kind = "enter" THEN
      \* GuardAcquire(g) returns 1: this thread runs the initialiser
      LET g == CurAcc(m, t).l IN
      [m EXCEPT !.guard[g] = [st |-> "busy", owner |-> t, vc |-> @.vc],
                !.stack[t] = Append(Advance(m, t), [g |-> g, i |-> 1])]
  ELSE
      LET l == CurAcc(m, t).l IN
      IF kind = "r" THEN
          [m EXCEPT !.race = RaceOf(m, t, l, FALSE),
                    !.diverged = DivergenceOf(m, t, l),
                    !.rd[l][t] = m.vc[t][t],
                    !.stack[t] = Advance(m, t)]
      ELSE  \* "w" | "u": Write(l), or InitWrite(g, l) when executed inside the initialiser of guard g
          LET g == Top(m, t).g
              tag == IF g # "" THEN <<"init", g>> ELSE <<"w", t, m.slot[t], Top(m, t).i>> IN
          [m EXCEPT !.race = RaceOf(m, t, l, TRUE),
                    !.diverged = IF kind = "u" THEN DivergenceOf(m, t, l) ELSE @,
                    !.wr[l][t] = m.vc[t][t],
                    !.val[l] = tag,
                    !.exp[t][l] = tag,
                    !.stack[t] = Advance(m, t)]

-----------------------------------------------------------------------------
\* Properties of a machine state
NoRace(m) == m.race = NoRaceRec
SequentialEquivalence(m) == m.diverged = NoDivergence
\* an initialiser is executed by at most one thread, and only by the owner of its guard
GuardDiscipline(m) ==
  \A t \in Thr : \A k \in 2..Len(m.stack[t]) :
      LET g == m.stack[t][k].g IN m.guard[g].st = "busy" /\ m.guard[g].owner = t
Finished(m) == \A t \in Thr : ~Running(m, t)

-----------------------------------------------------------------------------
\* Result level (real executions): every logged result of an operation equals the sequential golden result of that
\* operation.  golden: [operation name -> result]; run: a record with fields op, res
ResultVerdict(golden, run) ==
  IF run.op \notin DOMAIN golden THEN "unknown-operation"
  ELSE IF run.res # golden[run.op] THEN "result-differs-from-sequential"
  ELSE ""
ResultsEquivalent(golden, runs) == \A i \in DOMAIN runs : ResultVerdict(golden, runs[i]) = ""
=============================================================================
