------------------------------- MODULE MC_Faults -------------------------------
(* Enumerates the fault plan: for every probed scenario and every fault kind that   *)
(* applies to it, every fault position 0..n (n = one past the last fault point).    *)
(* Each state is exported as one run for the fault-injection harness.               *)
EXTENDS Faults, Json, IOUtils

Probes == ndJsonDeserialize(IOEnv.PROBES)    \* [id, arch, save, stream, allocs, doc, unit, be, produced, probe]

VARIABLES s, kind, k
vars == <<s, kind, k>>

KindsOf(p) == IF p.save THEN (IF p.stream THEN {"alloc", "ofailat", "othrowat"} ELSE {"alloc"})
              ELSE (IF p.stream THEN {"alloc", "failat", "throwat"} ELSE {"alloc"})
PointsOf(p, kd) == IF kd = "alloc" THEN p.allocs ELSE IF kd \in {"failat", "throwat"} THEN Len(p.doc) ELSE p.produced
RejectOf(p, kd) == IF kd \in {"failat", "throwat"} THEN MustRejectBelow(p.arch, p.doc, p.unit, p.be) ELSE 0

Init == /\ s \in 1..Len(Probes) /\ kind \in KindsOf(Probes[s]) /\ k = 0
Next == /\ k < PointsOf(Probes[s], kind)
        /\ k' = k + 1
        /\ UNCHANGED <<s, kind>>
Spec == Init /\ [][Next]_vars

Export == PrintT(<<"GEN", ToJson([s |-> s, kind |-> kind, k |-> k, n |-> PointsOf(Probes[s], kind), reject |-> RejectOf(Probes[s], kind)])>>)
=============================================================================
