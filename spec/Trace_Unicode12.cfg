INIT Init
NEXT Next
