---------------------------- MODULE EncodedStream ----------------------------
(***************************************************************************)
(* Layer 2, components `DetectEncoding`, `CEncodedStreamReader`,            *)
(* `CEncodedStreamWriter` (include/bitserializer/conversion_detail/         *)
(* convert_utf.h).                                                          *)
(*                                                                         *)
(*  A = what a client of the reader may observe: the detected encoding     *)
(*      (where the property demands it) and the concatenation of all chunk *)
(*      outputs, which must be a decoding of the WHOLE byte stream under    *)
(*      the error policy as Unicode.tla defines it (Explains), ended by     *)
(*      EndFile, or by DecodeError under ThrowError.                        *)
(*  M = the code's own variables: buffer window [start,end) of C bytes,     *)
(*      the istream (get position, eof/fail bits), mUtfType; constructor    *)
(*      (first chunk + DetectEncoding + BOM skip), ReadChunk (squeeze /     *)
(*      refill, aligned end pointer, carry-over of an incomplete tail,      *)
(*      handling at end of file).                                           *)
(* `fix` is a record of booleans naming the variant of the code:            *)
(*   fix.tail    a left-over shorter than one code unit at EOF is treated   *)
(*               like UnexpectedEnd (mark / DecodeError); FALSE = pinned    *)
(*               tree: ReadChunk keeps returning Success (livelock)         *)
(*   fix.detect  zero-byte analysis uses `i + size <= length`; FALSE =      *)
(*               pinned tree `<` (a text of exactly one unit is misdetected) *)
(***************************************************************************)
EXTENDS Unicode

MinOf(a, b) == IF a < b THEN a ELSE b

StartsWith(b, pre) == Len(b) >= Len(pre) /\ \A k \in 1..Len(pre) : b[k] = pre[k]

-----------------------------------------------------------------------------
(* M: DetectEncoding(string_view) -> [utf, off] *)

BomOrder == <<"Utf8", "Utf32le", "Utf32be", "Utf16le", "Utf16be">>     \* the order of the if-chain

RECURSIVE BomScan(_, _)
BomScan(b, k) ==
  IF k > Len(BomOrder) THEN "none"
  ELSE IF StartsWith(b, Bom(BomOrder[k])) THEN BomOrder[k] ELSE BomScan(b, k + 1)

\* zero-byte pattern analysis; i is the 0-based loop index
RECURSIVE Analyse(_, _, _)
Analyse(b, i, fixDetect) ==
  LET n == Len(b)
      Fits(sz) == IF fixDetect THEN i + sz <= n ELSE i + sz < n
      B(k) == b[i + k + 1]
      c32 == (i % 4) = 0 /\ Fits(4) /\ ~(B(0) = 0 /\ B(1) = 0 /\ B(2) = 0 /\ B(3) = 0)
      c16 == (i % 2) = 0 /\ Fits(2) /\ ~(B(0) = 0 /\ B(1) = 0)
  IN IF i >= n THEN "Utf8"
     ELSE IF c32 /\ B(2) = 0 /\ B(3) = 0 THEN "Utf32le"
     ELSE IF c32 /\ B(0) = 0 /\ B(1) = 0 THEN "Utf32be"
     ELSE IF c16 /\ B(1) = 0 THEN "Utf16le"
     ELSE IF c16 /\ B(0) = 0 THEN "Utf16be"
     ELSE Analyse(b, i + 1, fixDetect)

MDetect(b, fixDetect) ==
  IF Len(b) = 0 THEN [utf |-> "Utf8", off |-> 0]
  ELSE LET bm == BomScan(b, 1) IN
       IF bm # "none" THEN [utf |-> bm, off |-> Len(Bom(bm))]
       ELSE [utf |-> Analyse(b, 0, fixDetect), off |-> 0]

-----------------------------------------------------------------------------
(* std::istream over `stream` (libstdc++): read(n) *)

StRead(m, n) ==
  IF m.eofb \/ m.failb THEN [m |-> [m EXCEPT !.failb = TRUE], k |-> 0]
  ELSE LET k == MinOf(n, Len(m.stream) - m.gpos) IN
       [m |-> [m EXCEPT !.gpos = @ + k, !.eofb = (k < n), !.failb = (k < n)], k |-> k]

-----------------------------------------------------------------------------
(* M: the reader.  m = [stream, C, gpos, eofb, failb, start, end, utf]                       *)
(* The buffer [0,end) always holds stream[gpos-end, gpos) (squeezing keeps this), so the     *)
(* buffer content is not a variable of its own.                                              *)

WindowBytes(m) == SubSeq(m.stream, m.gpos - m.end + m.start + 1, m.gpos)

ReadNextEncodedChunk(m) ==
  LET m1 == IF m.start = m.C THEN [m EXCEPT !.start = 0, !.end = 0]
            ELSE IF m.start # 0 THEN [m EXCEPT !.end = @ - m.start, !.start = 0]
            ELSE m
      rd == StRead(m1, m1.C - m1.end)
  IN [m |-> [rd.m EXCEPT !.end = @ + rd.k], ret |-> rd.k # 0]

MConstruct(stream, C, fix) ==
  LET m0 == [stream |-> stream, C |-> C, gpos |-> 0, eofb |-> FALSE, failb |-> FALSE, start |-> 0, end |-> 0, utf |-> "unset"]
      r  == ReadNextEncodedChunk(m0)
  IN IF r.ret THEN LET d == MDetect(WindowBytes(r.m), fix.detect) IN [r.m EXCEPT !.utf = d.utf, !.start = @ + d.off]
     ELSE r.m

MIsEnd(m) == m.start = m.end /\ m.eofb

\* TUtf::Decode on whole code units, as the (repaired) decoders behave on text that is valid up to a
\* possibly truncated final sequence; total on arbitrary input (one mark per bad unit).
\* Returns [out, code, it] (it = number of units consumed).
RECURSIVE MDecFrom(_, _, _, _, _, _, _)
MDecFrom(w, u, tw, skip, mark, i, out) ==
  IF i > Len(u) THEN [out |-> out, code |-> "Success", it |-> Len(u)]
  ELSE LET n == WfLenAt(w, u, i) IN
       IF n > 0 THEN MDecFrom(w, u, tw, skip, mark, i + n, out \o EncUnits(tw, DecAt(w, u, i, n)))
       ELSE IF TruncatedTail(w, u, i) THEN [out |-> out, code |-> "UnexpectedEnd", it |-> i - 1]
       ELSE IF skip THEN MDecFrom(w, u, tw, skip, mark, i + 1, out \o mark)
       ELSE [out |-> out, code |-> "InvalidSequence", it |-> i - 1]

\* same-width paths copy without validation; UTF-16 -> 16 bit holds back a final high surrogate
\* (the code tests `sym >= 0xD800 && sym < 0xDBFF`, so a final U+DBFF is copied)
MCopy16(u) ==
  IF Len(u) > 0 /\ u[Len(u)] >= HighStart /\ u[Len(u)] < HighEnd
  THEN [out |-> SubSeq(u, 1, Len(u) - 1), code |-> "UnexpectedEnd", it |-> Len(u) - 1]
  ELSE [out |-> u, code |-> "Success", it |-> Len(u)]

MDecodeUnits(w, u, tw, skip, mark) ==
  IF w = tw THEN (IF w = 16 THEN MCopy16(u) ELSE [out |-> u, code |-> "Success", it |-> Len(u)])
  ELSE MDecFrom(w, u, tw, skip, mark, 1, <<>>)

\* ReadChunk -> [m, res, out]   (out = the units appended by this call)
MReadChunk(m, tw, skip, mark, fix) ==
  IF MIsEnd(m) THEN [m |-> m, res |-> "EndFile", out |-> <<>>]
  ELSE LET r == ReadNextEncodedChunk(m)  m1 == r.m IN
       IF ~r.ret /\ m1.start = m1.end THEN [m |-> m1, res |-> "EndFile", out |-> <<>>]
       ELSE IF m1.utf = "Utf8" /\ tw = 8
            THEN [m |-> [m1 EXCEPT !.start = 0, !.end = 0], res |-> "Success", out |-> WindowBytes(m1)]
       ELSE \* DecodeChunk<TUtf>
            LET sz      == WidthOf(m1.utf) \div 8
                aligned == m1.end - ((m1.end - m1.start) % sz)
                bytes   == SubSeq(m1.stream, m1.gpos - m1.end + m1.start + 1, m1.gpos - m1.end + aligned)
                units   == BytesToUnits(m1.utf, bytes).units
                d       == MDecodeUnits(WidthOf(m1.utf), units, tw, skip, mark)
                m2      == [m1 EXCEPT !.start = @ + (d.it * sz)]
                cropped == fix.tail /\ d.code = "Success" /\ m2.start # m2.end
            IN IF m2.eofb
               THEN IF d.code = "UnexpectedEnd" \/ cropped
                    THEN IF skip THEN [m |-> [m2 EXCEPT !.start = 0, !.end = 0], res |-> "Success", out |-> d.out \o mark]
                         ELSE [m |-> m2, res |-> "DecodeError", out |-> d.out]
                    ELSE [m |-> m2, res |-> IF d.code = "Success" THEN "Success" ELSE "DecodeError", out |-> d.out]
               ELSE [m |-> m2, res |-> IF d.code \in {"Success", "UnexpectedEnd"} THEN "Success" ELSE "DecodeError", out |-> d.out]

MWellFormed(m) ==
  /\ 0 <= m.start /\ m.start <= m.end /\ m.end <= m.C
  /\ m.end <= m.gpos /\ m.gpos <= Len(m.stream)

-----------------------------------------------------------------------------
(* A: what the property demands *)

\* the bytes can be read, completely and validly, as scheme e (with or without its BOM) such that the reading is
\* inside the property's domain: a BOM, or a first character that is ASCII and not NUL
ValidReading(bytes, e, withBom) ==
  LET pre  == IF withBom THEN Bom(e) ELSE <<>>
      rest == SubSeq(bytes, Len(pre) + 1, Len(bytes))
      d    == BytesToUnits(e, rest)
      w    == WidthOf(e)
  IN /\ StartsWith(bytes, pre)
     /\ d.rest = 0
     \* cheap test first: without a BOM the first character must be ASCII and not NUL
     /\ (withBom \/ (Len(d.units) > 0 /\ d.units[1] >= 1 /\ d.units[1] <= 127))
     /\ AllValid(Canon(w, d.units))

\* some other scheme reads the same bytes just as legitimately: no detector can be required to choose e
Ambiguous(bytes, e) == \E e2 \in Schemes \ {e}, wb \in BOOLEAN : ValidReading(bytes, e2, wb)

\* Is the detection of scheme e demanded for this stream?  bytes = the stream as written (BOM + text, possibly truncated).
\* Demanded when the BOM is complete, or (no BOM) the first character is complete, ASCII and not NUL; and not ambiguous.
DetectionDemanded(bytes, e, hasBom, firstCp, firstLen) ==
  /\ Len(bytes) > 0
  /\ IF hasBom THEN Len(bytes) >= Len(Bom(e)) ELSE (firstCp >= 1 /\ firstCp <= 127 /\ Len(bytes) >= firstLen)
  /\ ~Ambiguous(bytes, e)

\* The concatenated output `out` with the final result `final` (EndFile | DecodeError) is a decoding of `payload`
\* (the stream after the BOM) read as scheme e into width tw under the policy.
StreamAccepts(e, payload, tw, skip, mark, out, final) ==
  LET d == BytesToUnits(e, payload)
      w == WidthOf(e)
      u == d.units
  IN IF w # tw
     THEN ExplainsLong([w |-> w, u |-> u, tw |-> tw, skip |-> skip, mark |-> mark, allowUE |-> FALSE, partial |-> d.rest > 0, h |-> <<>>],
                       [out |-> out, code |-> IF final = "EndFile" THEN "Success" ELSE "InvalidSequence", it |-> -1, cnt |-> -1])
     ELSE \* same width: units are passed through unvalidated by design; an incomplete final sequence / code unit is
          \* either copied as it is (whole units only) or handled per the policy
          LET items == Canon(w, u)
              \* index of the first unit of the trailing truncated tail (Len(u)+1: none)
              tailAt == IF Len(u) > 0 /\ \E k \in 1..Len(u) : TruncatedTail(w, u, k)
                        THEN CHOOSE k \in 1..Len(u) : TruncatedTail(w, u, k) /\ \A j \in 1..(k - 1) : ~TruncatedTail(w, u, j)
                        ELSE Len(u) + 1
              body == SubSeq(u, 1, tailAt - 1)
              hasTail == tailAt <= Len(u) \/ d.rest > 0
          IN \/ final = "EndFile" /\ out = u /\ d.rest = 0
             \/ final = "EndFile" /\ hasTail /\ skip /\ (out = body \o mark \/ out = u \o mark)
             \/ final = "DecodeError" /\ hasTail /\ ~skip /\ (out = body \/ out = u)

-----------------------------------------------------------------------------
(* Writer: CEncodedStreamWriter(stream, e, addBom).Write(text)* = BOM + encoding of the concatenated text *)
WriterBytes(e, addBom, cps) == (IF addBom THEN Bom(e) ELSE <<>>) \o EncBytes(e, cps)

(* The writer as a state machine.                                                                        *)
(*  A: the only state is the byte string emitted so far.  Write(fragment) appends the encoding of the     *)
(*     fragment iff encoding succeeds; a rejected Write (UnexpectedEnd: the fragment ends inside a        *)
(*     sequence; InvalidSequence under ThrowError) emits NOTHING and leaves no trace.                     *)
(*  M: the code keeps a scratch string per target width: Write clears it, Encode() appends to it (the     *)
(*     valid head of a rejected fragment stays there), on success the scratch is written to the stream.   *)
(*     clearBefore = TRUE is the code; FALSE ("clear after the successful write") is the variant that     *)
(*     leaks the head of a rejected fragment into the next accepted Write.                                *)
(* A fragment is a sequence of code units of source width sw (possibly ill-formed).                        *)
WEncode(e, sw, units, skip) == MDecodeUnits(sw, units, WidthOf(e), skip, DefaultMark(WidthOf(e)))

MWriterInit(e, addBom) == [emitted |-> IF addBom THEN Bom(e) ELSE <<>>, scratch |-> <<>>]

MWriterWrite(m, e, sw, units, skip, clearBefore) ==
  IF sw = 8 /\ e = "Utf8" THEN [m |-> [m EXCEPT !.emitted = @ \o units], code |-> "Success"]       \* written "as is"
  ELSE LET s0 == IF clearBefore THEN <<>> ELSE m.scratch
           r  == WEncode(e, sw, units, skip)
           s1 == s0 \o r.out
       IN IF r.code = "Success"
          THEN [m |-> [emitted |-> m.emitted \o UnitsToBytes(e, s1), scratch |-> IF clearBefore THEN s1 ELSE <<>>], code |-> "Success"]
          ELSE [m |-> [m EXCEPT !.scratch = s1], code |-> r.code]

\* A, as a relation on one call (the segmentation of bad runs under Skip is free, hence a relation):
\* `delta` = the bytes this call added to the stream
WriteAccepts(e, sw, units, skip, code, delta) ==
  LET w == WidthOf(e) IN
  IF code # "Success"
  THEN /\ delta = <<>>
       /\ IF code = "UnexpectedEnd" THEN \E i \in 1..Len(units) : TruncatedTail(sw, units, i)
          ELSE code = "InvalidSequence" /\ ~skip /\ sw # w /\ ~AllValid(Canon(sw, units))
  ELSE LET d == BytesToUnits(e, delta) IN
       /\ d.rest = 0
       /\ IF sw = w THEN d.units = units          \* same width: passed through by design
          ELSE Explains([w |-> sw, u |-> units, tw |-> w, skip |-> skip, mark |-> DefaultMark(w), allowUE |-> TRUE, partial |-> FALSE, h |-> <<>>],
                        [out |-> d.units, code |-> "Success", it |-> -1, cnt |-> -1], {})

-----------------------------------------------------------------------------
(* DetectEncoding(std::istream&, skipBomWhenFound): the stream position is part of the state.            *)
(* The caller has already consumed origPos bytes.  M: read up to 128 bytes, detect on them, clear eof,   *)
(* seek to origPos + BOM size (skip) or back to origPos.  seekFromOrig = TRUE is the code; FALSE is the   *)
(* variant that seeks from the beginning of the stream.                                                   *)
DetectProbe == 128
MDetectStream(stream, origPos, skip, fix, seekFromOrig) ==
  LET avail == SubSeq(stream, origPos + 1, MinOf(Len(stream), origPos + DetectProbe))
      d     == MDetect(avail, fix.detect)
  IN [utf |-> d.utf,
      pos |-> IF ~skip THEN origPos
              ELSE IF Len(avail) = d.off THEN origPos + Len(avail)          \* nothing but the BOM was read: no seek
              ELSE IF seekFromOrig THEN origPos + d.off ELSE d.off]

\* A: afterwards the stream stands at the original position, behind the BOM iff one was found and skipping was requested
DetectPosOK(origPos, skip, bomFound, bomSize, pos) == pos = origPos + (IF skip /\ bomFound THEN bomSize ELSE 0)

-----------------------------------------------------------------------------
(* CSV through the stream entry point (LoadObject<CsvArchive>(rows, istream)): the rows read are the rows   *)
(* written, whatever the length of the encoded stream relative to the reader's chunk size.                  *)
(* Plain values only (no separator, quote or line break inside), so the rendering needs no quoting.        *)
CRLF == <<13, 10>>
RECURSIVE JoinLines(_, _, _)
JoinLines(lines, k, finalBreak) ==
  IF k > Len(lines) THEN <<>>
  ELSE lines[k] \o (IF k < Len(lines) \/ finalBreak THEN CRLF ELSE <<>>) \o JoinLines(lines, k + 1, finalBreak)
CsvLine(vals) == vals[1] \o <<44>> \o vals[2]
CsvHeaderAB == << <<97>>, <<98>> >>        \* header "a,b"
CsvRender(header, rows, finalBreak) == JoinLines(<<CsvLine(header)>> \o [k \in DOMAIN rows |-> CsvLine(rows[k])], 1, finalBreak)

=============================================================================
