---------------------------- MODULE ChronoTables ----------------------------
(* TLC as evaluator of the Chrono specification: writes the expected observation table of the day sweep  *)
(* (C14).  One row per day number d (midnight UTC), one entry per (unit, representation):                *)
(*    [d, [ [count, text, reparsed, ts.seconds, ts.nanoseconds, ts-round-trip] | [] (count does not fit) ... ]]          *)
(* The harness reads the day numbers from this very file, executes the real conversions and writes rows   *)
(* of the same shape; the check compares the two files line by line for equality.                        *)
(* IOEnv: OUT file, MODE "range" (LO..HI) | "years" (YLO..YHI) | "seconds" | "limits" | "bounds" (year boundaries of YLO..YHI, month boundaries      *)
(* when MONTHS = 1, each -2..+2 days) | "sample" (N seeded days of the years YLO..YHI), URSET "all" | "core".        *)
EXTENDS Chrono, Json, IOUtils

VARIABLE dummy

EnvInt(s) == atoi(s)      \* Integer.parseInt: accepts a leading minus

URAll  == << <<"d", "i64">>, <<"d", "i32">>, <<"h", "i64">>, <<"h", "i32">>, <<"min", "i64">>, <<"min", "i32">>,
             <<"s", "i64">>, <<"s", "i32">>, <<"ms", "i64">>, <<"us", "i64">>, <<"ns", "i64">> >>
URCore == << <<"d", "i64">>, <<"d", "i32">>, <<"s", "i64">>, <<"ms", "i64">> >>

PerDay(u) == CASE u = "d" -> <<>> [] u = "h" -> <<24>> [] u = "min" -> <<1440>> [] u = "s" -> <<86400>>
               [] u = "ms" -> <<86400, 1000>> [] u = "us" -> <<86400, 1000, 1000>> [] OTHER -> <<86400, 1000, 1000, 1000>>

\* (the environment is read once per table, never per row: IOEnv builds a record of the whole environment on every use)
DayRow(d, UR) ==
  LET civ  == CivilFromDays(d)
      civB == [y |-> FromInt(civ.y), m |-> civ.m, d |-> civ.d]
      T0 == DateTimeStr(civB, 0, Zero, 0)
      T3 == DateTimeStr(civB, 0, Zero, 3)
      T6 == DateTimeStr(civB, 0, Zero, 6)
      T9 == DateTimeStr(civB, 0, Zero, 9)
      dB == FromInt(d)
      sec == ToDec(MulSmall(dB, 86400))
      Obs(ur) == LET c == MulChain(dB, PerDay(ur[1])) IN
                 IF ~Fits(c, ur[2]) THEN <<>>
                 ELSE LET cs == ToDec(c) v == "V:" \o cs fd == FracDigits(ur[1]) IN
                      <<cs, (CASE fd = 0 -> T0 [] fd = 3 -> T3 [] fd = 6 -> T6 [] OTHER -> T9), v, sec, "0", v>>
  IN <<d, [i \in 1..Len(UR) |-> Obs(UR[i])]>>

\* "range": days LO..HI;  "years": every day of the years YLO..YHI
RangeRowsP(lo, hi, ur) == [i \in 1..(hi - lo + 1) |-> DayRow(lo + i - 1, ur)]
RangeRows(ur) == RangeRowsP(EnvInt(IOEnv.LO), EnvInt(IOEnv.HI), ur)
YearRows(ur)  == RangeRowsP(DaysFromCivil(EnvInt(IOEnv.YLO), 1, 1), DaysFromCivil(EnvInt(IOEnv.YHI) + 1, 1, 1) - 1, ur)

\* "bounds": for every year y of YLO..YHI the days -2..+2 around y-01-01 (and around every y-mm-01 when MONTHS = 1)
BoundRowsP(ylo, yhi, ms, ur) ==
  LET n   == (yhi - ylo + 1) * ms * 5
      Day(i) == LET j == i - 1
                    y == ylo + (j \div (ms * 5))
                    m == 1 + ((j \div 5) % ms)
                IN DaysFromCivil(y, m, 1) + ((j % 5) - 2)
  IN [i \in 1..n |-> DayRow(Day(i), ur)]
BoundRows(ur) == BoundRowsP(EnvInt(IOEnv.YLO), EnvInt(IOEnv.YHI), IF IOEnv.MONTHS = "1" THEN 12 ELSE 1, ur)

\* "sample": N days of LO..HI from a small congruential scheme seeded by SEED (products stay below 2^31)
SampleRowsP(lo, hi, n, seed, ur) ==
  LET span == hi - lo + 1
      blocks == (span \div 1000) + 1
      Day(i) == lo + ((((((i * 9973) + (seed * 7)) % blocks) * 1000) + (((i * 7919) + seed) % 1000)) % span)
  IN [i \in 1..n |-> DayRow(Day(i), ur)]
SampleRows(ur) == SampleRowsP(DaysFromCivil(EnvInt(IOEnv.YLO), 1, 1), DaysFromCivil(EnvInt(IOEnv.YHI) + 1, 1, 1) - 1,
                              atoi(IOEnv.N), atoi(IOEnv.SEED) % 10007, ur)

\* "seconds": every second SLO..SHI of the DAYIDX-th selected day, for the units that can hold a second
SelectedDays ==
  << DaysFromCivil(1969, 12, 31), DaysFromCivil(2024, 2, 29), DaysFromCivil(1970, 1, 1), DaysFromCivil(2000, 2, 29),
     DaysFromCivil(1900, 2, 28), DaysFromCivil(1900, 3, 1), DaysFromCivil(2100, 2, 28), DaysFromCivil(1600, 2, 29),
     DaysFromCivil(0, 1, 1), DaysFromCivil(-1, 12, 31), DaysFromCivil(9999, 12, 31), DaysFromCivil(10000, 1, 1),
     DaysFromCivil(2262, 4, 11), DaysFromCivil(1677, 9, 21), DaysFromCivil(2038, 1, 19), DaysFromCivil(1901, 12, 13),
     DaysFromCivil(-400, 2, 29), DaysFromCivil(2400, 2, 29) >>
URSec == << <<"s", "i64">>, <<"s", "i32">>, <<"ms", "i64">>, <<"us", "i64">>, <<"ns", "i64">> >>
PerSecond(u) == CASE u = "s" -> <<>> [] u = "ms" -> <<1000>> [] u = "us" -> <<1000, 1000>> [] OTHER -> <<1000, 1000, 1000>>
SecondRowsP(d, lo, hi) ==
  LET civ == CivilFromDays(d)
      civB == [y |-> FromInt(civ.y), m |-> civ.m, d |-> civ.d]
      base == MulSmall(FromInt(d), 86400)
      Row(sod) ==
        LET secs == AddSmall(base, sod)
            sec == ToDec(secs)
            Obs(ur) == LET c == MulChain(secs, PerSecond(ur[1])) IN
                       IF ~Fits(c, ur[2]) THEN <<>>
                       ELSE LET cs == ToDec(c) v == "V:" \o cs IN
                            <<cs, DateTimeStr(civB, sod, Zero, FracDigits(ur[1])), v, sec, "0", v>>
        IN <<d, sod, [i \in 1..Len(URSec) |-> Obs(URSec[i])]>>
  IN [i \in 1..(hi - lo + 1) |-> Row(lo + i - 1)]
SecondRows == SecondRowsP(SelectedDays[atoi(IOEnv.DAYIDX)], atoi(IOEnv.SLO), atoi(IOEnv.SHI))

\* "limits": requests for the list mode of the harness: neighbourhoods of min / max / zero of every printable
\* (unit, representation) for time points and durations, time_t, and the first / last tick of remarkable years
PrintableUR == << <<"ns", "i64">>, <<"us", "i64">>, <<"ms", "i64">>, <<"s", "i64">>, <<"min", "i64">>, <<"h", "i64">>, <<"d", "i64">>,
                  <<"s", "i32">>, <<"min", "i32">>, <<"h", "i32">>, <<"d", "i32">> >>     \* 32-bit: coarse units only (quantifier of C14)
Around(x) == {AddSmall(x, k) : k \in -3..3}
YearStarts == {-10000, -9999, -1000, -999, -100, -99, -10, -9, -1, 0, 1, 1000, 1582, 1583, 1970, 9999, 10000, 99999, 100000, 1000000}
TicksPerDayChain(u) ==
  CASE u = "ns" -> <<86400, 1000, 1000, 1000>> [] u = "us" -> <<86400, 1000, 1000>> [] u = "ms" -> <<86400, 1000>>
    [] u = "s" -> <<86400>> [] u = "min" -> <<1440>> [] u = "h" -> <<24>> [] OTHER -> <<>>
LimitCounts(ur) ==
  LET yrs == UNION {Around(MulChain(FromInt(DaysFromCivil(y, 1, 1)), TicksPerDayChain(ur[1]))) : y \in YearStarts}
      \* 16-digit years: where the 32 byte print buffer ends
      huge == UNION {Around(MulChain(DaysFromCivilBig(Mk(sg, MShiftDec(<<1>>, e)), 1, 1), TicksPerDayChain(ur[1]))) : e \in {14, 15, 16}, sg \in {TRUE, FALSE}}
      \* sub-second units: the first (partial) second and the first whole second above min(), the last two below max(),
      \* in eighths of a second with their +-1 tick neighbours, and the exact second boundaries in between
      tps == CASE ur[1] = "ns" -> 1000000000 [] ur[1] = "us" -> 1000000 [] ur[1] = "ms" -> 1000 [] OTHER -> 0
      edge(lim, sg) ==
        IF tps = 0 THEN {}
        ELSE UNION {{AddSmall(lim, sg * ((j * (tps \div 8)) + d)) : d \in {-1, 0, 1}} : j \in 0..16}
             \cup UNION {LET b == MulChain(AddSmall(DivModChain(lim, IF tps = 1000 THEN <<1000>> ELSE IF tps = 1000000 THEN <<1000, 1000>> ELSE <<1000, 1000, 1000>>).q, s),
                                           IF tps = 1000 THEN <<1000>> ELSE IF tps = 1000000 THEN <<1000, 1000>> ELSE <<1000, 1000, 1000>>)
                          IN {AddSmall(b, d) : d \in {-1, 0, 1}} : s \in -2..3}
      \* every MsgPack timestamp format class and its boundaries: seconds 0..2^32-1 with no sub-second part (timestamp 32),
      \* 2^32..2^34-1 or a sub-second part (timestamp 64), negative or >= 2^34 (timestamp 96); each with sub-second part
      \* 0, one tick and one tick below the next second
      tpsC == IF tps = 0 THEN <<>> ELSE IF tps = 1000 THEN <<1000>> ELSE IF tps = 1000000 THEN <<1000, 1000>> ELSE <<1000, 1000, 1000>>
      perSec == IF ur[1] \in {"ns", "us", "ms", "s"} THEN 1 ELSE UnitSeconds(ur[1])
      tsSecs == UNION {Around(x) : x \in {Zero, I32Max, Pow2(32), Pow2(33), Pow2(34), Neg(Pow2(32)), Neg(Pow2(34))}}
      tsb == UNION {IF perSec = 1 THEN {AddSmall(MulChain(sx, tpsC), f) : f \in (IF tps = 0 THEN {0} ELSE {0, 1, tps - 1})}
                    ELSE LET dm == DivModSmall(sx, perSec) IN {dm.q}
                    : sx \in tsSecs}
      \* remarkable calendar years for time_t (text archives must hold years outside the 64-bit nanosecond range)
      yrs2 == UNION {Around(MulChain(FromInt(DaysFromCivil(y, 1, 1)), TicksPerDayChain(ur[1]))) : y \in {1677, 1678, 2262, 2263, 3000, 2106, 2107, 2514, 2515}}
  IN {c \in Around(RepMin(ur[2])) \cup Around(RepMax(ur[2])) \cup Around(Zero) \cup yrs \cup yrs2 \cup huge \cup tsb
            \cup edge(RepMin(ur[2]), 1) \cup edge(RepMax(ur[2]), -1) : Fits(c, ur[2])}
LimitRows ==
  LET Req(k, ur) == {[k |-> k, u |-> ur[1], r |-> ur[2], c |-> ToDec(c)] : c \in LimitCounts(ur)}
      all == UNION {Req("tp", PrintableUR[i]) \cup Req("dur", PrintableUR[i]) : i \in 1..Len(PrintableUR)} \cup Req("time_t", <<"s", "i64">>)
  IN SetToSeq(all)

RowsFor(mode, ur) ==
  CASE mode = "range" -> RangeRows(ur) [] mode = "years" -> YearRows(ur) [] mode = "bounds" -> BoundRows(ur) [] mode = "seconds" -> SecondRows
    [] mode = "limits" -> LimitRows [] OTHER -> SampleRows(ur)
Rows == RowsFor(IOEnv.MODE, IF IOEnv.URSET = "core" THEN URCore ELSE URAll)

ASSUME ndJsonSerialize(IOEnv.OUT, Rows)
ASSUME PrintT(<<"WROTE", ToJson([n |-> Len(Rows)])>>)

Init == dummy = 0
Next == UNCHANGED dummy
=============================================================================
