---------------------------- MODULE ChronoTables ----------------------------
(* TLC as evaluator of the Chrono specification: writes the expected observation table of the day sweep  *)
(* (C14).  One row per day number d (midnight UTC), one entry per (unit, representation):                *)
(*    [d, [ [count, text, reparsed, ts.seconds, ts.nanoseconds, ts-round-trip] | [] (count does not fit) ... ]]          *)
(* The harness reads the day numbers from this very file, executes the real conversions and writes rows   *)
(* of the same shape; the check compares the two files line by line for equality.                        *)
(* IOEnv: OUT file, MODE "range" (LO..HI) | "bounds" (year boundaries of YLO..YHI, month boundaries      *)
(* when MONTHS = 1, each -2..+2 days) | "sample" (N seeded days of LO..HI), URSET "all" | "core".        *)
EXTENDS Chrono, Json, IOUtils

VARIABLE dummy

Mode == IOEnv.MODE
EnvInt(s) == atoi(s)      \* Integer.parseInt: accepts a leading minus

URAll  == << <<"d", "i64">>, <<"d", "i32">>, <<"h", "i64">>, <<"h", "i32">>, <<"min", "i64">>, <<"min", "i32">>,
             <<"s", "i64">>, <<"s", "i32">>, <<"ms", "i64">>, <<"us", "i64">>, <<"ns", "i64">> >>
URCore == << <<"d", "i64">>, <<"d", "i32">>, <<"s", "i64">>, <<"ms", "i64">> >>
UR == IF IOEnv.URSET = "core" THEN URCore ELSE URAll

PerDay(u) == CASE u = "d" -> <<>> [] u = "h" -> <<24>> [] u = "min" -> <<1440>> [] u = "s" -> <<86400>>
               [] u = "ms" -> <<86400, 1000>> [] u = "us" -> <<86400, 1000, 1000>> [] OTHER -> <<86400, 1000, 1000, 1000>>

DayRow(d) ==
  LET civ  == CivilFromDays(d)
      civB == [y |-> FromInt(civ.y), m |-> civ.m, d |-> civ.d]
      T0 == DateTimeStr(civB, 0, Zero, 0)
      T3 == DateTimeStr(civB, 0, Zero, 3)
      T6 == DateTimeStr(civB, 0, Zero, 6)
      T9 == DateTimeStr(civB, 0, Zero, 9)
      dB == FromInt(d)
      sec == ToDec(MulSmall(dB, 86400))
      Obs(ur) == LET c == MulChain(dB, PerDay(ur[1])) IN
                 IF ~Fits(c, ur[2]) THEN <<>>
                 ELSE LET cs == ToDec(c) v == "V:" \o cs fd == FracDigits(ur[1]) IN
                      <<cs, (CASE fd = 0 -> T0 [] fd = 3 -> T3 [] fd = 6 -> T6 [] OTHER -> T9), v, sec, "0", v>>
  IN <<d, [i \in 1..Len(UR) |-> Obs(UR[i])]>>

\* "range"
RangeRows == LET lo == EnvInt(IOEnv.LO) hi == EnvInt(IOEnv.HI) IN [i \in 1..(hi - lo + 1) |-> DayRow(lo + i - 1)]

\* "bounds": for every year y of YLO..YHI the days -2..+2 around y-01-01 (and around every y-mm-01 when MONTHS = 1)
BoundRows ==
  LET ylo == EnvInt(IOEnv.YLO) yhi == EnvInt(IOEnv.YHI)
      ms  == IF IOEnv.MONTHS = "1" THEN 12 ELSE 1
      n   == (yhi - ylo + 1) * ms * 5
      Day(i) == LET j == i - 1
                    y == ylo + (j \div (ms * 5))
                    m == 1 + ((j \div 5) % ms)
                IN DaysFromCivil(y, m, 1) + ((j % 5) - 2)
  IN [i \in 1..n |-> DayRow(Day(i))]

\* "sample": N days of LO..HI from a small congruential scheme seeded by SEED (products stay below 2^31)
SampleRows ==
  LET lo == EnvInt(IOEnv.LO) hi == EnvInt(IOEnv.HI) n == atoi(IOEnv.N) seed == atoi(IOEnv.SEED) % 10007
      span == hi - lo + 1
      blocks == (span \div 1000) + 1
      Day(i) == lo + ((((((i * 9973) + (seed * 7)) % blocks) * 1000) + (((i * 7919) + seed) % 1000)) % span)
  IN [i \in 1..n |-> DayRow(Day(i))]

Rows == CASE Mode = "range" -> RangeRows [] Mode = "bounds" -> BoundRows [] OTHER -> SampleRows

ASSUME ndJsonSerialize(IOEnv.OUT, Rows)
ASSUME PrintT(<<"WROTE", ToJson([n |-> Len(Rows)])>>)

Init == dummy = 0
Next == UNCHANGED dummy
=============================================================================
