-------------------------- MODULE Trace_MsgPackScope --------------------------
(* Trace validation of the private cursor of CMsgPackReadObjectScope: after     *)
(* every public call on an object scope the harness logs (friend projection)    *)
(* mIndex, whether mCurrentKey is set and the reader position; each scope of a  *)
(* run is one trace [doc, start, size, recs].  The recorded state must be the   *)
(* state of M (MsgPackScope) after the same call on the same bytes, and must    *)
(* satisfy CursorConsistent.  Positions are logged 0-based, the model is 1-based *)
EXTENDS MsgPackScope, Json, IOUtils
VARIABLE dummy
Traces == ndJsonDeserialize(IOEnv.TRACE)

StateEq(m, r) == m.index = r.i /\ m.ck = r.ck /\ m.pos = r.p + 1

StepRec(b, m, r) ==
  IF r.op = "visit" THEN MVisit(b, m).m
  ELSE MRequest(b, m, r.k).m          \* req / obj / arr: the value of a found key is consumed (loaded, skipped by policy, or a nested scope that was closed)

RECURSIVE Walk(_, _, _, _)
Walk(t, b, m, i) ==
  IF i > Len(t.recs) THEN ""
  ELSE LET m1 == StepRec(b, m, t.recs[i]) IN
       IF m1.err THEN ""                          \* the bytes are damaged here: what happens is decided by C07, not by this model
       ELSE IF ~StateEq(m1, t.recs[i]) THEN "M-state after call " \o ToString(i) \o " (" \o t.recs[i].op \o ")"
       ELSE IF ~CursorConsistent(b, m1) THEN "cursor inconsistent after call " \o ToString(i)
       ELSE Walk(t, b, m1, i + 1)

Verdict(t) ==
  LET m0 == MInitScope(t.start + 1, t.size) IN
  IF ~StateEq(m0, t.enter) THEN "M-init" ELSE Walk(t, t.doc, m0, 1)

ASSUME \A i \in 1..Len(Traces) :
          LET v == Verdict(Traces[i]) IN
          v = "" \/ PrintT(<<"BAD", ToJson([id |-> Traces[i].id, why |-> v])>>)
ASSUME PrintT(<<"CHECKED", ToJson([n |-> Len(Traces)])>>)
Init == dummy = 0
Next == UNCHANGED dummy
=============================================================================
