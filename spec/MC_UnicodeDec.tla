--------------------------- MODULE MC_UnicodeDec ---------------------------
(* The decoder transition system DecStep of Unicode.tla as a TLC state machine, explored exhaustively  *)
(* for every code-unit string up to MaxLen over small alphabets that contain a representative of every *)
(* well-formedness class.  Checked for EVERY behaviour (every segmentation of every bad run):           *)
(*   safety   - the iterator never leaves the input; the output is well-formed in the target form;      *)
(*              valid items are preserved verbatim and in order; error count = number of marks;         *)
(*              valid input has exactly one outcome (Success, exact encoding, round trip);              *)
(*              the acceptor `Explains` (used for trace validation) accepts every generated behaviour   *)
(*   liveness - every behaviour terminates (FairSpec, <>Done)                                           *)
EXTENDS Unicode, FiniteSets

CONSTANTS MaxLen, Alpha8, Alpha16, Alpha32, MarkKinds

VARIABLES p, i, out, cnt, status, it
vars == <<p, i, out, cnt, status, it>>

Alpha(w) == IF w = 8 THEN Alpha8 ELSE IF w = 16 THEN Alpha16 ELSE Alpha32
Strings(w) == UNION {[1..n -> Alpha(w)] : n \in 0..MaxLen}

Init ==
  /\ \E w \in {8, 16, 32}, tw \in {8, 16, 32}, skip \in BOOLEAN, mk \in MarkKinds :
       /\ tw # w
       /\ \E u \in Strings(w) :
            p = [w |-> w, u |-> u, tw |-> tw, skip |-> skip, mark |-> IF mk = "def" THEN DefaultMark(tw) ELSE <<>>,
                 allowUE |-> TRUE, partial |-> FALSE, h |-> <<>>, mk |-> mk]
  /\ i = 1 /\ out = <<>> /\ cnt = 0 /\ status = "run" /\ it = 0

L == Len(p.u)
N == WfLenAt(p.w, p.u, i)
Running == status = "run" /\ i <= L

ConsumeValid ==
  /\ Running /\ N > 0
  /\ out' = out \o EncUnits(p.tw, DecAt(p.w, p.u, i, N)) /\ i' = i + N
  /\ UNCHANGED <<p, cnt, status, it>>

ReplaceBad ==
  /\ Running /\ N = 0 /\ p.skip
  /\ \E k \in 1..BadRunLen(p.w, p.u, i) : i' = i + k
  /\ out' = out \o p.mark /\ cnt' = cnt + 1
  /\ UNCHANGED <<p, status, it>>

FailAt ==
  /\ Running /\ N = 0 /\ ~p.skip
  /\ status' = "InvalidSequence" /\ it' = i - 1
  /\ UNCHANGED <<p, i, out, cnt>>

UnexpectedEnd ==
  /\ Running /\ N = 0 /\ TruncatedTail(p.w, p.u, i)
  /\ status' = "UnexpectedEnd" /\ it' = i - 1
  /\ UNCHANGED <<p, i, out, cnt>>

Finish ==
  /\ status = "run" /\ i = L + 1
  /\ status' = "Success" /\ it' = L
  /\ UNCHANGED <<p, i, out, cnt>>

Next == ConsumeValid \/ ReplaceBad \/ FailAt \/ UnexpectedEnd \/ Finish
Spec == Init /\ [][Next]_vars
FairSpec == Spec /\ WF_vars(Next)

-----------------------------------------------------------------------------
Done == status # "run"
Terminates == <>Done

InBounds == i >= 1 /\ i <= L + 1 /\ it >= 0 /\ it <= L

OutItems == Canon(p.tw, out)
OutWellFormed == AllValid(OutItems)

\* code points of the output with the marks removed = code points of the valid items consumed so far
NotMark(x) == x.cp # DefaultMarkCp
IsOk(x) == x.ok

ValidPreserved ==
  CpsOf(SelectSeq(OutItems, NotMark)) = CpsOf(SelectSeq(Canon(p.w, SubSeq(p.u, 1, i - 1)), IsOk))

CountIsMarks ==
  p.mk = "def" => Cardinality({k \in DOMAIN OutItems : OutItems[k].cp = DefaultMarkCp}) = cnt

ValidInputExact ==
  (Done /\ AllValid(Canon(p.w, p.u))) =>
     /\ status = "Success" /\ cnt = 0 /\ it = L
     /\ out = EncodeCps(p.tw, CpsOf(Canon(p.w, p.u)))
     /\ CpsOf(OutItems) = CpsOf(Canon(p.w, p.u))

AcceptorAgrees ==
  Done => Explains(p, [out |-> out, code |-> status, it |-> it, cnt |-> cnt], {})

\* an outcome that the specification must NOT explain: a bad unit copied through (vacuity guard of the acceptor)
AcceptorRejectsCopy ==
  (Done /\ p.w = 16 /\ p.tw = 32 /\ ~AllValid(Canon(p.w, p.u))) =>
     ~Explains(p, [out |-> p.u, code |-> "Success", it |-> L, cnt |-> 0], {})
=============================================================================
