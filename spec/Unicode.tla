------------------------------- MODULE Unicode -------------------------------
(***************************************************************************)
(* Layer 1: the Unicode encoding forms as mathematics (Unicode 15, ch. 3.9, *)
(* Table 3-7; RFC 3629; RFC 2781), independent of the C++ code.             *)
(*                                                                         *)
(*  - scalar values, UTF-8 / UTF-16 / UTF-32 encoding forms as sequences   *)
(*    of code units, the five encoding schemes (byte orders) and BOMs      *)
(*  - well-formedness: WfLenAt = length of the well-formed minimal         *)
(*    sequence that starts at a position (0 = none)                        *)
(*  - Canon(w,u): canonical decomposition into valid items and bad units   *)
(*  - the decoder as a transition system (DecStep) with the two error      *)
(*    policies, and `Explains`: is there SOME DecStep behaviour that        *)
(*    produces an observed (output, error code, iterator, error count)?    *)
(*  - named deviations Dev_* (section "Deviations"): extra transitions with *)
(*    narrow guards that reproduce confirmed defects of the pinned tree;   *)
(*    they are enabled only to *classify* a record that no behaviour of    *)
(*    the specification explains.                                          *)
(*                                                                         *)
(* Widths w \in {8,16,32}.  Code units are naturals < 2^31 (TLC integers    *)
(* are 32 bit): an arbitrary 32-bit UTF-32 unit is given as a pair of      *)
(* 16-bit halves <<hi,lo>> and enters the abstract semantics through       *)
(* U32FromHalves, which maps everything >= 2^31 to one out-of-range value. *)
(***************************************************************************)
EXTENDS Naturals, Integers, Sequences, SequencesExt, Bitwise, TLC

MaxCp        == \h10FFFF
HighStart    == \hD800
HighEnd      == \hDBFF
LowStart     == \hDC00
LowEnd       == \hDFFF
OutOfRange32 == 2147483647      \* stands for every 32-bit unit >= 2^31

IsHigh(x)      == x >= HighStart /\ x <= HighEnd
IsLow(x)       == x >= LowStart /\ x <= LowEnd
IsSurrogate(x) == x >= HighStart /\ x <= LowEnd
IsScalar(c)    == c >= 0 /\ c <= MaxCp /\ ~IsSurrogate(c)

U32FromHalves(h) == IF h[1] >= 32768 THEN OutOfRange32 ELSE (h[1] * 65536) + h[2]

-----------------------------------------------------------------------------
(* Encoding forms *)

Utf8Enc(c) ==
  IF c < 128 THEN <<c>>
  ELSE IF c < 2048 THEN <<192 + (c \div 64), 128 + (c % 64)>>
  ELSE IF c < 65536 THEN <<224 + (c \div 4096), 128 + ((c \div 64) % 64), 128 + (c % 64)>>
  ELSE <<240 + (c \div 262144), 128 + ((c \div 4096) % 64), 128 + ((c \div 64) % 64), 128 + (c % 64)>>

Utf16Enc(c) ==
  IF c < 65536 THEN <<c>>
  ELSE <<HighStart + ((c - 65536) \div 1024), LowStart + ((c - 65536) % 1024)>>

Utf32Enc(c) == <<c>>

EncUnits(w, c) == IF w = 8 THEN Utf8Enc(c) ELSE IF w = 16 THEN Utf16Enc(c) ELSE Utf32Enc(c)

\* divide-and-conquer concatenation of a sequence of sequences (depth log n)
RECURSIVE CatRange(_, _, _)
CatRange(f, lo, hi) ==
  IF lo > hi THEN <<>>
  ELSE IF lo = hi THEN f[lo]
  ELSE LET mid == (lo + hi) \div 2 IN CatRange(f, lo, mid) \o CatRange(f, mid + 1, hi)
Cat(f) == CatRange(f, 1, Len(f))

EncodeCps(w, cps) == Cat([k \in 1..Len(cps) |-> EncUnits(w, cps[k])])

-----------------------------------------------------------------------------
(* Encoding schemes: byte orders and BOMs *)

Schemes == {"Utf8", "Utf16le", "Utf16be", "Utf32le", "Utf32be"}
WidthOf(e) == IF e = "Utf8" THEN 8 ELSE IF e \in {"Utf16le", "Utf16be"} THEN 16 ELSE 32
IsBE(e)    == e \in {"Utf16be", "Utf32be"}

UnitBytes(e, x) ==
  IF e = "Utf8" THEN <<x>>
  ELSE IF e = "Utf16le" THEN <<x % 256, x \div 256>>
  ELSE IF e = "Utf16be" THEN <<x \div 256, x % 256>>
  ELSE IF e = "Utf32le" THEN <<x % 256, (x \div 256) % 256, (x \div 65536) % 256, x \div 16777216>>
  ELSE <<x \div 16777216, (x \div 65536) % 256, (x \div 256) % 256, x % 256>>

UnitsToBytes(e, units) == Cat([k \in 1..Len(units) |-> UnitBytes(e, units[k])])
EncBytesCp(e, c)  == UnitsToBytes(e, EncUnits(WidthOf(e), c))
EncBytes(e, cps)  == Cat([k \in 1..Len(cps) |-> EncBytesCp(e, cps[k])])

Bom(e) == IF e = "Utf8" THEN <<239, 187, 191>>
          ELSE IF e = "Utf16le" THEN <<255, 254>>
          ELSE IF e = "Utf16be" THEN <<254, 255>>
          ELSE IF e = "Utf32le" THEN <<255, 254, 0, 0>>
          ELSE <<0, 0, 254, 255>>

\* bytes -> whole code units of scheme e; `rest` = number of left-over bytes (0 .. unit size - 1).
\* A 32-bit unit >= 2^31 becomes OutOfRange32.
BytesToUnits(e, b) ==
  LET sz == WidthOf(e) \div 8
      n  == Len(b) \div sz
      U(k) == LET o == (k - 1) * sz IN
              IF sz = 1 THEN b[o + 1]
              ELSE IF e = "Utf16le" THEN b[o + 1] + (256 * b[o + 2])
              ELSE IF e = "Utf16be" THEN b[o + 2] + (256 * b[o + 1])
              ELSE IF e = "Utf32le" THEN IF b[o + 4] >= 128 THEN OutOfRange32
                                         ELSE b[o + 1] + (256 * b[o + 2]) + (65536 * b[o + 3]) + (16777216 * b[o + 4])
              ELSE IF b[o + 1] >= 128 THEN OutOfRange32
                   ELSE b[o + 4] + (256 * b[o + 3]) + (65536 * b[o + 2]) + (16777216 * b[o + 1])
  IN [units |-> SubSeq([k \in 1..n |-> U(k)], 1, n), rest |-> Len(b) - (n * sz)]     \* SubSeq: materialise the tuple

-----------------------------------------------------------------------------
(* Well-formedness.  UTF-8: Unicode Table 3-7. *)

IsCont(x) == x >= 128 /\ x <= 191
In(x, lo, hi) == x >= lo /\ x <= hi

Utf8WfLenAt(u, i) ==
  LET n  == Len(u)
      b1 == u[i]
      B(k) == u[i + k]
  IN IF b1 <= 127 THEN 1
     ELSE IF In(b1, \hC2, \hDF) THEN IF i + 1 <= n /\ IsCont(B(1)) THEN 2 ELSE 0
     ELSE IF b1 = \hE0 THEN IF i + 2 <= n /\ In(B(1), \hA0, \hBF) /\ IsCont(B(2)) THEN 3 ELSE 0
     ELSE IF In(b1, \hE1, \hEC) \/ In(b1, \hEE, \hEF) THEN IF i + 2 <= n /\ IsCont(B(1)) /\ IsCont(B(2)) THEN 3 ELSE 0
     ELSE IF b1 = \hED THEN IF i + 2 <= n /\ In(B(1), \h80, \h9F) /\ IsCont(B(2)) THEN 3 ELSE 0
     ELSE IF b1 = \hF0 THEN IF i + 3 <= n /\ In(B(1), \h90, \hBF) /\ IsCont(B(2)) /\ IsCont(B(3)) THEN 4 ELSE 0
     ELSE IF In(b1, \hF1, \hF3) THEN IF i + 3 <= n /\ IsCont(B(1)) /\ IsCont(B(2)) /\ IsCont(B(3)) THEN 4 ELSE 0
     ELSE IF b1 = \hF4 THEN IF i + 3 <= n /\ In(B(1), \h80, \h8F) /\ IsCont(B(2)) /\ IsCont(B(3)) THEN 4 ELSE 0
     ELSE 0

Utf8DecAt(u, i, n) ==
  IF n = 1 THEN u[i]
  ELSE IF n = 2 THEN ((u[i] % 32) * 64) + (u[i + 1] % 64)
  ELSE IF n = 3 THEN ((u[i] % 16) * 4096) + ((u[i + 1] % 64) * 64) + (u[i + 2] % 64)
  ELSE ((u[i] % 8) * 262144) + ((u[i + 1] % 64) * 4096) + ((u[i + 2] % 64) * 64) + (u[i + 3] % 64)

Utf16WfLenAt(u, i) ==
  IF ~IsSurrogate(u[i]) THEN 1
  ELSE IF IsHigh(u[i]) /\ i + 1 <= Len(u) /\ IsLow(u[i + 1]) THEN 2 ELSE 0

Utf16DecAt(u, i, n) ==
  IF n = 1 THEN u[i] ELSE 65536 + ((u[i] - HighStart) * 1024) + (u[i + 1] - LowStart)

\* length of the well-formed minimal sequence of form w starting at unit i of u (0: none, unit i is a bad unit)
WfLenAt(w, u, i) ==
  IF w = 8 THEN Utf8WfLenAt(u, i)
  ELSE IF w = 16 THEN Utf16WfLenAt(u, i)
  ELSE IF IsScalar(u[i]) THEN 1 ELSE 0

DecAt(w, u, i, n) ==
  IF w = 8 THEN Utf8DecAt(u, i, n) ELSE IF w = 16 THEN Utf16DecAt(u, i, n) ELSE u[i]

-----------------------------------------------------------------------------
(* Canonical decomposition: left-to-right scan into valid items and bad units. *)
(* Maximal runs of bad units are the ill-formed sequences.                     *)

\* (a fold over the indices - FoldLeftDomain is evaluated iteratively by TLC - instead of a recursion: inputs of several
\*  thousand units would otherwise need a Java stack of that depth)
CanonStep(w, u, acc, i) ==
  IF i < acc.next THEN acc       \* inside the valid item that started earlier
  ELSE LET n == WfLenAt(w, u, i) IN
       IF n > 0 THEN [next |-> i + n, items |-> Append(acc.items, [ok |-> TRUE, at |-> i, n |-> n, cp |-> DecAt(w, u, i, n)])]
       ELSE [next |-> i + 1, items |-> Append(acc.items, [ok |-> FALSE, at |-> i, n |-> 1, cp |-> 0])]

Canon(w, u) == FoldLeftDomain(LAMBDA acc, i : CanonStep(w, u, acc, i), [next |-> 1, items |-> <<>>], u).items

AllValid(items)    == \A k \in DOMAIN items : items[k].ok
IsWellFormed(w, u) == AllValid(Canon(w, u))
CpsOf(items)       == [k \in DOMAIN items |-> items[k].cp]

\* number of consecutive bad units starting at unit i (i is a scan point)
RECURSIVE BadRunLen(_, _, _)
BadRunLen(w, u, i) == IF i > Len(u) \/ WfLenAt(w, u, i) > 0 THEN 0 ELSE 1 + BadRunLen(w, u, i + 1)

\* UTF-8 lead byte by *bit pattern*: number of bytes it announces (0: not lead-shaped)
Utf8Announced(b) ==
  IF In(b, \hC0, \hDF) THEN 2 ELSE IF In(b, \hE0, \hEF) THEN 3 ELSE IF In(b, \hF0, \hF7) THEN 4
  ELSE IF In(b, \hF8, \hFB) THEN 5 ELSE IF In(b, \hFC, \hFD) THEN 6 ELSE 0

\* The rest of the input from unit i is a *truncated tail*: it looks like the beginning of a multi-unit
\* sequence that the end of input cut short.  UTF-8: a byte with the 2-, 3- or 4-byte lead bit pattern followed
\* only by continuation bytes, fewer than announced (structural reading: the pinned unit test
\* ShouldHandleUnexpectedEndWhenMissedFourOctetsAtEnd uses lead F7, and the property text does not define
\* "truncated" more narrowly).  UTF-16: a single high surrogate.  UTF-32: never.
TruncatedTail(w, u, i) ==
  /\ i <= Len(u)
  /\ IF w = 8 THEN LET a == Utf8Announced(u[i]) r == Len(u) - i + 1 IN
                   /\ a >= 2 /\ a <= 4 /\ r < a
                   /\ \A j \in (i + 1)..Len(u) : IsCont(u[j])
     ELSE IF w = 16 THEN i = Len(u) /\ IsHigh(u[i])
     ELSE FALSE

-----------------------------------------------------------------------------
(* Error policy and marks *)

DefaultMarkCp == \h2610      \* U+2610 BALLOT BOX
DefaultMark(w) == EncUnits(w, DefaultMarkCp)

\* does `piece` occur in `s` at 1-based position o ?
MatchAt(s, o, piece) ==
  /\ o + Len(piece) - 1 <= Len(s)
  /\ \A k \in 1..Len(piece) : s[o + k - 1] = piece[k]

-----------------------------------------------------------------------------
(* Deviations: raw arithmetic of the pinned decoders, needed to state what a defect produces. *)

\* value the bit arithmetic of Utf8::Decode computes for a structurally complete n-byte sequence
Utf8RawDec(u, i, n) == Utf8DecAt(u, i, n)
Utf8MinFor(n) == IF n = 2 THEN 128 ELSE IF n = 3 THEN 2048 ELSE 65536
Utf8StructComplete(u, i) ==
  LET a == Utf8Announced(u[i]) IN
  a >= 2 /\ a <= 4 /\ i + a - 1 <= Len(u) /\ \A j \in (i + 1)..(i + a - 1) : IsCont(u[j])

\* target units the pinned code emits for a raw 21-bit value v (no validation)
RawEmit21(tw, v) ==
  IF tw = 32 THEN <<v>>
  ELSE IF tw = 16 THEN IF v > 65535 THEN <<HighStart | (((v - 65536) \div 1024) % 1024), LowStart | ((v - 65536) % 1024)>>
                       ELSE <<v>>
  ELSE Utf8Enc(v)

\* Utf8::Encode / Utf16::Encode applied to an arbitrary 32-bit unit given as halves <<hi,lo>> (no validation)
RawEmit32(tw, h) ==
  LET hi == h[1] lo == h[2] IN
  IF tw = 8 THEN
     IF hi = 0 THEN Utf8Enc(lo)
     ELSE <<240 | ((hi \div 4) % 256), 128 + (((hi % 4) * 16) + (lo \div 4096)), 128 + ((lo \div 64) % 64), 128 + (lo % 64)>>
  ELSE IF hi = 0 THEN <<lo>>
       ELSE <<HighStart | ((((hi - 1) * 64) + (lo \div 1024)) % 65536), LowStart | (lo % 1024)>>

AllDevs == <<"Dev_Utf8OverlongAccepted", "Dev_Utf8OutOfRangeAccepted", "Dev_Utf8BadSequenceSwallowsFollowing",
             "Dev_Utf16HighSurrogatePlusNonLowAccepted", "Dev_Utf32NotValidated",
             "Dev_Utf16ErrorCountResetOnUnexpectedEnd">>

-----------------------------------------------------------------------------
(* The decoder as a transition system, and the search for an explaining behaviour. *)
(*                                                                                 *)
(* A decoding problem  p = [w, u, tw, skip, mark, allowUE, partial, h]              *)
(*   w, u     source width and code units (naturals)                               *)
(*   tw       target width                                                         *)
(*   skip     TRUE: Skip policy with `mark` (sequence of target units, may be <<>>) *)
(*            FALSE: ThrowError policy                                             *)
(*   allowUE  the UnexpectedEnd outcome exists (plain decoders); a stream reader   *)
(*            at end of file must apply the policy instead                         *)
(*   partial  an incomplete code unit follows u (byte streams cut inside a unit);  *)
(*            it is one more bad unit that belongs to the final bad run            *)
(*   h        for w = 32: the units as halves (only used by Dev_Utf32NotValidated) *)
(* State: (i, out, cnt).  Transitions from a scan point i <= Len(u):               *)
(*   ConsumeValid   WfLenAt = n > 0: out += EncUnits(tw, cp), i += n               *)
(*   ReplaceBad(n)  skip, 1 <= n <= BadRunLen(i): out += mark, cnt += 1, i += n    *)
(*   FailAt         ~skip, bad unit at i: stop, InvalidSequence, Iterator = i      *)
(*   UnexpectedEnd  TruncatedTail(i): stop, UnexpectedEnd, Iterator = i            *)
(*   Finish         i = Len(u) + 1: Success, Iterator = Len(u)                     *)
(* An observation obs = [out, code, it, cnt] (it: 0-based unit offset).            *)
(* Under ThrowError the property does not fix the reported count of the failing    *)
(* call; the number of marks made (0) and the code's 1 are both accepted.          *)
(***************************************************************************)

RECURSIVE Ex(_, _, _, _, _, _)
Ex(p, obs, D, i, o, c) ==
  LET u == p.u  w == p.w  L == Len(p.u)  AtOutEnd == (o = Len(obs.out) + 1)
      Lx == L + (IF p.partial THEN 1 ELSE 0)      \* p.partial: an incomplete code unit follows u (byte streams only)
      ItIs(x)  == obs.it = -1 \/ obs.it = x        \* -1: not observed
      CntIs(x) == obs.cnt = -1 \/ obs.cnt = x
  IN
  IF i = Lx + 1
  THEN AtOutEnd /\ obs.code = "Success" /\ ItIs(L) /\ CntIs(c)
  ELSE IF i = L + 1
  THEN \* the incomplete code unit at the end of a byte stream: a bad unit
       \/ p.skip /\ MatchAt(obs.out, o, p.mark) /\ Ex(p, obs, D, i + 1, o + Len(p.mark), c + 1)
       \/ ~p.skip /\ AtOutEnd /\ obs.code = "InvalidSequence" /\ ItIs(L) /\ (CntIs(c) \/ CntIs(c + 1))
  ELSE
    LET n == WfLenAt(w, u, i) IN
    \/ \* ConsumeValid
       /\ n > 0
       /\ LET e == EncUnits(p.tw, DecAt(w, u, i, n)) IN MatchAt(obs.out, o, e) /\ Ex(p, obs, D, i + n, o + Len(e), c)
    \/ \* ReplaceBad(k)
       /\ n = 0 /\ p.skip
       /\ MatchAt(obs.out, o, p.mark)
       /\ LET r == BadRunLen(w, u, i)  ext == IF p.partial /\ i + r = L + 1 THEN 1 ELSE 0 IN
          \E k \in 1..(r + ext) : Ex(p, obs, D, i + k, o + Len(p.mark), c + 1)
    \/ \* FailAt
       /\ n = 0 /\ ~p.skip
       /\ AtOutEnd /\ obs.code = "InvalidSequence" /\ ItIs(i - 1) /\ (CntIs(c) \/ CntIs(c + 1))
    \/ \* UnexpectedEnd
       /\ n = 0 /\ p.allowUE /\ TruncatedTail(w, u, i)
       /\ AtOutEnd /\ obs.code = "UnexpectedEnd" /\ ItIs(i - 1)
       /\ (CntIs(c) \/ ("Dev_Utf16ErrorCountResetOnUnexpectedEnd" \in D /\ w = 16 /\ p.tw = 32 /\ c > 0 /\ obs.cnt = 0))
    \* ---------------- deviations (only when enabled) ----------------
    \/ \* overlong 2/3/4-byte form decoded with the plain bit arithmetic and accepted
       /\ "Dev_Utf8OverlongAccepted" \in D /\ w = 8 /\ n = 0 /\ Utf8StructComplete(u, i)
       /\ LET a == Utf8Announced(u[i]) v == Utf8RawDec(u, i, a) e == RawEmit21(p.tw, v) IN
          /\ v < Utf8MinFor(a)
          /\ MatchAt(obs.out, o, e) /\ Ex(p, obs, D, i + a, o + Len(e), c)
    \/ \* 4-byte form above U+10FFFF (F4 90.., F5..F7) accepted
       /\ "Dev_Utf8OutOfRangeAccepted" \in D /\ w = 8 /\ n = 0 /\ Utf8StructComplete(u, i)
       /\ LET a == Utf8Announced(u[i]) v == Utf8RawDec(u, i, a) e == RawEmit21(p.tw, v) IN
          /\ v > MaxCp
          /\ MatchAt(obs.out, o, e) /\ Ex(p, obs, D, i + a, o + Len(e), c)
    \/ \* a bad lead-shaped byte consumes as many following units as it announces, whatever they are
       /\ "Dev_Utf8BadSequenceSwallowsFollowing" \in D /\ w = 8 /\ n = 0 /\ Utf8Announced(u[i]) >= 2
       /\ LET a == Utf8Announced(u[i]) IN
          IF i + a - 1 <= L
          THEN /\ (a >= 5 \/ \E j \in (i + 1)..(i + a - 1) : ~IsCont(u[j]))
               /\ p.skip /\ MatchAt(obs.out, o, p.mark) /\ Ex(p, obs, D, i + a, o + Len(p.mark), c + 1)
          ELSE \* the input ends inside the announced length: reported as UnexpectedEnd although not a truncated tail
               /\ p.allowUE /\ AtOutEnd /\ obs.code = "UnexpectedEnd" /\ ItIs(i - 1) /\ CntIs(c)
    \/ \* high surrogate followed by a unit >= U+E000 combined as if it were a low surrogate
       /\ "Dev_Utf16HighSurrogatePlusNonLowAccepted" \in D /\ w = 16 /\ n = 0
       /\ IsHigh(u[i]) /\ i + 1 <= L /\ u[i + 1] > LowEnd
       /\ LET v == 65536 + (((u[i] % 1024) * 1024) + (u[i + 1] % 1024)) e == RawEmit21(p.tw, v) IN
          MatchAt(obs.out, o, e) /\ Ex(p, obs, D, i + 2, o + Len(e), c)
    \/ \* UTF-32 input is never validated: surrogates and values > U+10FFFF are encoded arithmetically
       /\ "Dev_Utf32NotValidated" \in D /\ w = 32 /\ n = 0
       /\ LET e == RawEmit32(p.tw, p.h[i]) IN MatchAt(obs.out, o, e) /\ Ex(p, obs, D, i + 1, o + Len(e), c)

Explains(p, obs, D) == Ex(p, obs, D, 1, 1, 0)

\* Same as Explains(p, obs, {}) for long inputs: at a scan point with a valid item ConsumeValid is the only transition, so the
\* well-formed prefix (up to the first bad unit) is compared in one piece and the search starts behind it.
ExplainsLong(p, obs) ==
  LET items == Canon(p.w, p.u)
      bad   == {k \in DOMAIN items : ~items[k].ok}
  IN IF bad = {} /\ ~p.partial
     THEN obs.code = "Success" /\ obs.out = EncodeCps(p.tw, CpsOf(items)) /\ (obs.it = -1 \/ obs.it = Len(p.u)) /\ (obs.cnt = -1 \/ obs.cnt = 0)
     ELSE LET k0  == IF bad = {} THEN Len(items) + 1 ELSE CHOOSE k \in bad : \A j \in bad : k <= j
              pre == EncodeCps(p.tw, [k \in 1..(k0 - 1) |-> items[k].cp])
              at  == IF bad = {} THEN Len(p.u) + 1 ELSE items[k0].at
          IN MatchAt(obs.out, 1, pre) /\ Ex(p, obs, {}, at, Len(pre) + 1, 0)

\* smallest (greedy) set of deviations that explains obs, as a sequence; <<>> if even all of them do not
RECURSIVE Shrink(_, _, _, _)
Shrink(p, obs, S, k) ==
  IF k > Len(AllDevs) THEN S
  ELSE IF AllDevs[k] \in S /\ Explains(p, obs, S \ {AllDevs[k]}) THEN Shrink(p, obs, S \ {AllDevs[k]}, k + 1)
  ELSE Shrink(p, obs, S, k + 1)

AllDevSet == {AllDevs[k] : k \in DOMAIN AllDevs}

\* verdict for one observation: [ok, dev]  dev = "" (unexplained) or "Dev_A" or "Dev_A+Dev_B"
RECURSIVE JoinNames(_, _)
JoinNames(S, k) ==
  IF k > Len(AllDevs) THEN ""
  ELSE LET rest == JoinNames(S, k + 1) IN
       IF AllDevs[k] \in S THEN (IF rest = "" THEN AllDevs[k] ELSE AllDevs[k] \o "+" \o rest) ELSE rest

\* first single deviation that explains obs (0: none)
RECURSIVE FirstSingle(_, _, _)
FirstSingle(p, obs, k) ==
  IF k > Len(AllDevs) THEN 0 ELSE IF Explains(p, obs, {AllDevs[k]}) THEN k ELSE FirstSingle(p, obs, k + 1)

Verdict(p, obs) ==
  IF Explains(p, obs, {}) THEN [ok |-> TRUE, dev |-> ""]
  ELSE LET k == FirstSingle(p, obs, 1) IN
       IF k > 0 THEN [ok |-> FALSE, dev |-> AllDevs[k]]
       ELSE IF Explains(p, obs, AllDevSet) THEN [ok |-> FALSE, dev |-> JoinNames(Shrink(p, obs, AllDevSet, 1), 1)]
       ELSE [ok |-> FALSE, dev |-> ""]

=============================================================================
