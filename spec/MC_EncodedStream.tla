-------------------------- MODULE MC_EncodedStream --------------------------
(* Exhaustive check of M => A for CEncodedStreamReader / DetectEncoding on small instances:            *)
(* every text of <= MaxText code points over Cps, 5 schemes x BOM on/off x every truncation point of    *)
(* the byte stream x target widths x both policies x model chunk sizes.                                 *)
(*   safety   WellFormed, DetectionCorrect (where the property demands detection), ContentCorrect      *)
(*            (concatenated chunk outputs = a decoding of the whole stream; hence independent of the    *)
(*            chunk size), ResultsConsistent                                                            *)
(*   liveness the client loop `while (ReadChunk(out) == Success)` terminates (FairSpec, Terminates)     *)
EXTENDS EncodedStream

CONSTANTS Cps, MaxText, ChunkSizes, TWs,
          FixTail, FixDetect,     \* variant of the code the model mirrors (see EncodedStream.tla)
          TolerateNul             \* TRUE: Dev_DetectEncodingConfusedByNul is a tolerated, named deviation

VARIABLES scn, m, out, res
vars == <<scn, m, out, res>>

Fix == [tail |-> FixTail, detect |-> FixDetect]
Texts == UNION {[1..n -> Cps] : n \in 0..MaxText}

Full(e, bom, text) == WriterBytes(e, bom, text)
\* the configured error mark is a dimension of the scenario (default, custom "<?>", nullptr = skip silently)
Mark(s) == IF s.mk = "def" THEN DefaultMark(s.tw) ELSE IF s.mk = "cust" THEN EncodeCps(s.tw, <<60, 63, 62>>) ELSE <<>>

Init ==
  /\ \E e \in Schemes, bom \in BOOLEAN, text \in Texts, tw \in TWs, skip \in BOOLEAN, C \in ChunkSizes :
       \E keep \in 0..Len(Full(e, bom, text)), mk \in (IF skip THEN {"def", "cust", "null"} ELSE {"def"}) :
          /\ scn = [e |-> e, bom |-> bom, text |-> text, keep |-> keep, tw |-> tw, skip |-> skip, C |-> C, mk |-> mk]
          /\ m = MConstruct(SubSeq(Full(e, bom, text), 1, keep), C, Fix)
  /\ out = <<>>
  /\ res = "none"

Step(r) == m' = r.m /\ out' = out \o r.out /\ res' = r.res /\ UNCHANGED scn
R == MReadChunk(m, scn.tw, scn.skip, Mark(scn), Fix)
Looping == res \in {"none", "Success"}

ReadChunkSuccess == Looping /\ R.res = "Success" /\ Step(R)
ReadChunkEndFile == Looping /\ R.res = "EndFile" /\ Step(R)
ReadChunkError   == Looping /\ R.res = "DecodeError" /\ Step(R)

Next == ReadChunkSuccess \/ ReadChunkEndFile \/ ReadChunkError
Spec == Init /\ [][Next]_vars
FairSpec == Spec /\ WF_vars(Next)

-----------------------------------------------------------------------------
Done == res \in {"EndFile", "DecodeError"}
Terminates == <>Done

WellFormed == MWellFormed(m)

Stream == m.stream
FirstCp  == IF Len(scn.text) > 0 THEN scn.text[1] ELSE -1
FirstLen == IF Len(scn.text) > 0 THEN Len(EncBytesCp(scn.e, scn.text[1])) ELSE 0
HasNul == \E k \in DOMAIN scn.text : scn.text[k] = 0

\* Dev_DetectEncodingConfusedByNul: the stream's text contains U+0000
DetectionCorrect ==
  (DetectionDemanded(Stream, scn.e, scn.bom, FirstCp, FirstLen) /\ ~(TolerateNul /\ HasNul)) => m.utf = scn.e

\* the payload as the *detected* scheme reads it
Payload == IF m.utf # "unset" /\ StartsWith(Stream, Bom(m.utf)) THEN SubSeq(Stream, Len(Bom(m.utf)) + 1, Len(Stream)) ELSE Stream

ContentCorrect ==
  Done => IF m.utf = "unset" THEN out = <<>> /\ res = "EndFile"
          ELSE StreamAccepts(m.utf, Payload, scn.tw, scn.skip, Mark(scn), out, res)

ResultsConsistent == (res = "DecodeError" => ~scn.skip)

\* valid whole text read back exactly (the deterministic core of the property, independent of C)
WholeTextExact ==
  (Done /\ scn.keep = Len(Full(scn.e, scn.bom, scn.text)) /\ m.utf = scn.e /\ WidthOf(scn.e) # scn.tw) =>
     /\ res = "EndFile"
     /\ out = EncodeCps(scn.tw, IF ~scn.bom /\ Len(scn.text) > 0 /\ scn.text[1] = \hFEFF THEN Tail(scn.text) ELSE scn.text)
=============================================================================
