------------------------------ MODULE BSBigInt ------------------------------
(***************************************************************************)
(* Layer 0: arbitrary precision signed integers for TLC.                   *)
(*                                                                         *)
(* TLC integers are 32-bit and overflow is a hard error, so every value    *)
(* that can leave the 31-bit range (64-bit tick counts, years beyond 2^31, *)
(* nanosecond totals, the integers behind IEEE-754 values) is a record     *)
(*        [neg |-> BOOLEAN, mag |-> <<l1, l2, ...>>]                       *)
(* with little-endian base-10^4 limbs, no most-significant zero limb and   *)
(* zero = [neg |-> FALSE, mag |-> <<>>]  (normal form: record equality is  *)
(* numeric equality).  Every intermediate product stays below 2^31:        *)
(* "small" operands are 0 .. SmallMax = 200000 (9999 * 200000 + 200000     *)
(* < 2^31), which covers 146097, 86400, 3600 and 2^13.                     *)
(*                                                                         *)
(* Values cross the C++/TLA+ boundary as decimal strings (ToDec) or, when  *)
(* the harness chose them, additionally as 8 two's-complement bytes        *)
(* (FromBytesBE): TLC cannot index into a string value.                    *)
(***************************************************************************)
EXTENDS Naturals, Integers, Sequences, SequencesExt, TLC

Base == 10000
SmallMax == 200000

Max2(a, b) == IF a > b THEN a ELSE b
Min2(a, b) == IF a < b THEN a ELSE b

-----------------------------------------------------------------------------
(* Magnitudes: little-endian limb sequences in normal form                  *)

MZero == <<>>

\* strip most significant zero limbs
MNorm(m) ==
  LET k == SelectLastInSeq(m, LAMBDA x : x # 0) IN
  IF k = Len(m) THEN m ELSE SubSeq(m, 1, k)

MLimb(m, i) == IF i <= Len(m) THEN m[i] ELSE 0

\* -1, 0, 1
MCmp(a, b) ==
  IF Len(a) # Len(b) THEN (IF Len(a) < Len(b) THEN -1 ELSE 1)
  ELSE FoldLeft(LAMBDA acc, i : IF a[i] = b[i] THEN acc ELSE IF a[i] < b[i] THEN -1 ELSE 1, 0,
                [i \in 1..Len(a) |-> i])

\* the fold state is <<limbs so far, carry>>
MAdd(a, b) ==
  LET n == Max2(Len(a), Len(b))
      r == FoldLeft(LAMBDA st, i : LET s == MLimb(a, i) + MLimb(b, i) + st[2] IN
                                   <<Append(st[1], s % Base), s \div Base>>,
                    <<<<>>, 0>>, [i \in 1..n |-> i])
  IN IF r[2] = 0 THEN r[1] ELSE Append(r[1], r[2])

\* a - b, requires a >= b
MSub(a, b) ==
  LET r == FoldLeft(LAMBDA st, i : LET s == a[i] - MLimb(b, i) - st[2] IN
                                   IF s < 0 THEN <<Append(st[1], s + Base), 1>> ELSE <<Append(st[1], s), 0>>,
                    <<<<>>, 0>>, [i \in 1..Len(a) |-> i])
  IN MNorm(r[1])

\* a * k, 0 <= k <= SmallMax
MMulSmall(a, k) ==
  IF k = 0 \/ a = <<>> THEN <<>>
  ELSE LET r == FoldLeft(LAMBDA st, x : LET p == (x * k) + st[2] IN <<Append(st[1], p % Base), p \div Base>>,
                         <<<<>>, 0>>, a)
       IN IF r[2] = 0 THEN r[1]
          ELSE IF r[2] < Base THEN Append(r[1], r[2])
          ELSE Append(Append(r[1], r[2] % Base), r[2] \div Base)     \* k <= 200000: carry < 2 * 10^5

\* a + k, 0 <= k <= SmallMax
MAddSmall(a, k) ==
  IF k = 0 THEN a ELSE MAdd(a, IF k < Base THEN <<k>> ELSE <<k % Base, k \div Base>>)

\* <<quotient, remainder>> of a by k, 1 <= k <= SmallMax   (the running remainder is < k, so rem*10^4+limb < 2^31)
MDivModSmall(a, k) ==
  LET r == FoldLeft(LAMBDA st, x : LET c == (st[2] * Base) + x IN <<Append(st[1], c \div k), c % k>>,
                    <<<<>>, 0>>, Reverse(a))
  IN <<MNorm(Reverse(r[1])), r[2]>>

\* a * 10^(4*n): n zero limbs below
MShiftLimbs(a, n) == IF a = <<>> \/ n = 0 THEN a ELSE [i \in 1..n |-> 0] \o a

Pow10Small(k) == CASE k = 0 -> 1 [] k = 1 -> 10 [] k = 2 -> 100 [] k = 3 -> 1000 [] OTHER -> 10000

\* a * 10^k
MShiftDec(a, k) == MShiftLimbs(MMulSmall(a, Pow10Small(k % 4)), k \div 4)

\* schoolbook product, one row per limb of b (carries are resolved per row, nothing accumulates beyond 2^31)
MMul(a, b) ==
  IF a = <<>> \/ b = <<>> THEN <<>>
  ELSE FoldLeft(LAMBDA acc, i : IF b[i] = 0 THEN acc ELSE MAdd(acc, MShiftLimbs(MMulSmall(a, b[i]), i - 1)),
                <<>>, [i \in 1..Len(b) |-> i])

\* decimal digits (most significant first, leading zeros allowed) -> magnitude
MFromDigits(ds) ==
  LET n == Len(ds)
      nl == (n + 3) \div 4
      D(j) == IF j >= 1 THEN ds[j] ELSE 0
      limb(i) == LET e == n - (4 * (i - 1)) IN   \* index of the least significant digit of limb i
                 D(e) + (10 * D(e - 1)) + (100 * D(e - 2)) + (1000 * D(e - 3))
  IN MNorm([i \in 1..nl |-> limb(i)])

Digits4(x) == <<x \div 1000, (x \div 100) % 10, (x \div 10) % 10, x % 10>>

\* magnitude -> decimal digits, most significant first, no leading zeros (<<0>> for zero)
MToDigits(m) ==
  IF m = <<>> THEN <<0>>
  ELSE LET all == FoldLeft(LAMBDA acc, x : Digits4(x) \o acc, <<>>, m)
           f == SelectInSeq(all, LAMBDA d : d # 0)
       IN SubSeq(all, f, Len(all))

Pad4(x) == IF x < 10 THEN "000" \o ToString(x) ELSE IF x < 100 THEN "00" \o ToString(x)
           ELSE IF x < 1000 THEN "0" \o ToString(x) ELSE ToString(x)

MToDec(m) ==
  IF m = <<>> THEN "0"
  ELSE FoldLeft(LAMBDA acc, i : acc \o Pad4(m[Len(m) - i]), ToString(m[Len(m)]), [i \in 1..(Len(m) - 1) |-> i])

\* number of decimal digits of a magnitude (0 for zero)
MNumDigits(m) ==
  IF m = <<>> THEN 0
  ELSE LET t == m[Len(m)] IN
       (4 * (Len(m) - 1)) + (IF t < 10 THEN 1 ELSE IF t < 100 THEN 2 ELSE IF t < 1000 THEN 3 ELSE 4)

\* native natural (< 2^31) -> magnitude
MFromNat(n) ==
  IF n = 0 THEN <<>> ELSE IF n < Base THEN <<n>>
  ELSE IF n < Base * Base THEN <<n % Base, n \div Base>>
  ELSE <<n % Base, (n \div Base) % Base, n \div (Base * Base)>>

\* magnitude -> native natural; only for magnitudes known to be < 2^31
MToNat(m) ==
  CASE Len(m) = 0 -> 0
    [] Len(m) = 1 -> m[1]
    [] Len(m) = 2 -> m[1] + (Base * m[2])
    [] OTHER      -> m[1] + (Base * m[2]) + (Base * Base * m[3])

MFitsNat(m) == Len(m) <= 2 \/ (Len(m) = 3 /\ (m[3] < 21 \/ (m[3] = 21 /\ (m[2] < 4748 \/ (m[2] = 4748 /\ m[1] <= 3647)))))

\* bytes, most significant first -> magnitude
MFromBytesBE(bs) == FoldLeft(LAMBDA acc, b : MAddSmall(MMulSmall(acc, 256), b), <<>>, bs)

\* 2^k for k >= 0, by steps of 2^13 (iterative: a RECURSIVE definition of depth ~80 already overflows TLC's Java stack)
MPow2(k) == MMulSmall(FoldLeft(LAMBDA acc, i : MMulSmall(acc, 8192), <<1>>, [i \in 1..(k \div 13) |-> i]), 2 ^ (k % 13))

\* 5^k
MPow5(k) == MMulSmall(FoldLeft(LAMBDA acc, i : MMulSmall(acc, 3125), <<1>>, [i \in 1..(k \div 5) |-> i]), 5 ^ (k % 5))

-----------------------------------------------------------------------------
(* Signed integers                                                          *)

Mk(neg, m) == [neg |-> (neg /\ m # <<>>), mag |-> m]

Zero == [neg |-> FALSE, mag |-> <<>>]
One  == [neg |-> FALSE, mag |-> <<1>>]

IsZero(x) == x.mag = <<>>
IsNeg(x)  == x.neg
Sign(x)   == IF x.mag = <<>> THEN 0 ELSE IF x.neg THEN -1 ELSE 1

FromInt(n) == IF n < 0 THEN Mk(TRUE, MFromNat(0 - n)) ELSE Mk(FALSE, MFromNat(n))

FitsInt(x) == MFitsNat(x.mag)
ToInt(x)   == IF x.neg THEN 0 - MToNat(x.mag) ELSE MToNat(x.mag)

Neg(x) == Mk(~x.neg, x.mag)
Abs(x) == Mk(FALSE, x.mag)

Cmp(x, y) ==
  IF x.neg # y.neg THEN (IF x.neg THEN -1 ELSE 1)
  ELSE IF x.neg THEN MCmp(y.mag, x.mag) ELSE MCmp(x.mag, y.mag)

Lt(x, y) == Cmp(x, y) < 0
Le(x, y) == Cmp(x, y) <= 0
Gt(x, y) == Cmp(x, y) > 0
Ge(x, y) == Cmp(x, y) >= 0
Eq(x, y) == x = y

Add(x, y) ==
  IF x.neg = y.neg THEN Mk(x.neg, MAdd(x.mag, y.mag))
  ELSE LET c == MCmp(x.mag, y.mag) IN
       IF c = 0 THEN Zero
       ELSE IF c > 0 THEN Mk(x.neg, MSub(x.mag, y.mag))
       ELSE Mk(y.neg, MSub(y.mag, x.mag))

Sub(x, y) == Add(x, Neg(y))

\* k is a native integer with |k| <= SmallMax
MulSmall(x, k) == IF k < 0 THEN Mk(~x.neg, MMulSmall(x.mag, 0 - k)) ELSE Mk(x.neg, MMulSmall(x.mag, k))
AddSmall(x, k) == Add(x, FromInt(k))

Mul(x, y) == Mk(x.neg # y.neg, MMul(x.mag, y.mag))

ShiftDec(x, k) == Mk(x.neg, MShiftDec(x.mag, k))

\* floor division by a small positive k: [q |-> BigInt, r |-> 0..k-1] with x = q*k + r
DivModSmall(x, k) ==
  LET d == MDivModSmall(x.mag, k) IN
  IF ~x.neg THEN [q |-> Mk(FALSE, d[1]), r |-> d[2]]
  ELSE IF d[2] = 0 THEN [q |-> Mk(TRUE, d[1]), r |-> 0]
  ELSE [q |-> Mk(TRUE, MAddSmall(d[1], 1)), r |-> k - d[2]]

\* truncating division (C++ semantics): quotient rounds toward zero, remainder has the sign of x
DivTruncSmall(x, k) ==
  LET d == MDivModSmall(x.mag, k) IN [q |-> Mk(x.neg, d[1]), r |-> IF x.neg THEN 0 - d[2] ELSE d[2]]

\* floor division by a chain of small divisors <<k1, k2, ...>> (= division by their product):
\* [q, r] where r is the remainder as a BigInt (0 <= r < product)
DivModChain(x, ks) ==
  LET st == FoldLeft(LAMBDA s, k : LET d == DivModSmall(s.q, k) IN
                                   [q |-> d.q, r |-> Add(s.r, MulSmall(s.w, d.r)), w |-> MulSmall(s.w, k)],
                     [q |-> x, r |-> Zero, w |-> One], ks)
  IN [q |-> st.q, r |-> st.r]

MulChain(x, ks) == FoldLeft(LAMBDA s, k : MulSmall(s, k), x, ks)

FromDigits(neg, ds) == Mk(neg, MFromDigits(ds))
ToDigits(x) == MToDigits(x.mag)
ToDec(x) == IF x.neg THEN "-" \o MToDec(x.mag) ELSE MToDec(x.mag)

Pow2(k) == Mk(FALSE, MPow2(k))
Pow10(k) == Mk(FALSE, MShiftDec(<<1>>, k))

\* 8 bytes, most significant first
FromBytesUnsignedBE(bs) == Mk(FALSE, MFromBytesBE(bs))
FromBytesSignedBE(bs) ==
  LET u == MFromBytesBE(bs) IN
  IF bs[1] < 128 THEN Mk(FALSE, u) ELSE Mk(TRUE, MSub(MPow2(8 * Len(bs)), u))

\* limits of the fixed-width representations
IntMax(bits)  == Mk(FALSE, MSub(MPow2(bits - 1), <<1>>))
IntMin(bits)  == Mk(TRUE, MPow2(bits - 1))
UIntMax(bits) == Mk(FALSE, MSub(MPow2(bits), <<1>>))

InRange(x, lo, hi) == Le(lo, x) /\ Le(x, hi)

\* zero-arity definitions are evaluated once by TLC: use these in hot paths instead of IntMin(64) etc.
I64Min == IntMin(64)   I64Max == IntMax(64)   U64Max == UIntMax(64)
I32Min == IntMin(32)   I32Max == IntMax(32)   U32Max == UIntMax(32)
I16Min == IntMin(16)   I16Max == IntMax(16)   U16Max == UIntMax(16)
I8Min  == IntMin(8)    I8Max  == IntMax(8)    U8Max  == UIntMax(8)
=============================================================================
