------------------------- MODULE Trace_EncodedStream -------------------------
(* C13 trace validation.  Records logged by harness/encstream_harness.cpp from the real CEncodedStreamReader    *)
(* (mode read) and CEncodedStreamWriter (mode write) are judged                                               *)
(*   A-level: termination of the client loop, detected encoding where the property demands it, concatenated    *)
(*            output = a decoding of the whole stream under the policy (EncodedStream!StreamAccepts)           *)
(*   M-level: detected encoding, window offsets (mStartDataPtr, mEndDataPtr) and result after the constructor  *)
(*            and after every ReadChunk equal those of the model, for one of the modelled code variants        *)
(*            (fix.tail, fix.detect); compared whenever the payload is valid text up to a truncated tail.      *)
EXTENDS EncodedStream, Json, IOUtils

Traces == ndJsonDeserialize(IOEnv.TRACE)

Variants == << [tail |-> TRUE, detect |-> TRUE], [tail |-> FALSE, detect |-> TRUE],
               [tail |-> TRUE, detect |-> FALSE], [tail |-> FALSE, detect |-> FALSE] >>

StreamOf(t) == SubSeq(WriterBytes(t.e, t.bom, t.cps), 1, t.keep)
PayloadAs(stream, utf) == IF StartsWith(stream, Bom(utf)) THEN SubSeq(stream, Len(Bom(utf)) + 1, Len(stream)) ELSE stream

\* the configured error mark of a run (the reader must use it mid-stream and at the end of the stream alike)
MarkOf(mk, tw) == IF mk = "def" THEN DefaultMark(tw) ELSE IF mk = "cust" THEN EncodeCps(tw, <<60, 63, 62>>)
                  ELSE IF mk = "fffd" THEN EncodeCps(tw, <<\hFFFD>>) ELSE <<>>

\* M replay of the logged calls: index of the first call that differs (0: all agree)
RECURSIVE Replay(_, _, _, _, _)
Replay(m, r, fix, j, n) ==
  IF j > n THEN 0
  ELSE LET s == MReadChunk(m, r.tw, r.skip, MarkOf(r.mk, r.tw), fix)  c == r.calls[j] IN
       IF s.res # c[1] \/ s.m.start # c[2] \/ s.m.end # c[3] THEN j ELSE Replay(s.m, r, fix, j + 1, n)

MMatches(stream, t, r, fix) ==
  LET m0 == MConstruct(stream, t.C, fix) IN
  /\ m0.utf = r.utf /\ m0.start = r.init[1] /\ m0.end = r.init[2]
  /\ Replay(m0, r, fix, 1, Len(r.calls)) = 0

RECURSIVE FirstVariant(_, _, _, _)
FirstVariant(stream, t, r, k) ==
  IF k > Len(Variants) THEN 0 ELSE IF MMatches(stream, t, r, Variants[k]) THEN k ELSE FirstVariant(stream, t, r, k + 1)

\* payload (as the detected scheme reads it) is valid text up to a truncated tail: the domain in which M's decoders are exact
MComparable(utf, payload) ==
  LET d == BytesToUnits(utf, payload)  w == WidthOf(utf)  u == d.units  it == Canon(w, u)
      bad == {k \in DOMAIN it : ~it[k].ok}
  IN bad = {} \/ LET k0 == CHOOSE k \in bad : \A j \in bad : k <= j IN TruncatedTail(w, u, it[k0].at)

HasNul(t) == \E k \in DOMAIN t.cps : t.cps[k] = 0

\* per record (shared by its runs): the stream, whether detection is demanded, the first chunk
RecInfo(t) ==
  LET stream   == StreamOf(t)
      firstCp  == IF Len(t.cps) > 0 THEN t.cps[1] ELSE -1
      firstLen == IF Len(t.cps) > 0 THEN Len(EncBytesCp(t.e, t.cps[1])) ELSE 0
      payload  == PayloadAs(stream, t.e)
  IN [stream |-> stream, demanded |-> DetectionDemanded(stream, t.e, t.bom, firstCp, firstLen),
      head |-> SubSeq(stream, 1, MinOf(t.C, Len(stream))),
      payload |-> payload, comparable |-> MComparable(t.e, payload)]       \* as the written scheme reads it

RunVerdict(t, r, info) ==
  LET stream == info.stream IN
  IF r.utf = "unset"
  THEN IF Len(stream) = 0 /\ r.final = "EndFile" /\ r.out = <<>> THEN [ok |-> TRUE, why |-> "", dev |-> ""]
       ELSE [ok |-> FALSE, why |-> "empty stream not reported as EndFile", dev |-> ""]
  ELSE
  LET payload == PayloadAs(stream, r.utf)
      sz      == WidthOf(r.utf) \div 8
  IN
  IF r.final = "Hang"
  THEN [ok |-> FALSE, why |-> "client loop `while (ReadChunk == Success)` does not terminate",
        dev |-> IF sz > 1 /\ (Len(payload) % sz) # 0 THEN "Dev_EncodedStreamSubUnitTailLivelock" ELSE ""]
  ELSE IF r.utf # t.e
  THEN IF info.demanded
       THEN [ok |-> FALSE, why |-> "encoding detected as " \o r.utf \o ", written as " \o t.e,
             dev |-> IF HasNul(t) THEN "Dev_DetectEncodingConfusedByNul"
                     ELSE IF MDetect(info.head, FALSE).utf = r.utf /\ MDetect(info.head, TRUE).utf = t.e THEN "Dev_DetectEncodingLastUnitIgnored"
                     ELSE ""]
       ELSE [ok |-> TRUE, why |-> "", dev |-> ""]      \* outside the property's domain (no BOM and first character not ASCII / cut / ambiguous)
  ELSE IF ~StreamAccepts(r.utf, info.payload, r.tw, r.skip, MarkOf(r.mk, r.tw), r.out, r.final)
  THEN [ok |-> FALSE, why |-> "concatenated output is not a decoding of the stream under the policy", dev |-> ""]
  ELSE IF info.comparable /\ FirstVariant(stream, t, r, 1) = 0
  THEN [ok |-> FALSE, why |-> "M-state: window offsets / results differ from every modelled variant of ReadChunk", dev |-> ""]
  ELSE [ok |-> TRUE, why |-> "", dev |-> ""]

\* writer: bytes = BOM + encoding of the concatenated parts, every Write returns Success (0)
RECURSIVE Concat(_, _)
Concat(parts, k) == IF k > Len(parts) THEN <<>> ELSE parts[k] \o Concat(parts, k + 1)
WriteVerdict(t, r) ==
  IF \E k \in DOMAIN r.codes : r.codes[k] # 0 THEN [ok |-> FALSE, why |-> "Write returned an error for valid text", dev |-> ""]
  ELSE IF r.bytes # WriterBytes(t.e, t.bom, Concat(t.parts, 1)) THEN [ok |-> FALSE, why |-> "written bytes differ from BOM + encoding", dev |-> ""]
  ELSE [ok |-> TRUE, why |-> "", dev |-> ""]

IsWrite(t) == "parts" \in DOMAIN t
IsCsv(t)   == "csv" \in DOMAIN t
IsWSeq(t)  == "wseq" \in DOMAIN t
IsDet(t)   == "det" \in DOMAIN t

\* CSV stream entry point: rows read = rows written, no exception; the stream fed had the length the specification computes
CsvVerdict(t) ==
  LET bytes == WriterBytes(t.e, t.bom, CsvRender(CsvHeaderAB, t.rows, t.fb))
      want  == [k \in DOMAIN t.rows |-> <<EncodeCps(8, t.rows[k][1]), EncodeCps(8, t.rows[k][2])>>]
  IN IF Len(bytes) # t.len THEN [ok |-> FALSE, why |-> "harness fed a stream of another length than the specification renders", dev |-> ""]
     ELSE IF t.exc # "" THEN [ok |-> FALSE, why |-> "CSV stream of " \o ToString(t.len) \o " bytes (chunk " \o ToString(t.C) \o "): exception " \o t.exc, dev |-> ""]
     ELSE IF Len(t.loaded) # Len(want) THEN [ok |-> FALSE, why |-> "CSV stream of " \o ToString(t.len) \o " bytes (chunk " \o ToString(t.C) \o "): " \o ToString(Len(t.loaded)) \o " rows read, " \o ToString(Len(want)) \o " written", dev |-> ""]
     ELSE IF \E k \in DOMAIN want : t.loaded[k] # want[k] THEN [ok |-> FALSE, why |-> "CSV stream: a row read differs from the row written", dev |-> ""]
     ELSE [ok |-> TRUE, why |-> "", dev |-> ""]

\* writer sequence on one object: calls[1] is the state after construction
RECURSIVE WSeqWalk(_, _)
WSeqWalk(t, j) ==
  IF j > Len(t.calls) THEN 0
  ELSE LET prev == t.calls[j - 1].bytes  cur == t.calls[j].bytes IN
       IF ~IsPrefix(prev, cur) THEN j
       ELSE IF ~WriteAccepts(t.e, t.sw, t.frags[j - 1], t.skip, t.calls[j].code, SubSeq(cur, Len(prev) + 1, Len(cur))) THEN j
       ELSE WSeqWalk(t, j + 1)
WSeqVerdict(t) ==
  IF t.calls[1].bytes # (IF t.bom THEN Bom(t.e) ELSE <<>>) THEN [ok |-> FALSE, why |-> "writer construction did not emit exactly the BOM", dev |-> ""]
  ELSE LET j == WSeqWalk(t, 2) IN
       IF j = 0 THEN [ok |-> TRUE, why |-> "", dev |-> ""]
       ELSE [ok |-> FALSE, why |-> "Write call " \o ToString(j - 1) \o " (" \o t.calls[j].code \o "): the bytes added to the stream are not the encoding of an accepted fragment / not empty for a rejected one", dev |-> ""]

\* DetectEncoding(istream&, skip) behind a consumed preamble
DetVerdict(t, r) ==
  LET text   == WriterBytes(t.e, t.bom, t.cps)
      pre    == [k \in 1..t.p |-> IF k = 1 THEN 255 ELSE IF k = 2 THEN 254 ELSE 35]
      stream == pre \o text
      firstCp  == IF Len(t.cps) > 0 THEN t.cps[1] ELSE -1
      firstLen == IF Len(t.cps) > 0 THEN Len(EncBytesCp(t.e, t.cps[1])) ELSE 0
      head   == SubSeq(text, 1, MinOf(DetectProbe, Len(text)))
      bomFound == StartsWith(text, Bom(r.utf))
  IN IF r.before # t.p THEN [ok |-> FALSE, why |-> "harness: preamble not consumed", dev |-> ""]
     ELSE IF ~DetectPosOK(t.p, r.skip, bomFound, Len(Bom(r.utf)), r.pos)
     THEN [ok |-> FALSE, why |-> "DetectEncoding(stream) left the stream at " \o ToString(r.pos) \o ", text starts at " \o ToString(t.p), dev |-> ""]
     ELSE IF ~r.good \/ r.rest # SubSeq(stream, r.pos + 1, Len(stream))
     THEN [ok |-> FALSE, why |-> "after DetectEncoding(stream) the rest of the stream is not the text that was written", dev |-> ""]
     ELSE IF DetectionDemanded(text, t.e, t.bom, firstCp, firstLen) /\ r.utf # t.e
     THEN [ok |-> FALSE, why |-> "encoding detected as " \o r.utf \o ", written as " \o t.e,
           dev |-> IF HasNul(t) THEN "Dev_DetectEncodingConfusedByNul"
                   ELSE IF MDetect(head, FALSE).utf = r.utf /\ MDetect(head, TRUE).utf = t.e THEN "Dev_DetectEncodingLastUnitIgnored" ELSE ""]
     ELSE IF ~\E fd \in BOOLEAN : LET mm == MDetectStream(stream, t.p, r.skip, [tail |-> TRUE, detect |-> fd], TRUE) IN mm.utf = r.utf /\ mm.pos = r.pos
     THEN [ok |-> FALSE, why |-> "M-state: DetectEncoding(stream) differs from every modelled variant", dev |-> ""]
     ELSE [ok |-> TRUE, why |-> "", dev |-> ""]

RecVerdict(t, j, info) ==
  IF IsWrite(t) THEN WriteVerdict(t, t.runs[j])
  ELSE IF IsDet(t) THEN DetVerdict(t, t.runs[j])
  ELSE RunVerdict(t, t.runs[j], info)

ASSUME \A i \in 1..Len(Traces) :
         LET t == Traces[i] IN
         IF IsCsv(t) \/ IsWSeq(t)
         THEN LET v == IF IsCsv(t) THEN CsvVerdict(t) ELSE WSeqVerdict(t) IN
              v.ok \/ PrintT(<<"BAD", ToJson([id |-> t.id, run |-> 0, why |-> v.why, dev |-> v.dev])>>)
         ELSE LET info == IF IsWrite(t) \/ IsDet(t) THEN <<>> ELSE RecInfo(t) IN
              \A j \in 1..Len(t.runs) :
                 LET v == RecVerdict(t, j, info) IN
                 v.ok \/ PrintT(<<"BAD", ToJson([id |-> t.id, run |-> j, why |-> v.why, dev |-> v.dev])>>)
ASSUME PrintT(<<"CHECKED", ToJson([n |-> Len(Traces)])>>)

VARIABLE dummy
Init == dummy = 0
Next == UNCHANGED dummy
=============================================================================
