SPECIFICATION Spec
CONSTANTS
  MaxDepth = 3
  MaxItems = 2
  MaxBudget = 6
  DtorPolicy = "park"
INVARIANTS NeverTerminated EventsAccepted EndAccepted ErrorReachesCaller AllDestroyed
CHECK_DEADLOCK FALSE
