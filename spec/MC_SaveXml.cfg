SPECIFICATION Spec
CONSTANT MaxMembers = 1
INVARIANTS SpecRoundTrip Export
