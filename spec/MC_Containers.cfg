SPECIFICATION Spec
CONSTANTS
  MaxPrior = 3
  MaxDoc = 3
  Shard = 0
  Shards = 1
  CheckDevs = {}
INVARIANTS RefinesA PopulatedEqualsFresh NoStaleSurvives NothingLoadedIsLost OnlyExistNeverAddsAKey UpdateNeverRemovesAKey MapLawsOfA DeviationsExplainEveryDifference Export
