SPECIFICATION Spec
CONSTANTS
  MaxPrior = 3
  MaxDoc = 3
  MaxDocNoEstimate = 4
  Shard = 0
  Shards = 1
  CheckDevs = {}
INVARIANTS RefinesA PopulatedEqualsFresh NoStaleSurvives NothingLoadedIsLost OnlyExistNeverAddsAKey UpdateNeverRemovesAKey MapLawsOfA DeviationsExplainEveryDifference Export
