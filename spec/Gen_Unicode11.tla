---------------------------- MODULE Gen_Unicode11 ----------------------------
(* C11: TLC evaluates the encoding table of Unicode.tla for every scalar value in LO..HI (environment) and   *)
(* writes it as ndjson: {cp, u8, u16le, u16be, u32le, u32be} with each scheme's byte sequence.               *)
(* Before writing, the table is checked against the specification's own decoder (round trip, shortest form,  *)
(* surrogates only for supplementary code points, byte orders mirror each other).                            *)
EXTENDS Unicode, Json, IOUtils

Lo == atoi(IOEnv.LO)
Hi == atoi(IOEnv.HI)

Row(c) == [cp |-> c, u8 |-> EncBytesCp("Utf8", c), u16le |-> EncBytesCp("Utf16le", c), u16be |-> EncBytesCp("Utf16be", c),
           u32le |-> EncBytesCp("Utf32le", c), u32be |-> EncBytesCp("Utf32be", c)]

Scalars == SelectSeq([k \in 1..(Hi - Lo + 1) |-> Lo + k - 1], IsScalar)
Rows == [k \in DOMAIN Scalars |-> Row(Scalars[k])]

RowOK(r) ==
  LET c == r.cp IN
  /\ \A e \in Schemes :
       LET b == EncBytesCp(e, c)  d == BytesToUnits(e, b)  it == Canon(WidthOf(e), d.units) IN
       d.rest = 0 /\ Len(it) = 1 /\ it[1].ok /\ it[1].cp = c
  /\ Len(r.u8) = (IF c < 128 THEN 1 ELSE IF c < 2048 THEN 2 ELSE IF c < 65536 THEN 3 ELSE 4)
  /\ Len(r.u16le) = (IF c < 65536 THEN 2 ELSE 4)
  /\ Len(r.u32le) = 4
  /\ \A k \in 1..Len(r.u16le) : r.u16be[k] = r.u16le[IF (k % 2) = 1 THEN k + 1 ELSE k - 1]
  /\ \A k \in 1..4 : r.u32be[k] = r.u32le[5 - k]

ASSUME \A k \in DOMAIN Rows : RowOK(Rows[k])
ASSUME ndJsonSerialize(IOEnv.OUT, Rows)
ASSUME PrintT(<<"ROWS", ToJson([n |-> Len(Rows)])>>)

VARIABLE dummy
Init == dummy = 0
Next == UNCHANGED dummy
=============================================================================
