INIT Init
NEXT Next
