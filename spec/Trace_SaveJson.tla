---------------------------- MODULE Trace_SaveJson ----------------------------
(* TLC as the independent strict JSON parser of documents produced by the real archive (C08 / C01 / C10). *)
EXTENDS SaveScript, JsonFormat, Json, IOUtils
VARIABLE dummy
Traces == ndJsonDeserialize(IOEnv.TRACE)

TextVerdict(bytes, enc, bom, doc, what) ==
  LET d == DecodeText(bytes, enc, bom) IN
  IF ~d[1] THEN "bad:" \o what \o " output is not well-formed " \o enc \o (IF bom THEN " with BOM" ELSE " without BOM")
  ELSE IF ~bom /\ enc # "utf8" /\ FALSE THEN "bad"
  ELSE LET r == ParseJson(d[2]) IN
       IF ~r.ok THEN "bad:" \o what \o " output is not a well-formed JSON text"
       ELSE IF ~Denotes(r.v, doc) THEN "bad:" \o what \o " output denotes different data"
       ELSE "ok"

\* JSON cannot carry NaN / Infinity: the save must fail with an exception (never a truncated or different document)
RECURSIVE HasNonFinite(_)
HasNonFinite(v) ==
  IF v[1] = "f64" THEN F64Exp(v[2]) = 2047
  ELSE IF v[1] = "f32" THEN F32Exp(v[2]) = 255
  ELSE IF v[1] = "arr" THEN \E i \in 1..Len(v[2]) : HasNonFinite(v[2][i])
  ELSE IF v[1] = "map" THEN \E i \in 1..Len(v[2]) : HasNonFinite(v[2][i][2])
  ELSE FALSE

Verdict(t) ==
  LET doc == DocOf(TreeOfRoot(t.root)) IN
  IF HasNonFinite(doc) THEN
       (IF t.excmem[1] = "ser" /\ t.excstream[1] = "ser" THEN "ok" ELSE "bad:non-finite number was not rejected by an exception")
  ELSE IF t.excmem # <<"none">> \/ t.excstream # <<"none">> THEN "bad:save raised an exception"
  ELSE LET vm == TextVerdict(t.mem, "utf8", FALSE, doc, "memory")
           vs == TextVerdict(t.stream, t.opt.enc, t.opt.bom, doc, "stream") IN
       IF vm # "ok" THEN vm ELSE IF vs # "ok" THEN vs
       ELSE IF t.opt.enc = "utf8" /\ ~t.opt.bom /\ t.stream # t.mem THEN "bad:stream output (UTF-8, no BOM) differs from memory output"
       ELSE "ok"

ASSUME \A i \in 1..Len(Traces) :
          LET v == Verdict(Traces[i]) IN v = "ok" \/ PrintT(<<"BAD", ToJson([id |-> Traces[i].id, why |-> v])>>)
ASSUME PrintT(<<"CHECKED", ToJson([n |-> Len(Traces)])>>)
Init == dummy = 0
Next == UNCHANGED dummy
=============================================================================
