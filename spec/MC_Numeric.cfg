SPECIFICATION Spec
CONSTANTS
  MaxLen = 4
INVARIANTS Total PrefixStable IntVsFloat Canonical BoolDigits
