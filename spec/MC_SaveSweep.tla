---------------------------- MODULE MC_SaveSweep ----------------------------
(* C06, exhaustive part of the quantifier: every integer of the swept range   *)
(* saved through every integer type that can hold it (the encoder's choice of *)
(* format must be the most compact one at every value, not only at the        *)
(* thresholds), and strings / binary / arrays / maps at the 16/32-bit length  *)
(* thresholds.  Each state is one save script, exported for the real writer;  *)
(* TLC decodes the produced bytes (Trace_SaveScript).                          *)
EXTENDS SaveScript, MsgPackCorpus, Json

CONSTANTS SweepNeg, SweepPos,    \* integers -SweepNeg..SweepPos
          LongLens,              \* container / string lengths beyond the corpus (e.g. {65535, 65536})
          LongKinds              \* which of "str", "bin", "arr" get those lengths

VARIABLES root, phase
vars == <<root, phase>>

Leaf(T, v) == [k |-> "leaf", t |-> T, v |-> v]
Longs == UNION { (IF "str" \in LongKinds THEN { Leaf("str", <<"str", Run(97, n)>>) } ELSE {})
                 \cup (IF "bin" \in LongKinds THEN { Leaf("vec_u8", <<"bin", Run(7, n)>>) } ELSE {})
                 \cup (IF "arr" \in LongKinds THEN { Leaf("vec_i32", <<"arr", Run(U(7), n)>>) } ELSE {}) : n \in LongLens }

\* every scenario is an initial state (there is nothing to explore behind it)
Init == \/ /\ phase = "int"
           /\ \E n \in (0 - SweepNeg)..SweepPos, T \in IntTypes : IntFits(U(n)[2], U(n)[3], T) /\ root = Leaf(T, U(n))
        \/ /\ phase = "long"
           /\ root \in Longs
Next == UNCHANGED vars
Spec == Init /\ [][Next]_vars

Tree == TreeOfRoot(root)
EncoderConsistent == EncTree(Tree, {}) = Compact(DocOf(Tree))
\* every integer is encoded in the shortest format of its sign family that holds it
ShortestInt == phase = "int" =>
  LET v == root.v
      n == Len(EncTree(Tree, {}))
      mag == v[3]
  IN IF ~v[2] THEN n = (IF SigBytes(mag) <= 1 /\ mag[8] < 128 THEN 1 ELSE IF SigBytes(mag) <= 1 THEN 2 ELSE IF SigBytes(mag) <= 2 THEN 3 ELSE IF SigBytes(mag) <= 4 THEN 5 ELSE 9)
     ELSE TRUE
Export == PrintT(<<"GEN", ToJson([root |-> root])>>)
=============================================================================
