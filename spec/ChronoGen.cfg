SPECIFICATION Spec
CONSTANTS
  Kinds = {"dt", "du", "cal", "lim", "frac", "mut"}
  MaxDevDt = 1
  MaxDevDu = 1
  FracLen = 2
  FracSample = 50
  Seed = 1
  MutBases = 4
INVARIANTS TypeOK Total Export
