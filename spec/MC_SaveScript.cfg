SPECIFICATION Spec
CONSTANT MaxMembers = 2
INVARIANTS EncoderConsistent DecodesBack DeviationsNeverShorter MapHeaderCounts Export
