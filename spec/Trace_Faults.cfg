INIT Init
NEXT Next
