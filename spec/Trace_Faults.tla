----------------------------- MODULE Trace_Faults -----------------------------
EXTENDS Faults, Json, IOUtils
VARIABLE dummy
Traces == ndJsonDeserialize(IOEnv.TRACE)   \* [id, kind, k, n, reject, outcome, leak, hits, probe, ev, pev]  (ev/pev: delivered items as strings)
ASSUME \A i \in 1..Len(Traces) :
          LET t == Traces[i] IN
          OutcomeAllowed(t.kind, t.k, t.n, t.reject, t.outcome, t.leak, t.hits, t.probe, t.ev, t.pev)
          \/ PrintT(<<"BAD", ToJson([id |-> t.id, why |-> Why(t.kind, t.k, t.n, t.reject, t.outcome, t.leak, t.hits, t.probe, t.ev, t.pev)])>>)
ASSUME PrintT(<<"CHECKED", ToJson([n |-> Len(Traces)])>>)
Init == dummy = 0
Next == UNCHANGED dummy
=============================================================================
