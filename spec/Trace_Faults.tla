----------------------------- MODULE Trace_Faults -----------------------------
EXTENDS Faults, Json, IOUtils
VARIABLE dummy
Traces == ndJsonDeserialize(IOEnv.TRACE)   \* [id, kind, k, n, reject, outcome, leak, hits, probe]
ASSUME \A i \in 1..Len(Traces) :
          LET t == Traces[i] IN
          OutcomeAllowed(t.kind, t.k, t.n, t.reject, t.outcome, t.leak, t.hits, t.probe)
          \/ PrintT(<<"BAD", ToJson([id |-> t.id, why |-> Why(t.kind, t.k, t.n, t.reject, t.outcome, t.leak, t.hits, t.probe)])>>)
ASSUME PrintT(<<"CHECKED", ToJson([n |-> Len(Traces)])>>)
Init == dummy = 0
Next == UNCHANGED dummy
=============================================================================
