----------------------------- MODULE Trace_Faults -----------------------------
EXTENDS Faults, Json, IOUtils
VARIABLE dummy
Traces == ndJsonDeserialize(IOEnv.TRACE)   \* [id, kind, k, n, outcome, leak, probe]
ASSUME \A i \in 1..Len(Traces) :
          LET t == Traces[i] IN
          OutcomeAllowed(t.kind, t.k, t.n, t.outcome, t.leak, t.probe)
          \/ PrintT(<<"BAD", ToJson([id |-> t.id, why |-> IF t.outcome \notin {"none", "exception"} THEN t.outcome
                                                         ELSE IF t.leak # 0 THEN "leak"
                                                         ELSE IF t.k < t.n THEN "fault did not reach the caller as an exception"
                                                         ELSE "unreached fault point changed the outcome"])>>)
ASSUME PrintT(<<"CHECKED", ToJson([n |-> Len(Traces)])>>)
Init == dummy = 0
Next == UNCHANGED dummy
=============================================================================
