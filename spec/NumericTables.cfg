INIT Init
NEXT Next
