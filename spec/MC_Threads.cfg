SPECIFICATION Spec
CONSTANTS
  T = 2
  Fuse = FALSE
INVARIANTS InvNoRace InvSequentialEquivalence InvGuardDiscipline InvProgress
