------------------------------- MODULE MC_Csv -------------------------------
(***************************************************************************)
(* Exhaustive check, within the bounds given by the constants, of           *)
(*  (a) the writer machine against RFC 4180: the text it produces, parsed   *)
(*      by the CsvFormat automaton, is the original header and cells;       *)
(*      a row of a different width is refused;                              *)
(*  (b) the reader machines (memory reader, stream reader over chunked      *)
(*      input; by name in every column order, with an absent key, and       *)
(*      positionally with and without header) on EVERY conformant rendering *)
(*      of the table: they deliver exactly the rows; renderings of a table  *)
(*      with one record of a different field count are rejected;            *)
(*  and of the Layer-1 consistency  Parse(r) = table for r in Renderings.   *)
(* The same module generates the scenarios replayed on the real code        *)
(* (Export: one GEN line per complete table / chosen rendering).            *)
(***************************************************************************)
EXTENDS CsvMachines, Json

CONSTANTS
  Seps,          \* subset of Separators
  Classes,       \* cell alphabet (names, see CellOf)
  Shapes,        \* set of shapes, a shape is 10 * columns + rows  (21 = 2 columns, 1 row)
  HeaderKinds,   \* subset of {"plain", "nasty", "prefix", "prefixrev"}
  RenderMode,    \* "all" | "uniform" | "random" (simulation) | "none"
  Chunks,        \* chunk sizes of the modelled CEncodedStreamReader
  Devs,          \* named deviations the modelled tree has ({} = repaired)
  Ragged,        \* BOOLEAN: also explore records of a different field count
  Gen            \* "" | "save" | "load": export scenarios

VARIABLES phase, sep, hk, shape, cells, text, aux

vars == <<phase, sep, hk, shape, cells, text, aux>>

\* ---- the cell alphabet ----
QRun(n) == [i \in 1..n |-> QUOTE]
CellOf(c, s) ==
  CASE c = "empty"    -> <<>>
    [] c = "plain"    -> <<120>>                    \* x
    [] c = "sep"      -> <<120, s, 121>>            \* x<sep>y
    [] c = "quote"    -> <<120, QUOTE, 121>>        \* x"y
    [] c = "dquote"   -> <<QUOTE>>                  \* "
    [] c = "cr"       -> <<120, CR, 121>>
    [] c = "lf"       -> <<120, LF, 121>>
    [] c = "crlf"     -> <<120, CR, LF, 121>>
    [] c = "nonascii" -> <<233>>                    \* e-acute (one character at this level)
    [] c = "astral"   -> <<128512>>
    [] c = "blank"    -> <<32, 120, 32>>            \* leading and trailing blank (contains the separator when it is ' ')
    [] c = "mix"      -> <<QUOTE, s, LF, QUOTE>>
    [] c = "endq"     -> <<120, QUOTE>>
    \* runs of adjacent quotes (4, 6 quote characters inside the quoted field) at the start, middle and end of a value
    [] c = "qq"       -> <<QUOTE, QUOTE>>
    [] c = "qqq"      -> <<QUOTE, QUOTE, QUOTE>>
    [] c = "xqqy"     -> <<120, QUOTE, QUOTE, 121>>
    [] c = "xqqqy"    -> <<120, QUOTE, QUOTE, QUOTE, 121>>
    [] c = "tailqq"   -> <<120, QUOTE, QUOTE>>
    [] c = "headqq"   -> <<QUOTE, QUOTE, 120>>
    \* long runs of quotes around the 8-bit thresholds of a per-field quote counter: a value with n quotes is rendered
    \* with 2n + 2 quote characters (127 -> 256, 128 -> 258, 255 -> 512); run-length form, built in one step
    [] c = "q126"     -> QRun(126)
    [] c = "q127"     -> QRun(127)
    [] c = "q128"     -> QRun(128)
    [] c = "q129"     -> QRun(129)
    [] c = "q254"     -> QRun(254)
    [] c = "q255"     -> QRun(255)
    [] c = "q256"     -> QRun(256)
    [] c = "xq127y"   -> <<120>> \o QRun(127) \o <<121>>
    [] c = "xq128y"   -> <<120>> \o QRun(128) \o <<121>>
    [] c = "xq255y"   -> <<120>> \o QRun(255) \o <<121>>
    [] c = "q100xq27" -> QRun(100) \o <<120>> \o QRun(27)
    [] c = "long"     -> [i \in 1..23 |-> 97 + (i % 26)]

\* "prefix": every name is a proper prefix of the following ones (a, ab, abc, abcd); "prefixrev": the same names, longest first
PrefixNames(n) == [j \in 1..n |-> [k \in 1..j |-> 96 + k]]
HeaderOf(kind, n, s) ==
  CASE kind = "plain"     -> SubSeq(<< <<97>>, <<98>>, <<99>>, <<100>> >>, 1, n)
    [] kind = "prefix"    -> PrefixNames(n)
    [] kind = "prefixrev" -> Reverse(PrefixNames(n))
    [] OTHER              -> SubSeq(<< <<107, s, 49>>, <<113, QUOTE, 120>>, <<110, LF, 108>>, <<117, 233>> >>, 1, n)

NC == shape \div 10
NR == shape % 10
Complete == Len(cells) = NC * NR
Table == [hdr |-> HeaderOf(hk, NC, sep), rows |-> [i \in 1..NR |-> [j \in 1..NC |-> cells[((i - 1) * NC) + j]]]]

Absent == <<122, 122>>
KeyOrders(hdr) ==
  LET perms == SetToSeqs(ToSet(hdr)) IN
  perms \cup {InsertAt(p, IF Len(p) >= 2 THEN 2 ELSE 1, Absent) : p \in {hdr, Reverse(hdr)}}

\* ---- state machine ----
Init ==
  /\ phase = "build" /\ sep \in Seps /\ hk \in HeaderKinds /\ shape \in Shapes
  /\ cells = <<>> /\ text = <<>> /\ aux = ""

AddCell ==
  /\ phase = "build" /\ ~Complete
  /\ \E c \in Classes : cells' = Append(cells, CellOf(c, sep))
  /\ UNCHANGED <<phase, sep, hk, shape, text, aux>>

Write ==
  /\ phase = "build" /\ Complete
  /\ \E kind \in {"string", "stream"} :
        LET r == WSave(kind, sep, TableObjects(Table), Devs) IN
        /\ text' = r.out /\ aux' = r.exc
  /\ phase' = "written"
  /\ UNCHANGED <<sep, hk, shape, cells>>

\* one object writes one value more or less than the first one did
WriteRagged ==
  /\ Ragged /\ phase = "build" /\ Complete /\ NR >= 2
  /\ \E i \in 2..NR, how \in {"drop", "add"} :
        LET objs == TableObjects(Table)
            o    == IF how = "drop" THEN SubSeq(objs[i], 1, NC - 1) ELSE Append(objs[i], << <<122>>, <<122>> >>)
            r    == WSave("string", sep, [objs EXCEPT ![i] = o], Devs)
        IN /\ text' = r.out
           /\ aux' = IF r.exc = "OutOfRange" /\ r.row = i - 1 THEN "refused" ELSE "accepted"
  /\ phase' = "wragged"
  /\ UNCHANGED <<sep, hk, shape, cells>>

RandomRendering(recs, s) ==
  LET forced == ForcedSlots(recs, s)
      q == forced \cup {x \in Slots(recs) \ forced : RandomElement(BOOLEAN)}
      n == Len(recs)
      b == [i \in 1..n |-> IF i = n /\ ~(recs[n] = <<(<<>>)>> /\ <<n, 1>> \notin q) THEN RandomElement(0..2) ELSE RandomElement(1..2)]
  IN RenderWith(recs, s, q, b)

RenderSet(recs, s) ==
  CASE RenderMode = "all"     -> Renderings(recs, s)
    [] RenderMode = "uniform" -> UniformRenderings(recs, s)
    [] RenderMode = "random"  -> {RandomRendering(recs, s)}
    [] OTHER                  -> {}

Render ==
  /\ phase = "build" /\ Complete
  /\ text' \in RenderSet(TableRecs(Table), sep)
  /\ phase' = "rendered"
  /\ UNCHANGED <<sep, hk, shape, cells, aux>>

RaggedRecs(i, how) ==
  LET recs == TableRecs(Table) IN
  [recs EXCEPT ![i + 1] = IF how = "drop" THEN SubSeq(@, 1, NC - 1) ELSE Append(@, <<122>>)]

MakeRagged ==
  /\ Ragged /\ phase = "build" /\ Complete /\ NR >= 1 /\ RenderMode # "none"
  /\ \E i \in 1..NR, how \in {"drop", "add"} :
        /\ how = "drop" => NC >= 2
        /\ text' \in (IF RenderMode = "random" THEN {RandomRendering(RaggedRecs(i, how), sep)}
                      ELSE UniformRenderings(RaggedRecs(i, how), sep))
  /\ phase' = "ragged"
  /\ UNCHANGED <<sep, hk, shape, cells, aux>>

Next == AddCell \/ Write \/ WriteRagged \/ Render \/ MakeRagged

Spec == Init /\ [][Next]_vars

-----------------------------------------------------------------------------
\* (a) writer
WriterCorrect ==
  phase = "written" =>
     /\ aux = ""
     /\ IF NR = 0 THEN text = <<>>                       \* no object, nothing (not even a header) is known
        ELSE Parse(text, sep) = [ok |-> TRUE, recs |-> TableRecs(Table)]

WriterRefusesRagged == phase = "wragged" => aux = "refused" /\ (LET p == Parse(text, sep) IN p.ok /\ RectOK(p.recs))

\* Layer 1: the renderer and the automaton agree
RenderSound == phase = "rendered" => Parse(text, sep) = [ok |-> TRUE, recs |-> TableRecs(Table)]

\* (b) readers
ReaderConfigs == {<<"mem", 0>>} \cup {<<"stream", C>> : C \in Chunks}

RowsByKeys(keys) ==
  LET hdr == Table.hdr
      Col(k) == {j \in 1..NC : hdr[j] = k}
  IN [i \in 1..NR |-> [n \in 1..Len(keys) |->
        IF Col(keys[n]) = {} THEN Cell(FALSE, <<>>) ELSE Cell(TRUE, Table.rows[i][CHOOSE j \in Col(keys[n]) : TRUE])]]

RowsOf(recs) == [i \in 1..Len(recs) |-> [j \in 1..Len(recs[i]) |-> Cell(TRUE, recs[i][j])]]

ReadersCorrect ==
  phase = "rendered" =>
     \A rc \in ReaderConfigs :
        /\ \A keys \in KeyOrders(Table.hdr) :
              LoadByKeys(rc[1], text, sep, rc[2], 0, keys, Devs) = [exc |-> "", rows |-> RowsByKeys(keys)]
        /\ LoadPositional(rc[1], text, TRUE, sep, rc[2], 0, Devs) = [exc |-> "", rows |-> RowsOf(Table.rows)]
        /\ LoadPositional(rc[1], text, FALSE, sep, rc[2], 0, Devs) = [exc |-> "", rows |-> RowsOf(TableRecs(Table))]

RaggedRejected ==
  phase = "ragged" =>
     /\ LET p == Parse(text, sep) IN p.ok /\ ~RectOK(p.recs)
     /\ \A rc \in ReaderConfigs :
           /\ LoadByKeys(rc[1], text, sep, rc[2], 0, Table.hdr, Devs).exc = "ParsingError"
           /\ LoadByKeys(rc[1], text, sep, rc[2], 0, Reverse(Table.hdr), Devs).exc = "ParsingError"
           /\ LoadPositional(rc[1], text, TRUE, sep, rc[2], 0, Devs).exc = "ParsingError"
           /\ LoadPositional(rc[1], text, FALSE, sep, rc[2], 0, Devs).exc = "ParsingError"

-----------------------------------------------------------------------------
\* scenario export for the conformance runs
Export ==
  /\ (Gen = "save" /\ phase = "build" /\ Complete) =>
        PrintT(<<"GEN", ToJson([sep |-> sep, hdr |-> Table.hdr, rows |-> Table.rows])>>)
  /\ (Gen = "load" /\ phase \in {"rendered", "ragged"}) =>
        PrintT(<<"GEN", ToJson([sep |-> sep, text |-> text, hdr |-> Table.hdr, cls |-> phase,
                                orders |-> SetToSeq(KeyOrders(Table.hdr))])>>)
=============================================================================
