SPECIFICATION Spec
CONSTANTS
  Seps = {44, 59, 9, 32, 124}
  Classes = {"empty", "plain", "sep", "quote", "cr", "lf", "crlf", "nonascii", "blank", "mix"}
  Shapes = {10, 11, 21, 12}
  HeaderKinds = {"plain", "nasty"}
  RenderMode = "all"
  Chunks = {3, 5}
  Devs = {}
  Ragged = TRUE
  Gen = ""
INVARIANTS WriterCorrect WriterRefusesRagged RenderSound ReadersCorrect RaggedRejected
